"""Registry of regenerated Lean modules: (path under lean/AvoVerif, gen-lean name)."""
TEXTFLAGS = ("Gen/TextFlags", "TextFlags")
TEXTFLAGH = ("Oracle/TextFlagH", "TextFlagH")
REGS = ("Gen/Regs", "Regs")
REGHW = ("Oracle/RegHW", "RegHW")   # C20: measured (go tool asm + decoders + execution on the host CPU)
REGVARS = ("Gen/RegVars", "RegVars")  # C20: exported register variables of package reg (go/types enumeration + generated observer)

# C06 / C08: x86/zoptab.go (16 shards + meta + appender), zctors.go + zinstructions.go (8 shards + appender), zmov.go
FORM_SHARDS = 16
CTOR_SHARDS = 8
FORMSMETA = ("Gen/FormsMeta", "FormsMeta")
def forms_modules():
    """FormsMeta, the 16 row shards and the small module that appends them."""
    return [FORMSMETA] + [(f"Gen/Forms_{i:02d}", f"Forms_{i:02d}") for i in range(FORM_SHARDS)] + [("Gen/Forms", "Forms")]
def ctors_modules():
    return [(f"Gen/Ctors_{i:02d}", f"Ctors_{i:02d}") for i in range(CTOR_SHARDS)] + [("Gen/Ctors", "Ctors")]
MOV = ("Gen/Mov", "Mov")
# C14: tag characters / white space of the installed toolchain
TAGCHARS = ("Oracle/TagChars", "TagChars")
# C13: constant types of operand/zconst.go + const.go (format verbs, Bytes)
CONSTS = ("Gen/Consts", "Consts")
# C05: the text of the integer constant types, tabulated by running the real Asm() methods
C05CONSTSAMPLES = ("Gen/C05ConstSamples", "C05ConstSamples")
MAPRANGES = ("Gen/MapRanges", "MapRanges")
# C17: census of process-level mutable state (go/ssa: writes to / escapes of memory reachable from package-level variables)
GLOBALS = ("Gen/Globals", "Globals")
PASSFACTS = ("Gen/PassFacts", "PassFacts")
# C15: measured (go build + execution through an assembly trampoline): does the assembler save/restore BP
ASMBP = ("Oracle/AsmBP", "AsmBP")
BRANCHOPS = ("Gen/BranchOps", "BranchOps")
# C10: what the real PruneSelfMoves deletes over every two-register shape of the form table (measured on the pass), and
# which byte lanes a register self-move changes on the host CPU (go tool asm + execution)
SELFMOVEFACTS = ("Gen/SelfMoveFacts", "SelfMoveFacts")
MOVEHW = ("Oracle/MoveHW", "MoveHW")

# C04: the compiled form table (x86.VerifForms) as compact rows for the structural facts (8 shards + meta + appender)
FORMACTION_SHARDS = 8
def formactions_modules():
    return ([("Gen/FormActionsMeta", "FormActionsMeta")] +
            [(f"Gen/FormActions_{i:02d}", f"FormActions_{i:02d}") for i in range(FORMACTION_SHARDS)] +
            [("Gen/FormActions", "FormActions")])

ALL_MODULES = [BRANCHOPS, PASSFACTS, MAPRANGES, GLOBALS, TEXTFLAGS, TEXTFLAGH, REGS, REGHW, REGVARS] + forms_modules() + ctors_modules() + [MOV, TAGCHARS, CONSTS, C05CONSTSAMPLES, ASMBP] + formactions_modules() + [SELFMOVEFACTS, MOVEHW]
