"""Registry of regenerated Lean modules: (path under lean/AvoVerif, gen-lean name)."""
TEXTFLAGS = ("Gen/TextFlags", "TextFlags")
TEXTFLAGH = ("Oracle/TextFlagH", "TextFlagH")
REGS = ("Gen/Regs", "Regs")

ALL_MODULES = [TEXTFLAGS, TEXTFLAGH, REGS]
