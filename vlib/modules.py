"""Registry of regenerated Lean modules: (path under lean/AvoVerif, gen-lean name)."""
TEXTFLAGS = ("Gen/TextFlags", "TextFlags")
TEXTFLAGH = ("Oracle/TextFlagH", "TextFlagH")

ALL_MODULES = [TEXTFLAGS, TEXTFLAGH]
