"""C11 — printed assembly is a faithful, assemblable rendering of the function."""
from vlib import modules

MODS = ["AvoVerif.Props.C11", "AvoVerif.Props.C11Text", "AvoVerif.Props.C11Tables", "AvoVerif.Props.C11Examples",
        "AvoVerif.Props.C11Accept", "AvoVerif.Props.C11Bind", "AvoVerif.Props.C11Hist", "AvoVerif.Props.C11Cover"]

# kinds of in-place change of the history stream (harness/c11hist.go); every one must be followed by a re-print of a
# file that had been printed before the change
HIST_KINDS = ["opcode", "suffix_same_len", "suffix_same_len_inplace", "suffix_other_len", "suffix_truncated",
              "operands_inplace", "operands_same_len", "operands_other_len", "flags", "label_rename", "comment_lines",
              "node_insert", "node_remove", "node_replace", "nodes_all", "fn_name", "fn_attrs", "fn_signature",
              "fn_localsize", "fn_isa", "fn_doc_pragmas", "includes", "constraints", "sec_insert", "sec_remove",
              "sec_replace", "data"]


def cover_dims():
    """Every value of every dimension of the covering stream (harness/c11cov.go), listed HERE independently of the
    generator: each must have been assembled and read back in every run."""
    d = []
    d += [f"attr_fn_only={b}" for b in range(16)]
    d += [f"attr_gl_only={b}" for b in range(16)]
    d += [f"attr_fn_pair={i}_{j}" for i in range(16) for j in range(i + 1, 16)]
    gl = [1, 2, 3, 4, 7, 8, 12]
    d += [f"attr_gl_pair={i}_{j}" for x, i in enumerate(gl) for j in gl[x + 1:]]
    d += [f"attr_pos={p}_{k}" for p in ("first", "middle", "last") for k in ("fn", "gl")]
    d += [f"attr_include={x}" for x in ("textflag", "other", "both")]
    d += [f"attr_include_bit={b}" for b in (2, 11, 12)]
    d += [f"data={c}" for c in (
        "f64_pow10", "f64_one_digit", "f64_two_digits", "f64_boundaries", "f64_integral", "f64_17_digits", "f64_random",
        "f32_pow10", "f32_one_digit", "f32_boundaries", "f32_integral", "f32_9_digits", "f32_random",
        "int_i8", "int_u8", "int_i16", "int_u16", "int_i32", "int_u32", "int_i64", "int_u64",
        "str_every_byte_alone", "str_all_bytes", "str_escapes", "str_long", "mixed", "public", "no_data")]
    d += [f"text={c}" for c in (
        "long_opcodes", "many_isa", "suffix_lists", "labels", "many_sections",
        "frame_0", "frame_8", "frame_16", "frame_24", "frame_4096", "frame_65528", "frame_1048576", "frame_16777216", "frame_1073741824",
        "args_0", "args_1", "args_result_only", "args_padded", "args_big_array", "args_huge_array", "args_many")]
    d += [f"suffix={x}" for x in ("Z", "BCST", "BCST.Z", "SAE", "SAE.Z", "RN_SAE", "RZ_SAE", "RU_SAE", "RD_SAE",
                                  "RN_SAE.Z", "RZ_SAE.Z", "RU_SAE.Z", "RD_SAE.Z")]
    return d


def floors(ctx, sub, n, spec):
    """Lower bounds on what a stream actually judged (and upper bounds on what it dropped): a change that makes
    a whole class of files fail to build, compile, print or assemble shrinks the sample silently otherwise."""
    st = ctx.coverage.get("input_distribution", {}).get(sub)
    if st is None:
        return  # the stream did not run: already an obligation failure
    bad = []
    for key, (lo, hi) in spec.items():
        v = st.get(key, 0)
        lo = lo(n) if callable(lo) else lo
        hi = hi(n) if callable(hi) else hi
        if lo is not None and v < lo:
            bad.append(f"{key}={v} < {lo}")
        if hi is not None and v > hi:
            bad.append(f"{key}={v} > {hi}")
    ctx.obligations += 1
    if bad:
        ctx.obligation_failures.append((f"{sub}: sample floor", "; ".join(bad)))
    else:
        ctx.discharged += 1


def run(ctx):
    # isolation: only the shared core plus C11's own Go files are compiled into .work/bin/avoh-C11
    if not ctx.build_harness(["c11.go", "c11enc.go", "c11hist.go", "c11cov.go"]):
        return
    ctx.regen([modules.TEXTFLAGS, modules.TEXTFLAGH])
    ctx.forbidden_scan()
    # the driver (model, lexer/parser acceptor) must build even when a theorem breaks
    if not ctx.build_driver():
        return
    if ctx.lake_each(MODS):
        ctx.audit("C11")
    if ctx.tier == "thorough":
        ctx.leanchecker(MODS)
    quick = ctx.tier == "quick"
    # (b) tie: byte equality of the model's rendering with printer.NewGoAsm(cfg).Print(file) on
    # generated files, the well-formedness mirror, and the read-back acceptor on the real text
    n1 = 1500 if quick else 40000
    # corpus first (corpus/C11/*.txt: generator-level cases regenerated from their own seeds)
    if not ctx.replay:
        ctx.run_corpus("c11")
        ctx.run_corpus("c11asm", max_report=1000)
        ctx.run_corpus("c11hist")
    ctx.differential("c11", n1,
                     nontrivial=lambda req, resp: " i " in req and (" l " in req or " c " in req))
    if not ctx.replay:
        floors(ctx, "c11", n1, {
            "encode_error": (None, 0),
            "print_ok": (lambda n: n, None),            # every generated file is printed (errors/panics are answers, not drops)
            "wellformed": (lambda n: n * 6 // 10, None),
            "malformed": (lambda n: n // 20, None),
            "functions": (lambda n: n, None),
            "globals": (lambda n: n // 4, None),
            "blocks_over_64": (lambda n: n // 40, None),
            "files_over_4_sections": (lambda n: n // 40, None),
        })
    # (c) histories: the same objects inspected, printed, changed in place and printed again (Model/PrintHist)
    n3 = 500 if quick else 8000
    ctx.differential("c11hist", n3, nontrivial=lambda req, resp: " E " in req and " P " in req)
    if not ctx.replay:
        spec = {
            "hist_encode_error": (None, 0),
            "hist_print_error": (None, 0),
            "hist_print_panic": (None, 0),
            "hist_fixed_not_applicable": (None, 0),
            "hist_requests": (lambda n: n, None),
            "hist_prints": (lambda n: 3 * n, None),
            "hist_prints_wellformed": (lambda n: 2 * n, None),
            "hist_prints_with_suffix_instrs": (lambda n: 2 * n, None),
            "hist_inspects": (lambda n: n, None),
            "hist_edits": (lambda n: 3 * n, None),
            "hist_files_hand": (lambda n: n // 2, None),
            "hist_files_ctx": (lambda n: n // 8, None),
            "hist_malformed": (lambda n: n // 20, None),
            "hist_reprint_changed": (lambda n: n, None),
            "hist_reprint_changed_interleaved": (lambda n: n // 200, None),
            "hist_reprint_unchanged": (lambda n: n // 2, None),
            "hist_inspected_then_changed": (lambda n: n // 10, None),
            "hist_unseen_then_changed": (lambda n: n // 20, None),
            "hist_realloc_printed": (lambda n: n // 25, None),
            "hist_drops": (lambda n: n // 25, None),
            "hist_via_instructions": (lambda n: n // 8, None),
            # the class of the missed change C11-7: the only look at the instruction was an accessor call
            "inspected_then_suffix_same_len": (lambda n: n // 100, None),
        }
        for k in HIST_KINDS:
            spec["reprint_" + k] = ((lambda n: n // 200) if k == "suffix_truncated" else (lambda n: n // 40), None)
        floors(ctx, "c11hist", n3, spec)
    # (d) measured, covering: every value of every dimension of what a file can contain (attributes alone / in pairs /
    # per position / with user includes; every constant type over its whole range; rare printer shapes) through
    # pass.Compile, the printer and `go tool asm -S`, data symbols read back byte by byte
    ctx.differential("c11cov", 0, extra=["-work", ctx.dir], max_report=1000,
                     nontrivial=lambda req, resp: req.startswith(("accept-objdata", "accept-asm")))
    if not ctx.replay:
        spec = {k: (None, 0) for k in ("cov_build_error", "cov_compile_error", "cov_ctor_error", "cov_labeltarget_error",
                                       "cov_print_error", "cov_print_panic", "cov_rejected")}
        spec.update({"cov_cases": (243, None), "cov_accepted": (243, None), "cov_data_symbols": (90, None),
                     "cov_data_constants": (4000, None), "cov_data_bytes": (30000, None),
                     "float_literals": (3000, None), "cov_scans": (5000, None)})
        for d in cover_dims():
            spec["cov_" + d] = (1, None)
        floors(ctx, "c11cov", 0, spec)
    # measured: compiled programs through `go tool asm -S` and binutils objdump
    n2 = 300 if quick else 10000
    ctx.differential("c11asm", n2, extra=["-work", ctx.dir], max_report=1000,
                     nontrivial=lambda req, resp: req.startswith("accept-asm") and " i " in req)
    if not ctx.replay:
        floors(ctx, "c11asm", n2, {
            "build_error": (None, 0),
            "compile_error": (None, 0),
            "labeltarget_error": (None, 0),
            "print_dropped": (None, 0),
            "branch_ctor_error": (None, 0),
            "compiled": (lambda n: n, None),
            "asm_accepted": (lambda n: n * 7 // 10, None),
            "asm_functions": (lambda n: n, None),
            "asm_branches": (lambda n: n, None),
            "asm_machine_jumps": (lambda n: n, None),
            "asm_blocks_over_64": (lambda n: n // 40, None),
            "asm_globals": (lambda n: n // 8, None),
            "asm_hazard_files": (50, None),
            "asm_short_branch_files": (1, None),
            "branch_opcodes_in_table": (40, None),
        })
        st = ctx.coverage.get("input_distribution", {}).get("c11asm") or {}
        ctx.obligations += 1
        if st.get("branch_opcodes_used", 0) != st.get("branch_opcodes_in_table", -1):
            ctx.obligation_failures.append(("c11asm: every branch opcode of the table assembled",
                                            f"{st.get('branch_opcodes_used')} of {st.get('branch_opcodes_in_table')}"))
        else:
            ctx.discharged += 1
    ctx.coverage["proof_partial"] = (
        "proved for all files (Lean): the model of goasm.go prints every instruction once and in order, keeps every label in "
        "front of the same instruction, one TEXT line per function with attribute clause/frame/args, and the printed bytes read "
        "back as the file (print_faithful, under the token hypotheses WFFile); the acceptors are sound w.r.t. their declarative "
        "statements (acceptPrint_sound, acceptAsmFn_sound, acceptAsm_sound, acceptHist_sound, acceptGl_sound, acceptObjDataE_sound); the plain decimal text of a float with `.0` appended when it "
        "has no point is ONE float token of the (modelled) assembler scanner followed by `)` (withPoint_float; scan_point, scan_point_exp, scan_exp); over call histories (Model/PrintHist: "
        "heap of files; new / drop / edit in place / inspect / print) the text of EVERY print is the rendering of the content the file "
        "has at that moment and reads back as that content (hist_print_current, hist_print_faithful, hist_C11_partial), inspections and "
        "prints change nothing (inspections_irrelevant, heapAfter_frame), an edit shows in the next print (reprint_after_edit, "
        "edit_suffixes_printed), a new file carries nothing over (fresh_file_printed); labelsFrom (the binding used by all statements) is the LabelTarget of Model/Func (labelsFrom_is_labelTarget). MEASURED on generated samples only: that "
        "`go tool asm` accepts the text, object-symbol flags/sizes and that encoded branches land on the bound instruction")
    ctx.coverage["rule"] = (
        "c11: generated ir.Files (functions x data sections x constraints x includes; node lists with any interleaving of "
        "labels/comments/instructions built by real x86 constructors or by hand, empty functions, trailing labels/comments, "
        "blocks of 65..400 buffered instructions, up to 14 sections per file, every operand kind and constant type; every 5th file with malformed tokens): "
        "`print` = exact bytes of the model vs printer.NewGoAsm (the byte format is pinned by avo's own golden tests; the "
        "property itself is judged by the acceptors); `wf` = the hypotheses of print_faithful evaluated in Lean vs the harness; "
        "`accept-print` = the implementation's text split/lexed/parsed back to sections, instructions and label bindings. "
        "c11hist: call histories in ONE process over up to 3 live files (hand-built files and build.Context programs compiled by "
        "pass.Compile, with AVX-512 suffix instructions): the same *ir.File/*ir.Function/*ir.Instruction objects are inspected through "
        "public accessors (OpcodeWithSuffixes, Instructions, Labels, Stub, FrameBytes, ArgumentBytes, Signature.String, Attributes.Asm, "
        "operand Asm, TargetLabel, the stub printer, pass.LabelTarget), printed, CHANGED IN PLACE (27 kinds: opcode; suffix list of the same "
        "length replaced / assigned element-wise, of another length, truncated; operands; flags; label renamed with its references; comment "
        "lines; node inserted / removed / replaced; whole node list; name; attributes; signature; local size; ISA; doc/pragmas; includes; "
        "constraints; section inserted / removed / replaced; data section fields) and printed again by new printer objects, files "
        "alternating, dropped and allocated again; what the model is told about a change never comes from the changed objects (derived "
        "values from FRESH objects). `hist` = exact bytes of every print vs the model's rendering of the state reached by the same "
        "operations; `accept-hist` = every print's real text read back against the content of that moment. Floors per kind of change x "
        "(printed before | only inspected before | never seen before). "
        "c11cov: a COVERING set of file contents, every value of every dimension alone in a program built through build.Context, "
        "compiled by pass.Compile, printed, assembled by `go tool asm -S` and read back (246 dimension values listed in "
        "vlib/props/c11.py cover_dims, each one a floor of every run): every single attribute bit on a lone function / on a data "
        "section next to an attribute-free function, every pair of bits on a function, pairs of the data-relevant bits on a data section, "
        "the only flagged section first / middle / last, the user's own includes; data sections with every constant type over its "
        "whole range (F64/F32: all powers of ten both signs, one- and two-digit mantissas, boundaries incl. subnormals, -0, "
        "1e-6/1e21 neighbours, integral values, 17/9-digit values, random bit patterns; I8..U64 extremes; strings with every byte "
        "value alone and together, escapes, 4 KB), non-static symbols, gaps, BSS; long suffixed opcodes next to short ones, every "
        "suffix list the constructors accept, label runs, 40 functions + 10 data sections in one file, frames up to 2^30, "
        "argument sizes up to 1 GiB. Requests: those of c11asm per file (tag cover=…) plus `accept-objdata` (every byte of every "
        "constant THE GENERATOR chose — math.Float64bits etc., independent of avo's text — at its offset in the object symbol, zero "
        "gaps, size, kind RODATA/NOPTR/TLSBSS/BSS, DUPOK, static), `accept-floatlit` (every float DATA value of every printed file of "
        "c11/c11asm/c11cov is one float token of the assembler's scanner between `$(` and `)`: Model/AsmLit) and `scan-number` "
        "(exact: Model/AsmLit scanNumber vs Go's text/scanner on ~14 000 literals and neighbours). "
        "c11asm: programs built through build.Context (function/data/label names from pools incl. register-like and "
        "macro-like symbol names, every J* opcode of the compiled table that takes a label — rel8-only ones in a short shape —, "
        "runs of 65..200 instructions, 15 attribute sets + random 16-bit attribute words, data sections referenced from code), "
        "compiled by pass.Compile, printed, assembled by `go tool asm -S` (`accept-assembles`; a rejected multi-function file is "
        "re-judged function by function, and a rejection is a known finding only when EVERY assembler message is explained by "
        "the hazardous label of a dedicated hazard file), instruction boundaries confirmed by binutils (`accept-decode`), and "
        "`accept-asm`: per symbol name, argument size, frame (exact, incl. NOFRAME), DUPOK/TOPFRAME/WRAPPER flags (both "
        "directions), NOSPLIT (one direction), frame/args against what the GENERATOR asked for (sum of AllocLocal sizes; "
        "go/types ABI0 layout of the signature), instruction order, decoded branch targets vs the label binding, and no "
        "relative machine jump outside the listed branches. non-trivial = file has an instruction and a label or comment "
        "(c11) / an assembled function (c11asm). Sample floors are obligations.")
    ctx.assumptions += [
        "token hypotheses of print_faithful (WFFile): no newline in names, comments, operands, labels; names without '('; "
        "opcodes without space and not starting with '/'; labels not starting with a reserved line prefix; constraint lines are // comments. "
        "WFFile is about avo's OWN reading of the text (lexLine/parseFile), not the assembler's: label names that the assembler reads "
        "differently (register names, macros, non-identifiers) satisfy WFFile — they are covered by the measured part (findings C11-label-*)",
        "text level: a reader sees the opcode-with-suffixes token and the operand text as ONE string each: `Instr.key` conflates operand "
        "lists whose texts join to the same string (\"a, b\" vs \"a\",\"b\") and opcode `X`+suffix `Z` with opcode `X.Z`; ows_inj/"
        "flush_complete state the exact (structured) version",
        "the Go assembler's -S listing gives the instruction boundaries and source lines of the object code (cross-checked against "
        "binutils objdump on the raw bytes); assembler-inserted prologue/epilogue instructions carry the TEXT line or the RET's line "
        "(jumps inside a terminal instruction's code are therefore not checked against the branch list)",
        "the assembler threads jumps through unconditional JMPs; a branch may land on any instruction of the JMP chain starting at its label",
        "acceptance by `go tool asm` and label resolution are measured on the generated sample only (go1.23 amd64 on this host)",
        "frames are < 2^31 and non-negative in c11asm; the object's frame is frame+8 (saved BP) unless NOFRAME or frame 0",
        "NEEDCTXT, NOPROF, REFLECTMETHOD, TLSBSS, RODATA, NOPTR and unnamed bits on TEXT have no effect visible in the -S listing: for them "
        "only the TEXT line's clause is checked (evaluated with the installed textflag.h, C19); GLOBL flags of data sections are "
        "checked as text only (symbol kind/bytes: C13)",
        "invalid UTF-8 in names/operands and the sticky prnt.Generator error path are not generated (the model's Txt cannot represent "
        "invalid UTF-8); printf verbs in the constraint block cannot reach goasm.header's Printf because buildtags.Format rejects them",
    ]
    ctx.assumptions += [
        "float DATA values: Inf/NaN are not generated (C13 scopes them out as well); Model/AsmLit models decimal number tokens only "
        "(no 0x, no `_`, no leading point): a literal outside that fragment is not judged by accept-floatlit (the assembler run still judges it)",
        "the mapping of GLOBL flags to object symbol kinds (RODATA, else NOPTR, else TLSBSS; BSS without DATA lines) is transcribed from "
        "cmd/internal/obj (Link.Globl) into Drv/C11 expectKind and confirmed on the unchanged tree by every run",
        "histories: one printer object prints one file (reusing a printer object appends to its buffer: not a use the property speaks about); "
        "changes that go through passes (re-running pass.Compile parts after an edit) are not generated; a history is single-threaded",
    ]
    ctx.trusted += [
        "go tool asm, binutils objdump (x86-64 decoder) as ground truth for the measured part",
        "operand texts (Op.Asm()), the stub/signature text and buildtags.Format output are opaque tokens taken from the real code: a wrong "
        "operand text (e.g. Mem.Asm dropping a scale) is invisible to C11 as long as it assembles — operand rendering vs encoding is C05's "
        "property; C11 checks only that the printer passes Op.Asm() through unchanged and in order",
        "Gen.attrname is obtained by calling attr.Attribute(1<<i).Asm() on the compiled package (no source parsing)",
        "Oracle.textflagH is parsed from $(go env GOROOT)/pkg/include/textflag.h on every run",
        "c11cov: the expected bytes of a constant are computed by the harness from the Go value it chose (encoding/binary, "
        "math.Float32bits/Float64bits); the `-S` listing of go tool asm as the content of data symbols; Go's text/scanner with the "
        "mode bits of cmd/asm/internal/lex as the assembler's scanner",
        "c11hist: the harness' own mirror of each in-place change as a model edit (harness/c11hist.go mut*: glue; a wrong mirror shows as a "
        "mismatch on the unchanged tree, never hides one), and the derived values of a change taken from fresh avo objects "
        "(ir.NewFunction + SetSignature for Stub/FrameBytes/ArgumentBytes, a fresh ir.Instruction for IsUnconditionalBranch)",
        "the hand-tagged hazard classes of label names (harness/c11.go p11HazardLabels) and the classification of assembler messages "
        "(p11ClassifyReject): glue; a message that is not explained is reported as a violation, never suppressed",
    ]
