"""C11 — printed assembly is a faithful, assemblable rendering of the function."""
from vlib import modules

MODS = ["AvoVerif.Props.C11", "AvoVerif.Props.C11Text", "AvoVerif.Props.C11Tables", "AvoVerif.Props.C11Examples"]


def run(ctx):
    if not ctx.build_harness():
        return
    ctx.regen([modules.TEXTFLAGS, modules.TEXTFLAGH])
    ctx.forbidden_scan()
    # the driver (model, lexer/parser acceptor) must build even when a theorem breaks
    if not ctx.build_driver():
        return
    if ctx.lake_each(MODS):
        ctx.audit("C11")
    if ctx.tier == "thorough":
        ctx.leanchecker(MODS)
    quick = ctx.tier == "quick"
    # (b) tie: byte equality of the model's rendering with printer.NewGoAsm(cfg).Print(file) on
    # generated files, the well-formedness mirror, and the read-back acceptor on the real text
    ctx.differential("c11", 1500 if quick else 40000,
                     nontrivial=lambda req, resp: " i " in req and (" l " in req or " c " in req))
    # measured: compiled programs through `go tool asm -S` and binutils objdump
    ctx.differential("c11asm", 300 if quick else 10000, extra=["-work", ctx.dir], max_report=1000,
                     nontrivial=lambda req, resp: req.startswith("accept-asm") and " i " in req)
    ctx.coverage["rule"] = (
        "generated ir.Files (functions x data sections x constraints x includes; node lists with any interleaving of "
        "labels/comments/instructions built by real x86 constructors or by hand, empty functions, trailing labels/comments, "
        "every operand kind and constant type; every 5th file with malformed tokens): `print` = exact bytes of the model vs "
        "printer.NewGoAsm; `wf` = the hypotheses of print_faithful evaluated in Lean vs the harness; `accept-print` = the "
        "implementation's text split/lexed/parsed back to sections, instructions and label bindings; c11asm: programs "
        "compiled by pass.Compile, assembled by `go tool asm -S` (`accept-assembles`), instruction boundaries confirmed "
        "by binutils (`accept-decode`), per-symbol instruction order and decoded branch targets vs the label binding "
        "(`accept-asm`). non-trivial = file has an instruction and a label or comment (c11) / an assembled function (c11asm)")
    ctx.assumptions += [
        "token hypotheses of print_faithful (WFFile): no newline in names, comments, operands, labels; names without '('; "
        "opcodes without space and not starting with '/'; labels not starting with a reserved line prefix; constraint lines are // comments",
        "the Go assembler's -S listing gives the instruction boundaries and source lines of the object code (cross-checked against "
        "binutils objdump on the raw bytes); assembler-inserted prologue/epilogue instructions carry the TEXT line or the RET's line",
        "the assembler threads jumps through unconditional JMPs; a branch may land on any instruction of the JMP chain starting at its label",
        "acceptance by `go tool asm` and label resolution are measured on the generated sample only",
    ]
    ctx.trusted += [
        "go tool asm, binutils objdump (x86-64 decoder) as ground truth for the measured part",
        "operand texts (Op.Asm()), the stub/signature text and buildtags.Format output are opaque tokens taken from the real code",
        "Oracle.textflagH is parsed from $(go env GOROOT)/pkg/include/textflag.h on every run",
    ]
