"""C05 — an accepted instruction assembles to exactly the operation and operands given.

Proof-partial: the avo side (operand text rendering is invertible, immediates keep their value under
the guard ImmFits, build picks the first matching form and keeps the operands) is proved in Lean for
all values; the Go assembler's behaviour is a MEASURED oracle, re-measured on every run."""
import collections, os, re, subprocess

from ..modules import REGS, C05CONSTSAMPLES
from .. import core

GO_FILES = ["c05.go", "c05gen.go", "c05derive.go", "c05asm.go", "c05emit.go", "c05intel.go", "c05gen_constsamples.go"]
PROPS = ["AvoVerif.Props.C05", "AvoVerif.Props.C05Tables", "AvoVerif.Props.C05Build", "AvoVerif.Props.C05Judge", "AvoVerif.Props.C05Line",
         "AvoVerif.Props.C06Classes", "AvoVerif.Props.C05Class"]


def run(ctx):
    ctx.level = "proof"   # the evidence schema knows "proof" only; the partiality is stated in coverage["proof_partial"]
    ctx.coverage["proof_partial"] = (
        "PROOF-PARTIAL (DESIGN §4 C05). Proved in Lean for all inputs: (1) operand text rendering is invertible on well-formed "
        "operands (parseOp_asm, line_roundtrip); (2) under the guards ImmFits and ImmRepresentable the printed constant is read "
        "back as the constant given (asmImm_preserves); (3) build returns the first matching form with the operands kept; "
        "(4) the acceptor applied to the decoded machine instruction is sound for its declarative statement (judgeO_sound: "
        "mnemonic admitted, every operand aligned with a decoded argument that denotes the same hardware register / the same "
        "base, index, scale, displacement, access width / the same constant at the operation's width). NOT proved, MEASURED on "
        "sampled instances on every run: that the Go assembler turns the printed text into that machine instruction (the "
        "assembler and the two decoders are oracles), and that the form table lists the right widths — no theorem quantifies over "
        "avo's 12 025 forms for the clauses `accepted by the assembler`, `named operation`, `same registers`, `access width`.")
    if not ctx.build_harness(GO_FILES):
        return
    ctx.regen([REGS, C05CONSTSAMPLES])
    ctx.forbidden_scan()
    # the driver (renderer, parser, asmImm, judge) must build even when a table theorem breaks
    if not ctx.build_driver():
        return
    if ctx.lake_each(PROPS):
        ctx.audit("C05")
    if ctx.tier == "thorough":
        ctx.leanchecker(PROPS)

    nontrivial = lambda req, resp: req.startswith("accept-asm") or req.startswith("asm-text m:") or req.startswith("asm-text i:") \
        or req.startswith("accept-class") or req.startswith("opclass")
    tags = []
    if ctx.replay:
        ctx.differential("c05", 0, nontrivial=nontrivial, max_report=10 ** 6)
        tags.append("c05")
    else:
        ctx.run_corpus("c05", nontrivial=nontrivial, max_report=10 ** 6)
        tags.append("c05-corpus")
        if ctx.tier == "quick":
            ctx.differential("c05", 2000, nontrivial=nontrivial, max_report=10 ** 6, timeout=1500)
            tags.append("c05")
        else:
            ctx.differential("c05", 0, extra=["-reps", "12"], nontrivial=nontrivial, max_report=10 ** 6, timeout=3000)
            base = ctx.seed
            ctx.seed = base * 1000003 + 1
            ctx.differential("c05", 0, extra=["-reps", "8"], tag="-s2", nontrivial=nontrivial, max_report=10 ** 6, timeout=3000)
            ctx.seed = base
            tags += ["c05", "c05-s2"]
    verdicts = _summarise(ctx, tags)
    if not ctx.replay:
        _floors(ctx, verdicts)

    ctx.coverage["rule"] = (
        "quick: EVERY row of the compiled form table once (12 025) + 2000 further instances spread over the opcodes + per operand "
        "type 16-48 well-typed instances and 10 near misses aimed at that operand + per operand type x3 (thorough x12) the whole catalogue "
        "of one-attribute changes of a member of the class (harness/c05derive.go: memory operands with base absent / 32- / 16- / 8-bit / "
        "vector / opmask / pseudo, index absent / general purpose / vector of each width / opmask / pseudo / SP, scale 0 or 3, symbol "
        "toggled, displacement beyond 32 bits, a register or constant instead; registers of every other width and kind, the other views "
        "and same-width neighbours of the fixed registers; constants of every other type, the first value outside the range, a relative "
        "offset or register instead; branch targets just outside the 8-bit range, a label, operands of another shape): each member and "
        "each changed operand is put to the real class predicate (`opclass`, EXACT against Model/Instr.OpClass.holds, characterised "
        "declaratively by holds_iff_spec) and — unless the kind stays inside the class by design and has its own stream malformed:*/shape:* "
        "— to the constructor; what the constructor accepts is assembled and judged like any other instruction; thorough: every form x 12 + every form x 8 under "
        "a second seed + per-type floors x 4. Each row is exercised through the constructor whose form range contains it "
        "(x86.VerifOpcodeForms), whatever opcode the row names. Operands boundary-biased (immediates 0, 1, 2^(n-1)-1, 2^(n-1), 2^n-1, "
        "-1, -2^(n-1) in signed and unsigned constant types; every physical register of each class incl. SP/BP/R12/R13 as base, "
        "R8-R15, AH..BH, X16-X31 for EVEX forms, K0-K7; displacements 0, +-small, 8-bit and 32-bit limits; scale 1/2/4/8; with/without "
        "index; sym+off(FP)/(SP)/(SB)); built through x86.VerifBuild (= build(opcode.Forms(), suffixes, operands), the body of every "
        "generated constructor), printed by printer.NewGoAsm (one TEXT symbol per instruction; a quarter of them with a second, longer "
        "opcode in the block so that the printer's opcode padding is exercised), assembled by `go tool asm`, machine code read back "
        "with `go tool objdump`, decoded by binutils objdump (Intel syntax, all extensions incl. EVEX) with x86asm as a second reader "
        "for legacy encodings. Requests: asm-text (model renderer == Asm(), exact, for registers / memory references / labels / "
        "relative offsets), accept-parse / accept-line (Lean's independent parser reads the implementation's text back as the operand "
        "given; constants: any spelling that the assembler reads as the same integer; the line: opcode.suffixes, blanks, operands "
        "separated by commas outside parentheses), accept-asm (Lean's judge, sound for `Agrees` by judgeO_sound: assembler accepted; "
        "mnemonic is the named operation; every register is the same hardware register and width; base, index, scale, displacement, "
        "relocation target and access width equal; immediate as extended by the CPU equals the constant), accept-class (every operand "
        "of every accepted instruction is a member, by the Lean model of the class predicates, of the class the matched form names at "
        "its position: classErr_sound; a vm* position holds a full VSIB reference: class_vm_operand). Side streams: near-miss "
        "operands incl. a valid call followed by a same-width neighbour of a fixed register (constructor must reject, or the "
        "instruction is judged like any other), malformed memory references, accepted operand shapes whose text the assembler reads "
        "differently (labels/parameters named like registers, FP/SB without symbol, symbol on a hardware base, non-identifier symbol "
        "names), X16-X31 in non-EVEX forms, K0 as write mask. Known findings suppress a failing line only when BOTH the request "
        "regex and the verdict regex (the failure class answered by the model) match. Lower bounds on the number of judged cases per "
        "class (coverage[\"floors\"]) are obligations.")
    ctx.assumptions += [
        "the Go assembler and the decoders are the oracle: `go tool asm`/`go tool objdump` of GOROOT, binutils objdump, x/arch x86asm; "
        "the assembler's encoder is exercised only on the sampled instances (modelled-not-verified beyond them): no theorem quantifies "
        "over avo's forms for `accepted`, `named operation`, `same registers`, `access width`, `4-byte never 8-byte`",
        "asmImm (how the assembler + CPU read an immediate in context), immCtxOf (which context a form's immediate stands in), hwReg "
        "(Intel register names -> class/number/width) are MODELS, validated on every run against the decoded bytes (a disagreement is "
        "reported as bad-asm-model / bad-imm / bad-reg)",
        "operand order: Intel order is the reverse of the Go order except CMPx (same order) and CMPPS/CMPPD/CMPSS/CMPSD (imm last); "
        "XCHG/TEST are treated as symmetric (either order accepted)",
        "mnemonic normalisation Go opcode -> decoder mnemonic is by rule (lower case, ONE size suffix B/W/L/Q or X/Y/Z may be dropped "
        "— so a decoded name equal to the opcode minus its last letter is accepted —, condition codes by number) plus the reviewed "
        "table Model/AsmJudge.lean `mnemTable`",
        "judge leniencies (all in Model/AsmJudge.lean): (a) zeroExtEquiv: a 64-bit destination decoded as its 32-bit view is accepted "
        "for `mov r32, imm<2^32`, MOVLQZX and crc32; (b) matchSeq/looksImplicit: decoded arguments without a Go operand are skipped "
        "when they look implicit (al/ax/eax/rax/cl/dx/ecx/edx/rcx/rdx/xmm0/st, [rsi]/[rdi]/[rbx] string operands, the constant 1); "
        "(c) the segment field of a memory argument is not compared; (d) XCHGQ AX, AX decoded as rex.W nop is accepted; (e) FP "
        "references are judged as rsp+disp+8 (frame size 0, NOSPLIT); (f) the access width is compared only where the operand "
        "type names one (m8..m512): not for `m` (LEA, prefetch, ...), vm32*/vm64* (VSIB), nor when a decoder reports no width",
        "decoder output is rewritten by the harness before judging (harness/c05intel.go, c05emit.go): cmp<pred>ps/pd/ss/sd, "
        "vpcmp<pred><t> and pclmul<h|l>q<h|l>qdq pseudo-mnemonics are turned back into the base mnemonic + immediate taken from the "
        "last code byte; for CALL the call instruction is picked out of the frame the assembler wraps around it",
        "the form whose operand types (`sig`) the judge uses is recomputed by the harness (c05MatchedForm: first row of the called "
        "opcode's range whose suffixes, arity and operand classes match, via x86.VerifMatch), not reported by build itself",
        "C05 calls x86.VerifBuild, never the 3 205 generated constructors/methods/globals by name: that each of them forwards its "
        "arguments to build unchanged is C06's statement (C06_tables + by-name wrappers)",
        "generator limits: physical registers only (no virtual registers); negative imm8 on vector/opmask forms kept at 1/8 of "
        "the imm8 samples (they are rejected by the assembler: finding C05-imm8-negative); a well-typed instance the constructor "
        "rejects is dropped and counted (form_ctor_rejected, floor: <= 2 %); a side stream that has no instance for a row falls back "
        "to the plain form (counted: fallback_to_form_*); every operand.Rel instance is rejected by the assembler (finding "
        "C05-rel-syntax), so rel8/rel32 + Rel is never validated positively",
        "unproved glue: the request parsers of Drv/C05.lean; the tolerant line splitter splitOpsTol is part of the STATEMENT of "
        "accept-line (LineAgrees; lineErr_sound) — that it agrees with the strict splitter splitOps of the theorem line_roundtrip on "
        "the printer's own format is checked on examples only; harness/c05intel.go",
    ]
    ctx.trusted += [
        "go tool asm / go tool objdump of the installed toolchain, binutils objdump 2.40, golang.org/x/arch/x86/x86asm as ground truth for the measured part",
        "harness/c05intel.go (canonicaliser of objdump's Intel syntax), harness/c05emit.go c05Decode (selection/rewrites of decoder output) are trusted glue",
        "harness/formsdb.go reads the operand-type / implicit-register / suffix-class enum names from the const blocks of x86/zoptab.go "
        "(go/ast, by name prefix): moving or renaming those enums breaks the harness (reported as a broken obligation, not silence)",
    ]


# Lower bounds on what a run must have judged (quick tier: every form once + 2000 + per-type floors; the thorough tier has
# >= 10x more of everything):
# a generator, filter or table change that silently drops a class of cases is a broken obligation, not silence.
FLOORS = {
    "form_ctor_accepted": 11000,     # well-typed instances the constructor accepted
    "assembled": 11000,              # ... that the assembler accepted and that were decoded and judged
    "type_imm8": 300, "type_imm16": 40, "type_imm32": 40, "type_imm64": 20,
    "const_u8": 150, "const_i8": 60, "const_u16": 15, "const_i16": 15, "const_u32": 15, "const_i32": 15, "const_u64": 8, "const_i64": 8,
    "feat_rel": 40, "feat_label": 30, "feat_sym": 200, "feat_hi8": 5, "feat_rex": 500, "feat_hivec": 300,
    "type_al": 5, "type_cl": 10, "type_ax": 5, "type_eax": 5, "type_xmm0": 5,
    # near misses tried (rejected by the constructor, or accepted and then judged like any other instruction)
    "tried_nearmiss:fixed-reg-view": 15, "tried_nearmiss:fixed-reg-sibling": 15, "tried_nearmiss:imm-wider": 30,
    "tried_nearmiss:reg-size": 80, "tried_nearmiss:mem-shape": 50, "tried_nearmiss:rel-kind": 10,
    "stream_shape": 40, "stream_malformed": 40, "stream_hivec": 10, "stream_k0mask": 2,
    "padded_block": 400,             # instruction lines printed in a block with a longer opcode (goasm.flush padding)
    "x86asm_width_available": 300,   # access width confirmed by the second decoder
    # systematically derived one-attribute near misses (harness/c05derive.go): every operand type x every kind of its
    # catalogue, put to the real predicate (`opclass`, exact against the Lean model) and, routed "asm", to the constructor
    "derived_types": 37, "derived_pairs_total": 500, "derived_pairs_through_ctor": 400,
    "opclass_lines": 1200, "opclass_member": 100, "opclass_in": 300, "opclass_out": 900,
    "class_judged": 11000,           # accepted instructions whose operands the Lean class model judged (accept-class)
    "derived:vm:no-index": 15, "derived:vm:no-base": 15, "derived:vm:index-gp64": 15, "derived:vm:index-k": 15,
    "derived:vm:index-xmm": 15, "derived:vm:index-ymm": 15, "derived:vm:index-zmm": 15, "derived:vm:base-gp32": 15,
    "derived:vm:base-pseudo": 15, "derived:vm:base-xmm": 15,
    "derived:m:no-base": 20, "derived:m:no-index": 20, "derived:m:index-xmm": 20, "derived:m:index-k": 20, "derived:m:base-xmm": 20,
    "derived:gp:gp64": 8, "derived:gp:xmm": 10, "derived:vec:gp64": 8, "derived:fixed:sibling": 15, "derived:imm:over": 8,
    "derived:rel:over": 3, "derived:const:val-above": 8,
    "tried_nearmiss:no-index": 30, "tried_nearmiss:index-gp64": 30, "tried_nearmiss:no-base": 35, "tried_nearmiss:index-xmm": 35,
}


def _floors(ctx, verdicts):
    dist = ctx.coverage.get("input_distribution", {})
    st = dist.get("c05")
    if not isinstance(st, dict):
        ctx.obligation_failures.append(("c05: statistics", "no input distribution written by the harness"))
        return
    st = dict(st)
    for k in FLOORS:
        if k.startswith("tried_"):
            st[k] = st.get("accepted_" + k[6:], 0) + st.get("rejected_" + k[6:], 0)
    low = {k: (st.get(k, 0), v) for k, v in FLOORS.items() if st.get(k, 0) < v}
    if st.get("derived_pairs_tried", 0) != st.get("derived_pairs_total", -1):
        low["derived_pairs_tried"] = (st.get("derived_pairs_tried", 0), f'= derived_pairs_total {st.get("derived_pairs_total")}')
    if st.get("derived_type_without_catalogue", 0):
        low["derived_type_without_catalogue"] = (st.get("derived_type_without_catalogue"), 0)
    if st.get("opcodes_covered", 0) != st.get("opcodes_total", -1):
        low["opcodes_covered"] = (st.get("opcodes_covered", 0), st.get("opcodes_total", -1))
    # a well-typed instance of a form that the constructor REJECTS is dropped by the generator (C06 judges completeness):
    # more than 2 % of them means the generator and the table have drifted apart and coverage is gone
    rej, acc = st.get("form_ctor_rejected", 0), st.get("form_ctor_accepted", 0)
    if rej * 50 > acc:
        low["form_ctor_rejected"] = (rej, f"<= 2% of {acc}")
    if st.get("no_matched_form", 0) * 50 > acc:
        low["no_matched_form"] = (st.get("no_matched_form", 0), f"<= 2% of {acc}")
    if verdicts.get("ok", 0) < 10000:
        low["accept-asm judged ok"] = (verdicts.get("ok", 0), 10000)
    # every row of the table is instantiated once per run; rows that are never the FIRST match of their own operands
    # (shadowed by an earlier row, e.g. `imm32, rax` behind `imm32, r64`: 91 today) are the only ones not covered
    if st.get("forms_covered", 0) + 300 < st.get("forms_total", 10 ** 9):
        low["forms_covered"] = (st.get("forms_covered", 0), f'{st.get("forms_total")} - 300')
    ctx.coverage["floors"] = {k: v for k, v in FLOORS.items()}
    if low:
        ctx.obligation_failures.append(("c05: sample floors", "judged cases below the floor (got, floor): " + repr(low)))


def _summarise(ctx, tags):
    """Verdict classes of the accept-asm lines of THIS run (only the files this run wrote)."""
    classes = collections.Counter()
    streams = collections.Counter()
    for tag in tags:
        base = os.path.join(ctx.dir, tag)
        try:
            with open(base + ".ops") as fo, open(base + ".model") as fm:
                for req, resp in zip(fo, fm):
                    if not req.startswith("accept-asm "):
                        continue
                    f = req.split(" ", 8)
                    streams[f[6].split(":")[0]] += 1
                    classes[resp.split(" ", 1)[0].strip()] += 1
        except OSError:
            pass
    ctx.coverage["accept_asm_verdicts"] = dict(classes)
    ctx.coverage["accept_asm_streams"] = dict(streams)
    # opcodes whose mnemonic the judge does not compare
    try:
        p = subprocess.run([core.driver_path("drv_c05")], input="mnem-unchecked\n", capture_output=True, text=True, timeout=60)
        ctx.coverage["mnemonic_unchecked_opcodes"] = p.stdout.split()[1:]
    except Exception:
        pass
    return classes
