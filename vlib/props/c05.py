"""C05 — an accepted instruction assembles to exactly the operation and operands given.

Proof-partial: the avo side (operand text rendering is invertible, immediates keep their value under
the guard ImmFits, build picks the first matching form and keeps the operands) is proved in Lean for
all values; the Go assembler's behaviour is a MEASURED oracle, re-measured on every run."""
import collections, os, re, subprocess

from ..modules import REGS, CONSTS
from .. import core

GO_FILES = ["c05.go", "c05gen.go", "c05asm.go", "c05emit.go", "c05intel.go", "gen_consts.go"]
PROPS = ["AvoVerif.Props.C05", "AvoVerif.Props.C05Tables", "AvoVerif.Props.C05Build"]


def run(ctx):
    ctx.level = "proof"
    ctx.coverage["proof_partial"] = ("avo-side theorems proved for all values; the assembler's reading of the text "
                                     "(asmImm, register numbering, access widths) is measured on every run")
    if not ctx.build_harness(GO_FILES):
        return
    ctx.regen([REGS, CONSTS])
    ctx.forbidden_scan()
    # the driver (renderer, parser, asmImm, judge) must build even when a table theorem breaks
    if not ctx.build_driver():
        return
    if ctx.lake_each(PROPS):
        ctx.audit("C05")
    if ctx.tier == "thorough":
        ctx.leanchecker(PROPS)

    nontrivial = lambda req, resp: req.startswith("accept-asm") or req.startswith("asm-text m:") or req.startswith("asm-text i:")
    if ctx.replay:
        ctx.differential("c05", 0, nontrivial=nontrivial, max_report=10 ** 6)
    else:
        ctx.run_corpus("c05", nontrivial=nontrivial, max_report=10 ** 6)
        if ctx.tier == "quick":
            ctx.differential("c05", 4000, nontrivial=nontrivial, max_report=10 ** 6, timeout=1500)
        else:
            ctx.differential("c05", 0, extra=["-reps", "12"], nontrivial=nontrivial, max_report=10 ** 6, timeout=3000)
            base = ctx.seed
            ctx.seed = base * 1000003 + 1
            ctx.differential("c05", 0, extra=["-reps", "8"], tag="-s2", nontrivial=nontrivial, max_report=10 ** 6, timeout=3000)
            ctx.seed = base
    _summarise(ctx)

    ctx.coverage["rule"] = (
        "sampled instances of every instruction form (quick: ~4000 instances over all opcodes; thorough: every form x 12 + "
        "every form x 8 under a second seed), operands boundary-biased (immediates 0, 1, 2^(n-1)-1, 2^(n-1), 2^n-1, -1, -2^(n-1) in "
        "signed and unsigned constant types; every physical register of each class incl. SP/BP/R12/R13 as base, R8-R15, "
        "AH..BH, X16-X31 for EVEX forms, K0-K7; displacements 0, +-small, 8-bit and 32-bit limits; scale 1/2/4/8; with/without "
        "index; sym+off(FP)/(SP)/(SB)); built through x86.VerifBuild (the code path of every generated constructor), printed "
        "by printer.NewGoAsm (one TEXT symbol per instruction), assembled by `go tool asm`, machine code read back with "
        "`go tool objdump`, decoded by binutils objdump (Intel syntax, all extensions incl. EVEX) with x86asm as a second "
        "reader for legacy encodings. Requests: asm-text (model renderer == Asm(), exact), accept-parse / accept-line (Lean's "
        "independent parser reads the implementation's text back as the operands given), accept-asm (Lean's judge: assembler "
        "accepted; mnemonic is the named operation; every register is the same hardware register and width; base, index, "
        "scale, displacement, relocation target and access width equal; immediate as extended by the CPU equals the constant "
        "— via asmImm/immWanted of the model). Side streams: near-miss operands (constructor must reject or the instruction "
        "is judged like any other), malformed memory references, X16-X31 in non-EVEX forms, K0 as write mask.")
    ctx.assumptions += [
        "the Go assembler and the decoders are the oracle: `go tool asm`/`go tool objdump` of GOROOT, binutils objdump, x/arch x86asm",
        "asmImm (how the assembler + CPU read an immediate in context) and the Intel register numbering are models, validated on "
        "every run against the decoded bytes (a disagreement is reported as bad-asm-model / bad-reg)",
        "operand order: Intel order is the reverse of the Go order except CMPx (same order) and CMPPS/CMPPD/CMPSS/CMPSD (imm last); "
        "XCHG/TEST are treated as symmetric",
        "mnemonic normalisation Go opcode -> decoder mnemonic is by rule (lower case, size suffix B/W/L/Q or X/Y/Z dropped, "
        "condition codes by number) plus the reviewed table Model/AsmJudge.lean `mnemTable`",
        "the assembler's encoder is exercised only on the sampled instances (modelled-not-verified beyond them)",
    ]
    ctx.trusted += [
        "go tool asm / go tool objdump of the installed toolchain, binutils objdump 2.40, golang.org/x/arch/x86/x86asm as ground truth for the measured part",
        "harness/c05intel.go (canonicaliser of objdump's Intel syntax) is trusted glue",
    ]


def _summarise(ctx):
    """Verdict classes of the accept-asm lines of this run (for the evidence file)."""
    classes = collections.Counter()
    streams = collections.Counter()
    for fn in os.listdir(ctx.dir):
        if not fn.endswith(".ops"):
            continue
        base = os.path.join(ctx.dir, fn[:-4])
        try:
            with open(base + ".ops") as fo, open(base + ".model") as fm:
                for req, resp in zip(fo, fm):
                    if not req.startswith("accept-asm "):
                        continue
                    f = req.split(" ", 8)
                    streams[f[6].split(":")[0]] += 1
                    classes[resp.split(" ", 1)[0].strip()] += 1
        except OSError:
            pass
    ctx.coverage["accept_asm_verdicts"] = dict(classes)
    ctx.coverage["accept_asm_streams"] = dict(streams)
    # opcodes whose mnemonic the judge does not compare
    try:
        p = subprocess.run([core.driver_path("drv_c05")], input="mnem-unchecked\n", capture_output=True, text=True, timeout=60)
        ctx.coverage["mnemonic_unchecked_opcodes"] = p.stdout.split()[1:]
    except Exception:
        pass
