"""C07 — argument and result addresses match the Go compiler's stack layout."""
import os


def _rm(ctx, sub, tag):
    base = os.path.join(ctx.dir, sub + tag)
    for ext in (".ops", ".impl", ".model"):
        try:
            os.remove(base + ext)
        except OSError:
            pass


def run(ctx):
    if not ctx.build_harness(["c07.go", "c07x.go"]):
        return
    ctx.forbidden_scan()
    # model + acceptor must build even when a theorem breaks
    if not ctx.build_driver():
        return
    if ctx.lake_each(["AvoVerif.Props.C07"]):
        ctx.audit("C07")
    if ctx.tier == "thorough":
        ctx.leanchecker(["AvoVerif.Model.Layout", "AvoVerif.Props.C07"])

    quick = ctx.tier == "quick"
    nontrivial = lambda req, resp: resp != "err"
    # 1. exact model comparison + acceptors on generated signatures x component paths (negative indices and
    #    selectors — regression of F3, fixed in aab3c52 — are part of the normal stream and of the corpus)
    chunks = [(3000, 0)] if quick else [(6000, k) for k in range(10)]
    for n, k in chunks:
        tag = "" if quick else f"-{k}"
        ctx.differential("c07", n, extra=["-chunk", str(k)], tag=tag, nontrivial=nontrivial)
        _rm(ctx, "c07", tag)
    # 2. compiler agreement (measured): reflect/unsafe sizes of the real compiler, go vet -asmdecl and
    #    execution of generated stub+asm pairs whose operands are the implementation's resolved addresses
    gen = os.path.join(ctx.dir, "gen")
    xchunks = [(40, 0)] if quick else [(150, k) for k in range(8)]
    for n, k in xchunks:
        tag = "" if quick else f"-{k}"
        ctx.differential("c07x", n, extra=["-dir", gen, "-chunk", str(k)], tag=tag, timeout=1200)
        _rm(ctx, "c07x", tag)
    ctx.coverage["rule"] = (
        "generated signatures (nested structs with padding, zero-size and trailing zero-size fields, arrays of structs, "
        "complex, strings, slices, pointers, defined types; named/grouped/unnamed/blank parameters, 0..3 results; built "
        "through go/types directly, gotypes.ParseSignature and ParseSignatureInPackage) x every component path of every "
        "parameter/result (indices of large arrays sampled) x invalid continuations (wrong kind, missing field, index = len, "
        "> len, huge, negative; steps after an error; invalid selectors): the real gotypes API's (symbol, displacement, base, "
        "basic type) or error vs the Lean model (exact), and the implementation's own result judged by the acceptor "
        "ResolveSpec/MustResolve against the independently written asmdecl layout; Bytes() and the printed TEXT size vs "
        "asmdecl's argument size; model sizeof/alignof/offsetsof vs go/types gc/amd64 on every generated type and vs the "
        "compiler (reflect) on a sample; go vet -asmdecl and execution on generated stub+asm pairs. "
        "non-trivial = response other than `err`")
    ctx.assumptions += [
        "gc/amd64 only (WordSize = MaxAlign = 8), ABI0 assembly functions",
        "types: basic kinds, pointers, slices, arrays, structs, defined types over these; no interfaces/maps/chans/funcs/"
        "type parameters; recursive types stand for their finite unfoldings (a path of length n inspects n levels; sizes "
        "never look through a pointer)",
        "names in a parameter list are non-empty identifiers (Sig.WF); defined scalar types (type T int) are left free: "
        "avo's Resolve reports `component is not primitive` for them",
        "the asmdecl layout (names, offsets, sizes, argument size) is the toolchain's truth for assembly functions; it is "
        "re-measured on every run with go vet, reflect and execution on a sample",
    ]
    ctx.trusted += [
        "go/types SizesFor(gc, amd64), cmd/compile (reflect type data, ABI0 frame layout), go vet asmdecl and the host CPU as oracles",
        "Drv/C07 request parsing, asmText rendering and the harness's encoders (exercised by the mutation self-test)",
    ]
