"""C07 — argument and result addresses match the Go compiler's stack layout."""
import os


def _rm(ctx, sub, tag):
    base = os.path.join(ctx.dir, sub + tag)
    for ext in (".ops", ".impl", ".model"):
        try:
            os.remove(base + ext)
        except OSError:
            pass


# Lower bounds on the number of judged cases per class, for a run of 3000 generated signatures (scaled with n).
# About one fifth of what the generator produces: a change of avo (or of the harness) that makes a whole class of
# inputs disappear — signatures that no longer build, components that no longer resolve, a route that fails — is an
# obligation failure instead of a silently smaller sample.
FLOORS_C07 = {
    "outcome_ok": 15000, "paths_valid_scalar": 15000, "paths_valid_nonscalar": 7000, "paths_with_deref": 5000,
    "valid_scalar_of_defined_or_alias_type": 1000, "valid_scalar_of_alias_type": 300,
    "ok_index_ge_256": 150, "ok_selector_index_ge_10": 400, "ok_variadic_param": 100, "ok_deref_non_gp64": 80,
    "vars_of_componentless_kind": 80, "gen_embedded_fields": 200,
    "paths_invalid_i": 3000, "paths_invalid_f": 3000, "paths_invalid_selector": 3000,
    "paths_invalid_negative_index": 300, "paths_invalid_negative_selector": 1000,
    "lookup_by_default_name": 500, "sizes_lines": 5000,
}
ROUTES = ("direct", "parse", "parse-in-package", "lookup")
# per generated function of the measured part
FLOORS_C07X = {"param_leaves": 2, "result_leaves": 0.5, "exec_pairs_run": 0.5, "compiler_size_lines": 1, "deref_loads": 0.1}


def _floors(ctx, name, stats, floors, scale):
    ctx.obligations += 1
    low = []
    for k, v in floors.items():
        need = int(v * scale)
        if stats.get(k, 0) < need:
            low.append(f"{k}={stats.get(k, 0)} < {need}")
    if low:
        ctx.obligation_failures.append((f"{name}: sample floor", "; ".join(low)))
    else:
        ctx.discharged += 1


def run(ctx):
    if not ctx.build_harness(["c07.go", "c07x.go"]):
        return
    ctx.forbidden_scan()
    # model + acceptor must build even when a theorem breaks
    if not ctx.build_driver():
        return
    if ctx.lake_each(["AvoVerif.Props.C07"]):
        ctx.audit("C07")
    if ctx.tier == "thorough":
        ctx.leanchecker(["AvoVerif.Model.Layout", "AvoVerif.Props.C07"])

    quick = ctx.tier == "quick"
    nontrivial = lambda req, resp: resp != "err"
    # 0. corpus: hand-picked request lines (past findings, seeded changes, boundary shapes) replayed through the real code
    ctx.run_corpus("c07", nontrivial=nontrivial)
    ctx.obligations += 1
    if ctx.coverage.get("corpus_cases", 0) < 40:
        ctx.obligation_failures.append(("c07: corpus", f"only {ctx.coverage.get('corpus_cases', 0)} corpus lines replayed"))
    else:
        ctx.discharged += 1
    _rm(ctx, "c07", "-corpus")
    # 1. exact model comparison + acceptors on generated signatures x component paths (negative indices and
    #    selectors — regression of F3, fixed in aab3c52 — are part of the normal stream and of the corpus)
    chunks = [(3000, 0)] if quick else [(6000, k) for k in range(10)]
    for n, k in chunks:
        tag = "" if quick else f"-{k}"
        r = ctx.differential("c07", n, extra=["-chunk", str(k)], tag=tag, nontrivial=nontrivial)
        _rm(ctx, "c07", tag)
        if r is None or ctx.replay:
            continue
        st = ctx.coverage.get("input_distribution", {}).get("c07" + tag, {})
        fl = dict(FLOORS_C07)
        for rt in ROUTES:
            st["routes_" + rt] = st.get("route_" + rt, 0) + st.get("route_" + rt + "+build", 0)
            fl["routes_" + rt] = 30
        st["routes_build"] = sum(v for kk, v in st.items() if kk.startswith("route_") and kk.endswith("+build"))
        fl["routes_build"] = 150
        _floors(ctx, "c07" + tag, st, fl, n / 3000.0)
    # 2. compiler agreement (measured): reflect/unsafe sizes of the real compiler, go vet -asmdecl and
    #    execution of generated stub+asm pairs whose operands are the implementation's resolved addresses
    gen = os.path.join(ctx.dir, "gen")
    xchunks = [(40, 0)] if quick else [(150, k) for k in range(8)]
    for n, k in xchunks:
        tag = "" if quick else f"-{k}"
        r = ctx.differential("c07x", n, extra=["-dir", gen, "-chunk", str(k)], tag=tag, timeout=1200)
        _rm(ctx, "c07x", tag)
        if r is None or ctx.replay:
            continue
        st = ctx.coverage.get("input_distribution", {}).get("c07x" + tag, {}).get("counts", {})
        ctx.obligations += 1
        if st.get("functions", 0) != n:
            ctx.obligation_failures.append(("c07x: functions", f"{st.get('functions', 0)} of {n} functions judged"))
        else:
            ctx.discharged += 1
        _floors(ctx, "c07x" + tag, st, FLOORS_C07X, n)
    ctx.coverage["rule"] = (
        "hand-picked corpus lines, then generated signatures: nested structs with padding, blank, zero-size and trailing "
        "zero-size fields, embedded fields (defined, alias and pointer-to-defined types), arrays of structs, arrays of "
        "256..1200 elements (indices around 255/256, 99/100, 999/1000), complex, strings, slices, pointers, defined types "
        "and aliases (also of scalars), interface/map/chan/func variables, fields and elements (no components; they shift "
        "what follows); named/grouped/unnamed/blank parameters, 0..13 parameters and 0..12 results (default names arg10.., "
        "ret11), variadic last parameter; built through go/types directly, gotypes.ParseSignature, "
        "ParseSignatureInPackage, LookupSignature on a type-checked package declaring the function (the route of "
        "build.Implement), NewSignatureVoid; components selected through Tuple.At/Lookup or, for a quarter of the "
        "signatures, through the package-level build.Param/ParamIndex/Return/ReturnIndex on a build.Context holding the "
        "signature; x component paths of every parameter/result (every path for one signature in 16 and for the corpus, "
        "else up to 40 sampled per variable; indices of large arrays sampled; Dereference through every 64-bit GP "
        "register and AL/X0/Y3) x invalid continuations (wrong kind, missing field, index = len, > len, huge, negative; "
        "steps after an error; invalid selectors; Lookup by a default name): the real gotypes API's (symbol, "
        "displacement, base, basic type) or error vs the Lean model (exact), and the implementation's own result judged "
        "by the acceptor ResolveSpec/MustResolve against the independently written asmdecl layout — the offset is pinned "
        "by walking the type tree (pathComps), not by the flattened name alone; Bytes() and the printed TEXT size vs "
        "asmdecl's argument size; model sizeof/alignof/offsetsof vs go/types gc/amd64 on every generated type and vs the "
        "compiler (reflect) on a sample; go vet -asmdecl and execution on generated stub+asm pairs. Lower bounds on the "
        "number of judged cases per class (FLOORS_C07, FLOORS_C07X) are obligations. "
        "non-trivial = response other than `err`")
    ctx.assumptions += [
        "gc/amd64 only (WordSize = MaxAlign = 8), ABI0 assembly functions",
        "types: basic kinds, pointers, slices, arrays, structs, defined types and aliases over these, and "
        "interface/map/chan/func as component-less kinds that take part in the layout; no type parameters; recursive types "
        "stand for their finite unfoldings (a path of length n inspects n levels; sizes never look through a pointer)",
        "names in a parameter list are non-empty identifiers (Sig.WF)",
        "a blank name may denote any of the variables/fields declared `_` (Go cannot select them; avo takes the last "
        "blank variable and the first blank field); every other name denotes exactly one component and its offset is pinned",
        "for a pointer component the reported basic type may be any pointer-sized integer kind (uintptr, unsafe.Pointer, "
        "uint64); whether Lookup finds an unnamed variable by its default name (arg1, ret) is left free (acceptor only)",
        "sizes and offsets are natural numbers in the model: types whose size reaches 2^63 (e.g. [1<<61]uint64), which the "
        "compiler rejects, are out of scope — gotypes computes in int/int64 and would wrap there; Index arguments are "
        "generated over the whole int range",
        "a promoted field of an embedded struct is not a component name for go vet (x_inner, not x_T_inner is unknown): "
        "Field(promoted) is an error in avo and in the model",
        "the asmdecl layout (names, offsets, sizes, argument size) is the toolchain's truth for assembly functions; it is "
        "re-measured on every run with go vet, reflect and execution on a sample",
        "Dereference echoes whatever register it is given (also non-64-bit and vector registers, which cannot hold a "
        "pointer; a nil register is not generated); build.Dereference (allocating a virtual register and loading the "
        "pointer) belongs to C08",
    ]
    ctx.trusted += [
        "go/types SizesFor(gc, amd64), cmd/compile (reflect type data, ABI0 frame layout), go vet asmdecl and the host CPU as oracles",
        "Drv/C07 request parsing, asmText rendering and the harness's encoders/decoders (exercised by the mutation self-test)",
        "measured part (c07x): the verdicts of go vet and of the executed program are counted in Go and passed through the "
        "trivial acceptor accept-count; names are made unambiguous for vet's flat naming scheme first (named variables "
        "become p<i>/r<i>, unnamed ones keep the default names arg<i>/ret<i>; `_` inside field names and non-ASCII letters "
        "are removed, at most one blank field per struct), so vet never sees colliding flattened names or blank "
        "variables; Lean's asmComponents is not compared with vet's variable table directly but through the absence of "
        "diagnostics on addresses the model agrees with",
        "build.Implement itself (packages.Load of a package on disk) is not called: its route LookupSignature is, on a "
        "package type-checked in memory",
    ]
