"""C07 — argument and result addresses match the Go compiler's stack layout."""
import os


def _rm(ctx, sub, tag):
    base = os.path.join(ctx.dir, sub + tag)
    for ext in (".ops", ".impl", ".model"):
        try:
            os.remove(base + ext)
        except OSError:
            pass


# Lower bounds on the number of judged cases per class, for a run of 3000 generated signatures (scaled with n).
# About one fifth of what the generator produces: a change of avo (or of the harness) that makes a whole class of
# inputs disappear — signatures that no longer build, components that no longer resolve, a route that fails — is an
# obligation failure instead of a silently smaller sample.
FLOORS_C07 = {
    "outcome_ok": 15000, "paths_valid_scalar": 15000, "paths_valid_nonscalar": 7000, "paths_with_deref": 5000,
    "valid_scalar_of_defined_or_alias_type": 1000, "valid_scalar_of_alias_type": 300,
    "ok_index_ge_256": 150, "ok_selector_index_ge_10": 400, "ok_variadic_param": 100, "ok_deref_non_gp64": 80,
    "vars_of_componentless_kind": 80, "gen_embedded_fields": 200,
    "paths_invalid_i": 3000, "paths_invalid_f": 3000, "paths_invalid_selector": 3000,
    "paths_invalid_negative_index": 300, "paths_invalid_negative_selector": 1000, "paths_invalid_promoted_field": 150,
    "paths_invalid_promoted_field_behind_embedded_pointer": 30,
    "lookup_by_default_name": 500, "sizes_lines": 5000,
    # families: one process, one package path, one expression text, different definitions of the names it mentions
    "families": 150, "family_same_text_different_definition": 150,
    "family_same_text_different_definition_both_parsed_in_package": 60, "family_same_text_different_argsize": 80,
    "family_same_package_object_same_text_again": 50, "family_same_package_object_other_expression": 100,
    "family_nil_package_checks": 300,
}
# histories on one build.Context (c07h), for a run of 600 histories: about a quarter of what the generator produces
FLOORS_C07H = {
    "histories": 600, "hist_multi_function": 300, "hist_same_pointer_dereferenced_in_two_functions": 60,
    "hist_same_pointer_dereferenced_twice_in_a_function": 60, "hist_nested_dereference": 80,
    "hist_load_store_through_handle": 120, "dereference_emitted_load": 1000, "load_store_through_handle_emitted": 500,
    "derefs_with_observed_base": 800, "hresolve_ok": 2500, "fn_sig_same": 100, "fn_sig_shift": 50, "fn_sig_rotate": 40,
    "fn_sig_fresh": 60, "hist_via_c": 100, "hist_via_p": 50, "hist_via_m": 50, "labels": 200, "fn_signature_expr": 15,
    "calls_with_error": 100, "corpus_histories": 6,
}
# navigation sessions (c07t), per 1500 sessions: a third to a tenth of what the generator produces
FLOORS_C07T = {
    "sessions": 1500, "derives": 15000, "parents_with_siblings": 5000, "deferred_resolutions": 8000,
    "parent_resolved_after_deriving": 600, "resolved_twice": 1200, "subtrees_between_siblings": 300,
    "derive_of_missing_component": 1500,
    "mode_end-forward": 100, "mode_end-reverse": 100, "mode_end-shuffled": 100, "mode_immediate-and-end": 100, "mode_random": 200,
    "pair_f,f": 3000, "pair_i,i": 1000, "pair_d,d": 1000, "pair_cap,len": 150, "pair_base,len": 400, "pair_base,cap": 200,
    "pair_imag,real": 300, "corpus_sessions": 10,
}
for _d in range(10):
    FLOORS_C07T["parents_with_siblings_depth_%d" % _d] = 250
    FLOORS_C07T["deferred_sibling_depth_%d" % _d] = 350
ROUTES = ("direct", "parse", "parse-in-package", "lookup")
# per generated function of the measured part
FLOORS_C07X = {"param_leaves": 2, "result_leaves": 0.5, "exec_pairs_run": 0.5, "compiler_size_lines": 1, "deref_loads": 0.1}


HIST_KINDS = {"ctxhist", "accept-ctxhist", "accept-hresolve"}
TREE_KINDS = {"tree", "accept-tree"}


def _replay_kinds(ctx):
    """First words of the request lines of a replay file (None when not replaying)."""
    if not ctx.replay:
        return None
    kinds = set()
    try:
        data = open(ctx.replay).read()
        if data.lstrip().startswith("{"):
            import json

            def walk(x):
                if isinstance(x, dict):
                    for k, y in x.items():
                        if k == "request" and isinstance(y, str):
                            kinds.add(y.split(" ", 1)[0])
                        else:
                            walk(y)
                elif isinstance(x, list):
                    for y in x:
                        walk(y)
            walk(json.loads(data))
        else:
            for l in data.splitlines():
                if l.strip() and not l.startswith("#"):
                    kinds.add(l.split()[0])
    except Exception:
        pass
    return kinds


def _floors(ctx, name, stats, floors, scale):
    ctx.obligations += 1
    low = []
    for k, v in floors.items():
        need = int(v * scale)
        if stats.get(k, 0) < need:
            low.append(f"{k}={stats.get(k, 0)} < {need}")
    if low:
        ctx.obligation_failures.append((f"{name}: sample floor", "; ".join(low)))
    else:
        ctx.discharged += 1


def run(ctx):
    if not ctx.build_harness(["c07.go", "c07x.go", "c07h.go", "c07t.go"]):
        return
    ctx.forbidden_scan()
    # model + acceptor must build even when a theorem breaks
    if not ctx.build_driver():
        return
    if ctx.lake_each(["AvoVerif.Props.C07", "AvoVerif.Props.C07Ctx", "AvoVerif.Props.C07Tree"]):
        ctx.audit("C07")
    if ctx.tier == "thorough":
        ctx.leanchecker(["AvoVerif.Model.Layout", "AvoVerif.Props.C07", "AvoVerif.Model.LayoutCtx", "AvoVerif.Props.C07Ctx", "AvoVerif.Props.C07Tree"])

    quick = ctx.tier == "quick"
    nontrivial = lambda req, resp: resp != "err"
    # 0. corpus: hand-picked request lines (past findings, seeded changes, boundary shapes) replayed through the real code
    ctx.run_corpus("c07", nontrivial=nontrivial)
    ctx.obligations += 1
    if ctx.coverage.get("corpus_cases", 0) < 40:
        ctx.obligation_failures.append(("c07: corpus", f"only {ctx.coverage.get('corpus_cases', 0)} corpus lines replayed"))
    else:
        ctx.discharged += 1
    _rm(ctx, "c07", "-corpus")
    # (the same corpus files through the history harness: it re-runs the `ctxhist` lines, c07 the others)
    ncorpus = ctx.coverage.get("corpus_cases", 0)
    ctx.run_corpus("c07h", nontrivial=lambda req, resp: resp != "panic")
    _rm(ctx, "c07h", "-corpus")
    ctx.run_corpus("c07t", nontrivial=lambda req, resp: resp != "panic")
    _rm(ctx, "c07t", "-corpus")
    ctx.coverage["corpus_cases"] = ncorpus
    # 1. exact model comparison + acceptors on generated signatures x component paths (negative indices and
    #    selectors — regression of F3, fixed in aab3c52 — are part of the normal stream and of the corpus)
    chunks = [(3000, 0)] if quick else [(6000, k) for k in range(10)]
    # a replay file is re-run by the harness that wrote its lines: c07h the histories, c07 everything else
    kinds = _replay_kinds(ctx)
    hist_replay = kinds is not None and bool(kinds & HIST_KINDS)
    tree_replay = kinds is not None and bool(kinds & TREE_KINDS)
    if kinds is not None and (hist_replay or tree_replay) and not (kinds - HIST_KINDS - TREE_KINDS):
        chunks = []
    for n, k in chunks:
        tag = "" if quick else f"-{k}"
        r = ctx.differential("c07", n, extra=["-chunk", str(k)], tag=tag, nontrivial=nontrivial)
        _rm(ctx, "c07", tag)
        if r is None or ctx.replay:
            continue
        st = ctx.coverage.get("input_distribution", {}).get("c07" + tag, {})
        fl = dict(FLOORS_C07)
        for rt in ROUTES:
            st["routes_" + rt] = st.get("route_" + rt, 0) + st.get("route_" + rt + "+build", 0)
            fl["routes_" + rt] = 30
        st["routes_build"] = sum(v for kk, v in st.items() if kk.startswith("route_") and kk.endswith("+build"))
        fl["routes_build"] = 150
        _floors(ctx, "c07" + tag, st, fl, n / 3000.0)
    # 1b. histories of calls on ONE build.Context: several functions (same / shifted / rotated / fresh signatures with
    #     the same names), Dereference of the same pointer in several functions and several times in one, Load/Store
    #     through the returned components, nested, labels, Context methods and package-level functions — the emitted
    #     (opcode, operands) sequence of every function vs the model (exact), the implementation's own file judged by
    #     the acceptor domOKb (every pointer a function dereferences is loaded in THAT function before use), and the
    #     operand of every emitted instruction judged by ResolveSpec against the signature of its own function
    hchunks = [(600, 0)] if quick else [(3000, k) for k in range(4)]
    if kinds is not None and not hist_replay:
        hchunks = []
    for n, k in hchunks:
        tag = "" if quick else f"-{k}"
        r = ctx.differential("c07h", n, extra=["-chunk", str(k)], tag=tag, nontrivial=lambda req, resp: resp != "panic")
        _rm(ctx, "c07h", tag)
        if r is None or ctx.replay:
            continue
        st = ctx.coverage.get("input_distribution", {}).get("c07h" + tag, {})
        _floors(ctx, "c07h" + tag, st, {kk: (v if kk == "corpus_histories" else v * n / 600.0) for kk, v in FLOORS_C07H.items()}, 1)
    # 1c. navigation sessions: Component values are kept and several children derived from the SAME parent value at
    #     every depth 0..9 (Field x2, Index x2, Base/Len/Cap, Real/Imag, Dereference x2, missing components), siblings
    #     next to each other or with whole subtrees in between, every interleaving of deriving and resolving — every
    #     Resolve vs the Lean session model (exact) and judged by ResolveSpec for the component's OWN path
    tchunks = [(1500, 0)] if quick else [(6000, k) for k in range(4)]
    if kinds is not None and not tree_replay:
        tchunks = []
    for n, k in tchunks:
        tag = "" if quick else f"-{k}"
        r = ctx.differential("c07t", n, extra=["-chunk", str(k)], tag=tag, nontrivial=lambda req, resp: resp != "panic")
        _rm(ctx, "c07t", tag)
        if r is None or ctx.replay:
            continue
        st = ctx.coverage.get("input_distribution", {}).get("c07t" + tag, {})
        st["sessions"] = st.get("sessions", 0) - st.get("corpus_sessions", 0)
        _floors(ctx, "c07t" + tag, st, {kk: (v if kk == "corpus_sessions" else v * n / 1500.0) for kk, v in FLOORS_C07T.items()}, 1)
    # 2. compiler agreement (measured): reflect/unsafe sizes of the real compiler, go vet -asmdecl and
    #    execution of generated stub+asm pairs whose operands are the implementation's resolved addresses
    gen = os.path.join(ctx.dir, "gen")
    xchunks = [(40, 0)] if quick else [(150, k) for k in range(8)]
    for n, k in xchunks:
        tag = "" if quick else f"-{k}"
        r = ctx.differential("c07x", n, extra=["-dir", gen, "-chunk", str(k)], tag=tag, timeout=1200)
        _rm(ctx, "c07x", tag)
        if r is None or ctx.replay:
            continue
        st = ctx.coverage.get("input_distribution", {}).get("c07x" + tag, {}).get("counts", {})
        ctx.obligations += 1
        if st.get("functions", 0) != n:
            ctx.obligation_failures.append(("c07x: functions", f"{st.get('functions', 0)} of {n} functions judged"))
        else:
            ctx.discharged += 1
        _floors(ctx, "c07x" + tag, st, FLOORS_C07X, n)
        # packages on disk through Context.Package / Implement / SignatureExpr: a fixed number per run
        _floors(ctx, "c07x" + tag + " disk", st, {"disk_families": 2, "disk_family_members": 6}, 1)
    ctx.coverage["rule"] = (
        "hand-picked corpus lines, then generated signatures: nested structs with padding, blank, zero-size and trailing "
        "zero-size fields, embedded fields (defined, alias and pointer-to-defined types), arrays of structs, arrays of "
        "256..1200 elements (indices around 255/256, 99/100, 999/1000), complex, strings, slices, pointers, defined types "
        "and aliases (also of scalars), interface/map/chan/func variables, fields and elements (no components; they shift "
        "what follows); named/grouped/unnamed/blank parameters, 0..13 parameters and 0..12 results (default names arg10.., "
        "ret11), variadic last parameter; built through go/types directly, gotypes.ParseSignature, "
        "ParseSignatureInPackage, LookupSignature on a type-checked package declaring the function (the route of "
        "build.Implement), NewSignatureVoid; components selected through Tuple.At/Lookup or, for a quarter of the "
        "signatures, through the package-level build.Param/ParamIndex/Return/ReturnIndex on a build.Context holding the "
        "signature; x component paths of every parameter/result (every path for one signature in 16 and for the corpus, "
        "else up to 40 sampled per variable; indices of large arrays sampled; Dereference through every 64-bit GP "
        "register and AL/X0/Y3) x invalid continuations (wrong kind, missing field, every name Go would promote from an "
        "embedded struct or embedded pointer, index = len, > len, huge, negative; "
        "steps after an error; invalid selectors; Lookup by a default name): the real gotypes API's (symbol, "
        "displacement, base, basic type) or error vs the Lean model (exact), and the implementation's own result judged "
        "by the acceptor ResolveSpec/MustResolve against the independently written asmdecl layout — the offset is pinned "
        "by walking the type tree (pathComps), not by the flattened name alone; Bytes() and the printed TEXT size vs "
        "asmdecl's argument size; model sizeof/alignof/offsetsof vs go/types gc/amd64 on every generated type and vs the "
        "compiler (reflect) on a sample; go vet -asmdecl and execution on generated stub+asm pairs. "
        "Families (one in ten generated signatures): in the one harness process, the signature's expression text "
        "evaluated (a) in its package, (b) in another type-checked package of the SAME import path in which defined/alias "
        "types of the same names are defined differently (fields reordered, a field of another type, a leading field, "
        "another basic kind, another array length), (c) in the first package again (the same *types.Package object when "
        "parsed), (d) another expression in the first package — each through ParseSignatureInPackage, LookupSignature or "
        "NewSignature (3 in 5 families: all through ParseSignatureInPackage), a quarter installed in a build.Context; "
        "between (a) and (b) the same text through ParseSignature / Context.SignatureExpr / build.SignatureExpr without a "
        "package must be an error; every member is judged like any signature, on its own definitions. On disk (c07x): "
        "three families of `package main` directories of one module path loaded through the real Context.Package "
        "(packages.Load) and Implement / Function+SignatureExpr, methods and package-level functions. "
        "Navigation sessions (c07t): one variable whose type is 2..10 navigation steps deep (structs of 2..4 fields, "
        "arrays, pointers, defined/alias types, leaves slice/string/complex/array/pointer/basic); a store of Component "
        "values, 12..45 derivations per session, 2..6 children from the SAME parent value at every kept parent "
        "(depth 0..9; also steps that do not exist and steps below them), siblings consecutively or with whole subtrees "
        "in between; Resolve of everything at the end forwards / backwards / shuffled, immediately and again at the end, "
        "or at random points (an earlier child after a later sibling was derived, the parent again after deriving, the "
        "same component twice): every Resolve outcome vs the session model (exact) and judged by ResolveSpec/MustResolve "
        "for the resolved component's own path; hand-written sessions (Len/Cap/Base from one parent reached by 0..7 "
        "steps, Len resolved last) first. "
        "Histories on ONE build.Context (c07h): 1..4 functions per Context with the same / a shifted / a rotated / a fresh "
        "signature over a small pool of names, per function 3..12 calls among GP8..GP64/XMM allocation, Load/Store of "
        "scalar components into registers of the component's size, Dereference of pointer components (the same one "
        "repeatedly in a function and in several functions, nested, of non-pointers and missing components), Load/Store "
        "through the returned components, ADDQ/XORQ/NOP, labels; through the Context's methods, the package-level "
        "functions, or alternating; Signature or SignatureExpr: the (opcode, operands) sequence of every function and "
        "the calls that recorded an error vs the model (exact, registers named by the call that first showed them), the "
        "implementation's own node lists judged by domOKb (proved sound for DomOK), every emitted operand judged by "
        "ResolveSpec against the signature of its own function. Lower bounds on the "
        "number of judged cases per class (FLOORS_C07, FLOORS_C07H, FLOORS_C07T, FLOORS_C07X) are obligations. "
        "non-trivial = response other than `err`")
    ctx.assumptions += [
        "gc/amd64 only (WordSize = MaxAlign = 8), ABI0 assembly functions",
        "types: basic kinds, pointers, slices, arrays, structs, defined types and aliases over these, and "
        "interface/map/chan/func as component-less kinds that take part in the layout; no type parameters; recursive types "
        "stand for their finite unfoldings (a path of length n inspects n levels; sizes never look through a pointer)",
        "names in a parameter list are non-empty identifiers (Sig.WF)",
        "a blank name may denote any of the variables/fields declared `_` (Go cannot select them; avo takes the last "
        "blank variable and the first blank field); every other name denotes exactly one component and its offset is pinned",
        "for a pointer component the reported basic type may be any pointer-sized integer kind (uintptr, unsafe.Pointer, "
        "uint64); whether Lookup finds an unnamed variable by its default name (arg1, ret) is left free (acceptor only)",
        "sizes and offsets are natural numbers in the model: types whose size reaches 2^63 (e.g. [1<<61]uint64), which the "
        "compiler rejects, are out of scope — gotypes computes in int/int64 and would wrap there; Index arguments are "
        "generated over the whole int range",
        "a promoted field of an embedded struct is not a component name for go vet (x_inner, not x_T_inner is unknown): "
        "Field(promoted) is an error in avo and in the model",
        "the asmdecl layout (names, offsets, sizes, argument size) is the toolchain's truth for assembly functions; it is "
        "re-measured on every run with go vet, reflect and execution on a sample",
        "Component.Dereference echoes whatever register it is given (also non-64-bit and vector registers, which cannot hold a "
        "pointer; a nil register is not generated)",
        "histories (c07h): which MOV Load/Store select is C08's subject; the model has only the rows the histories reach "
        "(integer/bool/pointer component with a general-purpose register of the component's size, float with XMM; "
        "Dereference of integers narrower than 8 bytes is not generated); straight-line segments: a component returned "
        "by Dereference is used only until the next label or function (a label may be a jump target, so the acceptor "
        "demands the load after the last label); components are not carried from one function into the next",
    ]
    ctx.trusted += [
        "go/types SizesFor(gc, amd64), cmd/compile (reflect type data, ABI0 frame layout), go vet asmdecl and the host CPU as oracles",
        "Drv/C07 request parsing, asmText rendering and the harness's encoders/decoders (exercised by the mutation self-test)",
        "measured part (c07x): the verdicts of go vet and of the executed program are counted in Go and passed through the "
        "trivial acceptor accept-count; names are made unambiguous for vet's flat naming scheme first (named variables "
        "become p<i>/r<i>, unnamed ones keep the default names arg<i>/ret<i>; `_` inside field names and non-ASCII letters "
        "are removed, at most one blank field per struct), so vet never sees colliding flattened names or blank "
        "variables; Lean's asmComponents is not compared with vet's variable table directly but through the absence of "
        "diagnostics on addresses the model agrees with",
        "histories (c07h): the harness reads the node lists of every function of the Context's file after each call and "
        "names a virtual register by the call that first showed it; the register a component returned by Dereference is "
        "based on is observed by resolving a scalar of the pointee (a pointee without any scalar is not observable); the "
        "basic type in accept-hresolve lines is Resolve's (the emitted instruction does not carry it)",
        "build.Package/Implement (packages.Load of a package on disk) are called on three small families per run (c07x); "
        "the bulk of the signatures goes through LookupSignature / ParseSignatureInPackage on packages type-checked in memory",
    ]
