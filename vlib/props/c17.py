"""C17 — generation is deterministic."""
import json
import os

# c17.go needs only the shared core (newFgen is in prog.go): no other property's Go file can break this check
FILES = ["c17.go", "c17dirty.go", "gen_mapranges.go", "gen_globals.go"]

PROPS = ["AvoVerif.Props.C17", "AvoVerif.Props.C17Tables", "AvoVerif.Props.C17Pipeline", "AvoVerif.Props.C17History", "AvoVerif.Props.C02"]


def run(ctx):
    if not ctx.build_harness(FILES):
        return
    ctx.regen([("Gen/Regs", "Regs"), ("Gen/MapRanges", "MapRanges"), ("Gen/Globals", "Globals")])
    ctx.forbidden_scan()
    if not ctx.build_driver():
        return
    if ctx.lake_each(PROPS):
        ctx.audit("C17")
    if ctx.tier == "thorough":
        ctx.leanchecker(["AvoVerif.Props.C17", "AvoVerif.Props.C17Tables", "AvoVerif.Props.C17Pipeline", "AvoVerif.Props.C17History"])
    if ctx.tier == "quick":
        n, nctx, runs, procs, nhist = 200, 400, 16, 4, 400
    else:
        n, nctx, runs, procs, nhist = 2000, 4000, 40, 10, 6000
    dump = os.path.join(ctx.dir, "differing-outputs")
    nt = lambda req, resp: ((req.startswith("accept-det") and " err:" not in req and " panic" not in req)
                            or (req.startswith("allochist") and "ok " in resp)
                            or (req.startswith("accept-order") and " err" not in req and " panic" not in req))
    ctx.run_corpus("c17", nontrivial=nt)
    ctx.differential("c17", n, extra=["-nctx", str(nctx), "-runs", str(runs), "-procs", str(procs), "-nhist", str(nhist), "-dump", dump],
                     nontrivial=nt)
    # floors: a generator or a compile step that silently drops cases must not pass as "nothing differed"
    try:
        st = json.load(open(os.path.join(ctx.dir, "c17.stats.json")))
    except Exception:
        st = None
    if st is not None and not ctx.replay:
        floors = [("f_compiled", 0.6 * n), ("c_compiled", 0.5 * nctx), ("c_compiled_ge2_includes", 0.25 * nctx),
                  ("c_compiled_ge2_funcs", 0.25 * nctx), ("c_compiled_with_data", 0.25 * nctx),
                  ("c_compiled_with_constraints", 0.15 * nctx), ("c_compiled_ge3_isa", 0.3 * nctx),
                  # copy webs (one virtual copied from/to several others on different control-flow paths)
                  ("c_compiled_with_copyweb_merge", 0.25 * nctx), ("c_compiled_ge2_copywebs", 0.1 * nctx),
                  ("c_copyweb_vector", 0.03 * nctx), ("c_copyweb_physical_source", 0.03 * nctx),
                  ("isa_lists", 0.5 * (n + nctx))]
        # history in the process: the dirtying between the compared generations and the allocator histories must
        # really have happened, in every category (otherwise "nothing differed" means nothing)
        nb = 0.45 * (n + nctx) * runs
        floors += [("dirty_batches", nb), ("dirty_allocators", nb), ("dirty_newallocator_list", 0.2 * nb),
                   ("dirty_setpriority_k1", nb), ("dirty_setpriority_k2", nb), ("dirty_setpriority_k3", nb),
                   ("dirty_allocate_ok", 0.5 * nb), ("dirty_family_accessor_calls", 0.5 * nb),
                   ("dirty_accessor_slices_mutated", 2 * nb), ("dirty_accessor_methods", 5),
                   ("dirty_printer_runs", 0.05 * nb), ("dirty_collections", 0.2 * nb), ("dirty_globalctx_functions", 0.1 * nb),
                   ("hist_lines", nhist), ("hist_new_after_prio_same_kind", 0.3 * nhist), ("hist_ge2_allocators", 0.5 * nhist),
                   ("hist_allocate_ok", nhist), ("order_lines", 3 * (1 + 2 * procs))]
        low = [f"{k}={st.get(k, 0)} < {int(v)}" for k, v in floors if st.get(k, 0) < v]
        if st.get("runs_per_program", 0) != runs + procs:
            low.append(f"runs_per_program={st.get('runs_per_program')} != {runs + procs}")
        if low:
            ctx.obligation_failures.append(("c17: sample floors", "too few judged cases: " + "; ".join(low)))
    ctx.coverage["rule"] = (
        f"two streams, every program generated from scratch for every run: (f) {n} ir-level two-function programs biased to ties "
        f"(equal priorities, equally restricted virtuals, several register classes, many ISAs) compiled with pass.Compile and both printers; "
        f"(c) {nctx} files built through build.Context — alternately the methods of a fresh context and the package-level functions on a "
        f"swapped-in fresh global context — with 1–3 functions, 7 signature shapes, Param/Load/Store of components, data sections "
        f"(GLOBL/DATA/ConstData, all constant types), constraints, docs, pragmas, comments, labels, locals, 0–3 extra #include lines, "
        f"register pressure up to allocation failure, COPY WEBS (0-4 per function: one virtual register copied from 2-4 others — "
        f"virtual or physical, 64/32-bit GP, XMM, opmask — on the arms of a compare-and-branch switch, or to several others, or "
        f"loop-carried; the sources are older, mutually live at the dispatch and dead after their copy, so every source's register is "
        f"a candidate for the merged one: the shape coalescing / affinity heuristics key on), run through build.Main [include pass, pass.Compile, Output(goasm), Output(stubs)]. "
        f"Each program is generated {runs} times in this process (other generations interleaved every 5th run) and once in each of "
        f"{procs} fresh processes (fresh map hash seeds; even children generate the programs forwards, odd ones backwards, routes "
        f"alternate); the digest asm bytes . stub bytes . (Allocation, ISA, LocalSize) — or the error text — must be identical in all "
        f"{runs + procs} runs; the ISA list of every compiled function is compared with the model; floors on the number of compiled "
        f"programs per shape are obligations. non-trivial = compiled successfully. "
        f"HISTORY IN THE PROCESS: before every second in-process run, and before every generation in the children 1..{procs - 1} "
        f"(child 0 stays a clean reference process), one batch of unrelated work through the public API (c17Dirty): 1-3 throw-away "
        f"allocators of a random kind (NewAllocatorForKind, or NewAllocator on a shuffled part of the family) with random SetPriority "
        f"(also a complete re-ranking) / Add / AddInterference / Allocate; every exported niladic method returning a slice or map — "
        f"found by reflection on the register families and on a compiled throw-away file, its functions, instructions, signature — "
        f"called and the result reversed / overwritten / cleared (also beyond its length) by the caller; both printers with another "
        f"Config on another file; Collections; functions built on the REAL package-level context. (h) {nhist} generated histories of "
        f"5-45 public allocator calls over 1-6 interleaved allocators of kinds 0-4 played on the real code in the dirtied process and "
        f"compared exactly with the process model (allochist); accept-order: the register assignment of the clique program of each kind "
        f"on a new allocator, in the fresh child and in the dirty processes (parent after every 64 programs and at the end, every child "
        f"at start and end). Floors on every category of dirtying are obligations")
    ctx.coverage["state_census"] = ("Gen.Globals (go/ssa, field-based may-point-into analysis over the same packages): for every package-level "
                                    "variable the ways in which memory reachable from it is written, appended to, handed to a function without a "
                                    "body in these packages, or returned as a slice/map by an exported function, in functions that can run after "
                                    "initialisation; obligation globals_expected = every (variable, event) is a read by the standard library, a "
                                    "user callback, the package-level build context / CLI flags (state by design), or one of the listed rows "
                                    "with its reason; no_variation_sources = no clock / random / environment / pid function is called")
    ctx.coverage["map_census"] = ("Gen.MapRanges (go/types over reg ir pass printer build gotypes buildtags attr operand x86 internal/prnt "
                                  "internal/stack src): range over map, maps.Keys/Values/All (not directly under slices.Sorted*), reflect "
                                  "MapKeys/MapRange/Seq, sync.Map.Range; obligation mapIterTypes_known = every (package, underlying map type) "
                                  "enumerated is one with an order-independence theorem; mapIterShapes_known = every way in which an order leaves a "
                                  "loop (first-match return, break, append, last-writer assignment, call, closure — syntactic flags per range "
                                  "body) is one some known loop over that (package, map type) already has, with its theorem; loops that only do "
                                  "keyed writes / commutative accumulation / all-or-nothing tests carry no flag; sites are informational")
    ctx.assumptions += [
        "PROVED about the models: generation_deterministic (Props/C17Pipeline) — liveness, interference edges, per-kind allocation, merge, ISA "
        "list and any function of (allocation lookup, ISA list) are independent of the enumeration order of every modelled map, for every "
        "dynamic occurrence separately; the models are tied to the code by the differentials of C01/C02/C03 (allocator, liveness) and by the "
        "`isa` lines here",
        "MEASURED only (repeated runs, fresh processes): that nothing outside the enumerated map iterations is nondeterministic — printers, "
        "go/format of the stubs, build.Context, gotypes, buildtags, time/environment/pointer-order dependence; a source of nondeterminism "
        "that is not a map enumeration (e.g. sort.Slice with a non-total order, %p, time.Now, os.Environ, goroutines) is invisible to the "
        "census and is caught only if one of the generated programs exhibits it within the runs",
        "the identity of the error returned by AllocateRegisters when allocators of two kinds fail differently depends on map order in the "
        "code (first failing kind in `range as`); both messages that can occur through pass.Compile are identical ('failed to allocate "
        "registers'), the model theorem therefore identifies all errors",
        "a new loop over a map type that the same package already enumerates is reported by the census only when it lets the order "
        "out in a way (flag) no known loop over that type does; a new loop with the flags of a known one (e.g. another append-then-"
        "sort, another running minimum — possibly without the tie-break) is covered only by the measurement",
        "the package-level route runs on a fresh context swapped in through the verif hook build.VerifSwapContext; reuse of the one real "
        "global context for several build.Generate calls is not the same program twice and is out of scope",
        "printer.Config.Argv/Name are fixed by the harness: output that embeds the real command line differs between invocations by design",
    ]
    ctx.assumptions += [
        "PROVED about the process model (Props/C17History): a new allocator is the same object after any history "
        "(new_allocator_history_independent), operations on other allocators are invisible (run_proj, run_answers), the operations "
        "of AllocateRegisters on a new allocator answer allocKind (compileObj_eq_allocKind), hence the allocation of a function after "
        "any history with any interleaving is allocKind tbl is kind (compile_after_any_history); the model is tied to the code by the "
        "allochist lines (exact), which do not use an allocator after its Allocate",
        "the state census trusts: the list of standard-library functions that only read their arguments (C17Tables.purePkgs, "
        "readOnlyExterns), that go/types' Sizes.Offsetsof returns a fresh slice, and its own call resolution (static callees, every "
        "implementation declared in the analysed packages for interface calls, address-taken functions of identical signature for "
        "function values); reflection, unsafe and cgo are not followed; state kept in packages outside the generation path is not seen",
        "ir.Instruction.ISA and .Suffixes alias rows of package-level tables of x86 (rows `returns` of the census): no code of the "
        "generation path writes them (proved by the census obligation), but a USER who overwrites them in place changes every later "
        "generation in the process; exported struct fields are not mutated by the harness (only results of exported methods are)",
    ]
    ctx.trusted.append("C17: the digest comparison (sha256, truncated to 40 bits per part) and the per-run regeneration are harness glue; "
                       "the Lean acceptor only compares the digests and rejects panics")
