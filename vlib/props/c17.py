"""C17 — generation is deterministic."""
from . import c01

FILES = c01.FILES + ["c17.go", "gen_mapranges.go"]

def run(ctx):
    if not ctx.build_harness(FILES):
        return
    ctx.regen([("Gen/Regs", "Regs"), ("Gen/MapRanges", "MapRanges")])
    ctx.forbidden_scan()
    if not ctx.build_driver():
        return
    if ctx.lake_each(["AvoVerif.Props.C17", "AvoVerif.Props.C17Tables", "AvoVerif.Props.C02"]):
        ctx.audit("C17")
    if ctx.tier == "thorough":
        ctx.leanchecker(["AvoVerif.Props.C17", "AvoVerif.Props.C17Tables"])
    if ctx.tier == "quick":
        n, runs, procs = 300, 20, 4
    else:
        n, runs, procs = 3000, 100, 16
    ctx.differential("c17", n, extra=["-runs", str(runs), "-procs", str(procs)],
                     nontrivial=lambda req, resp: " err:" not in req)
    ctx.coverage["rule"] = (f"{n} generated two-function programs biased to ties (equal priorities, equally restricted virtuals, several "
                            f"register classes, many ISAs), each generated and compiled from scratch {runs} times in one process and once in "
                            f"each of {procs} fresh processes (fresh map hash seeds); digest of asm bytes + stub bytes + Allocation + ISA lists "
                            "must be identical; non-trivial = compiled successfully")
    ctx.assumptions += ["every enumerated map iteration has an order-independence theorem about the models; that no other source of nondeterminism exists (e.g. in printers or go/format) is measured by the repeated runs"]
