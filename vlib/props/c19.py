"""C19 — attribute flags print to an expression with the same numeric value."""

MODS = ["AvoVerif.Props.C19", "AvoVerif.Props.C19Tables", "AvoVerif.Props.C19File", "AvoVerif.Props.C19FileTables"]


def floors(ctx, sub, spec):
    """Lower bounds on what the file-level streams actually judged per class (and upper bounds on what they dropped):
    the coverage of prior include lists x sections cannot silently rot."""
    st = ctx.coverage.get("input_distribution", {}).get(sub)
    if st is None:
        return  # the stream did not run: already an obligation failure
    bad = []
    for key, (lo, hi) in spec.items():
        v = st.get(key, 0)
        if lo is not None and v < lo:
            bad.append(f"{key}={v} < {int(lo)}")
        if hi is not None and v > hi:
            bad.append(f"{key}={v} > {int(hi)}")
    ctx.obligations += 1
    if bad:
        ctx.obligation_failures.append((f"{sub}: sample floor", "; ".join(bad)))
    else:
        ctx.discharged += 1


def run(ctx):
    if not ctx.build_harness(['c19.go', 'c19file.go']):
        return
    ctx.regen([("Gen/TextFlags", "TextFlags"), ("Oracle/TextFlagH", "TextFlagH")])
    ctx.forbidden_scan()
    # the driver (model + acceptor) must build even when a table theorem breaks
    if not ctx.build_driver():
        return
    if ctx.lake_each(MODS):
        ctx.audit("C19")
    if ctx.tier == "thorough":
        ctx.leanchecker(MODS)
    quick = ctx.tier == "quick"
    n = 2000 if quick else 50000
    nasm = 150 if quick else 4000
    if not ctx.replay:
        # hand-picked files (corpus/C19/*.txt): near misses of the header's name in front of sections that need it
        ctx.run_corpus("c19")
    ctx.differential("c19", n, extra=["-work", ctx.dir, "-nasm", str(nasm)],
                     nontrivial=lambda req, resp: not req.endswith(" 0"))
    if not ctx.replay:
        nctx = n // 4
        spec = {
            # hand-built files, the pass called directly (twice), real printer
            "ir_files": (n, None), "ir_second_runs": (n * 0.99, None), "ir_files_judged": (n * 0.95, None),
            "ir_lists_none": (n / 30, None), "ir_lists_exact_only": (n / 30, None),
            "ir_lists_nearmiss_only": (n / 8, None), "ir_lists_nearmiss_and_exact": (n / 15, None),
            "ir_lists_ordinary_only": (n / 20, None), "ir_lists_many": (n / 40, None),
            "ir_lists_duplicate_exact": (n / 60, None), "ir_lists_with_empty_string": (n / 40, None),
            "ir_need_and_nearmiss_only": (n / 12, None), "ir_noneed_and_nearmiss_only": (n / 40, None),
            "ir_need_and_exact": (n / 10, None), "ir_need_and_none": (n / 50, None),
            "ir_need_only_first_section": (n / 30, None), "ir_need_only_last_section": (n / 30, None),
            "ir_need_only_globals": (n / 15, None), "ir_need_only_functions": (n / 15, None),
            "ir_no_sections": (n / 50, None),
            # build.Context -> pass.Compile -> printer
            "ctx_files": (nctx, None), "ctx_compiled": (nctx, None), "ctx_files_judged": (nctx, None),
            "ctx_build_error": (None, 0), "ctx_compile_error": (None, 0), "ctx_compile_panic": (None, 0),
            "ctx_need_and_nearmiss_only": (nctx / 20, None), "ctx_noneed_and_nearmiss_only": (nctx / 50, None),
            "ctx_need_and_exact": (nctx / 10, None), "ctx_lists_none": (nctx / 40, None),
            # assembled by go tool asm
            "asm_files": (nasm, None), "asm_compiled": (nasm, None), "asm_accepted": (nasm * 0.9, None),
            "asm_build_error": (None, 0), "asm_compile_error": (None, 0), "asm_compile_panic": (None, 0),
            "asm_skipped_unsafe_path": (None, nasm / 20), "asm_skipped_fs": (None, nasm / 20),
            "asm_need_and_nearmiss_only": (nasm / 5, None), "asm_need_and_exact": (nasm / 15, None),
            "asm_noneed_and_nearmiss_only": (nasm / 40, None), "asm_sections_named": (nasm / 2, None),
        }
        for c in ("suffix", "dir", "prefix", "superstring", "case", "substring", "blank", "dotpath", "typo", "unicode", "doubled"):
            spec["near_" + c] = (n / 20, None)
        floors(ctx, "c19", spec)
    ctx.coverage["exhaustive"] = True
    ctx.coverage["rule"] = (
        "all 65536 attribute values through Attribute.Asm/ContainsTextFlags and the TEXT-clause rule (exact model comparison + "
        "acceptor evaluating the implementation's text with the installed textflag.h). FILE LEVEL, over prior include lists "
        "(none; exactly \"textflag.h\"; near misses of the name built by mutation operators — suffix, directory prefix, prefix, "
        "superstring, other case, substring, blanks, ./ ../ / spellings, typos, non-ASCII look-alikes, doubled —; ordinary headers; "
        "the empty string; 9..40 entries; duplicate entries; the header first/last/anywhere) x sections (none; zero attributes; "
        "only unnamed bits; named flags; exactly one needing section first/last/anywhere; functions, static and package-level "
        "globals; random words), three routes: `ir` = hand-built ir.File, pass.IncludeTextFlagHeader called directly and then "
        "once more on its own output (`inclpass`, exact list equality with the model; `accept-incl`), real printer, `accept-file` "
        "= Lean acceptor acceptFile on the include lines and clauses READ FROM THE PRINTED TEXT (each clause evaluated in the macro "
        "environment of exactly those include lines); `ctx` = build.Context -> Result -> user includes appended -> pass.Compile "
        "(the pass at its place in the pipeline) -> printer, same two requests; `asm` = such a file assembled by go tool asm -S "
        "with -I $GOROOT/pkg/include -I <scratch dir with generated user headers that define no flag macro>, one DATA probe per "
        "clause appended so that the ASSEMBLER evaluates the printed expression in the file's own include environment "
        "(`accept-asmfile`: accepted, every probe value = attribute value, symbol DUPOK flag = bit 2). Sample floors per class "
        "(vlib/props/c19.py) are obligations. non-trivial = value != 0")
    ctx.assumptions += ["world hypothesis of the file theorems (Props/C19File.World): `#include \"textflag.h\"` resolves to the installed "
                        "header and no OTHER included file defines one of avo's flag names (a user header that does is the user's "
                        "conflict: the assembler rejects the redefinition)",
                        "an include path names the toolchain header only by its exact spelling; spellings that the file system "
                        "resolves to the same file (./textflag.h) are other strings to avo and to the model alike",
                        "`A|B|n` is evaluated as bitwise OR of macro values and decimal literals: MEASURED for the sampled files by "
                        "the DATA probes of the asm route, assumed for the 65536-value sweep",
                        "a TEXT line without clause has flags 0 (the asm route reports 0 for it unmeasured; C11 measures the flags of "
                        "TEXT symbols that the -S listing shows)",
                        "textflag.h of `go env GOROOT` is the header the assembler includes"]
    ctx.trusted.append("Oracle.textflagH is parsed from $(go env GOROOT)/pkg/include/textflag.h on every run")
    ctx.trusted.append("harness/c19file.go: reading the include lines and the TEXT/GLOBL clauses back from the printed text, the "
                       "classification of generated cases for the floors, parsing of the go tool asm -S listing: glue")
