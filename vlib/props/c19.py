"""C19 — attribute flags print to an expression with the same numeric value."""

def run(ctx):
    if not ctx.build_harness(['c19.go']):
        return
    ctx.regen([("Gen/TextFlags", "TextFlags"), ("Oracle/TextFlagH", "TextFlagH")])
    ctx.forbidden_scan()
    # the driver (model + acceptor) must build even when a table theorem breaks
    if not ctx.build_driver():
        return
    if ctx.lake_each(["AvoVerif.Props.C19", "AvoVerif.Props.C19Tables"]):
        ctx.audit("C19")
    if ctx.tier == "thorough":
        ctx.leanchecker(["AvoVerif.Props.C19", "AvoVerif.Props.C19Tables"])
    n = 2000 if ctx.tier == "quick" else 50000
    ctx.differential("c19", n, nontrivial=lambda req, resp: not req.endswith(" 0"))
    ctx.coverage["exhaustive"] = True
    ctx.coverage["rule"] = ("all 65536 attribute values through Attribute.Asm/ContainsTextFlags and the TEXT-clause rule "
                            "(exact model comparison + acceptor evaluating the implementation's text with the installed "
                            "textflag.h), plus generated files through pass.IncludeTextFlagHeader; non-trivial = value != 0")
    ctx.assumptions += ["the assembler evaluates `A|B|n` as bitwise OR of macro values and decimal literals",
                        "textflag.h of `go env GOROOT` is the header the assembler includes"]
    ctx.trusted.append("Oracle.textflagH is parsed from $(go env GOROOT)/pkg/include/textflag.h on every run")
