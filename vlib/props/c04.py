"""C04 — declared reads/writes of every instruction form cover what the CPU does (proof-partial).

Proved (Lean): the judgement `covers`/`judge` answered by drv_c04 is the lane-wise inclusion
(observed ⊆ declared), composed with the use/def specification of C02; structural facts of the
regenerated form table (`decide +kernel` over all 12 025 rows).
Measured (host CPU): the observed read/write sets of every executable form instance."""
import json, os
from vlib import core
from vlib.modules import REGS, formactions_modules


def run(ctx):
    ctx.level = "proof"  # the evidence schema knows "proof" only: the partiality is stated in coverage["proof_partial"]
    ctx.coverage["claim"] = ("proof-partial: judgement and table structure proved in Lean; agreement of the table with the "
                             "processor measured on the host CPU")
    ctx.coverage["proof_partial"] = (
        "PROVED for all inputs: the judgement (`covers_sound`, `judge_iff`, `mem_undeclared`), the model of form.build + "
        "InputRegisters/OutputRegisters + ZeroExtend32BitOutputs yields exactly specReads/specWrites of the row's actions "
        "(`declared_eq_spec`, tied to the real code by the exact `usedef` comparison on every measured instance), and the "
        "structural facts of all regenerated table rows (`decide +kernel`). NOT PROVED, measured on the host CPU: that the "
        "per-operand actions of the table agree with what the processor reads and writes (there is no ISA model in Lean).")
    if not ctx.build_harness(['c04.go', 'c04gen.go']):
        return
    ctx.regen([REGS] + formactions_modules())
    ctx.forbidden_scan()
    if not ctx.build_driver():
        return
    shards = [f"AvoVerif.Props.C04S{i}" for i in range(8)]
    if ctx.lake_each(["AvoVerif.Props.C04", "AvoVerif.Props.C04Build"] + shards + ["AvoVerif.Props.C04Tables"]):
        ctx.audit("C04")
    if ctx.tier == "thorough":
        ctx.leanchecker(["AvoVerif.Props.C04", "AvoVerif.Props.C04Build", "AvoVerif.Props.C04Tables"])

    quick = ctx.tier == "quick"
    states = 8 if quick else 128
    choices = 3 if quick else 5
    extra = ["-work", ctx.dir, "-jobs", str(os.cpu_count() or 8), "-states", str(states), "-choices", str(choices)]
    if not quick:
        extra.append("-allsfx")
    # n = 0: every executable form row (the whole table takes ~20 s at 8 states)
    nt = lambda req, resp: req.startswith("accept-rw ") and " O 0 0" not in req
    ctx.run_corpus("c04", nontrivial=nt, max_report=10 ** 7)
    ctx.differential("c04", 0, extra=extra, nontrivial=nt, max_report=10 ** 7, timeout=3 * 3600)

    # the Lean verdict names the undeclared lanes: make it part of the key the findings are matched on
    for c in ctx.concrete:
        if c.get("sub") == "c04" and " => " not in c["key"]:
            c["key"] = c["request"] + " => " + c["model"]
    # machine states exhibiting each undeclared location (dumped by the child processes)
    try:
        wit = {w["id"]: w for w in json.load(open(os.path.join(ctx.dir, f"witnesses-{ctx.tier}.json")))}
    except Exception:
        wit = {}
    for c in ctx.concrete:
        w = wit.get(c["request"].split()[1]) if c.get("sub") == "c04" else None
        if w:
            c["instruction"] = w["asm"]
            c["witness_states"] = w["witness"]
    # per finding class: count and example (evidence)
    classes = {}
    unknown = []
    for c in ctx.concrete:
        f = ctx.match_finding(c["key"])
        if f:
            e = classes.setdefault(f["id"], {"count": 0, "example": _short(c["key"])})
            e["count"] += 1
        elif len(unknown) < 10:
            unknown.append(_short(c["key"]))
    ctx.coverage["finding_classes_seen"] = classes
    if unknown:
        ctx.coverage["unclassified_violations"] = unknown
    try:
        st = json.load(open(os.path.join(ctx.dir, "c04.stats.json")))
    except Exception:
        st = {}
    cnt = st.get("counts", {})
    ctx.coverage["measurement"] = {
        "forms_in_table": cnt.get("forms_in_table"),
        "forms_executable": cnt.get("forms_eligible"),
        "instances_measured": cnt.get("measured"),
        "cpu_runs": cnt.get("cpu_runs"),
        "states_per_instance": states, "register_choices_per_form": choices,
        "skipped_isa_forms": st.get("skipped_isa_forms"),
        "denied_opcode_forms": st.get("denied_opcode_forms"),
        "denied_reasons": sorted(set((st.get("denied_reason") or {}).values())),
        "not_built": st.get("not_built"),
        "asm_rejected_by_opcode": st.get("asm_rejected"),
        "asm_rejected_examples": (st.get("asm_rejected_examples") or [])[:8],
        "crashed": st.get("crashed"),
        "crashed_examples": (st.get("crashed_examples") or [])[:12],
        "nondeterministic_opcodes": st.get("nondeterministic_opcode"),
        "instances_reading_flags": cnt.get("flags_read_instances"),
        "instances_writing_flags": cnt.get("flags_written_instances"),
        "instances_writing_memory": cnt.get("memory_written_instances"),
    }
    ctx.coverage["input_distribution"]["c04"] = {"measured_by_class": st.get("measured_by_class"), "counts": cnt}
    _floors(ctx, st, cnt, quick)
    ctx.coverage["rule"] = (
        "every form row whose ISA extensions the host CPU reports (/proc/cpuinfo), minus an explicit deny-list, instantiated "
        f"through the real x86 build with {choices} register choices (low registers; R8+/X8+/X16+ and indexed memory; the same "
        "register twice and AH..BH; random)" + ("" if quick else " and every suffix set of its suffix class") +
        f"; printed by the real avo printer, assembled by the Go assembler, executed from {states} randomised full register "
        "states (15 GP, RFLAGS, K0-K7, Z0-Z31, 12 KiB scratch memory) in child processes. observed writes = lanes that differ "
        "from the input in some run; observed reads = registers whose lane-wise perturbation (60 GP lanes, 96 vector lane "
        "groups, 8 opmask registers per state) changes another register, the flags, memory, or one of their own lanes that the "
        "instruction can write. Judged by the Lean function `judge` against InputRegisters/OutputRegisters after "
        "ZeroExtend32BitOutputs; the same declared sets are compared exactly with specReads/specWrites (`usedef`).")
    ctx.assumptions += [
        "MEASURED, not proved: the processor's behaviour is sampled on this host CPU for the generated states only; "
        "forms of ISA extensions the host lacks, denied opcodes, assembler-rejected and crashing instances are not covered (listed)",
        "RFLAGS is not a register of avo: flag reads/writes are outside the claim, but a register whose value only influences "
        "the flags counts as read",
        "address registers are perturbed only within the scratch area (low 12 bits of a base, low byte of an index): a read of "
        "their upper lanes is declared by avo but cannot be observed (e.g. XLAT declares EBX although the CPU uses RBX)",
        "a partially written lane (e.g. MOVSS x,x writing 4 of the 16 bytes of lane {0-15}) counts as a read of the register: "
        "the surviving bytes of the written lane depend on the old value",
        "instructions whose results are architecturally undefined are reported as this CPU behaves (BSF/BSR with a zero source "
        "leave the destination unchanged)",
        "the Go assembler's encoding of the printed text is taken as is (C05 is about its faithfulness)",
        "NOT EXECUTED (deny-list): every form with a rel8/rel32 operand, JMP/CALL/RET/RETF*, INT/SYSCALL/UD2, PUSH*/POP*, "
        "(V)LDMXCSR. Their rows are constrained only by table theorems (`denied_rows_declare_their_operands`: JCXZL/JCXZQ read "
        "implicit ECX/RCX, PUSH reads and POP writes its operand, indirect JMP reads its operand, SYSCALL writes RCX and R11, "
        "relative operands carry no action); RSP is outside avo's register model (no form declares it) and is not judged",
        "operand shapes never generated: memory operands without base, symbol/pseudo-register memory operands, SP as an "
        "operand, virtual registers (the judgement is about physical instances), K0 as an explicit operand",
        "nondeterministic instructions (RDTSC, RDRAND, CPUID after migration …): every register they write is excluded from "
        "read detection for that instance; a spurious event (interrupt-visible state) would be silent there",
        "the finding regexes C04-COND32 / C04-CMPXCHG encode THIS CPU's behaviour for architecturally undefined results "
        "(BSF/BSR of zero leave the destination unchanged)",
    ]
    ctx.trusted += [
        "c04child/runner.go.txt + tramp_amd64.s.txt: state load/capture around the instruction, perturbation and difference logic",
        "Linux delivers signals without disturbing the captured register state; GODEBUG=asyncpreemptoff=1 in the children",
        "harness/formsdb.go: operand type / implicit register names resolved from the enum blocks of the x86 package sources "
        "(any file of /repo/x86); feature and action bits come in a fixed layout from the verif hook",
        "c04MatchedForm re-implements the first-match rule of x86.build to know which row was selected (cross-checked: the "
        "exact `usedef` comparison fails if a different row's actions were used)",
    ]


def _floors(ctx, st, cnt, quick):
    """Lower bounds on what was judged and ceilings on what was dropped: a generator, assembler or runner change that
    silently shrinks the measurement is a broken obligation, not a statistic."""
    bad = lambda name, detail: ctx.obligation_failures.append((name, detail))
    if ctx.replay:
        return
    if st.get("host_unsupported"):
        ctx.notes.append("host CPU lacks AVX-512 (the trampoline loads Z0-Z31/K0-K7): nothing measured on this host")
        ctx.assumptions.append("NOT MEASURED on this host: " + str(st.get("host_unsupported")))
        return
    if not st or not cnt.get("measured"):
        return bad("c04 measurement", "no instance was measured")
    req, built, meas = cnt.get("instances_requested", 0), cnt.get("instances_built", 0), cnt.get("measured", 0)
    ctx.coverage["floors"] = fl = {}
    def ceil(name, value, limit, what):
        fl[name] = {"value": value, "limit": limit}
        if value > limit:
            bad("c04 " + name, f"{what}: {value} > {limit}")
    def floor(name, value, limit, what):
        fl[name] = {"value": value, "limit": limit}
        if value < limit:
            bad("c04 " + name, f"{what}: {value} < {limit}")
    floor("eligible_rows", cnt.get("forms_eligible", 0), int(0.5 * cnt.get("forms_in_table", 0)) if _host_avx512(st) else 0,
          "form rows executable on this host")
    floor("built_instances", built, int(0.99 * req), "instances accepted by the real build + compile pipeline")
    floor("measured_instances", meas, int(0.97 * req), "instances judged (accept-rw lines)")
    ceil("asm_rejected_instances", cnt.get("asm_rejected_instances", 0), max(20, req // 200),
         "instances avo printed and the Go assembler rejected (not judged)")
    by = st.get("rows_unmeasured_by_reason") or {}
    other = sum(v for k, v in by.items() if k != "crashed: SIGILL")
    ceil("rows_unmeasured_other_than_SIGILL", other, 5, "eligible form rows without one judged instance " + str(by))
    ceil("rows_unmeasured_SIGILL", by.get("crashed: SIGILL", 0), 130,
         "eligible form rows all of whose instances raise #UD (extent of finding C04-Z-MEMDST is 111)")
    unk = sum((st.get("unknown_isa_forms") or {}).values())
    ceil("rows_of_unknown_isa", unk, cnt.get("forms_in_table", 0) // 50, "rows whose ISA name has no cpuinfo flag in c04ISAFlag "
         + str(st.get("unknown_isa_forms")))
    # declared reads that no instance exhibited: there a missing declaration would go unnoticed.  What remains on the
    # unchanged table are over-declarations (VBLENDM* destinations and second sources, index operands of broadcast
    # VPERM*, immediates selecting a constant function) and a few data-dependent stragglers.
    ceil("declared_read_positions_unobserved", cnt.get("declared_read_positions_unobserved", 0), 260 if quick else 220,
         "(form, operand) positions declared read whose read was never observed")
    ceil("declared_write_positions_unobserved", cnt.get("declared_write_positions_unobserved", 0), 10,
         "(form, operand) positions declared written whose write was never observed")
    floor("declared_read_positions", cnt.get("declared_read_positions", 0), 20000 if _host_avx512(st) else 0,
          "(form, register operand) positions with a declared read that were judged")
    ctx.coverage["declared_reads_never_observed"] = (st.get("declared_reads_never_observed") or [])[:400]
    ctx.coverage["declared_writes_never_observed"] = (st.get("declared_writes_never_observed") or [])[:50]
    ctx.coverage["rows_unmeasured"] = {"by_reason": by, "examples": (st.get("rows_unmeasured_examples") or [])[:12]}


def _host_avx512(st):
    return not (st.get("skipped_isa_forms") or {}).get("AVX512F")


def _short(key):
    req, _, verdict = key.partition(" => ")
    t = req.split()
    return " ".join(t[1:6]) + " => " + verdict
