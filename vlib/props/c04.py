"""C04 — declared reads/writes of every instruction form cover what the CPU does (proof-partial).

Proved (Lean): the judgement `covers`/`judge` answered by drv_c04 is the lane-wise inclusion
(observed ⊆ declared), composed with the use/def specification of C02; structural facts of the
regenerated form table (`decide +kernel` over all 12 025 rows).
Measured (host CPU): the observed read/write sets of every executable form instance."""
import json, os
from vlib import core
from vlib.modules import REGS, formactions_modules


def run(ctx):
    ctx.level = "proof"  # the evidence schema knows "proof" only: the partiality is stated in coverage["proof_partial"]
    ctx.coverage["claim"] = ("proof-partial: judgement and table structure proved in Lean; agreement of the table with the "
                             "processor measured on the host CPU")
    ctx.coverage["proof_partial"] = (
        "PROVED for all inputs: the judgement (`covers_sound`, `judge_iff`, `mem_undeclared`), the model of form.build + "
        "InputRegisters/OutputRegisters + ZeroExtend32BitOutputs yields exactly specReads/specWrites of the row's actions "
        "(`declared_eq_spec`, tied to the real code by the exact `usedef` comparison on every measured instance), the declared "
        "sets are, lane by lane, the union over ALL entries of the row (implicit ones included) of the registers of the operand "
        "each entry is paired with, per its action, whatever registers coincide between entries (`assign_positions`, "
        "`declaredWrites_lanes_union`, `declaredReads_lanes_union`, `implicit_write_declared`, `implicit_read_declared`; "
        "acceptor `acceptDecl` with `acceptDecl_sound`, `model_accepted`, driven on every alias plan of every row), and the "
        "structural facts of all regenerated table rows (`decide +kernel`). NOT PROVED, measured on the host CPU: that the "
        "per-operand actions of the table agree with what the processor reads and writes (there is no ISA model in Lean).")
    if not ctx.build_harness(['c04.go', 'c04gen.go', 'c04alias.go']):
        return
    ctx.regen([REGS] + formactions_modules())
    ctx.forbidden_scan()
    if not ctx.build_driver():
        return
    shards = [f"AvoVerif.Props.C04S{i}" for i in range(8)]
    if ctx.lake_each(["AvoVerif.Props.C04", "AvoVerif.Props.C04Build", "AvoVerif.Props.C04Alias"] + shards + ["AvoVerif.Props.C04Tables"]):
        ctx.audit("C04")
    if ctx.tier == "thorough":
        ctx.leanchecker(["AvoVerif.Props.C04", "AvoVerif.Props.C04Build", "AvoVerif.Props.C04Alias", "AvoVerif.Props.C04Tables"])

    quick = ctx.tier == "quick"
    states = 8 if quick else 128
    choices = 3 if quick else 5
    extra = ["-work", ctx.dir, "-jobs", str(os.cpu_count() or 8), "-states", str(states), "-choices", str(choices)]
    # alias instances among explicit operands only: executed for one row in four (quick) / every row (thorough);
    # every alias plan of every row is judged on its declared sets in both tiers (`accept-decl`)
    extra += ["-aliasevery", "4" if quick else "1"]
    if not quick:
        extra.append("-allsfx")
    # n = 0: every executable form row (the whole table takes ~20 s at 8 states)
    nt = lambda req, resp: req.startswith("accept-rw ") and " O 0 0" not in req
    ctx.run_corpus("c04", nontrivial=nt, max_report=10 ** 7)
    ctx.differential("c04", 0, extra=extra, nontrivial=nt, max_report=10 ** 7, timeout=3 * 3600)

    # the Lean verdict names the undeclared lanes: make it part of the key the findings are matched on
    for c in ctx.concrete:
        if c.get("sub") == "c04" and " => " not in c["key"]:
            c["key"] = c["request"] + " => " + c["model"]
    # machine states exhibiting each undeclared location (dumped by the child processes)
    try:
        wit = {w["id"]: w for w in json.load(open(os.path.join(ctx.dir, f"witnesses-{ctx.tier}.json")))}
    except Exception:
        wit = {}
    for c in ctx.concrete:
        w = wit.get(c["request"].split()[1]) if c.get("sub") == "c04" else None
        if w:
            c["instruction"] = w["asm"]
            c["witness_states"] = w["witness"]
    # per finding class: count and example (evidence)
    classes = {}
    unknown = []
    for c in ctx.concrete:
        f = ctx.match_finding(c["key"])
        if f:
            e = classes.setdefault(f["id"], {"count": 0, "example": _short(c["key"])})
            e["count"] += 1
        elif len(unknown) < 10:
            unknown.append(_short(c["key"]))
    ctx.coverage["finding_classes_seen"] = classes
    if unknown:
        ctx.coverage["unclassified_violations"] = unknown
    try:
        st = json.load(open(os.path.join(ctx.dir, "c04.stats.json")))
    except Exception:
        st = {}
    cnt = st.get("counts", {})
    ctx.coverage["measurement"] = {
        "forms_in_table": cnt.get("forms_in_table"),
        "forms_executable": cnt.get("forms_eligible"),
        "instances_measured": cnt.get("measured"),
        "cpu_runs": cnt.get("cpu_runs"),
        "states_per_instance": states, "register_choices_per_form": choices,
        "skipped_isa_forms": st.get("skipped_isa_forms"),
        "denied_opcode_forms": st.get("denied_opcode_forms"),
        "denied_reasons": sorted(set((st.get("denied_reason") or {}).values())),
        "not_built": st.get("not_built"),
        "asm_rejected_by_opcode": st.get("asm_rejected"),
        "asm_rejected_examples": (st.get("asm_rejected_examples") or [])[:8],
        "crashed": st.get("crashed"),
        "crashed_examples": (st.get("crashed_examples") or [])[:12],
        "nondeterministic_opcodes": st.get("nondeterministic_opcode"),
        "instances_reading_flags": cnt.get("flags_read_instances"),
        "instances_writing_flags": cnt.get("flags_written_instances"),
        "instances_writing_memory": cnt.get("memory_written_instances"),
    }
    ctx.coverage["input_distribution"]["c04"] = {"measured_by_class": st.get("measured_by_class"), "counts": cnt,
                                                 "alias": st.get("alias")}
    _floors(ctx, st, cnt, quick)
    ctx.coverage["rule"] = (
        "every form row whose ISA extensions the host CPU reports (/proc/cpuinfo), minus an explicit deny-list, instantiated "
        f"through the real x86 build with {choices} register choices (low registers; R8+/X8+/X16+ and indexed memory; the same "
        "register twice and AH..BH; random)" + ("" if quick else " and every suffix set of its suffix class") +
        f"; printed by the real avo printer, assembled by the Go assembler, executed from {states} randomised full register "
        "states (15 GP, RFLAGS, K0-K7, Z0-Z31, 12 KiB scratch memory) in child processes. observed writes = lanes that differ "
        "from the input in some run; observed reads = registers whose lane-wise perturbation (60 GP lanes, 96 vector lane "
        "groups, 8 opmask registers per state) changes another register, the flags, memory, or one of their own lanes that the "
        "instruction can write. Judged by the Lean function `judge` against InputRegisters/OutputRegisters after "
        "ZeroExtend32BitOutputs; the same declared sets are compared exactly with specReads/specWrites (`usedef`). "
        "ALIAS INSTANCES: for every row of the table (executable on this host or not) every way in which two entries of the row "
        "can be one register — explicit operand = implicit register / fixed-register operand type / other explicit operand, each "
        "in the view of its own type (r8 entries as 8L and 8H), a memory operand's base or index = a register entry, all entries "
        "of one kind at once, base = index — is built through the real pipeline and judged on the declared sets (`accept-decl`: "
        "every entry's register is declared per its action; `usedef`, `build-rw` exact); those involving an implicit or fixed "
        "register are also executed (except divisions, gathers/scatters, aliased index registers), those among explicit "
        f"operands for one row in {4 if quick else 1}.")
    ctx.assumptions += [
        "MEASURED, not proved: the processor's behaviour is sampled on this host CPU for the generated states only; "
        "forms of ISA extensions the host lacks, denied opcodes, assembler-rejected and crashing instances are not covered (listed)",
        "RFLAGS is not a register of avo: flag reads/writes are outside the claim, but a register whose value only influences "
        "the flags counts as read",
        "address registers are perturbed only within the scratch area (low 12 bits of a base, low byte of an index): a read of "
        "their upper lanes is declared by avo but cannot be observed (e.g. XLAT declares EBX although the CPU uses RBX)",
        "a partially written lane (e.g. MOVSS x,x writing 4 of the 16 bytes of lane {0-15}) counts as a read of the register: "
        "the surviving bytes of the written lane depend on the old value",
        "instructions whose results are architecturally undefined are reported as this CPU behaves (BSF/BSR with a zero source "
        "leave the destination unchanged)",
        "the Go assembler's encoding of the printed text is taken as is (C05 is about its faithfulness)",
        "NOT EXECUTED (deny-list): every form with a rel8/rel32 operand, JMP/CALL/RET/RETF*, INT/SYSCALL/UD2, PUSH*/POP*, "
        "(V)LDMXCSR. Their rows are constrained only by table theorems (`denied_rows_declare_their_operands`: JCXZL/JCXZQ read "
        "implicit ECX/RCX, PUSH reads and POP writes its operand, indirect JMP reads its operand, SYSCALL writes RCX and R11, "
        "relative operands carry no action); RSP is outside avo's register model (no form declares it) and is not judged",
        "operand shapes never generated: memory operands without base, symbol/pseudo-register memory operands, SP as an "
        "operand, virtual registers (the judgement is about physical instances), K0 as an explicit operand",
        "alias instances NOT EXECUTED (judged on their declared sets only): DIV/IDIV with the divisor in RAX/RDX (#DE), "
        "gathers/scatters with coinciding registers (#UD), a register used as index AND as another operand (the address "
        "leaves the scratch area), instances whose register would need two different state constraints; two memory "
        "operands sharing a register are not generated (no row has two explicit memory operands with registers)",
        "nondeterministic instructions (RDTSC, RDRAND, CPUID after migration …): every register they write is excluded from "
        "read detection for that instance; a spurious event (interrupt-visible state) would be silent there",
        "the finding regexes C04-COND32 / C04-CMPXCHG encode THIS CPU's behaviour for architecturally undefined results "
        "(BSF/BSR of zero leave the destination unchanged)",
    ]
    ctx.trusted += [
        "c04child/runner.go.txt + tramp_amd64.s.txt: state load/capture around the instruction, perturbation and difference logic",
        "Linux delivers signals without disturbing the captured register state; GODEBUG=asyncpreemptoff=1 in the children",
        "harness/formsdb.go: operand type / implicit register names resolved from the enum blocks of the x86 package sources "
        "(any file of /repo/x86); feature and action bits come in a fixed layout from the verif hook",
        "c04MatchedForm re-implements the first-match rule of x86.build to know which row was selected (cross-checked: the "
        "exact `usedef` comparison fails if a different row's actions were used)",
    ]


def _floors(ctx, st, cnt, quick):
    """Lower bounds on what was judged and ceilings on what was dropped: a generator, assembler or runner change that
    silently shrinks the measurement is a broken obligation, not a statistic."""
    bad = lambda name, detail: ctx.obligation_failures.append((name, detail))
    if ctx.replay:
        return
    if st.get("host_unsupported"):
        ctx.notes.append("host CPU lacks AVX-512 (the trampoline loads Z0-Z31/K0-K7): nothing measured on this host")
        ctx.assumptions.append("NOT MEASURED on this host: " + str(st.get("host_unsupported")))
        return
    if not st or not cnt.get("measured"):
        return bad("c04 measurement", "no instance was measured")
    req, built, meas = cnt.get("instances_requested", 0), cnt.get("instances_built", 0), cnt.get("measured", 0)
    ctx.coverage["floors"] = fl = {}
    def ceil(name, value, limit, what):
        fl[name] = {"value": value, "limit": limit}
        if value > limit:
            bad("c04 " + name, f"{what}: {value} > {limit}")
    def floor(name, value, limit, what):
        fl[name] = {"value": value, "limit": limit}
        if value < limit:
            bad("c04 " + name, f"{what}: {value} < {limit}")
    floor("eligible_rows", cnt.get("forms_eligible", 0), int(0.5 * cnt.get("forms_in_table", 0)) if _host_avx512(st) else 0,
          "form rows executable on this host")
    floor("built_instances", built, int(0.99 * req), "instances accepted by the real build + compile pipeline")
    floor("measured_instances", meas, int(0.97 * req), "instances judged (accept-rw lines)")
    ceil("asm_rejected_instances", cnt.get("asm_rejected_instances", 0), max(20, req // 200),
         "instances avo printed and the Go assembler rejected (not judged)")
    by = st.get("rows_unmeasured_by_reason") or {}
    other = sum(v for k, v in by.items() if k != "crashed: SIGILL")
    ceil("rows_unmeasured_other_than_SIGILL", other, 5, "eligible form rows without one judged instance " + str(by))
    ceil("rows_unmeasured_SIGILL", by.get("crashed: SIGILL", 0), 130,
         "eligible form rows all of whose instances raise #UD (extent of finding C04-Z-MEMDST is 111)")
    unk = sum((st.get("unknown_isa_forms") or {}).values())
    ceil("rows_of_unknown_isa", unk, cnt.get("forms_in_table", 0) // 50, "rows whose ISA name has no cpuinfo flag in c04ISAFlag "
         + str(st.get("unknown_isa_forms")))
    # declared reads that no instance exhibited: there a missing declaration would go unnoticed.  What remains on the
    # unchanged table are over-declarations (VBLENDM* destinations and second sources, index operands of broadcast
    # VPERM*, immediates selecting a constant function) and a few data-dependent stragglers.
    ceil("declared_read_positions_unobserved", cnt.get("declared_read_positions_unobserved", 0), 260 if quick else 220,
         "(form, operand) positions declared read whose read was never observed")
    ceil("declared_write_positions_unobserved", cnt.get("declared_write_positions_unobserved", 0), 10,
         "(form, operand) positions declared written whose write was never observed")
    floor("declared_read_positions", cnt.get("declared_read_positions", 0), 20000 if _host_avx512(st) else 0,
          "(form, register operand) positions with a declared read that were judged")
    _alias_floors(ctx, st.get("alias") or {}, floor, ceil, bad)
    ctx.coverage["declared_reads_never_observed"] = (st.get("declared_reads_never_observed") or [])[:400]
    ctx.coverage["declared_writes_never_observed"] = (st.get("declared_writes_never_observed") or [])[:50]
    ctx.coverage["rows_unmeasured"] = {"by_reason": by, "examples": (st.get("rows_unmeasured_examples") or [])[:12]}


def _alias_floors(ctx, al, floor, ceil, bad):
    """The class "several entries of a row are one register" must really have been sampled: every row in which an
    implicit register (a fixed-register operand type) can coincide with an explicit operand was judged on such an
    instance, coincidences with DIFFERING actions / different VIEWS / through memory address registers occurred in
    numbers, and the instances the host can execute were executed."""
    if not al:
        return bad("c04 alias instances", "the harness reported nothing about alias instances")
    exp, jud = al.get("rows_expected") or {}, al.get("rows_judged") or {}
    missing = al.get("rows_expected_not_judged") or {}
    for tag, least in (("impl", 40), ("fixed", 60), ("expl", 6000)):
        floor(f"alias_rows_{tag}_expected", exp.get(tag, 0), least,
              f"form rows in which an alias instance of class '{tag}' exists (table shrank, or the plan enumeration lost a class)")
        floor(f"alias_rows_{tag}_judged", jud.get(tag, 0), exp.get(tag, 0) if tag != "expl" else int(0.98 * exp.get(tag, 0)),
              f"rows of class '{tag}' with an alias instance judged on its declared sets; rows without: {(missing.get(tag) or [])[:12]}")
    req, nj = al.get("plans_requested", 0), al.get("judged", 0)
    floor("alias_judged", nj, int(0.97 * req), "alias instances accepted by the real build + compile pipeline and judged (accept-decl) "
          + str(al.get("not_built")))
    floor("alias_judged_differing_actions", al.get("judged_differing_actions", 0), 8000,
          "judged alias instances whose coinciding entries carry DIFFERENT actions")
    floor("alias_judged_different_views", al.get("judged_different_views", 0), 400,
          "judged alias instances whose coinciding entries are different views (8L/8H/16/32/64, X/Y/Z) of one register")
    floor("alias_judged_memory_address", al.get("judged_memory_address", 0), 4000,
          "judged alias instances in which an address register of a memory operand is also another operand")
    tm, m = al.get("to_measure", 0), al.get("measured", 0)
    rtm, rm = al.get("rows_to_measure") or {}, al.get("rows_measured") or {}
    if _host_avx512_alias(ctx):
        floor("alias_rows_impl_executed", rm.get("impl", 0), 30, "rows with an implicit register shared with an explicit operand "
              "that were EXECUTED in such an instance")
        floor("alias_rows_fixed_executed", rm.get("fixed", 0), 60, "rows with a fixed-register operand type shared with another "
              "operand that were executed in such an instance")
        floor("alias_executed", m, max(300, int(0.97 * tm)), "alias instances executed on the host (accept-rw)")
    ceil("alias_crashed", al.get("crashed", 0), 0, "alias instances that fault on the host (each is reported by accept-exec)")
    ceil("alias_asm_rejected", al.get("asm_rejected", 0), max(10, tm // 100), "alias instances the Go assembler rejected "
         + str((al.get("asm_rejected_examples") or [])[:4]))


def _host_avx512_alias(ctx):
    try:
        st = json.load(open(os.path.join(ctx.dir, "c04.stats.json")))
    except Exception:
        return False
    return not st.get("host_unsupported") and _host_avx512(st)


def _host_avx512(st):
    return not (st.get("skipped_isa_forms") or {}).get("AVX512F")


def _short(key):
    req, _, verdict = key.partition(" => ")
    t = req.split()
    return " ".join(t[1:6]) + " => " + verdict
