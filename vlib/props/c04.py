"""C04 — declared reads/writes of every instruction form cover what the CPU does (proof-partial).

Proved (Lean): the judgement `covers`/`judge` answered by drv_c04 is the lane-wise inclusion
(observed ⊆ declared), composed with the use/def specification of C02; structural facts of the
regenerated form table (`decide +kernel` over all 12 025 rows).
Measured (host CPU): the observed read/write sets of every executable form instance."""
import json, os
from vlib import core
from vlib.modules import REGS, formactions_modules


def run(ctx):
    ctx.coverage["claim"] = ("proof-partial: judgement and table structure proved in Lean; agreement of the table with the "
                             "processor measured on the host CPU")
    if not ctx.build_harness(['c04.go', 'c04gen.go']):
        return
    ctx.regen([REGS] + formactions_modules())
    ctx.forbidden_scan()
    if not ctx.build_driver():
        return
    shards = [f"AvoVerif.Props.C04S{i}" for i in range(8)]
    if ctx.lake_each(["AvoVerif.Props.C04"] + shards + ["AvoVerif.Props.C04Tables"]):
        ctx.audit("C04")
    if ctx.tier == "thorough":
        ctx.leanchecker(["AvoVerif.Props.C04", "AvoVerif.Props.C04Tables"])

    quick = ctx.tier == "quick"
    states = 8 if quick else 128
    choices = 3 if quick else 5
    extra = ["-work", ctx.dir, "-jobs", str(os.cpu_count() or 8), "-states", str(states), "-choices", str(choices)]
    if not quick:
        extra.append("-allsfx")
    # n = 0: every executable form row (the whole table takes ~20 s at 8 states)
    nt = lambda req, resp: req.startswith("accept-rw ") and " O 0 0" not in req
    ctx.differential("c04", 0, extra=extra, nontrivial=nt, max_report=10 ** 7, timeout=3 * 3600)

    # the Lean verdict names the undeclared lanes: make it part of the key the findings are matched on
    for c in ctx.concrete:
        if c.get("sub") == "c04" and " => " not in c["key"]:
            c["key"] = c["request"] + " => " + c["model"]
    # machine states exhibiting each undeclared location (dumped by the child processes)
    try:
        wit = {w["id"]: w for w in json.load(open(os.path.join(ctx.dir, f"witnesses-{ctx.tier}.json")))}
    except Exception:
        wit = {}
    for c in ctx.concrete:
        w = wit.get(c["request"].split()[1]) if c.get("sub") == "c04" else None
        if w:
            c["instruction"] = w["asm"]
            c["witness_states"] = w["witness"]
    # per finding class: count and example (evidence)
    classes = {}
    unknown = []
    for c in ctx.concrete:
        f = ctx.match_finding(c["key"])
        if f:
            e = classes.setdefault(f["id"], {"count": 0, "example": _short(c["key"])})
            e["count"] += 1
        elif len(unknown) < 10:
            unknown.append(_short(c["key"]))
    ctx.coverage["finding_classes_seen"] = classes
    if unknown:
        ctx.coverage["unclassified_violations"] = unknown
    try:
        st = json.load(open(os.path.join(ctx.dir, "c04.stats.json")))
    except Exception:
        st = {}
    cnt = st.get("counts", {})
    ctx.coverage["measurement"] = {
        "forms_in_table": cnt.get("forms_in_table"),
        "forms_executable": cnt.get("forms_eligible"),
        "instances_measured": cnt.get("measured"),
        "cpu_runs": cnt.get("cpu_runs"),
        "states_per_instance": states, "register_choices_per_form": choices,
        "skipped_isa_forms": st.get("skipped_isa_forms"),
        "denied_opcode_forms": st.get("denied_opcode_forms"),
        "denied_reasons": sorted(set((st.get("denied_reason") or {}).values())),
        "not_built": st.get("not_built"),
        "asm_rejected_by_opcode": st.get("asm_rejected"),
        "asm_rejected_examples": (st.get("asm_rejected_examples") or [])[:8],
        "crashed": st.get("crashed"),
        "crashed_examples": (st.get("crashed_examples") or [])[:12],
        "nondeterministic_opcodes": st.get("nondeterministic_opcode"),
        "instances_reading_flags": cnt.get("flags_read_instances"),
        "instances_writing_flags": cnt.get("flags_written_instances"),
        "instances_writing_memory": cnt.get("memory_written_instances"),
    }
    ctx.coverage["input_distribution"]["c04"] = {"measured_by_class": st.get("measured_by_class"), "counts": cnt}
    if st and not cnt.get("measured"):
        ctx.obligation_failures.append(("c04 measurement", "no instance was measured"))
    ctx.coverage["rule"] = (
        "every form row whose ISA extensions the host CPU reports (/proc/cpuinfo), minus an explicit deny-list, instantiated "
        f"through the real x86 build with {choices} register choices (low registers; R8+/X8+/X16+ and indexed memory; the same "
        "register twice and AH..BH; random)" + ("" if quick else " and every suffix set of its suffix class") +
        f"; printed by the real avo printer, assembled by the Go assembler, executed from {states} randomised full register "
        "states (15 GP, RFLAGS, K0-K7, Z0-Z31, 12 KiB scratch memory) in child processes. observed writes = lanes that differ "
        "from the input in some run; observed reads = registers whose lane-wise perturbation (60 GP lanes, 96 vector lane "
        "groups, 8 opmask registers per state) changes another register, the flags, memory, or one of their own lanes that the "
        "instruction can write. Judged by the Lean function `judge` against InputRegisters/OutputRegisters after "
        "ZeroExtend32BitOutputs; the same declared sets are compared exactly with specReads/specWrites (`usedef`).")
    ctx.assumptions += [
        "MEASURED, not proved: the processor's behaviour is sampled on this host CPU for the generated states only; "
        "forms of ISA extensions the host lacks, denied opcodes, assembler-rejected and crashing instances are not covered (listed)",
        "RFLAGS is not a register of avo: flag reads/writes are outside the claim, but a register whose value only influences "
        "the flags counts as read",
        "address registers are perturbed only within the scratch area (low 12 bits of a base, low byte of an index): a read of "
        "their upper lanes is declared by avo but cannot be observed (e.g. XLAT declares EBX although the CPU uses RBX)",
        "a partially written lane (e.g. MOVSS x,x writing 4 of the 16 bytes of lane {0-15}) counts as a read of the register: "
        "the surviving bytes of the written lane depend on the old value",
        "instructions whose results are architecturally undefined are reported as this CPU behaves (BSF/BSR with a zero source "
        "leave the destination unchanged)",
        "the Go assembler's encoding of the printed text is taken as is (C05 is about its faithfulness)",
    ]
    ctx.trusted += [
        "c04child/runner.go.txt + tramp_amd64.s.txt: state load/capture around the instruction, perturbation and difference logic",
        "Linux delivers signals without disturbing the captured register state; GODEBUG=asyncpreemptoff=1 in the children",
    ]


def _short(key):
    req, _, verdict = key.partition(" => ")
    t = req.split()
    return " ".join(t[1:6]) + " => " + verdict
