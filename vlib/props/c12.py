"""C12 — the stub file declares exactly the functions the assembly defines."""
import hashlib, json, os
from vlib import core, modules

MODS = ["AvoVerif.Props.C12"]


def differential_fmt(ctx, sub, n, extra=(), nontrivial=None, max_report=1000, timeout=3600):
    """Like ctx.differential, but the model's `stubs` answers (the text handed to go/format) are
    passed through the toolchain's format.Source (`avoh c12fmt`) before the comparison:
    printer.NewStubs = format.Source o (model's printStubs)."""
    base = os.path.join(ctx.dir, sub)
    ops, impl, model, fmt, stats = (base + s for s in (".ops", ".impl", ".model", ".fmt", ".stats.json"))
    args = [sub, "-seed", str(ctx.seed), "-n", str(n), "-ops", ops, "-impl", impl, "-stats", stats,
            "-tier", ctx.tier, "-repo", core.REPO] + list(extra)
    rc, out = ctx.avoh(args, timeout=timeout)
    if rc != 0:
        ctx.log(f"avoh {sub} failed rc={rc}: {out[-3000:]}")
        ctx.obligation_failures.append((f"avoh {sub}", out[-3000:]))
        return None
    if not ctx.run_driver(ops, model, timeout=timeout):
        return None
    rc, out = ctx.avoh(["c12fmt", "-ops", ops, "-model", model, "-out", fmt], timeout=timeout)
    if rc != 0:
        ctx.obligation_failures.append(("avoh c12fmt", out[-3000:]))
        return None
    nlines = mism = 0
    with open(ops) as fo, open(impl) as fi, open(fmt) as fm:
        for req, a, b in zip(fo, fi, fm):
            nlines += 1
            req, a, b = req.rstrip("\n"), a.rstrip("\n"), b.rstrip("\n")
            if len(ctx.samples) < 3 or (nlines % 4999 == 0 and len(ctx.samples) < 6):
                ctx.samples.append({"request": req[:400], "impl": a[:300], "model": b[:300]})
            if nontrivial is None or nontrivial(req, a):
                ctx.nontrivial.add(hashlib.blake2b(req.encode(), digest_size=8).digest())
            if a != b:
                mism += 1
                rec = {"request": req, "impl": a, "model": b, "sub": sub}
                if req.startswith("accept-"):
                    rec["key"] = req
                    if len(ctx.concrete) < max_report:
                        ctx.concrete.append(rec)
                elif len(ctx.corr_failures) < max_report:
                    ctx.corr_failures.append(rec)
    for pth in (impl, fmt):
        c = sum(1 for _ in open(pth))
        if c != nlines or c == 0:
            ctx.obligation_failures.append((f"{sub}: line count", f"ops/impl/model line counts differ or empty ({pth}: {c} vs {nlines})"))
    ctx.evaluations += nlines
    try:
        ctx.coverage.setdefault("input_distribution", {})[sub] = json.load(open(stats))
    except Exception:
        pass
    ctx.log(f"{sub}: {nlines} requests, {mism} mismatches")
    return mism


def run(ctx):
    if not ctx.build_harness():
        return
    ctx.regen([modules.TEXTFLAGS, modules.TEXTFLAGH])
    ctx.forbidden_scan()
    if not ctx.build_driver():
        return
    if ctx.lake_each(MODS):
        ctx.audit("C12")
    if ctx.tier == "thorough":
        ctx.leanchecker(MODS)
    quick = ctx.tier == "quick"
    differential_fmt(ctx, "c12", 400 if quick else 40000,
                     nontrivial=lambda req, resp: " fn " in req)
    differential_fmt(ctx, "c12build", 40 if quick else 1500, extra=["-work", ctx.dir],
                     nontrivial=lambda req, resp: req.startswith("accept-build") and " fn " in req)
    ctx.coverage["rule"] = (
        "generated files: 0-15 functions with signatures from a type grammar (basic, named, pointer, slice, array, struct with "
        "blank/grouped/tagged fields, map/chan/func/interface; unnamed/named/blank/grouped parameters and results, variadic) x doc "
        "lines (incl. %, indentation, list/heading/link syntax) x pragmas x constraint sets, data sections interleaved. `stubs`: "
        "printer.NewStubs output == go/format(model's pre-format text) byte for byte; `accept-stubs`/`accept-cons`: Lean acceptor on the "
        "real output (package clause, one func line per function in order, directives above it, constraint lines equal to the assembly "
        "output's); `accept-gostub`: go/parser + go/types (file type-checks, types.Identical to the signature given to avo, doc and "
        "directives attached, go/format idempotent); c12build: stub+asm+helper types as packages of one module: go list (same "
        "constraints select both files), go build, go vet -asmdecl. non-trivial = file has at least one function")
    ctx.assumptions += [
        "printer.NewStubs is go/format applied to the modelled text; format.Source, types.WriteSignature and the compiler are opaque toolchain functions (measured, not modelled)",
        "signatures use types of the function's own package and the universe only (avo's stub printer emits no imports)",
        "doc text is compared as a multiset of words: go/format re-indents, renumbers list markers and moves link definitions",
        "linkability and vet are measured on the generated sample only (results written through avo's Store to a primitive leaf; blank results not written)",
    ]
    ctx.trusted += [
        "go/parser, go/types, go/format, go list/build/vet of the installed toolchain as ground truth for the measured part",
        "the signature text (Function.Stub()) and buildtags.Format output are opaque tokens taken from the real code",
    ]
