"""C12 — the stub file declares exactly the functions the assembly defines."""
import hashlib, json, os
from vlib import core

MODS = ["AvoVerif.Props.C12"]
GO_FILES = ["c12.go", "c12enc.go", "c12cli.go"]


def differential_fmt(ctx, sub, n, extra=(), nontrivial=None, max_report=20, timeout=3600, tag=""):
    """Like ctx.differential, but the model's `stubs` answers (the text handed to go/format) are
    passed through the toolchain's format.Source (`avoh c12fmt`) before the comparison:
    printer.NewStubs = format.Source o (model's printStubs)."""
    base = os.path.join(ctx.dir, sub + tag)
    ops, impl, model, fmt, stats = (base + s for s in (".ops", ".impl", ".model", ".fmt", ".stats.json"))
    args = [sub, "-seed", str(ctx.seed), "-n", str(n), "-ops", ops, "-impl", impl, "-stats", stats,
            "-tier", ctx.tier, "-repo", core.REPO] + list(extra)
    rc, out = ctx.avoh(args, timeout=timeout)
    if rc != 0:
        ctx.log(f"avoh {sub} failed rc={rc}: {out[-3000:]}")
        ctx.obligation_failures.append((f"avoh {sub}", out[-3000:]))
        return None
    if out.strip():
        ctx.log(f"avoh {sub}{tag}: {out.strip()[-1500:]}")
    if not ctx.run_driver(ops, model, timeout=timeout):
        return None
    rc, out = ctx.avoh(["c12fmt", "-ops", ops, "-impl", impl, "-model", model, "-out", fmt], timeout=timeout)
    if rc != 0:
        ctx.obligation_failures.append(("avoh c12fmt", out[-3000:]))
        return None
    nlines = mism = 0
    with open(ops) as fo, open(impl) as fi, open(fmt) as fm:
        for req, a, b in zip(fo, fi, fm):
            nlines += 1
            req, a, b = req.rstrip("\n"), a.rstrip("\n"), b.rstrip("\n")
            if len(ctx.samples) < 3 or (nlines % 4999 == 0 and len(ctx.samples) < 6):
                ctx.samples.append({"request": req[:400], "impl": a[:300], "model": b[:300]})
            if nontrivial is None or nontrivial(req, a):
                ctx.nontrivial.add(hashlib.blake2b(req.encode(), digest_size=8).digest())
            if a != b:
                mism += 1
                rec = {"request": req, "impl": a, "model": b, "sub": sub}
                if req.startswith("accept-"):
                    rec["key"] = req
                    # the cap counts UNLISTED failures only (one representative per listed finding)
                    f = ctx.match_finding(req, b)
                    if f is not None:
                        if f["id"] not in ctx._known_reps:
                            ctx._known_reps[f["id"]] = True
                            ctx.concrete.append(rec)
                    elif ctx._unlisted < max_report:
                        ctx._unlisted += 1
                        ctx.concrete.append(rec)
                elif len(ctx.corr_failures) < max_report:
                    ctx.corr_failures.append(rec)
    for pth in (impl, fmt):
        c = sum(1 for _ in open(pth))
        if c != nlines or c == 0:
            ctx.obligation_failures.append((f"{sub}{tag}: line count", f"ops/impl/model line counts differ or empty ({pth}: {c} vs {nlines})"))
    ctx.evaluations += nlines
    st = {}
    try:
        st = json.load(open(stats))
        ctx.coverage.setdefault("input_distribution", {})[sub + tag] = st
    except Exception:
        ctx.obligation_failures.append((f"{sub}{tag}: stats", "no statistics written"))
    ctx.log(f"{sub}{tag}: {nlines} requests, {mism} mismatches")
    return st


def floors(ctx, name, st, spec):
    """Lower bounds on the number of JUDGED cases: a change that makes a whole class of cases drop out
    (printer error, build.Context error, constraint formatting error, …) must not pass silently."""
    if st is None:
        return
    for key, lo in spec.items():
        if st.get(key, 0) < lo:
            ctx.obligation_failures.append((f"{name}: sample floor", f"{key} = {st.get(key, 0)} < {lo} (stats: {json.dumps(st, sort_keys=True)[:1500]})"))


def corpus_file(ctx, name):
    d = os.path.join(core.VERIF, "corpus", "C12")
    p = os.path.join(d, name)
    if not os.path.exists(p):
        return None, 0
    lines = [l for l in open(p).read().splitlines() if l.strip() and not l.startswith("#")]
    return (p, len(lines)) if lines else (None, 0)


def run(ctx):
    if not ctx.build_harness(GO_FILES):
        return
    ctx.forbidden_scan()
    if not ctx.build_driver():
        return
    if ctx.lake_each(MODS):
        ctx.audit("C12")
    if ctx.tier == "thorough":
        ctx.leanchecker(MODS)
    quick = ctx.tier == "quick"
    has = lambda req, resp: " fn " in req or " 666e " in req
    # corpus first: hand-picked and minimised case descriptors (JSON lines)
    ncorpus = 0
    p, k = corpus_file(ctx, "cases.txt")
    if p:
        st = differential_fmt(ctx, "c12", k, extra=["-work", ctx.dir, "-replay", p], tag="-corpus", nontrivial=has)
        floors(ctx, "c12-corpus", st, {"judged_gostub": max(1, k - 2)})
        ncorpus += k
    p, k = corpus_file(ctx, "build.txt")
    if p:
        st = differential_fmt(ctx, "c12build", k, extra=["-work", ctx.dir, "-replay", p], tag="-corpus", nontrivial=has)
        floors(ctx, "c12build-corpus", st, {"pairs": k, "pair_linked": 1})
        ncorpus += k
    ctx.coverage["corpus_cases"] = ncorpus
    if ctx.replay:
        # ./check --replay: the recorded run is regenerated from its seed and tier (set by ./check)
        ctx.notes.append("replay: cases regenerated from the recorded seed and tier")
    n = 400 if quick else 40000
    st = differential_fmt(ctx, "c12", n, extra=["-work", ctx.dir, "-descs", os.path.join(ctx.dir, "c12.descs.jsonl")], nontrivial=has)
    floors(ctx, "c12", st, {
        "wf_1": n * 8 // 10, "wf_0": 2, "judged_gostub": n * 8 // 10, "judged_cons": n * 8 // 10, "judged_fn": n, "judged_fn_doc": n // 3,
        "judged_fn_pragma": n // 4, "judged_fn_doc_and_pragma": n // 10, "judged_fn_variadic": n // 20,
        "judged_fn_literal_type": n // 10, "judged_file_without_doc": n // 10,
        "via_ir": n // 5, "via_ctx": n // 3, "via_implement": 3 if quick else 30,
        "route_new": n // 10, "route_parse": n // 10, "route_expr": n // 40, "route_ctx_expr": n // 40,
        "route_lookup": n // 10, "route_implement": 3 if quick else 30, "type_foreign": 3,
        # user text over the whole alphabet, counted on what REACHED the printer (seeded change C12-6: a text used as
        # a format string): per position copied into the stub file, the texts with characters special to some layer
        "judged_stub_percent": n // 25, "judged_stub_quote_backslash": n // 10, "judged_stub_backquote": n // 80,
        "judged_stub_comment_marker": n // 50, "judged_stub_nonascii": n // 4,
        "judged_pragma_arg_percent": n // 25, "judged_pragma_arg_quote_backslash": n // 50,
        "judged_pragma_arg_backquote": n // 100, "judged_pragma_arg_comment_marker": n // 200, "judged_pragma_arg_nonascii": n // 20,
        "judged_doc_percent": n // 8, "judged_doc_quote_backslash": n // 40, "judged_doc_backquote": n // 100,
        "judged_doc_nonascii": n // 5, "judged_cfg_percent": n // 8, "judged_cfg_quote_backslash": n // 15,
        "judged_cfg_backquote": n // 30, "judged_cfg_nonascii": n // 25, "judged_pkg_nonascii": n // 10,
        "judged_cons_nonascii": n // 25, "tag_raw_literal": n // 20,
    })
    nb = 40 if quick else 1500
    st = differential_fmt(ctx, "c12build", nb, extra=["-work", ctx.dir],
                          nontrivial=lambda req, resp: req.startswith("accept-build") and has(req, resp))
    floors(ctx, "c12build", st, {
        "pairs": nb * 9 // 10, "pair_both": nb // 2, "pair_linked": nb // 2, "pair_neither": 1,
        "param_loaded": nb // 2, "result_stored": nb // 2,
        "judged_stub_percent": nb // 10, "judged_stub_quote_backslash": nb // 8, "judged_stub_backquote": nb // 20,
        "judged_stub_nonascii": nb // 4,
    })
    # the ROUTES by which a stub file comes into being: the configuration layer (seeded change C12-9)
    nc = 60 if quick else 2500
    st = differential_fmt(ctx, "c12cli", nc, extra=["-work", ctx.dir],
                          nontrivial=lambda req, resp: req.startswith(("cli ", "accept-cli", "accept-build")) or has(req, resp))
    floors(ctx, "c12cli", st, {
        "cli_cases": nc * 9 // 10, "cli_exact": nc * 2 // 3, "cli_judged": nc * 2 // 3, "judged_gostub": nc * 2 // 3,
        "cli_route_flags": nc // 2, "cli_route_generate": 8 if quick else 60,
        "cli_pkg_given": nc // 5, "cli_pkg_omitted": nc // 10, "cli_pkg_empty": 1,
        "cli_explicit_pkg": nc // 5, "cli_explicit_pkg_dir_differs": nc // 8, "cli_explicit_pkg_other_dir_differs": nc // 10,
        "cli_default_pkg_other_dir_differs": nc // 10, "cli_dir_equals_pkg": nc // 15,
        "cli_pair": nc // 4, "cli_pair_dir_differs": nc // 6, "pair_linked": nc // 4,
        "cli_expected_failure": 1, "cli_repeated_flag": nc // 12, "cli_terminator": 1, "cli_positional": 1,
        "cli_layout_sub-up": 2, "cli_layout_sibling": 2, "cli_layout_abs": 2, "cli_layout_down": 2, "cli_layout_cwd-bare": 2,
        "cli_layout_split": 1, "cli_layout_stub-stdout": 1,
    })
    ctx.coverage["proof_partial"] = (
        "PROVED (Lean, all inputs): the text handed to go/format declares the configured package once and each function of the file "
        "exactly once in file order, each declaration directly preceded by its doc lines and then its directives (parse_stubs, "
        "declared_once over structured lines; stub_text_reads_back over the BYTES, under the explicit hypothesis that no token contains a "
        "newline and each Stub() text is `func NAME(`…); the constraint block is the same function of the file for both printers and "
        "stands right after the generated-code comment (constraints_position); declarations and TEXT lines are both the function list "
        "(stubs_match_asm); the acceptors run on real output are sound for their declarative statements (acceptStubs_sound, "
        "acceptCons_sound) and accept the model's own text (acceptStubs_model); the identifiers read from the stub bytes are the symbols of "
        "the TEXT lines (stub_names_are_text_symbols); the driver's executable check of the token hypotheses is sound (wfStubsB_sound; run on "
        "every case as `wf-stubs`); user text is transported VERBATIM, for all strings: the lines of the text contain the Stub() text, "
        "`//go:`+directive+arguments, `// `+doc line (only trailing white space trimmed: commentText_verbatim), the package name, the "
        "constraint lines and the generated-code comment (tool name / command line: generatedWarning_verbatim) character for character, and "
        "the lines starting with `func ` are exactly the Stub() texts (stub_tokens_verbatim); read paragraph by paragraph the declarations "
        "are the Stub() texts (declTexts_stubLines, acceptVerbatim_model); the acceptor run on the REAL file as `accept-verbatim` is sound "
        "(acceptVerbatim_sound: first line = generated-code comment, every declaration = Stub() up to the layout characters blank/tab/"
        "newline/`;`, every other character with its multiplicity: squash_count); format_string_corrupts_declaration is the proved witness "
        "that a declaration used as a format string passes acceptStubs and is rejected by acceptVerbatim. The CONFIGURATION LAYER (build.NewFlags / flag parsing / Flags.Config): "
        "for every working directory, command line and file the stub text has the package clause cliPkg = the explicit non-empty -pkg, "
        "otherwise the working directory's base name, whatever -out/-stubs point to (cli_explicit_pkg_wins, cli_default_pkg, "
        "setFlag_keeps_pkg, cli_cmdline_pkg for the command line `-out A -stubs S -pkg P` with ALL A, S, P; cli_stub_package_clause, "
        "cli_stub_text_package on the bytes), and both files are printed under that one configuration (cli_pair_same_config); tied by the "
        "exact `cli` stream: package clause of the file that came out and the destinations == parseArgs/cliPkg of the command line. "
        "NOT PROVED, measured on generated cases only: that "
        "go/format preserves all this, that the result is valid gofmt-stable Go, type identity of the printed signature "
        "(types.WriteSignature is opaque), compile/link/vet. newline_injects_declaration is a proved NEGATIVE witness (finding).")
    ctx.coverage["rule"] = (
        "case descriptors (generated; forced witnesses; corpus/C12): 0-15 functions with signatures from a type grammar (basic incl. any/error, "
        "named (incl. non-ASCII names), alias, instantiated generic, pointer, slice, array, struct with blank/grouped/tagged/embedded fields, "
        "interface literals with methods/embedding, func incl. variadic, map/chan in all directions with generated components, types of other "
        "packages; unnamed/named/blank/grouped parameters and results incl. non-ASCII identifiers, variadic). STRUCT TAGS are arbitrary Go "
        "strings composed from an alphabet of everything special to some layer (fmt verbs incl. %%, %!, %[1]d, %*d; both quoting characters; "
        "backslash and escape look-alikes; `//`, `/*`, `*/`; newline, tab, CR, NUL, DEL; `;{}():,`; non-ASCII incl. NBSP, U+2028, BOM, "
        "astral; bytes that are not UTF-8), written as raw or interpreted literals, on named, grouped, blank and embedded fields, also inside "
        "map keys, func and chan types x doc lines (incl. %, indentation, list/heading/link syntax, comment/keyword look-alikes, and words from "
        "the same alphabet) x 0-5 directives of 13 kinds with arguments from the alphabet x 0-5 constraint expressions of 19 (incl. non-ASCII "
        "tags) x Config (9 tool names, Argv shapes with words from the alphabet) x 7 package names (incl. non-ASCII), data sections interleaved. Routes: ir.File built by hand; "
        "build.Context (ConstraintExpr, Function, Signature/SignatureExpr, Doc, Pragma); gotypes.NewSignature / ParseSignatureInPackage / "
        "ParseSignature / LookupSignature; build.Context.Package + Implement on an on-disk package (a few per run). The EXPECTED signature is "
        "evaluated by the harness with go/types from the expression, never read back from avo. `wf-stubs`: the token hypotheses of the text-level theorems evaluated by harness and driver (hold on all cases but the newline "
        "witnesses); `stubs`: printer.NewStubs output == "
        "go/format^k(model's pre-format text), k>=1, byte for byte; `accept-stubs`/`accept-cons`: Lean acceptor on the real output (package "
        "clause, one func line per function in order, directives above it, constraint lines equal to the assembly output's); `accept-gostub`: "
        "go/parser + go/types (no imports needed, file type-checks, types.Identical + variadic flag + parameter/result names equal to the given "
        "signature, doc words in order, directives last in the doc group and attached, go/format idempotent); c12build: stub+asm+helper types "
        "as packages of one module with bodies that load every named parameter and store every named result: go list (same constraints select "
        "both files), go build, go vet -asmdecl, and an executable referencing every function the stub DECLARES (link: declared => defined). "
        "`accept-verbatim`: Lean acceptor on the real output (generated-code comment as given; every declaration equal to Stub() up to layout). "
        "c12cli: the ROUTES by which a stub file comes into being — generated command lines (-out/-stubs/-pkg/-e/-log in the four flag spellings, "
        "repeated flags, `--`, a positional argument) x layouts on disk (bare names, ./, ../ from a sub-directory, sibling directory, absolute paths "
        "from elsewhere, sub-directory, assembly and stubs in different directories, either file on standard output, no stubs) x directory names "
        "(equal to the package, v2, go-foo, foo_amd64, not an identifier, non-ASCII) x -pkg given/omitted/empty, executed in process "
        "(build.NewFlags on a private FlagSet + Flags.Config + build.Main with the case's working directory, os.Args, os.Stdout) and by a child "
        "process calling build.Generate() on the package-level context; real files under .work; `cli` exact vs the Lean model of the command line; "
        "`accept-cli` measured against the plan (status, which file holds what, go/parser package clause = requested package); the stub file that "
        "came out goes through wf-stubs/stubs/accept-stubs/accept-verbatim/accept-cons/accept-gostub under the expected configuration "
        "(Argv = go run main.go + command line, Pkg = requested package); pairs that landed in one directory are listed, built, vetted and linked "
        "beside a file of the REQUESTED package (accept-build). "
        "Lower bounds on the number of judged cases per class are obligations, incl. per position (Stub() text, directive argument, doc line, "
        "tool name/command line, package, constraint line) the number of texts that REACHED the printer with %, quote/backslash, backquote, "
        "comment markers, non-ASCII. non-trivial = file has at least one function")
    ctx.assumptions += [
        "printer.NewStubs is go/format applied to the modelled text; format.Source, types.WriteSignature and the compiler are opaque toolchain functions (measured, not modelled)",
        "the Lean theorems about the TEXT hold under explicit hypotheses: no newline in any token (doc line, directive, argument, Stub() text, package, constraint line), Stub() = `func NAME(`… with no `(` in NAME; avo does not establish them for Doc/Pragma (findings C12-doc-newline, C12-pragma-newline)",
        "out of the generated domain (not judged): two functions of the same name, functions named init/main/_ or a Go keyword, signatures with receivers or type parameters, a package handed to NewSignature that is a second load of the function's own package (printed qualified), Config.Pkg that is a keyword",
        "doc text is compared as the sequence of words with list markers normalised (as a multiset when the doc has link definitions): go/format re-indents, renumbers list markers and moves link definitions",
        "linkability and vet are measured on the generated sample only (parameters/results read/written through avo's Load/Store at a primitive leaf; blank and unnamed ones are not referenced; types of other packages are not used in built pairs)",
        "`accept-verbatim` takes avo's own Function.Stub() as the text to be transported (a corruption INSIDE Stub()/Signature.String is judged by accept-gostub: types.Identical incl. struct tags against the signature the harness evaluated from the expression)",
        "directive NAMES are sampled from [a-z0-9]+ only (go/format does not treat `//go:` followed by another character as a directive); doc words avoid nothing, pragma arguments have no leading/trailing blank",
        "in pairs that go through vet, parameter/field names use no letters U+0080..U+00FE: vet's asmdecl lexer (`[a-zA-Z0-9_\\xFF-\\x{10FFFF}]+`) reads avo's correct `ñ0+0(FP)` as `0+0(FP)`; such names are sampled in the type-checked part only",
        "configuration layer: the flag syntax of the standard flag package is modelled for the flags avo registers (unknown flags, -h, missing values, bad booleans = error); os.Create failures of -out/-stubs (missing directory) and both outputs given the SAME file are out of the generated domain; a default package name that is not an identifier (working directory `go-foo`, no -pkg) is expected to FAIL (exit status 1, go/format rejects the file) and is judged by accept-cli only; printer.NewArgvConfig/NewDefaultConfig are reached through NewGoRunConfig's fallback only (the harness has a main.main frame)",
        "the sticky-error path of the printer (buildtags.Format failing) is not modelled: such cases are dropped (bounded by the sample floors)",
    ]
    ctx.trusted += [
        "go/parser, go/types, go/format, go list/build/vet and the linker of the installed toolchain as ground truth for the measured part",
        "the signature text (Function.Stub()) and buildtags.Format output are opaque tokens taken from the real code",
        "harness classification of a failure into a finding class (c12Measure/c12Unstable in harness/c12.go) is glue",
    ]
