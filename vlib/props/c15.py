"""C15 — the frame pointer register survives every generated function."""
import json, os
from ..modules import REGS, PASSFACTS, TEXTFLAGS, TEXTFLAGH, ASMBP

FILES = ["c15.go", "c15gen.go", "gen_passfacts.go"]
PROPS = ["AvoVerif.Props.C15", "AvoVerif.Props.C15Tables"]


def floors(ctx, name, spec):
    """Lower bounds on the number of JUDGED cases of each stream: a change that silently makes a class of cases
    drop out (everything refused, nothing bound, printer failing, allocator never on BP) must not pass."""
    st = ctx.coverage.get("input_distribution", {}).get(name)
    if st is None:
        return
    for key, lo in spec.items():
        if st.get(key, 0) < lo:
            ctx.obligation_failures.append((f"{name}: sample floor", f"{key} = {st.get(key, 0)} < {lo} (stats: {json.dumps(st, sort_keys=True)[:2500]})"))
    # refusals the control experiment cannot attribute to the NOFRAME bit and the explicit pass sequence does not
    # reproduce must stay rare: otherwise the whole-Compile streams have lost their power
    for tag in ("compile1", "compileN"):
        files = st.get(tag + ":files:file", 0) + st.get(tag + ":files:ctx", 0)
        if st.get(tag + ":refusal_unexplained_by_pass_sequence", 0) * 10 > files:
            ctx.obligation_failures.append((f"{name}: unexplained refusals", f"{tag}: {st.get(tag + ':refusal_unexplained_by_pass_sequence', 0)} of {files} files refused by pass.Compile although neither the NOFRAME bits nor the explicit pass sequence explain it"))


def run(ctx):
    if not ctx.build_harness(FILES):
        return
    # Gen.regs (compiled reg package), Gen.compileOrder (pass/pass.go), attribute values (avo + installed textflag.h);
    # Oracle.AsmBP MEASURED now: 32 + 3 tiny programs built with `go build` under .work/C15/asmbp and run as child processes
    ctx.regen([REGS, PASSFACTS, TEXTFLAGS, TEXTFLAGH, ASMBP])
    ctx.forbidden_scan()
    # the driver (model + acceptor) must build even when a table theorem breaks
    if not ctx.build_driver():
        return
    if ctx.lake_each(PROPS):
        ctx.audit("C15")
    if ctx.tier == "thorough":
        ctx.leanchecker(PROPS)
    # non-trivial = the function writes some view of hardware BP (id 327936 = GP number 5)
    nt = lambda req, resp: " 327936 " in req or (req.startswith("accept-bp-exec ") and req.split()[4] == "1")
    ctx.run_corpus("c15", nontrivial=nt)
    if ctx.replay:
        ctx.differential("c15", 0, nontrivial=nt)
        return
    quick = ctx.tier == "quick"
    n = 3000 if quick else 150000
    nexec = 24 if quick else 400
    ctx.differential("c15", n, extra=["-exec", str(nexec), "-execdir", "exec"], nontrivial=nt)
    # floors for n = 3000 (about a third of what seeds 1..12 give); they scale with n
    k = n // 3000
    floors(ctx, "c15", {
        "ensure_requests": 500 * k, "ensure_clobbered": 150 * k, "allocator_chose_bp": 40 * k, "ensure_frame_ge_2^31": 8 * k,
        "compile1:judged_functions": 80 * k, "compile1:judged_clobbering": 25 * k, "compile1:judged_text_lines": 80 * k,
        "compile1:judged_text_lines_with_args": 20 * k, "compile1:judged_refusals": 5 * k, "compile1:allocator_chose_bp": 5 * k,
        "compileN:judged_functions": 150 * k, "compileN:judged_clobbering": 50 * k, "compileN:judged_multi_function_files": 50 * k,
        "compileN:judged_text_lines_with_args": 40 * k, "compileN:judged_refusals": 15 * k,
        "compile1:files:ctx": 30 * k, "compileN:files:ctx": 30 * k,
        "exec_functions": nexec, "exec_clobbering_bp": nexec // 3, "exec:judged_functions": nexec, "exec_control_detected": 1,
    })
    if not quick:
        base = ctx.seed
        for k in (1, 2):
            ctx.seed = base * 1000003 + k
            ctx.differential("c15", 50000, extra=["-exec", "200", "-execdir", f"exec{k}"], tag=f"-s{k}", nontrivial=nt)
            floors(ctx, f"c15-s{k}", {"ensure_requests": 8000, "compileN:judged_functions": 2400, "exec_functions": 200})
        ctx.seed = base
    try:
        ctx.coverage["oracle_AsmBP"] = json.load(open(os.path.join(ctx.dir, "asmbp", "summary.json")))
    except Exception as e:  # the generator failed: already recorded as a broken obligation by regen
        ctx.coverage["oracle_AsmBP"] = {"unavailable": str(e)}
    ctx.coverage["proof_partial"] = (
        "DESIGN.md: proof-partial. PROVED for all inputs with 0 <= LocalSize < 2^31: the pass model (ensureBP / Fn.ensure), its "
        "consequences under the assembler's rule incl. the int32 truncation of the frame (autoffset), the save/restore machine model "
        "(saved_bp_restored), the acceptor's soundness and completeness against the declarative statement OutcomeOK (acceptBP_iff), "
        "the table facts; PROVED NEGATIVE: the property fails for LocalSize in [2^31, 2^32) (bp_wrapped_frame_not_saved, finding "
        "C15-frame-int32); HYPOTHESES of the main theorem C15 (not proved here): BodyOK (the body is stack-balanced and writes nothing "
        "at or above the top of its frame: C16) and 'a body none of whose declared outputs is a BP register leaves BP alone' (C04); "
        "MEASURED (not proved): that the installed assembler follows the modelled rule (full grid incl. frames 2^31 and 2^32+8) and that "
        "writes through the BP names are the ones that change BP (kernel-checked against tables regenerated on this run); pass_order is "
        "a fact about the list of passes obtained by evaluating pass.Compile's initialiser, the behaviour of Compile itself is exercised "
        "by the whole-Compile streams")
    ctx.coverage["proof_scope"] = ctx.coverage["proof_partial"]
    ctx.coverage["rule"] = (
        "generated functions — (a) straight-line register-only functions with 1..16 simultaneously live 64-bit virtuals used in all widths "
        "(15 live forces the allocator onto BP), (b) the shared random generator under GP pressure — with author-named writes to "
        "BPL/BP/EBP/RBP (20 instruction shapes, BP as first or second output) inserted, attribute sets {0, NOSPLIT, NOFRAME, both} (+ random "
        "other bits), LocalSize 0 / aligned / unaligned / large / 2^31..2^33 (the assembler's int32 truncation) via AllocLocal, 0-2 CALLs, "
        "signatures with 0..32 argument bytes. Every function is rebuilt identically from a seed and sent through: (1) the explicit pass "
        "sequence LabelTarget, CFG, ZeroExtend32BitOutputs, Liveness, AllocateRegisters, BindRegisters, VerifyAllocation and then "
        "pass.EnsureBasePointerCalleeSaved: `bp` = exact comparison of error-versus-no-error / resulting LocalSize with the Lean model "
        "(clobbersBP over Gen.regs info bits; error MESSAGES are not compared), `accept-bp` = the property on the implementation's outcome "
        "with the hardware notion of BP (physical GP number 5): a refusal only for a clobbering NOFRAME function, else the frame the "
        "assembler really allocates (int32 truncation) > 0 and both assembler rules (installed, and the older one quoted in pass/reg.go) "
        "save BP; (2) the real pass.Compile as a one-function file and (3) as one of 2-4 functions of ONE file (mixes of clobbering / not "
        "clobbering / NOFRAME functions), built directly as ir.File or through build.Context: `accept-bp` per function on the bound "
        "outputs, the resulting LocalSize AND the size token of the function's printed TEXT line (printer.NewGoAsm, incl. the "
        "`$frame-args` branch); when Compile refuses a file a control experiment (same file, NOFRAME bits cleared) decides whether the "
        "NOFRAME bit caused the refusal: if so some NOFRAME function of the file must write BP (judged), if not the refusal is counted as "
        "not this property's (refused_regardless_of_noframe; cross-checked against the explicit pass sequence, >10% unexplained = broken "
        "obligation); plus a malformed stream (pass run on unallocated / not zero-extended functions); `accept-bp-exec` MEASURED: functions "
        "compiled TOGETHER as one file by pass.Compile, printed with printer.NewGoAsm, built with go build and called through an assembly "
        "trampoline that compares the caller's BP before/after (positive control: a hand-written frameless leaf setting BP must be seen to "
        "change it; the 2^31-frame witness is executed too). Lower bounds on the judged cases of every stream are obligations (sample "
        "floors). non-trivial = functions that write a view of BP")
    ctx.assumptions += [
        "declared outputs cover the hardware writes of every instruction form (C04); avo's table has no form with an implicit BP operand "
        "and no LEAVE/ENTER; a CALLed function preserves BP itself",
        "the function body is stack-balanced and writes no stack slot at or above the top of its frame (BodyOK; C16: locals lie inside the frame)",
        "0 <= LocalSize < 2^31 (explicit hypothesis of bp_saved / C15 / acceptBP_complete). Negative AllocLocal sizes are outside the "
        "property's quantifier (theorem bp_negative_frame_not_saved shows why). The upper bound is NOT granted by the quantifier: the "
        "assembler truncates the frame to int32, avo accepts AllocLocal(1<<31) silently and BP is lost — recorded as finding "
        "C15-frame-int32 / C15-frame-int32-exec (theorems bp_wrapped_frame_not_saved, asm_wrapped_frame_measured); frames within 16 bytes "
        "below 2^31 make the assembler fail loudly ('overflow in spadj': nothing is emitted); the frame is a multiple of 8 whenever the "
        "assembler is to accept the function (it rejects unaligned frames: nothing is emitted)",
        "the assembler's rule (asmSavesBP, autoffset) is a hand-written model of cmd/internal/obj/x86/obj6.go preprocess; it is MEASURED "
        "against the installed toolchain on the full grid {0,NOSPLIT,NOFRAME,both} x {0,8,16,4096,2^31,2^32+8} x {leaf,call} on every run "
        "(theorem asm_rule_measured); the prologue/epilogue machine model (runFn) is modelled-not-verified beyond that measurement",
        "hasCall = the function contains a CALL instruction (avo emits no DUFFCOPY/DUFFZERO)",
        "a refusal by pass.Compile that persists with the NOFRAME bits cleared (allocation failure, malformed operands, …) is not the "
        "refusal the property speaks about: nothing is emitted; such files are counted, not judged",
    ]
    ctx.trusted += [
        "Oracle.asmBP / asmBPWrites: go build (assembler + linker) and the host CPU, observed through the trampoline of harness/c15gen.go; "
        "one child process per grid case, controls that do not touch BP must report 'preserved'",
        "Gen.regs is produced by calling the compiled reg package's own API; Gen.compileOrder by evaluating the initialiser of pass.Compile "
        "(harness/gen_passfacts.go)",
        "the parse of the printed TEXT line (last comma-separated field of the line starting `TEXT ·name(SB)`) in harness/c15.go",
    ]
