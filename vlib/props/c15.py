"""C15 — the frame pointer register survives every generated function."""
import json, os
from ..modules import REGS, PASSFACTS, TEXTFLAGS, TEXTFLAGH, ASMBP

FILES = ["c09.go", "c02.go", "c01.go", "c15.go", "c15gen.go", "gen_passfacts.go"]
PROPS = ["AvoVerif.Props.C15", "AvoVerif.Props.C15Tables"]


def run(ctx):
    if not ctx.build_harness(FILES):
        return
    # Gen.regs (compiled reg package), Gen.compileOrder (pass/pass.go), attribute values (avo + installed textflag.h);
    # Oracle.AsmBP MEASURED now: 32 + 3 tiny programs built with `go build` under .work/C15/asmbp and run as child processes
    ctx.regen([REGS, PASSFACTS, TEXTFLAGS, TEXTFLAGH, ASMBP])
    ctx.forbidden_scan()
    # the driver (model + acceptor) must build even when a table theorem breaks
    if not ctx.build_driver():
        return
    if ctx.lake_each(PROPS):
        ctx.audit("C15")
    if ctx.tier == "thorough":
        ctx.leanchecker(PROPS)
    # non-trivial = the function writes some view of hardware BP (id 327936 = GP number 5)
    nt = lambda req, resp: " 327936 " in req or (req.startswith("accept-bp-exec ") and req.split()[4] == "1")
    ctx.run_corpus("c15", nontrivial=nt)
    if ctx.replay:
        ctx.differential("c15", 0, nontrivial=nt)
        return
    quick = ctx.tier == "quick"
    ctx.differential("c15", 3000 if quick else 150000, extra=["-exec", "24" if quick else "400", "-execdir", "exec"], nontrivial=nt)
    if not quick:
        base = ctx.seed
        for k in (1, 2):
            ctx.seed = base * 1000003 + k
            ctx.differential("c15", 50000, extra=["-exec", "200", "-execdir", f"exec{k}"], tag=f"-s{k}", nontrivial=nt)
        ctx.seed = base
    try:
        ctx.coverage["oracle_AsmBP"] = json.load(open(os.path.join(ctx.dir, "asmbp", "summary.json")))
    except Exception as e:  # the generator failed: already recorded as a broken obligation by regen
        ctx.coverage["oracle_AsmBP"] = {"unavailable": str(e)}
    ctx.coverage["proof_scope"] = ("proved for all inputs: the pass model (ensureBP / Fn.ensure), its consequences under the assembler's "
                                   "rule, the save/restore machine model, the acceptor's soundness/completeness, the table facts; "
                                   "MEASURED (not proved): that the installed assembler follows the modelled rule and that writes through the "
                                   "BP names are the ones that change BP (kernel-checked against tables regenerated on this run)")
    ctx.coverage["rule"] = (
        "generated functions — (a) straight-line register-only functions with 1..16 simultaneously live 64-bit virtuals used in all widths "
        "(15 live forces the allocator onto BP), (b) the shared random generator of C01 under GP pressure — with author-named writes to "
        "BPL/BP/EBP/RBP (16 instruction shapes) inserted, attribute sets {0, NOSPLIT, NOFRAME, both} (+ random other bits), LocalSize 0 / "
        "aligned / unaligned / large via AllocLocal, 0-2 CALLs; through the real LabelTarget, CFG, ZeroExtend32BitOutputs, Liveness, "
        "AllocateRegisters, BindRegisters, VerifyAllocation and then pass.EnsureBasePointerCalleeSaved; plus a malformed stream (pass run on "
        "unallocated / not zero-extended functions). `bp`: exact comparison of error / resulting LocalSize with the Lean model (clobbersBP "
        "over Gen.regs info bits); `accept-bp`: the property on the implementation's outcome with the hardware notion of BP (physical GP "
        "number 5): clobbered => refused iff NOFRAME, else frame > 0 and both assembler rules (installed, and the older one quoted in "
        "pass/reg.go) save BP — stated both after the explicit pass sequence and, for a quarter of the functions and the whole execution "
        "sample, on the outcome of the real pass.Compile (so the position of the pass in Compile is exercised); `accept-bp-exec` MEASURED: "
        "functions compiled by pass.Compile, printed with printer.NewGoAsm, built with go build and "
        "called through an assembly trampoline that compares the caller's BP before/after (positive control: a hand-written frameless "
        "leaf setting BP must be seen to change it). non-trivial = functions that write a view of BP")
    ctx.assumptions += [
        "declared outputs cover the hardware writes of every instruction form (C04); avo's table has no form with an implicit BP operand "
        "and no LEAVE/ENTER; a CALLed function preserves BP itself",
        "the function body is stack-balanced and writes no stack slot at or above the top of its frame (BodyOK; C16: locals lie inside the frame)",
        "LocalSize >= 0 (negative AllocLocal sizes are outside the property's quantifier: theorem bp_negative_frame_not_saved shows why) "
        "and the frame is a multiple of 8 whenever the assembler is to accept the function (it rejects unaligned frames: nothing is emitted)",
        "the assembler's rule (asmSavesBP) is a hand-written model of cmd/internal/obj/x86/obj6.go preprocess; it is MEASURED against the "
        "installed toolchain on the full grid {0,NOSPLIT,NOFRAME,both} x {0,8,16,4096} x {leaf,call} on every run (theorem asm_rule_measured); "
        "the prologue/epilogue machine model (runFn) is modelled-not-verified beyond that measurement",
        "hasCall = the function contains a CALL instruction (avo emits no DUFFCOPY/DUFFZERO)",
    ]
    ctx.trusted += [
        "Oracle.asmBP / asmBPWrites: go build (assembler + linker) and the host CPU, observed through the trampoline of harness/c15gen.go; "
        "one child process per grid case, controls that do not touch BP must report 'preserved'",
        "Gen.regs is produced by calling the compiled reg package's own API; Gen.compileOrder by go/ast over pass/pass.go",
    ]
