"""C15 — the frame pointer register survives every generated function."""
import json, os
from ..modules import REGS, PASSFACTS, TEXTFLAGS, TEXTFLAGH, ASMBP

FILES = ["c15.go", "c15gen.go", "c15forms.go", "gen_passfacts.go"]
PROPS = ["AvoVerif.Props.C15", "AvoVerif.Props.C15Arch", "AvoVerif.Props.C15Tables"]


def floors(ctx, name, spec):
    """Lower bounds on the number of JUDGED cases of each stream: a change that silently makes a class of cases
    drop out (everything refused, nothing bound, printer failing, allocator never on BP) must not pass."""
    st = ctx.coverage.get("input_distribution", {}).get(name)
    if st is None:
        return
    for key, lo in spec.items():
        if st.get(key, 0) < lo:
            ctx.obligation_failures.append((f"{name}: sample floor", f"{key} = {st.get(key, 0)} < {lo} (stats: {json.dumps(st, sort_keys=True)[:2500]})"))
    # refusals the control experiment cannot attribute to the NOFRAME bit and the explicit pass sequence does not
    # reproduce must stay rare: otherwise the whole-Compile streams have lost their power
    for tag in ("compile1", "compileN"):
        files = st.get(tag + ":files:file", 0) + st.get(tag + ":files:ctx", 0)
        if st.get(tag + ":refusal_unexplained_by_pass_sequence", 0) * 10 > files:
            ctx.obligation_failures.append((f"{name}: unexplained refusals", f"{tag}: {st.get(tag + ':refusal_unexplained_by_pass_sequence', 0)} of {files} files refused by pass.Compile although neither the NOFRAME bits nor the explicit pass sequence explain it"))


def ceilings(ctx, name, spec):
    """Upper bounds on what a stream may DROP (crashed probes, shapes the table refuses to build, …)."""
    st = ctx.coverage.get("input_distribution", {}).get(name)
    if st is None:
        return
    for key, hi in spec.items():
        if st.get(key, 0) > hi:
            ctx.obligation_failures.append((f"{name}: drop ceiling", f"{key} = {st.get(key, 0)} > {hi}"))


def run(ctx):
    if not ctx.build_harness(FILES):
        return
    # Gen.regs (compiled reg package), Gen.compileOrder (pass/pass.go), attribute values (avo + installed textflag.h);
    # Oracle.AsmBP MEASURED now: 32 + 3 tiny programs built with `go build` under .work/C15/asmbp and run as child processes
    ctx.regen([REGS, PASSFACTS, TEXTFLAGS, TEXTFLAGH, ASMBP])
    ctx.forbidden_scan()
    # the driver (model + acceptor) must build even when a table theorem breaks
    if not ctx.build_driver():
        return
    if ctx.lake_each(PROPS):
        ctx.audit("C15")
    if ctx.tier == "thorough":
        ctx.leanchecker(PROPS)
    # non-trivial = the function writes some view of hardware BP (id 327936 = GP number 5)
    nt = lambda req, resp: " 327936 " in req or (req.startswith("accept-bp-exec ") and req.split()[4] == "1") or (
        req.startswith("accept-bp-form ") and req.split()[5] == "1")
    ctx.run_corpus("c15", nontrivial=nt)
    if ctx.replay:
        ctx.differential("c15", 0, nontrivial=nt)
        return
    quick = ctx.tier == "quick"
    n = 3000 if quick else 150000
    nexec = 24 if quick else 400
    # -forms: the form sweep (harness/c15forms.go): EVERY row of the form table with a general-purpose register or small
    # memory-source position, instantiated with the views of BP; all executable shapes are executed in both tiers
    ctx.differential("c15", n, extra=["-exec", str(nexec), "-execdir", "exec", "-forms"], nontrivial=nt)
    # floors for n = 3000 (about a third of what seeds 1..12 give); they scale with n
    k = n // 3000
    floors(ctx, "c15", {
        "ensure_requests": 500 * k, "ensure_clobbered": 150 * k, "allocator_chose_bp": 40 * k, "author_named_bp": 150 * k, "author_reads_bp": 40 * k,
        "bp_onto_itself:size4": 30 * k, "allocator_made_bp_self_copy": 20 * k, "allocator_made_bp_self_copy_only_write": 10 * k,
        "compileN:allocator_made_bp_self_copy": 10 * k, "compileN:allocator_made_bp_self_copy_only_write": 5 * k, "ensure_frame_ge_2^31": 8 * k,
        "compile1:judged_functions": 80 * k, "compile1:judged_clobbering": 25 * k, "compile1:judged_text_lines": 80 * k,
        "compile1:judged_text_lines_with_args": 20 * k, "compile1:judged_refusals": 5 * k, "compile1:allocator_chose_bp": 5 * k,
        "compileN:judged_functions": 150 * k, "compileN:judged_clobbering": 50 * k, "compileN:judged_multi_function_files": 50 * k,
        "compileN:judged_text_lines_with_args": 40 * k, "compileN:judged_refusals": 15 * k,
        "compile1:files:ctx": 30 * k, "compileN:files:ctx": 30 * k,
        "exec_functions": nexec, "exec_clobbering_bp": nexec // 3, "exec:judged_functions": nexec, "exec_control_detected": 1,
    })
    # the form sweep does not scale with n: the whole table on every run (numbers of the pinned table: 1842 shapes, 1816
    # measured, 1015 measured to change BP; floors at roughly two thirds)
    floors(ctx, "c15", {
        "formsweep:shapes": 1200, "formsweep:judged_shapes": 1200, "formsweep:measured_shapes": 1100,
        "formsweep:class:dst-w": 150, "formsweep:class:dst-rw": 270, "formsweep:class:src": 250, "formsweep:class:self": 150,
        "formsweep:class:imm0": 80, "formsweep:class:membase": 150, "formsweep:class:membase-dst": 120, "formsweep:class:memindex": 2,
        "formsweep:view_mask1:dst-rw": 35, "formsweep:view_mask3:dst-rw": 70, "formsweep:view_mask7:dst-rw": 80, "formsweep:view_mask15:dst-rw": 80,
        "formsweep:view_mask1:dst-w": 12, "formsweep:view_mask3:dst-w": 14, "formsweep:view_mask7:dst-w": 65, "formsweep:view_mask15:dst-w": 60,
        "formsweep:view_mask7:self": 50, "formsweep:view_mask15:self": 50,
        "formsweep:measured_changed": 650, "formsweep:measured_changed:self": 100, "formsweep:measured_changed:imm0": 50,
        "formsweep:measured_changed:membase-dst": 120, "formsweep:measured_changed:dst-w": 150, "formsweep:measured_changed:dst-rw": 240,
        "formsweep:measured_changed:self:view_mask7": 50, "formsweep:measured_changed:imm0:view_mask7": 25, "formsweep:measured_changed:membase-dst:view_mask7": 40,
        "formsweep:measured_changed:view_mask1": 60, "formsweep:measured_changed:view_mask3": 120,
        "formsweep:measured_changed:view_mask7": 250, "formsweep:measured_changed:view_mask15": 180,
        "formsweep:measured_shapes:src": 250, "formsweep:measured_shapes:membase": 150,
        "formsweep:accepted": 4000, "formsweep:refused": 1900, "formsweep:frame_forced": 1500,
        "formsweep:compiled_executed": 1100, "formsweep:compiled_executed_measured_changed": 650,
        "formsweep:measure_controls_ok": 1, "formsweep:compiled_control_ok": 1,
        "formsweep:pool_write": 400, "formsweep:pool_write_self": 60, "formsweep:pool_read": 150,
    })
    ceilings(ctx, "c15", {"formsweep:error": 0, "formsweep:measure_setup_crashed": 60, "formsweep:compiled_crashed": 20,
                          "formsweep:probe_print_error": 0, "formsweep:refused_regardless_of_noframe": 60, "formsweep:compiled_build_failed": 0, "formsweep:build_rejected": 40})
    if not quick:
        base = ctx.seed
        for k in (1, 2):
            ctx.seed = base * 1000003 + k
            ctx.differential("c15", 50000, extra=["-exec", "200", "-execdir", f"exec{k}"], tag=f"-s{k}", nontrivial=nt)
            floors(ctx, f"c15-s{k}", {"ensure_requests": 8000, "compileN:judged_functions": 2400, "exec_functions": 200})
        ctx.seed = base
    try:
        ctx.coverage["oracle_AsmBP"] = json.load(open(os.path.join(ctx.dir, "asmbp", "summary.json")))
    except Exception as e:  # the generator failed: already recorded as a broken obligation by regen
        ctx.coverage["oracle_AsmBP"] = {"unavailable": str(e)}
    ctx.coverage["proof_partial"] = (
        "DESIGN.md: proof-partial. PROVED for all inputs with 0 <= LocalSize < 2^31: the pass model (ensureBP / Fn.ensure), its "
        "consequences under the assembler's rule incl. the int32 truncation of the frame (autoffset), the save/restore machine model "
        "(saved_bp_restored), the acceptor's soundness and completeness against the declarative statement OutcomeOK (acceptBP_iff), "
        "the table facts; PROVED NEGATIVE: the property fails for LocalSize in [2^31, 2^32) (bp_wrapped_frame_not_saved, finding "
        "C15-frame-int32); HYPOTHESES of the main theorem C15 (not proved here): BodyOK (the body is stack-balanced and writes nothing "
        "at or above the top of its frame: C16) and 'a body none of whose declared outputs is a BP register leaves BP alone' (C04) — "
        "the latter is PROVED in Props/C15Arch for bodies that are lists of architectural register writes (x86-64 view rules, a 32-bit "
        "write clears bits 32..63) from the weaker hypothesis Covers (execAll_preserves_bp, C15_arch), with exempt_scan_sound (a scan may "
        "leave out exactly the instructions that preserve BP architecturally), selfmove_8_16_64_preserves / movl_self_iff and the "
        "NEGATION at the seeded class: exempting_movl_self_violates (MOVL BP,BP exempted: NOFRAME accepted, 0xc000124ed0 -> 0x124ed0); "
        "MEASURED (not proved): that the installed assembler follows the modelled rule (full grid incl. frames 2^31 and 2^32+8) and that "
        "writes through the BP names are the ones that change BP (kernel-checked against tables regenerated on this run); pass_order is "
        "a fact about the list of passes obtained by evaluating pass.Compile's initialiser, the behaviour of Compile itself is exercised "
        "by the whole-Compile streams")
    ctx.coverage["proof_scope"] = ctx.coverage["proof_partial"]
    ctx.coverage["rule"] = (
        "generated functions — (a) straight-line register-only functions with 1..16 simultaneously live 64-bit virtuals used in all widths "
        "(15 live forces the allocator onto BP), (b) the shared random generator under GP pressure — with author-named writes to "
        "BPL/BP/EBP/RBP (20 instruction shapes, BP as first or second output) inserted, attribute sets {0, NOSPLIT, NOFRAME, both} (+ random "
        "other bits), LocalSize 0 / aligned / unaligned / large / 2^31..2^33 (the assembler's int32 truncation) via AllocLocal, 0-2 CALLs, "
        "signatures with 0..32 argument bytes. Every function is rebuilt identically from a seed and sent through: (1) the explicit pass "
        "sequence LabelTarget, CFG, ZeroExtend32BitOutputs, Liveness, AllocateRegisters, BindRegisters, VerifyAllocation and then "
        "pass.EnsureBasePointerCalleeSaved: `bp` = exact comparison of error-versus-no-error / resulting LocalSize with the Lean model "
        "(clobbersBP over Gen.regs info bits; error MESSAGES are not compared), `accept-bp` = the property on the implementation's outcome "
        "with the hardware notion of BP (physical GP number 5): a refusal only for a clobbering NOFRAME function, else the frame the "
        "assembler really allocates (int32 truncation) > 0 and both assembler rules (installed, and the older one quoted in pass/reg.go) "
        "save BP; (2) the real pass.Compile as a one-function file and (3) as one of 2-4 functions of ONE file (mixes of clobbering / not "
        "clobbering / NOFRAME functions), built directly as ir.File or through build.Context: `accept-bp` per function on the bound "
        "outputs, the resulting LocalSize AND the size token of the function's printed TEXT line (printer.NewGoAsm, incl. the "
        "`$frame-args` branch); when Compile refuses a file a control experiment (same file, NOFRAME bits cleared) decides whether the "
        "NOFRAME bit caused the refusal: if so some NOFRAME function of the file must write BP (judged), if not the refusal is counted as "
        "not this property's (refused_regardless_of_noframe; cross-checked against the explicit pass sequence, >10% unexplained = broken "
        "obligation); plus a malformed stream (pass run on unallocated / not zero-extended functions); `accept-bp-exec` MEASURED: functions "
        "compiled TOGETHER as one file by pass.Compile, printed with printer.NewGoAsm, built with go build and called through an assembly "
        "trampoline that compares the caller's BP before/after (positive control: a hand-written frameless leaf setting BP must be seen to "
        "change it; the 2^31-frame witness is executed too). Lower bounds on the judged cases of every stream are obligations (sample "
        "floors). FORM SWEEP (harness/c15forms.go, both tiers, the whole table on every run): every row of avo's compiled form table with "
        "an explicit general-purpose register position (or a small read-only memory source) is instantiated through the real x86 build "
        "with the matching view of BP (BPB/BP/EBP/RBP) in EACH register position in turn (destination w / rw, source), in ALL positions at "
        "once (the shapes that look like a no-op: MOVL BP,BP; XCHGL BP,BP; CMOVLEQ BP,BP; ORL BP,BP), with immediates of 0 (ADDL $0,BP), "
        "with BP as base/index of the memory source (LEAL (BP),BP; MOVQ (BP),BP; reads only: MOVQ (BP),SI) — about 1 840 shapes; PUSH/POP "
        "are paired with their counterpart. Whether a shape changes BP is MEASURED: the instruction alone in a hand-framed NOSPLIT|NOFRAME "
        "function (printed by avo's printer, no pass run) is called through the trampoline under three operand/flag set-ups (every "
        "condition code true in one of them; positive and negative control functions); independently the harness reads the destination "
        "operands off the row's operand actions by position (not from inst.Outputs). `accept-bp-form`: pass.Compile on the "
        "one-instruction function under {0, NOSPLIT, NOFRAME, both} x frame {0, 24}; the Lean acceptor acceptBPForm judges a refusal with "
        "clobArch = measured || a destination operand is GP 5 || a declared output is GP 5 (after a control experiment without the NOFRAME "
        "bit), an accepted function with measured || declared (a frame is demanded for MOVL BP,BP, not for MOVQ BP,BP which cannot modify "
        "BP); the compiled function is executed too (`accept-bp-exec`). The shapes MEASURED to change BP (register-only ones) feed the "
        "random generators (half of the author-named BP writes), shapes that only read BP are inserted as well; in the whole-Compile "
        "streams the destinations are additionally re-derived from the bound OPERANDS through the form table (c15RebuiltOuts), so a "
        "function whose Outputs lists were left stale/unbound is still judged. non-trivial = functions that write a view of BP")
    ctx.assumptions += [
        "declared outputs cover the hardware writes of every instruction form (C04) — for GP register 5 this is now the explicit "
        "hypothesis `Covers` of C15_arch / execAll_preserves_bp (any lane, any width, any value: no exemption for self-moves) and is "
        "MEASURED by the form sweep for every shape with an explicit BP operand; implicit writes of BP by instructions that do not name "
        "it are C04's sweep (avo's table has no form with an implicit BP operand and no LEAVE/ENTER: formsweep:rows_with_implicit_bp "
        "counts them); a CALLed function preserves BP itself",
        "form sweep: 'measured to change BP' is a LOWER bound of 'can modify BP' (three set-ups; CMPXCHG with a failing comparison, BTR "
        "of a clear bit … show no change): such shapes are judged through their declared outputs only; shapes not executed (DIV/IDIV: "
        "#DE on frame-pointer values; indirect JMP; BT with a register bit offset into memory crashes) are judged statically; rows with "
        "vector-indexed memory or branch operands have no general-purpose destination and are left out",
        "the function body is stack-balanced and writes no stack slot at or above the top of its frame (BodyOK; C16: locals lie inside the frame)",
        "0 <= LocalSize < 2^31 (explicit hypothesis of bp_saved / C15 / acceptBP_complete). Negative AllocLocal sizes are outside the "
        "property's quantifier (theorem bp_negative_frame_not_saved shows why). The upper bound is NOT granted by the quantifier: the "
        "assembler truncates the frame to int32, avo accepts AllocLocal(1<<31) silently and BP is lost — recorded as finding "
        "C15-frame-int32 / C15-frame-int32-exec (theorems bp_wrapped_frame_not_saved, asm_wrapped_frame_measured); frames within 16 bytes "
        "below 2^31 make the assembler fail loudly ('overflow in spadj': nothing is emitted); the frame is a multiple of 8 whenever the "
        "assembler is to accept the function (it rejects unaligned frames: nothing is emitted)",
        "the assembler's rule (asmSavesBP, autoffset) is a hand-written model of cmd/internal/obj/x86/obj6.go preprocess; it is MEASURED "
        "against the installed toolchain on the full grid {0,NOSPLIT,NOFRAME,both} x {0,8,16,4096,2^31,2^32+8} x {leaf,call} on every run "
        "(theorem asm_rule_measured); the prologue/epilogue machine model (runFn) is modelled-not-verified beyond that measurement",
        "hasCall = the function contains a CALL instruction (avo emits no DUFFCOPY/DUFFZERO)",
        "a refusal by pass.Compile that persists with the NOFRAME bits cleared (allocation failure, malformed operands, …) is not the "
        "refusal the property speaks about: nothing is emitted; such files are counted, not judged",
    ]
    ctx.trusted += [
        "Oracle.asmBP / asmBPWrites: go build (assembler + linker) and the host CPU, observed through the trampoline of harness/c15gen.go; "
        "one child process per grid case, controls that do not touch BP must report 'preserved'",
        "Gen.regs is produced by calling the compiled reg package's own API; Gen.compileOrder by evaluating the initialiser of pass.Compile "
        "(harness/gen_passfacts.go)",
        "form sweep: the probe functions' set-up code, the trampoline and the child-process runner (harness/c15forms.go, c15gen.go); "
        "controls on every run: a frameless leaf setting BP must be seen to change it, one that does not must be seen to preserve it",
        "the parse of the printed TEXT line (last comma-separated field of the line starting `TEXT ·name(SB)`) in harness/c15.go",
    ]
