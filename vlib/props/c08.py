"""C08 — Load and Store move exactly the component's bytes with Go's extension rule.

Proof-partial: the move-deduction table (Gen.mov, regenerated from build/zmov.go, first match) is judged
COMPLETELY over the finite reachable input space of Context.Load/Store by kernel evaluation against a
hand-written model of what each selected instruction does (`movSem`); `movSem` itself is a measured
oracle: on every run the real avo generates assembly functions around the real Load/Store, a throw-away
Go program runs them on the CPU, and both the model of the instruction (cpu-load / cpu-store) and the
property (accept-cpu, against Go's own conversions) are compared with what the CPU did."""
import os

from ..modules import MOV, FORMSMETA

GO_FILES = ["c06.go", "c06_optab_ast.go", "c06_ctors_ast.go", "gen_forms.go", "zz_c06_wrappers.go",
            "gen_mov.go", "c08.go", "c08cpu.go"]
PROPS = ["AvoVerif.Props.C08"]
FINDING = "AvoVerif.Props.C08Finding"


def run(ctx):
    ctx.level = "proof"
    ctx.coverage["proof_partial"] = ("the deduction table is decided completely in Lean; what the selected instructions do "
                                     "(movSem) is hand-modelled and validated on the host CPU on every run")
    if not ctx.build_harness(GO_FILES):
        return
    ok = ctx.regen([FORMSMETA, MOV])
    ctx.forbidden_scan()
    if not ctx.build_driver():
        return
    if ok and ctx.lake_each(PROPS):
        ctx.audit("C08")
        # finding F7 proved at the witness: a separate module — when the table is repaired it stops holding and the
        # finding is stale (a note), which must not break the property's own theorems
        okf, _ = ctx.lake([FINDING])
        if okf:
            ctx.audit("C08Finding")
        else:
            ctx.notes.append("Props/C08Finding.lean (negation of the property at the F7 witness) no longer holds: "
                             "the known_findings.json entry C08/F7 is stale")
            ctx.log("finding F7: witness theorem no longer holds (stale finding?)")
    if ctx.tier == "thorough":
        ctx.leanchecker(PROPS)

    cpu = "40" if ctx.tier == "quick" else "-1"
    nontrivial = lambda req, resp: not req.startswith("accept-nonprim") and resp != "error"
    ctx.differential("c08", 0, extra=["-cpu", cpu, "-work", os.path.join(ctx.dir, "cpu")], nontrivial=nontrivial,
                     max_report=200, timeout=3000)

    ctx.coverage["exhaustive"] = True
    ctx.coverage["rule"] = (
        "every reachable input of Context.Load / Context.Store: 18 spellings of basic types (all go/types basic kinds a "
        "component can resolve to, pointers, byte/rune) x 28 registers (a virtual register of each class GP 8L/8H/16/32/64, "
        "XMM/YMM/ZMM, K plus physical ones incl. R8-R15 views, high-byte, X17/Y31/Z30, K0) x {parameter/result address, "
        "dereferenced pointer} x {Load, Store} on a real signature, plus non-primitive components (string, complex, slice, "
        "array, struct): `mov` = exact comparison of the appended instruction's opcode / the error with the model's first "
        "match over Gen.mov; `accept-movsel` = the property on the implementation's choice through movSem. CPU: for one "
        "representative per (direction, type, register class) that selects an instruction (quick: 40 incl. one per opcode "
        "and every 4-byte/XMM row; thorough: all ~100) real avo-generated functions run on 12 boundary patterns x 2 register "
        "poisons; loads: register image, dependence of the register on each memory byte (access width), Go's own "
        "conversion computed by the Go compiler; stores: result array pre-filled with 0x5a, bytes after the component must "
        "survive. non-trivial = requests whose outcome is an instruction.")
    ctx.assumptions += [
        "the predicates used by the table depend on register kind and size only (IsK, IsM*, IsR*, IsXMM/IsYMM/IsZMM), so one "
        "register per class represents the class in the Lean theorem; the harness additionally runs physical registers",
        "the host CPU supports AVX-512 (ZMM and mask rows are executed); what it does is taken as the architecture's behaviour",
        "memory operands: operand.IsM8..IsM512 do not look at sizes (any GP/pseudo-based Mem matches), as in operand/checks.go",
        "the constructor called by a matching case accepts the operands (checked by the correspondence: an instruction with "
        "that opcode and exactly (address, register) operands is appended), not re-proved from Gen.Forms here",
    ]
    ctx.trusted += [
        "movSem (Model/Mov.lean `semTable`): hand-written instruction semantics; validated against the CPU on every run for "
        "the rows measured (cpu-load / cpu-store lines)",
        "go build / the Go compiler's conversions in the generated measurement program (.work/C08/cpu) as the oracle for Go's extension rule",
    ]
