"""C08 — Load and Store move exactly the component's bytes with Go's extension rule.

Proof-partial: what the real Context.Load / Context.Store do is tabulated on every run over the complete finite
class-level input space by RUNNING them (Gen.movTab) and judged COMPLETELY by kernel evaluation against a declarative
class table (where a move must exist) and a hand-written model of what each selected instruction does (`movSem`);
`movSem` itself is a measured oracle: on every run the real avo generates assembly functions around the real
Load/Store, a throw-away Go program runs them on the CPU, and both the model of the instruction (cpu-load /
cpu-store) and the property (accept-cpu, against Go's own conversions; accept-vet, go vet's asmdecl width
diagnostics) are compared with what the CPU / vet did."""
import json
import os
import re

from ..core import LEAN
from ..modules import MOV, FORMSMETA, REGS

GO_FILES = ["c06.go", "c06_optab_ast.go", "c06_ctors_ast.go", "c05derive.go", "gen_forms.go", "zz_c06_wrappers.go",
            "gen_mov.go", "c08.go", "c08cpu.go"]
PROPS = ["AvoVerif.Props.C08", "AvoVerif.Props.C08Regs"]
FINDINGS = [("F7", "AvoVerif.Props.C08Finding", "C08Finding"), ("F18", "AvoVerif.Props.C08FindingF18", "C08FindingF18")]

# lower bounds on what a run must have judged (a generator or a refactored entry point that silently drops cases
# must not look like success).  Counts are deterministic: 18 spellings x 28 registers x 3 shapes x 2 entry points x 2
# directions = 6048 basic cases, 18 sub-components x 28 x 3 x 2 = 3024, 6 x 9 x 2 = 108 non-primitive.
FLOORS = {"inputs": 9000, "instruction": 1500, "error": 2500, "nonprimitive-error": 100}
SHAPES = ["param/ctx", "param/pkg", "deref/ctx", "deref/pkg", "cderef/ctx", "cderef/pkg"]


def run(ctx):
    ctx.level = "proof"   # the evidence schema knows "proof" only; the partiality is stated in coverage["proof_partial"]
    ctx.coverage["proof_partial"] = (
        "proof-partial (DESIGN §4): the outcome of Load/Store at every class-level input is decided completely in Lean "
        "(mov_ok_partial, outside the findings F7 and F18); what the selected instructions do (movSem) is hand-modelled "
        "and validated on the host CPU on every run (a measured oracle, not a theorem); that one register / one address "
        "per class represents the class is a theorem only while build/zmov.go has the shape the go/ast extractor "
        "recognises (ast_agrees + loadStore_class_invariant), otherwise it is measured on 28 registers x 3 address shapes")
    if not ctx.build_harness(GO_FILES):
        return
    ok = ctx.regen([FORMSMETA, REGS, MOV])
    try:
        gen = open(os.path.join(LEAN, "AvoVerif", "Gen", "Mov.lean")).read()
        if "def movAstOK : Bool := false" in gen:
            m = re.search(r"/- go/ast extraction of build/zmov.go not possible: (.*?) -/", gen, re.S)
            ctx.notes.append("build/zmov.go no longer has the shape the go/ast extractor recognises (" + (m.group(1) if m else "?") +
                             "): the source rows are not cross-checked in this run; the property theorems are about the "
                             "behaviour table and are unaffected")
    except OSError:
        pass
    ctx.forbidden_scan()
    if not ctx.build_driver():
        return
    if ok and ctx.lake_each(PROPS):
        ctx.audit("C08")
        # findings proved at their witnesses: separate modules — when avo is repaired they stop holding and the
        # finding is stale (a note), which must not break the property's own theorems
        for fid, mod, audit in FINDINGS:
            okf, _ = ctx.lake([mod])
            if okf:
                ctx.audit(audit)
            else:
                ctx.notes.append(f"{mod} (negation of the property at the {fid} witness) no longer holds: "
                                 f"the known_findings.json entry C08/{fid} is stale")
                ctx.log(f"finding {fid}: witness theorem no longer holds (stale finding?)")
    if ctx.tier == "thorough":
        ctx.leanchecker(PROPS)

    # regression corpus of the acceptors (known-bad outputs must stay rejected)
    ctx.run_corpus("c08")

    cpu = "44" if ctx.tier == "quick" else "-1"
    nontrivial = lambda req, resp: not req.startswith("accept-nonprim") and resp != "error"
    ctx.differential("c08", 0, extra=["-cpu", cpu, "-work", os.path.join(ctx.dir, "cpu")], nontrivial=nontrivial,
                     max_report=200, timeout=3000)

    # sample floors
    try:
        st = json.load(open(os.path.join(ctx.dir, "c08.stats.json")))
        hist = st.get("histogram", {})
        got = {"inputs": st.get("inputs", 0)}
        got.update({k: hist.get(k, 0) for k in FLOORS if k != "inputs"})
        low = [f"{k}: {got[k]} < {v}" for k, v in FLOORS.items() if got[k] < v]
        low += [f"shape {s}: {hist.get('shape:' + s, 0)} < 1500" for s in SHAPES if hist.get("shape:" + s, 0) < 1500]
        cpu_st = st.get("cpu") or {}
        if "failed" not in cpu_st:
            rows = cpu_st.get("rows_measured", 0)
            need = 40 if ctx.tier == "quick" else 90
            if rows < need:
                low.append(f"cpu rows measured: {rows} < {need}")
            if cpu_st.get("load_observations", 0) + cpu_st.get("store_observations", 0) < 12 * rows:
                low.append("cpu observations below 12 per measured row")
        if low:
            ctx.obligation_failures.append(("c08: sample floors", "; ".join(low)))
    except (OSError, ValueError) as e:
        if not ctx.replay:
            ctx.obligation_failures.append(("c08: sample floors", f"statistics unreadable: {e}"))

    ctx.coverage["exhaustive"] = True
    ctx.coverage["rule"] = (
        "every reachable input of Load / Store: 18 spellings of basic types (all go/types basic kinds a component can "
        "resolve to, pointers, byte/rune, unsafe.Pointer) x 28 registers (a virtual register of each class GP 8L/8H/16/32/64, "
        "XMM/YMM/ZMM, K plus physical ones incl. R8-R15 views, high-byte, X17/Y31/Z30, K0) x 3 address shapes {parameter / "
        "result, gotypes Dereference on R14, Context.Dereference (which itself loads the pointer: judged as a Load of "
        "uintptr into the register it chose, the pointee must be addressed through exactly that register)} x 2 entry points "
        "{Context.Load/Store, package-level build.Load/Store/Param/Return/Dereference on a swapped-in context} x {Load, "
        "Store} on a real signature; 18 sub-components (real/imag of complex incl. named, string/slice headers incl. named, "
        "Index(k>0) of arrays incl. of a defined scalar type, struct Field) x the same registers and shapes; non-primitive "
        "components (string, complex, slice, array, struct) must be errors. The expected basic type comes from the SPELLED "
        "type, sizes from go/types.SizesFor(gc, amd64) — never from avo's Resolve() / gotypes.Sizes. Lines: `mov` = exact "
        "comparison of the outcome (opcode / error) with the behaviour table made at the start of the run for the input's "
        "class (class invariance, determinism); `accept-movsel` = the property on the outcome (acceptSel: error only where "
        "the class table has no move; selected opcode through movSem), plus explicit failures: resolved to another type, "
        "instruction operands other than (address, register), Load returning another register than its destination. CPU: "
        "one representative per (direction, type, register class) that selects an instruction (quick: 44 incl. one per "
        "opcode, one per register class incl. high-byte, every 4-byte/XMM row; thorough: all ~100): real avo-generated "
        "functions, the component is element 1 of a 32-byte array with recognisable bytes on BOTH sides, 12 boundary "
        "patterns x 2 register poisons; loads: register image, set of memory bytes the register depends on (first, last, "
        "count), Go's own conversion computed by the Go compiler; stores: array pre-filled with 0x5a, every byte outside "
        "the component must survive; the opcode is read back from the measured function; every row must deliver all its "
        "observations. go vet -asmdecl runs on the measured functions: every width diagnostic is a failing accept-vet line "
        "unless it is vet's known wrong guess for KMOVD/VMOVD/MOVD (last letter D = 8 bytes) contradicted by the CPU. "
        "non-trivial = requests whose outcome is an instruction.")
    ctx.assumptions += [
        "where a move must exist (mustMove, Model/Mov.lean): the type's register file fits (floats: vector registers only — "
        "float<->GP/mask is accepted as an error although MOVL/MOVQ could copy the bits: Go has no bit-exact conversion of a "
        "float to an integer register; integers, booleans, pointers: GP, mask, vector) AND the x86 class table has a "
        "two-operand move of exactly the component's width: GP n bytes: loads of 1/2/4/8 <= n, stores of exactly n; mask: "
        "1/2/4/8 (KMOVB/W/D/Q); XMM: 4/8 (MOVD/MOVQ/MOVSS/MOVSD); YMM/ZMM: none (scalar moves take XMM operands only), so "
        "Load/Store with a YMM/ZMM register is always an acceptable error, as are 1- and 2-byte integers with XMM",
        "for vector and mask destinations the property pins the low bytes and the access width only (upper bytes are not judged)",
        "component addresses are C07's property: C08 checks that the instruction uses exactly the address Resolve() returned, "
        "not that this address is right",
        "the predicates used by the table depend on register kind and size only (IsK, IsM*, IsR*, IsXMM/IsYMM/IsZMM), so one "
        "register per class represents the class in the Lean theorem (proved from the source rows while movAstOK; measured "
        "on 28 registers always)",
        "the host CPU supports AVX-512 (mask and XMM rows are executed; no YMM/ZMM input selects an instruction, so there is "
        "no YMM/ZMM row to execute); what it does is taken as the architecture's behaviour",
        "the constructor called by a matching case accepts the operands (checked by the correspondence: an instruction with "
        "that opcode and exactly (address, register) operands is appended), not re-proved from Gen.Forms here; whether the "
        "assembler can encode it (e.g. AH with a REX-only base register) is C05's property",
        "error texts are not part of the property and are not compared",
    ]
    ctx.trusted += [
        "movSem (Model/Mov.lean `semTable`): hand-written instruction semantics; validated against the CPU on every run for "
        "the (opcode, register class) pairs Load/Store actually select (cpu-load / cpu-store lines; quick: one row per opcode "
        "and direction at least); the entries for opcodes that appear only in shadowed or unreachable cases of zmov.go "
        "(MOVOU, VMOVD, VMOVQ, VMOVSS, VMOVSD, VMOVDQU*) are never selected and never measured — they are needed only for "
        "mov_opcodes_modelled (totality over the source rows)",
        "go build / the Go compiler's conversions in the generated measurement program (.work/C08/cpu) as the oracle for Go's "
        "extension rule; go vet -asmdecl as a second, heuristic oracle for access widths (its D-suffix guess is overridden "
        "for KMOVD/VMOVD/MOVD by the CPU measurement)",
        "the class table moveWidths (Model/Mov.lean) as the statement of which moves the x86 instruction set has",
        "harness/gen_mov.go, harness/c08.go: tabulation of the real Load/Store into Gen.movTab (glue)",
    ]
