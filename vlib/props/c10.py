"""C10 — clean-up passes never change what the function computes."""
import os

FILES = ["c09.go", "c10.go", "gen_passfacts.go", "gen_branchops.go"]
LEAN = ["AvoVerif.Props.C10", "AvoVerif.Props.C10Tables", "AvoVerif.Props.C10Sim", "AvoVerif.Props.C10SelfMove",
        "AvoVerif.Props.C10Accept", "AvoVerif.Props.C10Compose", "AvoVerif.Props.C10Pruned",
        "AvoVerif.Props.C10General"]

# Lower bounds (quick tier, n = 2500) on what the generators produced and the REAL passes did: if a stream dries up, if
# the passes stop deleting anything, or if pass.Compile starts rejecting the generated functions, the run is not a pass.
FLOORS = {
    "jumps": 9000, "labels": 11000, "selfmoves": 2400, "compile": 9500, "enum": 20000,
    "jumps_deleted_instr": 500, "labels_deleted_labels": 2500, "selfmoves_deleted_instr": 3000,
    "compile_changed": 4000, "compile_deleted_instr": 3000, "compile_virtual_moves": 6000,
    "deleted_opcode:JMP": 1500, "deleted_opcode:MOVB": 800, "deleted_opcode:MOVW": 800, "deleted_opcode:MOVQ": 3000,
    "call_label": 3000, "labels_nbref": 300, "compile_nbref": 300, "jcc_before_label": 200,
}


def floors(ctx, stats):
    for key, lo in FLOORS.items():
        ctx.obligations += 1
        got = stats.get(key, 0)
        if got < lo:
            ctx.obligation_failures.append((f"c10 sample floor {key}", f"{got} < {lo}: the generator/implementation no longer yields enough of these cases"))
        else:
            ctx.discharged += 1
    for key in ("build_failed",):
        ctx.obligations += 1
        if stats.get(key, 0) != 0:
            ctx.obligation_failures.append((f"c10 generator {key}", f"{stats.get(key)} (must be 0)"))
        else:
            ctx.discharged += 1
    # self-moves that only the allocator can create (a move between two different virtual registers that received the
    # same physical register): deleted ones plus kept ones (MOVL). A low floor: which registers coincide is the allocator's choice.
    ctx.obligations += 1
    made = sum(v for k, v in stats.items() if k.startswith("compile_deleted_allocator_selfmoves") or k.startswith("compile_kept_allocator_selfmoves"))
    if made < 200:
        ctx.obligation_failures.append(("c10 sample floor allocator-created self-moves", f"{made} < 200"))
    else:
        ctx.discharged += 1
    ctx.obligations += 1
    if stats.get("compile_rejected", 0) > 250:
        ctx.obligation_failures.append(("c10 compile stream", f"pass.Compile rejected {stats.get('compile_rejected')} of the generated functions (> 250)"))
    else:
        ctx.discharged += 1


def exact_agreement(ctx):
    """INFORMATIONAL: line-by-line comparison of the real passes with the Lean models pruneJumps / pruneLabels /
    pruneSelfMoves (and their composition for the compile stream). The property does not pin WHICH no-ops a pass
    deletes, so a difference here is not a failure; the judgement is the acceptor's. It is recorded because the
    simulation theorems are about these models: where the implementation agrees line by line they apply verbatim."""
    base = os.path.join(ctx.dir, "c10")
    ops, impl, model = base + ".ops.exact", base + ".impl.exact", base + ".model.exact"
    if not (os.path.exists(ops) and os.path.exists(impl)):
        return
    if not ctx.run_driver(ops, model):
        return
    per = {}
    examples = []
    with open(ops) as fo, open(impl) as fi, open(model) as fm:
        for req, a, b in zip(fo, fi, fm):
            name = req.split(" ", 2)[1] if " " in req else "?"
            t = per.setdefault(name, [0, 0])
            t[0] += 1
            if a != b:
                t[1] += 1
                if len(examples) < 3:
                    examples.append({"request": req.strip()[:300], "impl": a.strip()[:200], "model": b.strip()[:200]})
    ctx.evaluations += sum(t[0] for t in per.values())
    ctx.coverage["exact_model_agreement"] = {k: {"compared": v[0], "different": v[1]} for k, v in per.items()}
    diff = sum(t[1] for t in per.values())
    ctx.log(f"c10 exact (informational): {sum(t[0] for t in per.values())} outputs compared with the model passes, {diff} differ")
    if diff:
        ctx.coverage["exact_model_agreement"]["examples"] = examples
        ctx.notes.append(f"the real passes differ from the line-by-line Lean models in {diff} outputs; every output was judged by the acceptor "
                         "(only removable nodes deleted), so this is not a violation, but the simulation theorems about the MODEL passes "
                         "(pruneJumps_run, pruneLabels_run, pruneSelfMoves_run, cleanup_run) then describe a slightly different algorithm")


def run(ctx):
    if not ctx.build_harness(FILES):
        return
    ctx.regen([("Gen/PassFacts", "PassFacts"), ("Gen/BranchOps", "BranchOps")])
    ctx.forbidden_scan()
    if not ctx.build_driver():
        return
    if ctx.lake_each(LEAN):
        ctx.audit("C10")
    if ctx.tier == "thorough":
        ctx.leanchecker(LEAN)
    nt = lambda req, resp: req.startswith("accept-cleanup") and len(req.split(" => ")[0].split()) > len(req.split(" => ")[1].split()) + 8
    ctx.run_corpus("c10", nontrivial=nt)
    n = 2500 if ctx.tier == "quick" else 60000
    if ctx.differential("c10", n, nontrivial=nt) is not None and not ctx.replay:
        floors(ctx, ctx.coverage.get("input_distribution", {}).get("c10", {}))
        exact_agreement(ctx)
    ctx.coverage["rule"] = (
        "Every output of the REAL passes is judged by one pass-independent acceptor (Props/C10Accept.lean: walk, walk_sound): the result "
        "must be the original node list with some nodes deleted, and a deleted node must be a comment, a label that no remaining "
        "instruction refers to (by a branch OR by CALL label), a jump (J.. opcode) whose label stands in the label run directly behind it, "
        "or a register move onto the same register whose execMov semantics is the identity (MOVB/MOVW/MOVQ on general-purpose registers, "
        "legacy-SSE full 128-bit moves on XMM registers; never MOVL r,r, never MOVQ x,x on vector registers, never AL/AH of one register); "
        "independently, on functions with a well-formed CFG, every surviving instruction must keep its successors (model of "
        "LabelTarget+CFG) once deleted instructions are contracted. Streams: (1) generated node lists (jumps directly before their "
        "label, chains of jumps, comments between, conditional jumps before their label, unreferenced and referenced labels, labels "
        "referenced only by CALL, CALL to undefined labels, malformed lists) through PruneJumpToFollowingLabel, PruneDanglingLabels and "
        "both in Compile's order; (2) EVERY node sequence up to length 4 (thorough: 5) over {label a, label b, comment, NOP, RET, JMP a, "
        "JNE a, JMP b, CALL a} through the same; (3) register-move functions (MOVB/MOVW/MOVL/MOVQ incl. AL/AH of one register, vector "
        "MOVQ/MOVOU/MOVAPS/VMOVDQU, runs of consecutive self-moves, inside loops) through PruneSelfMoves; (4) functions over 2-4 virtual "
        "registers with moves of all widths, loops, jumps to the next label and CALL label through the whole real pass.Compile, judged "
        "on the registers the allocator chose (self-moves created by the allocator; behavioural check of the pass order). The "
        "line-by-line comparison with the model passes is INFORMATIONAL (coverage.exact_model_agreement): the property does not pin which "
        "no-ops are deleted. Sample floors per stream are obligations of the run. Non-trivial = something was deleted")
    ctx.assumptions += [
        "register-to-register MOV semantics (execMov/movKind) is hand-written from the Intel SDM: MOVB/MOVW/MOVQ copy the operand's bytes, "
        "MOVL zero-extends, MOVQ xmm,xmm clears bits 64-127, MOVAPS/MOVAPD/MOVUPS/MOVUPD/MOVOA/MOVOU xmm,xmm copy bits 0-127 and preserve the rest",
        "jumps are the opcodes starting with J (isJumpOpcode); none of them writes a register or a flag (hand-written; C09's "
        "features_are_x86_classes ties avo's branch flags to the same classification)",
        "behaviour preservation is PROVED (a) for the three model passes and their composition in Compile's order (pruneJumps_run, "
        "pruneLabels_run, pruneSelfMoves_run: lock-step/stuttering simulations for all executions; cleanup_halts_partial: equal halting "
        "states) and (b) for EVERY output the acceptor's walk accepts, whatever algorithm produced it (accepted_halts_partial via walk_sound "
        "and pruned_halts_partial: if the original halts in state t so does the result) - for any instruction semantics in which the "
        "deleted instructions change no state, are not returns and, if flagged as branches, target the label run behind them "
        "(DeletedAreNoops; for the model passes: hjmp, hself, hcf with hcf discharged from the regenerated form table by "
        "selfMove_not_cf and hself from execMov by hself_of_execMov), on functions with pairwise distinct labels (else LabelTarget "
        "rejects the function). Both composed theorems are PARTIAL: the converse direction (result halts => original halts) and "
        "preservation of non-termination are proved per pass for jumps and self-moves only",
        "that the three model passes satisfy the acceptor's statement (Pruned) is proved (pruneJumps_pruned, pruneLabels_pruned, "
        "pruneSelfMoves_pruned) under the form-table conditions named there; pruneLabels_not_pruned_call proves that the model of "
        "PruneDanglingLabels (= the code) leaves the statement on the F10b witness",
        "prune_selfmov_ok is conditional on the operand widths fitting the opcode (movKind = notAMove otherwise); the acceptor demands "
        "movKind = plain on every deleted instruction of the real passes",
        "label references by non-branch instructions other than as first operand are not modelled (the form table has none: rel_operand_opcodes)",
        "taken branches without a label operand (indirect JMP) halt both programs in the simulation theorems (no statement about them)",
        "the pass list of Compile is read from the source by evaluating its initialiser (gen_passfacts.go); passes are matched by the "
        "function name inside the wrapper, e.g. FunctionPass(CFG): a pass stored in a differently named variable is not recognised "
        "(obligation failure, not a silent pass); the order is additionally exercised behaviourally by stream (4)",
        "allocator-created self-moves are covered by stream (4) on at most 4 virtual GP registers; execution on the CPU is C01's (c01x)",
    ]
    ctx.trusted += ["harness/c10.go: encoding of nodes/operands into request lines, instruction identity by pointer (uid)",
                    "Drv/C10.lean: request parsing, cfgVerdicts (the second, CFG-based successor comparison has no soundness theorem; it can only add objections; the walk has walk_sound)"]
