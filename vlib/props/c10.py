"""C10 — clean-up passes never change what the function computes."""
import json
import os
from ..modules import SELFMOVEFACTS, MOVEHW

FILES = ["c09.go", "c10.go", "c10vec.go", "c10facts.go", "gen_passfacts.go", "gen_branchops.go"]
LEAN = ["AvoVerif.Props.C10", "AvoVerif.Props.C10Tables", "AvoVerif.Props.C10Sim", "AvoVerif.Props.C10SelfMove",
        "AvoVerif.Props.C10Accept", "AvoVerif.Props.C10Compose", "AvoVerif.Props.C10Pruned",
        "AvoVerif.Props.C10General", "AvoVerif.Props.C10Moves"]

# Lower bounds (quick tier, n = 2500) on what the generators produced and the REAL passes did: if a stream dries up, if
# the passes stop deleting anything, or if pass.Compile starts rejecting the generated functions, the run is not a pass.
FLOORS = {
    "jumps": 9000, "labels": 11000, "selfmoves": 2400, "compile": 9500, "enum": 20000,
    "jumps_deleted_instr": 500, "labels_deleted_labels": 2500, "selfmoves_deleted_instr": 3000,
    "compile_changed": 4000, "compile_deleted_instr": 3000, "compile_virtual_moves": 6000,
    "deleted_opcode:JMP": 1500, "deleted_opcode:MOVB": 800, "deleted_opcode:MOVW": 800, "deleted_opcode:MOVQ": 3000,
    "call_label": 3000, "labels_nbref": 300, "compile_nbref": 300, "jcc_before_label": 200,
    # register moves of every opcode / class / width of the form table (c10vec.go).  The sweep is deterministic
    # (one function per two-register or masked shape of the table); the other two streams are random.
    "move_shapes": 250, "sweep_shapes": 700, "sweep_mov_shapes": 250, "sweep_masked_shapes": 200,
    "sweep_cls:r8": 8, "sweep_cls:r16": 25, "sweep_cls:r32": 30, "sweep_cls:r64": 30,
    "sweep_cls:xmm": 300, "sweep_cls:ymm": 100, "sweep_cls:zmm": 100, "sweep_cls:k": 10,
    "vecmoves": 1200, "compilevec": 1100,
    # self-moves AFTER register allocation in functions over virtual registers, per class of the operand
    "compilevec_self_mode:alloc": 250, "compilevec_self_mode:author": 700, "compilevec_self_mode:phys": 200,
}
for _cls in ("r8", "r16", "r32", "r64", "xmm", "ymm", "zmm", "k"):
    FLOORS["vecmoves_self:" + _cls] = 400
    FLOORS["compilevec_self:" + _cls] = 80


def floors(ctx, stats):
    for key, lo in FLOORS.items():
        ctx.obligations += 1
        got = stats.get(key, 0)
        if got < lo:
            ctx.obligation_failures.append((f"c10 sample floor {key}", f"{got} < {lo}: the generator/implementation no longer yields enough of these cases"))
        else:
            ctx.discharged += 1
    # compilevec_shapes_never_self: move shapes of the table that never stood as a self-move after allocation
    for key in ("build_failed", "sweep_build_failed", "compilevec_shapes_never_self"):
        ctx.obligations += 1
        if stats.get(key, 0) != 0:
            ctx.obligation_failures.append((f"c10 generator {key}", f"{stats.get(key)} (must be 0)"))
        else:
            ctx.discharged += 1
    # self-moves that only the allocator can create (a move between two different virtual registers that received the
    # same physical register): deleted ones plus kept ones (MOVL). A low floor: which registers coincide is the allocator's choice.
    ctx.obligations += 1
    made = sum(v for k, v in stats.items() if k.startswith("compile_deleted_allocator_selfmoves") or k.startswith("compile_kept_allocator_selfmoves"))
    if made < 200:
        ctx.obligation_failures.append(("c10 sample floor allocator-created self-moves", f"{made} < 200"))
    else:
        ctx.discharged += 1
    ctx.obligations += 1
    if stats.get("compile_rejected", 0) > 250:
        ctx.obligation_failures.append(("c10 compile stream", f"pass.Compile rejected {stats.get('compile_rejected')} of the generated functions (> 250)"))
    else:
        ctx.discharged += 1
    ctx.obligations += 1
    if stats.get("compilevec_rejected", 0) > 100:
        ctx.obligation_failures.append(("c10 compile stream (vector/opmask virtuals)", f"pass.Compile rejected {stats.get('compilevec_rejected')} of the generated functions (> 100)"))
    else:
        ctx.discharged += 1


def movehw_summary(ctx):
    """What the CPU oracle of the move semantics measured on this run (Oracle/MoveHW, harness/c10facts.go)."""
    try:
        sm = json.load(open(os.path.join(ctx.dir, "movehw", "summary.json")))
    except Exception:
        return
    ctx.coverage["move_semantics_vs_cpu"] = sm
    if not sm.get("host_avx512"):
        ctx.notes.append("the host CPU lacks AVX-512 F/BW/VL/DQ: the move semantics (execMov) was NOT cross-checked against the CPU on this run")
        ctx.assumptions.append("execMov / execMovMasked not validated against the CPU on this host (no AVX-512)")


def exact_agreement(ctx):
    """INFORMATIONAL: line-by-line comparison of the real passes with the Lean models pruneJumps / pruneLabels /
    pruneSelfMoves (and their composition for the compile stream). The property does not pin WHICH no-ops a pass
    deletes, so a difference here is not a failure; the judgement is the acceptor's. It is recorded because the
    simulation theorems are about these models: where the implementation agrees line by line they apply verbatim."""
    base = os.path.join(ctx.dir, "c10")
    ops, impl, model = base + ".ops.exact", base + ".impl.exact", base + ".model.exact"
    if not (os.path.exists(ops) and os.path.exists(impl)):
        return
    if not ctx.run_driver(ops, model):
        return
    per = {}
    examples = []
    with open(ops) as fo, open(impl) as fi, open(model) as fm:
        for req, a, b in zip(fo, fi, fm):
            name = req.split(" ", 2)[1] if " " in req else "?"
            t = per.setdefault(name, [0, 0])
            t[0] += 1
            if a != b:
                t[1] += 1
                if len(examples) < 3:
                    examples.append({"request": req.strip()[:300], "impl": a.strip()[:200], "model": b.strip()[:200]})
    ctx.evaluations += sum(t[0] for t in per.values())
    ctx.coverage["exact_model_agreement"] = {k: {"compared": v[0], "different": v[1]} for k, v in per.items()}
    diff = sum(t[1] for t in per.values())
    ctx.log(f"c10 exact (informational): {sum(t[0] for t in per.values())} outputs compared with the model passes, {diff} differ")
    if diff:
        ctx.coverage["exact_model_agreement"]["examples"] = examples
        ctx.notes.append(f"the real passes differ from the line-by-line Lean models in {diff} outputs; every output was judged by the acceptor "
                         "(only removable nodes deleted), so this is not a violation, but the simulation theorems about the MODEL passes "
                         "(pruneJumps_run, pruneLabels_run, pruneSelfMoves_run, cleanup_run) then describe a slightly different algorithm")


def run(ctx):
    if not ctx.build_harness(FILES):
        return
    ctx.regen([("Gen/PassFacts", "PassFacts"), ("Gen/BranchOps", "BranchOps"), SELFMOVEFACTS, MOVEHW])
    movehw_summary(ctx)
    ctx.forbidden_scan()
    if not ctx.build_driver():
        return
    if ctx.lake_each(LEAN):
        ctx.audit("C10")
    if ctx.tier == "thorough":
        ctx.leanchecker(LEAN)
    nt = lambda req, resp: req.startswith("accept-cleanup") and len(req.split(" => ")[0].split()) > len(req.split(" => ")[1].split()) + 8
    ctx.run_corpus("c10", nontrivial=nt)
    n = 2500 if ctx.tier == "quick" else 60000
    if ctx.differential("c10", n, nontrivial=nt) is not None and not ctx.replay:
        floors(ctx, ctx.coverage.get("input_distribution", {}).get("c10", {}))
        exact_agreement(ctx)
    ctx.coverage["rule"] = (
        "Every output of the REAL passes is judged by one pass-independent acceptor (Props/C10Accept.lean: walk, walk_sound): the result "
        "must be the original node list with some nodes deleted, and a deleted node must be a comment, a label that no remaining "
        "instruction refers to (by a branch OR by CALL label), a jump (J.. opcode) whose label stands in the label run directly behind it, "
        "or a register move onto the same register whose semantics (execMov / execMovMasked, Model/Cleanup.lean) is the identity on every "
        "register file - exactly (selfMove_noop_iff, maskedSelfMove_noop_iff, noEffectMove_iff): MOVB/MOVW/MOVQ/MOVD on general-purpose "
        "registers, legacy-SSE moves on XMM registers (MOVAPS.. MOVO MOVOU MOVSD MOVSS: everything above bit 127 is preserved), "
        "VEX/EVEX moves of a whole ZMM register, KMOVQ k,k, merge-masked EVEX moves of a whole ZMM register; NEVER MOVL r,r, MOVQ/MOVD/VMOVQ "
        "x,x, a 128- or 256-bit VEX/EVEX move (it clears the register above the vector length up to bit 511), KMOVB/W/D k,k, a "
        "zeroing-masked move, AL/AH of one register, or any instruction the model gives no move semantics; "
        "independently, on functions with a well-formed CFG, every surviving instruction must keep its successors (model of "
        "LabelTarget+CFG) once deleted instructions are contracted. Streams: (1) generated node lists (jumps directly before their "
        "label, chains of jumps, comments between, conditional jumps before their label, unreferenced and referenced labels, labels "
        "referenced only by CALL, CALL to undefined labels, malformed lists) through PruneJumpToFollowingLabel, PruneDanglingLabels and "
        "both in Compile's order; (2) EVERY node sequence up to length 4 (thorough: 5) over {label a, label b, comment, NOP, RET, JMP a, "
        "JNE a, JMP b, CALL a} through the same; (3) register-move functions (MOVB/MOVW/MOVL/MOVQ incl. AL/AH of one register, vector "
        "MOVQ/MOVOU/MOVAPS/VMOVDQU, runs of consecutive self-moves, inside loops) through PruneSelfMoves; (4) functions over 2-4 virtual "
        "registers with moves of all widths, loops, jumps to the next label and CALL label through the whole real pass.Compile, judged "
        "on the registers the allocator chose (self-moves created by the allocator; behavioural check of the pass order); "
        "(5) a COMPLETE sweep derived from the compiled form table: every opcode with a form OPC t,t (t = r8 r16 r32 r64 xmm ymm zmm k) or a "
        "masked form OPC t,k,t, with every suffix, as an author-written self-move on low / high / EVEX-only / AH-style registers and, "
        "for MOV-named opcodes, between two different registers, through PruneSelfMoves (~900 shapes); (6) random functions of moves over "
        "all MOV-named shapes, register class chosen uniformly, registers 0-31, in loops; (7) functions over vector / opmask / general-purpose "
        "VIRTUAL registers (also allocated wider than the operand: a YMM move on a ZMM virtual) whose moves cycle through every MOV-named "
        "shape, through the whole real pass.Compile (self-moves made by the allocator, written by the author on one virtual, physical). "
        "Regenerated facts: Gen/SelfMoveFacts (what the real pass deletes over the whole sweep; pruned_moves_are_noops proves every "
        "deleted instruction a no-op move) and Oracle/MoveHW (byte lanes changed by executing each MOV-named self-move on the host CPU; "
        "movesem_matches_cpu proves the model's prediction equal to the measurement). The "
        "line-by-line comparison with the model passes is INFORMATIONAL (coverage.exact_model_agreement): the property does not pin which "
        "no-ops are deleted. Sample floors per stream are obligations of the run. Non-trivial = something was deleted")
    ctx.assumptions += [
        "register-to-register MOV semantics (execMov/movKind, execMovMasked) is hand-written from the Intel SDM: MOVB/MOVW/MOVQ copy the operand's bytes, "
        "MOVL zero-extends, MOVQ/MOVD xmm,xmm clears bits 64-127, legacy SSE moves preserve bits 128 and up, VEX/EVEX moves clear everything "
        "above the vector length, KMOVx zero-extends to 64 bits, masked moves blend per element (abstracted by an arbitrary lawful Blend); "
        "on a host with AVX-512 it is cross-checked on every run against execution of every MOV-named self-move of the form table "
        "(Oracle/MoveHW, movesem_matches_cpu: the changed byte lanes of the full register agree for all rows the model covers, >= 100 rows); "
        "the CPU probe runs one register per class on one non-zero byte pattern and one opmask value",
        "jumps are the opcodes starting with J (isJumpOpcode); none of them writes a register or a flag (hand-written; C09's "
        "features_are_x86_classes ties avo's branch flags to the same classification)",
        "behaviour preservation is PROVED (a) for the three model passes and their composition in Compile's order (pruneJumps_run, "
        "pruneLabels_run, pruneSelfMoves_run: lock-step/stuttering simulations for all executions; cleanup_halts_partial: equal halting "
        "states) and (b) for EVERY output the acceptor's walk accepts, whatever algorithm produced it (accepted_halts_partial via walk_sound "
        "and pruned_halts_partial: if the original halts in state t so does the result) - for any instruction semantics in which the "
        "deleted instructions change no state, are not returns and, if flagged as branches, target the label run behind them "
        "(DeletedAreNoops; for the model passes: hjmp, hself, hcf with hcf discharged from the regenerated form table by "
        "selfMove_not_cf and hself from execMov by hself_of_execMov), on functions with pairwise distinct labels (else LabelTarget "
        "rejects the function). Both composed theorems are PARTIAL: the converse direction (result halts => original halts) and "
        "preservation of non-termination are proved per pass for jumps and self-moves only",
        "that the three model passes satisfy the acceptor's statement (Pruned) is proved (pruneJumps_pruned, pruneLabels_pruned, "
        "pruneSelfMoves_pruned) under the form-table conditions named there; pruneLabels_not_pruned_call proves that the model of "
        "PruneDanglingLabels (= the code) leaves the statement on the F10b witness",
        "prune_selfmov_ok is conditional on the operand widths fitting the opcode (movKind = notAMove otherwise); the acceptor demands "
        "movKind = plain on every deleted instruction of the real passes",
        "label references by non-branch instructions other than as first operand are not modelled (the form table has none: rel_operand_opcodes)",
        "taken branches without a label operand (indirect JMP) halt both programs in the simulation theorems (no statement about them)",
        "the pass list of Compile is read from the source by evaluating its initialiser (gen_passfacts.go); passes are matched by the "
        "function name inside the wrapper, e.g. FunctionPass(CFG): a pass stored in a differently named variable is not recognised "
        "(obligation failure, not a silent pass); the order is additionally exercised behaviourally by stream (4)",
        "allocator-created self-moves are covered by stream (4) on at most 4 virtual GP registers and by stream (7) on vector / opmask / GP "
        "virtuals of every class; execution of whole functions on the CPU is C01's (c01x)",
    ]
    ctx.trusted += ["harness/c10.go, c10vec.go: encoding of nodes/operands into request lines (suffixes inside the opcode token), instruction identity by pointer (uid)",
                    "harness/c10facts.go: the sweep over the form table (Gen/SelfMoveFacts) and the CPU probe (Oracle/MoveHW: Go assembler + execution)",
                    "Drv/C10.lean: request parsing, cfgVerdicts (the second, CFG-based successor comparison has no soundness theorem; it can only add objections; the walk has walk_sound)"]
