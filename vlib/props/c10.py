"""C10 — clean-up passes never change what the function computes."""

FILES = ["c09.go", "c10.go", "gen_passfacts.go"]

def run(ctx):
    if not ctx.build_harness(FILES):
        return
    ctx.regen([("Gen/PassFacts", "PassFacts")])
    ctx.forbidden_scan()
    if not ctx.build_driver():
        return
    if ctx.lake_each(["AvoVerif.Props.C10", "AvoVerif.Props.C10Tables", "AvoVerif.Props.C10Sim", "AvoVerif.Props.C10SelfMove"]):
        ctx.audit("C10")
    if ctx.tier == "thorough":
        ctx.leanchecker(["AvoVerif.Props.C10", "AvoVerif.Props.C10Tables", "AvoVerif.Props.C10Sim", "AvoVerif.Props.C10SelfMove"])
    nt = lambda req, resp: req.startswith("accept-cleanup") and len(req.split(" => ")[0].split()) > len(resp.split()) + 6
    n = 2500 if ctx.tier == "quick" else 60000
    ctx.differential("c10", n, nontrivial=nt)
    ctx.coverage["rule"] = ("generated node lists (jumps directly before their label, chains of jumps, comments between, unreferenced and "
                            "referenced labels, labels referenced only by CALL, malformed lists) through the real PruneJumpToFollowingLabel "
                            "and PruneDanglingLabels, and register-move functions (MOVB/MOVW/MOVL/MOVQ incl. AL/AH of one register, vector "
                            "MOVQ/MOVOU, runs of consecutive self-moves) through the real PruneSelfMoves: exact comparison with the model "
                            "and a semantic acceptor (result is a sublist; every deleted instruction is a jump to the very next instruction "
                            "or a plain GP self-move; every surviving instruction has the same successors after contracting the deleted ones)")
    ctx.assumptions += ["register-to-register MOV semantics (execMov) is hand-written from the Intel SDM: MOVL zero-extends, MOVQ xmm,xmm clears bits 64-127",
                        "self-move removal is proved as a whole-program stuttering simulation for all executions (pruneSelfMoves_step, pruneSelfMoves_run, pruneSelfMoves_steps_bound, pruneSelfMoves_halts, pruneSelfMoves_run_entry in Props/C10SelfMove.lean) under two explicit hypotheses on the instruction semantics: hself (a deleted self-move leaves the machine state unchanged and falls through; justified per instruction on register files by prune_selfmov_ok / hself_of_execMov) and hcf (a deleted self-move is neither a branch nor a return); jump and label removal are proved as lock-step simulations (pruneJumps_run, pruneLabels_step)"]
