"""C02 — liveness is exactly the set of register bytes that can still be read."""

def run(ctx):
    if not ctx.build_harness(['c09.go', 'c02.go']):
        return
    ctx.forbidden_scan()
    if not ctx.build_driver():
        return
    if ctx.lake_each(["AvoVerif.Props.C02", "AvoVerif.Props.C02Term"]):
        ctx.audit("C02")
    if ctx.tier == "thorough":
        ctx.leanchecker(["AvoVerif.Props.C02", "AvoVerif.Props.C02Term"])
    nt = lambda req, resp: req.startswith(("live ", "accept-live ")) and " 2 " in req or "usedef 1 " in req
    ctx.run_corpus("c02", nontrivial=nt)
    n = 1500 if ctx.tier == "quick" else 40000
    ctx.differential("c02", n, nontrivial=nt)
    ctx.coverage["rule"] = ("(a) every instruction form (quick: every 3rd row, offset by seed; thorough: every row x3 operand choices; all "
                            "self-cancelling forms also with equal registers) built through the real form table: InputRegisters/"
                            "OutputRegisters after ZeroExtend32BitOutputs vs the read/write specification from the form's operand "
                            "actions; (b) generated functions (loops, diamonds, unreachable code, fall-off-the-end, all widths, "
                            "physical + virtual registers) through the real LabelTarget/CFG/ZeroExtend/Liveness: LiveIn/LiveOut "
                            "compared exactly with the model of the algorithm AND with a direct path-search evaluation of the "
                            "specification (acceptor)")
    ctx.assumptions += ["operand actions in the form table are what the CPU does (that is C04)",
                        "Succ lists are the CFG of C09"]
