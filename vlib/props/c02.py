"""C02 — liveness is exactly the set of register bytes that can still be read."""

PROPS = ["AvoVerif.Props.C02", "AvoVerif.Props.C02Term", "AvoVerif.Props.C02UseDef", "AvoVerif.Props.C02Accept"]


def _floors(ctx, st):
    """Lower bounds on what was actually judged: a stream that silently drops its cases (operands rejected, functions
    rejected, a generator that stopped producing a shape) would otherwise hide a failure behind `0 mismatches`."""
    def need(cond, name, text):
        if not cond:
            ctx.obligation_failures.append(("c02 sample floor: " + name, text))
    g = lambda k: int(st.get(k, 0))
    att, ud = g("usedef_attempts"), g("usedef")
    need(g("rows_total") >= 1000, "rows", f"form table has {g('rows_total')} rows")
    need(att >= g("rows_total") and ud * 100 >= att * 98, "usedef",
         f"{ud} of {att} form instances judged (rejected {g('form_rejected')}, unmatched {g('no_matched_form')}); at least 98% must be")
    need(g("cancelling_rows") >= 1 and g("cancelling_equal") >= g("cancelling_rows"), "cancelling_equal",
         f"{g('cancelling_equal')} self-cancelling instances with equal registers for {g('cancelling_rows')} cancelling rows")
    need(g("cancelling_other_view") >= 4, "cancelling_other_view", f"{g('cancelling_other_view')} instances with two byte views of one register")
    need(g("cancelling_rows_not_leading_with_two_read_registers") == 0, "cancelling_shape",
         "a self-cancelling form does not lead with two read register operands (InputRegisters indexes rs[0], rs[1])")
    for k, lo in (("shape:mem_vector_index", 50), ("shape:mem_gp_index", 200), ("shape:written_mem_with_address_registers", 200),
                  ("shape:implicit_operand", 100), ("shape:mask_operand", 500), ("shape:merge_destination", 300),
                  ("shape:gp32_destination", 100), ("shape:high_byte_register", 20)):
        need(g(k) >= lo, k, f"{g(k)} judged instances (floor {lo})")
    need(g("chain_functions") >= 28 and g("chain_max_depth") >= 16, "chains",
         f"{g('chain_functions')} backward-branch chain functions judged, deepest {g('chain_max_depth')} (need 28 / 16)")
    need(g("degenerate_functions") >= 4, "degenerate", f"{g('degenerate_functions')} degenerate functions judged (empty, single instruction, self-loops)")
    n = ctx._c02_n
    need(g("functions") * 100 >= n * 90, "functions", f"{g('functions')} of {n} generated functions judged ({g('functions_cfg_rejected')} rejected)")
    need(g("back_edges") >= n // 20 and g("cond_branches") >= n // 2, "control flow", f"back edges {g('back_edges')}, conditional branches {g('cond_branches')}")
    need(g("pipe_judged") * 100 >= g("functions") * 80, "in-pipeline liveness",
         f"{g('pipe_judged')} functions judged on the live sets found inside the real pass.Compile ({g('pipe_not_judged')} not read back) for {g('functions')} judged directly")
    unresolved = [k for k in st if k.startswith("implicit_register_name_unresolved:")]
    if unresolved:
        ctx.notes.append("implicit register names not resolved independently (register taken from the compiled table): " + ", ".join(unresolved))


def run(ctx):
    if not ctx.build_harness(['c09.go', 'c02.go']):
        return
    ctx.forbidden_scan()
    if not ctx.build_driver():
        return
    if ctx.lake_each(PROPS):
        ctx.audit("C02")
    if ctx.tier == "thorough":
        ctx.leanchecker(PROPS)
    nt = lambda req, resp: req.startswith(("live ", "accept-live ")) and " 2 " in req or "usedef 1 " in req
    ctx.run_corpus("c02", nontrivial=nt)
    n = 1500 if ctx.tier == "quick" else 30000
    ctx._c02_n = n
    r = ctx.differential("c02", n, nontrivial=nt)
    st = ctx.coverage.get("input_distribution", {}).get("c02", {})
    if r is not None:
        _floors(ctx, st)
    from_names = bool(st.get("spec_actions_from_source_names"))
    ctx.coverage["usedef_spec_actions"] = (
        "operand action NAMES (actionN/R/W/RW) read from the rows of x86/zoptab.go with go/ast and interpreted by their letters"
        if from_names else
        "COMPILED table through the verif hook (the rows of x86/zoptab.go could not be aligned with it in this run): "
        "a change to action.Read/Write or to the action constants would move both sides")
    ctx.coverage["rule"] = (
        "(a) EVERY instruction form row in every tier (thorough: x3 operand choices; every self-cancelling form also with equal "
        "registers and with the low/high byte views of one register) built through the real form table: InputRegisters/"
        "OutputRegisters after ZeroExtend32BitOutputs vs specReads/specWrites, exactly (`usedef`) and through the acceptor "
        "`acceptUseDef` (theorem acceptUseDef_sound). The specification side takes nothing from the code under test: operand "
        "actions by NAME from the source rows, implicit registers by NAME (architectural naming rules), address registers by "
        "own traversal of Mem.Base/Mem.Index (vector index included), the 32-bit-destination flag from the register's own kind "
        "and mask; floors on the number of judged instances per operand shape. "
        "(b) functions through the real LabelTarget/CFG/ZeroExtend/Liveness: LiveIn/LiveOut compared exactly with the model of "
        "the algorithm (`live`) AND judged by the acceptor `accept-live`: verdict `acceptLive` (theorem acceptLive_sound_checked: "
        "equivalent to the path specification at every instruction, register and lane) which must agree with a direct "
        "backward-closure evaluation of the path specification that shares nothing with the model of the algorithm, and "
        "the graph itself through C09's acceptor (`accept-cfg`): (b1) in every run chains of 2..16 sequential backward "
        "branches (the analysis needs about as many sweeps as the chain is deep; carried register of every kind/width, read "
        "as operand or as address register, partial redefinition on the way, enclosing loop) and degenerate functions (empty, one instruction, self-loops), (b2) random functions (loops, "
        "diamonds, unreachable code, fall-off-the-end, all widths, physical + virtual registers)")
    ctx.coverage["claim"] = (
        "proof: the function-level statement (liveness_exact_total / liveout_exact_total, no hypothesis besides a well-formed CFG) "
        "and the instruction-level statements over arbitrary operand lists are proved; that the real code computes what the "
        "models compute is measured (exact differential on every form row and on generated functions)")
    ctx.assumptions += [
        "operand actions declared in the form table are what the CPU does (that is C04); C02 takes the declared actions as the "
        "meaning of 'read'/'written', masks and merge destinations being operands the table declares as read",
        "Succ lists are the CFG of C09 (re-judged here on every generated function by accept-cfg)",
        "the path specification quantifies over the 7 byte LANES of a register (bytes 0, 1, 2-3, 4-7, 8-15, 16-31, 32-63), "
        "not single bytes: equivalent because every register mask is a union of lanes (reg.Spec)",
        "specReads is total where InputRegisters would panic (self-cancelling form with fewer than two read registers): every "
        "cancelling row is checked on every run to lead with two read register operands (sample floor `cancelling_shape`) and "
        "is built and run through the real InputRegisters",
        "the function-level comparison feeds the model the implementation's own InputRegisters/OutputRegisters per "
        "instruction; their correctness is the instruction-level comparison (a), made on separately built instructions",
    ]
    ctx.trusted += [
        "go/ast reading of the action names in x86/zoptab.go and their interpretation by letters (R = read, W = write)",
        "reg package: register identities, masks, kinds and the physical register table (C03/C20), used to name implicit "
        "registers and to render operands",
        "x86.VerifMatch (the table's own operand matcher) to determine which row x86.build selects (first match; C05/C06)",
    ]
