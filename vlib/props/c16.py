"""C16 — stack locals are disjoint and inside the declared frame."""
import json


def floors(ctx, name, spec):
    """Lower bounds on the number of JUDGED cases: a change that silently makes a class of cases drop out
    (every context refused, the package-level route failing, …) must not pass."""
    st = ctx.coverage.get("input_distribution", {}).get(name)
    if st is None:
        return
    for key, lo in spec.items():
        if st.get(key, 0) < lo:
            ctx.obligation_failures.append((f"{name}: sample floor", f"{key} = {st.get(key, 0)} < {lo} (stats: {json.dumps(st, sort_keys=True)[:2000]})"))


def run(ctx):
    if not ctx.build_harness(["c16.go"]):
        return
    ctx.forbidden_scan()
    # the driver (model + acceptor) must build even if a proof breaks
    if not ctx.build_driver():
        return
    if ctx.lake_each(["AvoVerif.Props.C16"]):
        ctx.audit("C16")
    if ctx.tier == "thorough":
        ctx.leanchecker(["AvoVerif.Props.C16"])
    if hasattr(ctx, "run_corpus"):
        ctx.run_corpus("c16")
    quick = ctx.tier == "quick"
    n = 10000 if quick else 1500000
    cpu = 150 if quick else 6000
    ctx.differential("c16", n, extra=["-cpu", str(cpu), "-cpudir", "cpu"],
                     nontrivial=lambda req, resp: " a" in req or req.startswith("accept-cpu"))
    k = n // 10000
    # about a third of what seeds 1..12 give for n = 10000
    floors(ctx, "c16", {
        "judged_functions": 4000 * k, "in_scope": 3500 * k, "bp_clobbered": 800 * k, "forced_local": 100 * k,
        "bp_write_requested": 800 * k, "size_zero": 500 * k, "size_unaligned": 2000 * k, "frame_ge_2^31": 30 * k,
        "multi_function_context_functions": 1500 * k, "package_level_route_functions": 1200 * k, "judged_with_args": 2500 * k,
        "cpu_functions": cpu, "cpu_bp_clobbering": cpu // 4, "cpu_locals": cpu,
    })
    ctx.coverage["rule"] = (
        "random interleavings of AllocLocal (sizes 0, 1..7, aligned, up to 2^31 — totals reach beyond 2^31 —, a few negative = out of "
        "scope) with instruction emission (stores/loads on locals, physical and virtual registers, writes to RBP/EBP/BP/BPB), "
        "NOSPLIT/NOFRAME, 0..24 argument bytes; routes: methods of a fresh build.Context, or the package-level functions of package "
        "build (build.Function/Attributes/SignatureExpr/AllocLocal/MOVQ… on a swapped-in global context); one function per context or "
        "2-4 functions per context compiled and printed as ONE file; then pass.Compile and printer.NewGoAsm: exact comparison of "
        "returned offsets, Mem.Asm, FrameBytes and the TEXT size with the Lean model, plus an acceptor stating the property (inside "
        "frame, pairwise disjoint, off the BP save slot, `$frame` reads back as FrameBytes, and — with the assembler's int32 reading "
        "of `$frame` — inside the frame that is really allocated) on the implementation's own regions; `accept-bpwrite`: where the "
        "generator emitted a write to a BP view the compiled function still writes BP; measured: generated functions store a "
        "distinct pattern into every local, read all of them back and are executed (go build + run, frames up to 20000 bytes), the "
        "caller's BP compared before/after; non-trivial = at least one allocation. Lower bounds on the judged cases of every stream "
        "are obligations (sample floors)")
    ctx.coverage["exact_comparison_scope"] = (
        "the `locals` line compares offsets, frame and text EXACTLY with the model of avo's bump allocation; the property itself does "
        "not pin the allocation policy down: a policy change that keeps the property (aligning locals, always reserving the BP local, "
        "printing `0(SP)`) is reported as 'correspondence broken' (no-failing-input-found) although `accept-locals` stays satisfied")
    ctx.assumptions += [
        "Go int arithmetic does not overflow (frames stay below 2^63)",
        "total frame < 2^31 (explicit hypothesis of asm_text_frame / locals_in_text_frame, NOT granted by the property's quantifier): "
        "the assembler truncates `$frame` to int32 (negative -> no frame); avo accepts such frames silently and the property fails "
        "there — theorem text_frame_wraps, finding C16-frame-int32 (witness AllocLocal(1<<31)); frames within 16 bytes below 2^31 "
        "make the assembler fail loudly (nothing is emitted)",
        "an unnamed displacement off(SP) addresses the hardware stack pointer, the declared frame is [0,frame) above it "
        "and the assembler saves BP directly above the frame (cmd/internal/obj/x86/obj6.go; bpSlot is a modelling assumption: the "
        "'off the BP slot' clause follows from 'inside the frame'); measured by the CPU part for frames up to 20000 bytes only",
        "negative sizes are outside the property's quantifier (generated, counted, not judged)",
        "the model's 'BP is written' input is the generator's request (checked against the compiled code by accept-bpwrite) or, when "
        "nothing was requested, the harness's own scan of the compiled output registers (hardware GP number 5)",
    ]
    ctx.trusted.append("the host CPU and the Go toolchain (go build) for the measured read-back part")
    ctx.trusted.append("the int32 reading of the TEXT frame (Model/BP autoffset) is a hand-written model of cmd/internal/obj/x86/obj6.go, "
                       "MEASURED by C15's Oracle/AsmBP grid (frames 2^31 and 2^32+8) and by go tool asm + objdump")
