"""C16 — stack locals are disjoint and inside the declared frame."""


def run(ctx):
    if not ctx.build_harness(["c16.go"]):
        return
    ctx.forbidden_scan()
    # the driver (model + acceptor) must build even if a proof breaks
    if not ctx.build_driver():
        return
    if ctx.lake_each(["AvoVerif.Props.C16"]):
        ctx.audit("C16")
    if ctx.tier == "thorough":
        ctx.leanchecker(["AvoVerif.Props.C16"])
    if hasattr(ctx, "run_corpus"):
        ctx.run_corpus("c16")
    quick = ctx.tier == "quick"
    n = 10000 if quick else 1500000
    cpu = 150 if quick else 6000
    ctx.differential("c16", n, extra=["-cpu", str(cpu), "-cpudir", "cpu"],
                     nontrivial=lambda req, resp: " a" in req or req.startswith("accept-cpu"))
    ctx.coverage["rule"] = (
        "random interleavings of Context.AllocLocal (sizes 0, 1..7, aligned, up to 2^31, a few negative = out of scope) "
        "with instruction emission (stores/loads on locals, physical and virtual registers, writes to RBP/EBP/BP/BPB), "
        "NOSPLIT/NOFRAME, 0..24 argument bytes, through build.Context, pass.Compile and printer.NewGoAsm: exact comparison "
        "of returned offsets, Mem.Asm, FrameBytes and the TEXT size with the Lean model, plus an acceptor stating the "
        "property (inside frame, pairwise disjoint, off the BP save slot, `$frame` reads back as FrameBytes) on the "
        "implementation's own regions; measured: generated functions store a distinct pattern into every local, read all "
        "of them back and are executed (go build + run), the caller's BP compared before/after; non-trivial = at least one allocation")
    ctx.assumptions += [
        "Go int arithmetic does not overflow (frames stay below 2^63)",
        "an unnamed displacement off(SP) addresses the hardware stack pointer, the declared frame is [0,frame) above it "
        "and the assembler saves BP directly above the frame (cmd/internal/obj/x86/obj6.go); measured by the CPU part",
        "negative sizes are outside the property's quantifier (generated, counted, not judged)",
    ]
    ctx.trusted.append("the host CPU and the Go toolchain (go build) for the measured read-back part")
