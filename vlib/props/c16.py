"""C16 — stack locals are disjoint and inside the declared frame."""
import json


def floors(ctx, name, spec):
    """Lower bounds on the number of JUDGED cases: a change that silently makes a class of cases drop out
    (every context refused, the package-level route failing, …) must not pass."""
    st = ctx.coverage.get("input_distribution", {}).get(name)
    if st is None:
        return
    for key, lo in spec.items():
        if st.get(key, 0) < lo:
            ctx.obligation_failures.append((f"{name}: sample floor", f"{key} = {st.get(key, 0)} < {lo} (stats: {json.dumps(st, sort_keys=True)[:2000]})"))


def run(ctx):
    if not ctx.build_harness(["c16.go", "c16final.go"]):
        return
    ctx.forbidden_scan()
    # the driver (model + acceptor) must build even if a proof breaks
    if not ctx.build_driver():
        return
    if ctx.lake_each(["AvoVerif.Props.C16"]):
        ctx.audit("C16")
    if ctx.tier == "thorough":
        ctx.leanchecker(["AvoVerif.Props.C16"])
    if hasattr(ctx, "run_corpus"):
        ctx.run_corpus("c16")
    quick = ctx.tier == "quick"
    n = 10000 if quick else 1500000
    cpu = 150 if quick else 6000
    nasm = 8 if quick else 300
    nfinal = 3333 if quick else 120000   # files of the compiled-and-printed stream (1-4 functions each)
    ctx.differential("c16", n, extra=["-cpu", str(cpu), "-cpudir", "cpu", "-asm", str(nasm), "-asmdir", "asm", "-final", str(nfinal)],
                     nontrivial=lambda req, resp: " a" in req or req.startswith("accept-cpu") or req.startswith("accept-asm"))
    k = n // 10000
    kf = nfinal // 3333
    # about a third of what seeds 1..12 give for n = 10000
    floors(ctx, "c16", {
        "judged_functions": 4000 * k, "in_scope": 3500 * k, "bp_clobbered": 800 * k, "forced_local": 100 * k,
        "bp_write_requested": 800 * k, "size_zero": 500 * k, "size_unaligned": 2000 * k, "frame_ge_2^31": 30 * k,
        "multi_function_context_functions": 1500 * k, "package_level_route_functions": 1200 * k, "judged_with_args": 2500 * k,
        "cpu_functions": cpu, "cpu_bp_clobbering": cpu // 4, "cpu_locals": cpu,
        "cpu_bp_forced_by_allocator": cpu // 8, "cpu_bp_written_with_locals": cpu // 3,
        # the compiled-and-printed stream (about a third of what seeds 1..5 give for 3333 files)
        "final_functions": 1800 * kf, "final_judged": 1800 * kf, "final_refs": 5000 * kf, "final_mixed_sizes": 1100 * kf,
        "final_bp_author": 600 * kf, "final_bp_forced_by_allocator": 500 * kf, "final_bp_clobbered_with_used_locals": 800 * kf,
        "final_bp_forced_by_allocator_with_used_locals": 350 * kf, "final_forced_local": 250 * kf, "final_noframe": 40 * kf,
        "final_with_call": 100 * kf, "final_multi_function_file_functions": 1100 * kf,
        "final_package_level_route_functions": 450 * kf,
        # the assembled-and-disassembled files
        "asm_functions": 10 * nasm, "asm_refs": 30 * nasm, "asm_bp_saved": 8 * nasm,
        "asm_bp_clobbered_with_used_locals": 3 * nasm,
    })
    # nothing may silently drop out of the judged set
    st = ctx.coverage.get("input_distribution", {}).get("c16", {})
    for key in ("final_unmatched", "asm_unmatched", "asm_build_failed", "asm_file_not_compiled", "final_panic", "cpu_build_failed"):
        if st.get(key, 0):
            ctx.obligation_failures.append((f"c16: {key}", f"{st.get(key)} generated functions could not be judged"))
    ctx.coverage["rule"] = (
        "random interleavings of AllocLocal (sizes 0, 1..7, aligned, up to 2^31 — totals reach beyond 2^31 —, a few negative = out of "
        "scope) with instruction emission (stores/loads on locals, physical and virtual registers, writes to RBP/EBP/BP/BPB), "
        "NOSPLIT/NOFRAME, 0..24 argument bytes; routes: methods of a fresh build.Context, or the package-level functions of package "
        "build (build.Function/Attributes/SignatureExpr/AllocLocal/MOVQ… on a swapped-in global context); one function per context or "
        "2-4 functions per context compiled and printed as ONE file; then pass.Compile and printer.NewGoAsm: exact comparison of "
        "returned offsets, Mem.Asm, FrameBytes and the TEXT size with the Lean model, plus an acceptor stating the property (inside "
        "frame, pairwise disjoint, off the BP save slot, `$frame` reads back as FrameBytes, and — with the assembler's int32 reading "
        "of `$frame` — inside the frame that is really allocated) on the implementation's own regions; `accept-bpwrite`: where the "
        "generator emitted a write to a BP view the compiled function still writes BP; measured: generated functions store a "
        "distinct pattern into every local, read all of them back and are executed (go build + run, frames up to 20000 bytes), the "
        "caller's BP compared before/after — through an ASSEMBLY trampoline that CALLs the ABI0 entry directly (a Go call goes "
        "through a compiler-generated wrapper that saves and restores BP and would hide the damage), reads BP right before and "
        "right after the CALL and keeps canary words above the callee's argument; half of the functions that do not name BP keep "
        "15 values live so that the allocator hands BP out. THE COMPILED AND PRINTED FUNCTION (c16final.go): functions whose "
        "instructions use their locals (MOVB/W/L/Q, MOVOU, VMOVDQU, LEAQ at the first, last and random bytes of locals of mixed "
        "sizes, through physical and virtual registers), BP written by the author (5 views) or forced on the allocator (15 live "
        "values) or not at all, NOFRAME/NOSPLIT, with/without CALL, 1-4 functions per file, both routes: `final` compares frame, "
        "TEXT size and the displacement of every SP-relative operand of the COMPILED instructions (Operands; Inputs/Outputs must "
        "agree) exactly with the Lean model of the pipeline (ensureBPFn); `accept-final` gives the operand texts as PRINTED to the "
        "Lean acceptor (acceptFinal_iff: each addresses the region handed out, regions disjoint, inside the frame the assembler "
        "allocates for the printed TEXT size, off the BP slot); `accept-asm`: generated files are assembled (go tool asm), "
        "disassembled (go tool objdump, bytes decoded with x86asm) and the MEASURED prologue (PUSHQ BP / SUBQ $n, SP), RSP "
        "displacements and access widths are judged (acceptMeasured_iff) against the measured BP word and return address; "
        "non-trivial = at least one allocation. Lower bounds on the judged cases of every stream "
        "are obligations (sample floors)")
    ctx.coverage["exact_comparison_scope"] = (
        "the `locals` line compares offsets, frame and text EXACTLY with the model of avo's bump allocation; the property itself does "
        "not pin the allocation policy down: a policy change that keeps the property (aligning locals, always reserving the BP local, "
        "printing `0(SP)`) is reported as 'correspondence broken' (no-failing-input-found) although `accept-locals` stays satisfied")
    ctx.assumptions += [
        "Go int arithmetic does not overflow (frames stay below 2^63)",
        "total frame < 2^31 (explicit hypothesis of asm_text_frame / locals_in_text_frame, NOT granted by the property's quantifier): "
        "the assembler truncates `$frame` to int32 (negative -> no frame); avo accepts such frames silently and the property fails "
        "there — theorem text_frame_wraps, finding C16-frame-int32 (witness AllocLocal(1<<31)); frames within 16 bytes below 2^31 "
        "make the assembler fail loudly (nothing is emitted)",
        "an unnamed displacement off(SP) addresses the hardware stack pointer, the declared frame is [0,frame) above it "
        "and the assembler saves BP directly above the frame (cmd/internal/obj/x86/obj6.go; bpSlot is a modelling assumption: the "
        "'off the BP slot' clause follows from 'inside the frame'); measured by the CPU part for frames up to 20000 bytes only",
        "negative sizes are outside the property's quantifier (generated, counted, not judged)",
        "the model's 'BP is written' input is the generator's request (checked against the compiled code by accept-bpwrite) or, when "
        "nothing was requested, the harness's own scan of the compiled output registers (hardware GP number 5)",
    ]
    ctx.trusted.append("the host CPU and the Go toolchain (go build) for the measured read-back part")
    ctx.trusted.append("go tool asm, go tool objdump (line attribution of instructions) and golang.org/x/arch/x86/x86asm for accept-asm")
    ctx.assumptions.append(
        "accept-final / final: operands are matched with the locals they were emitted for by program order (no pass of "
        "pass.Compile adds, drops or reorders instructions with SP-relative operands; a count mismatch is reported as a broken "
        "correspondence, never silently skipped)")
    ctx.trusted.append("the int32 reading of the TEXT frame (Model/BP autoffset) is a hand-written model of cmd/internal/obj/x86/obj6.go, "
                       "MEASURED by C15's Oracle/AsmBP grid (frames 2^31 and 2^32+8) and by go tool asm + objdump")
