"""C01 — register allocation preserves the meaning of the program."""

FILES = ["c09.go", "c02.go", "c01.go", "c01x.go"]

def run(ctx):
    if not ctx.build_harness(FILES):
        return
    ctx.regen([("Gen/Regs", "Regs")])
    ctx.forbidden_scan()
    if not ctx.build_driver():
        return
    if ctx.lake_each(["AvoVerif.Props.C01", "AvoVerif.Props.C01Tables", "AvoVerif.Props.C01Pipeline"]):
        ctx.audit("C01")
    if ctx.tier == "thorough":
        ctx.leanchecker(["AvoVerif.Props.C01", "AvoVerif.Props.C01Tables", "AvoVerif.Props.C01Pipeline"])
    nt = lambda req, resp: req.startswith("accept-alloc") and "=> ok 0" not in req and "=> err" not in req
    ctx.run_corpus("c01", nontrivial=nt)
    n = 2500 if ctx.tier == "quick" else 60000
    ctx.differential("c01", n, nontrivial=nt)
    # measured end to end on the CPU: avo-compiled vs private-storage execution of the same program
    import os
    nx, trials = (150, 48) if ctx.tier == "quick" else (6000, 256)
    ctx.differential("c01x", nx, extra=["-dir", os.path.join(ctx.dir, "x-gen"), "-trials", str(trials)],
                     nontrivial=lambda req, resp: " same " in req)
    ctx.coverage["rule"] = ("generated functions (all GP widths incl. 8H views of the same virtual, XMM/YMM/ZMM, K, author-chosen physical "
                            "and implicit-register instructions, pressure below and above the register file, loops, diamonds, dead "
                            "definitions) through the real LabelTarget/CFG/ZeroExtend/Liveness/AllocateRegisters/BindRegisters/"
                            "VerifyAllocation. (i) acceptor = hypotheses of theorem accepted_preserves evaluated on the implementation's "
                            "own use/def/CFG/live sets/allocation (post-fixpoint, no definition onto a different live-out byte, allocation "
                            "shape), plus encodability of high-byte registers; (ii) exact comparison of allocation / error class with the "
                            "Lean model of the allocator; (iii) measured: generated GP programs (all widths, 8H views, implicit MULQ/CL, "
                            "forward branches, flags consumers) are compiled by the real pipeline AND rewritten with every virtual register in "
                            "its own stack slot; both are assembled, linked and executed on random and boundary argument vectors and must "
                            "return the same results; non-trivial = compiled successfully with at least one virtual register")
    ctx.assumptions += [
        "real x86 instructions are functions of their declared input bytes and write only their declared output bytes (C04); a VEX-encoded write to an XMM/YMM view also zeroes the upper ZMM bits, which avo's byte masks do not express (DESIGN §6 F12: modelled-not-verified)",
        "flags and other global machine state are shared by both executions (part of Mem in the abstract machine)",
        "the encodability rule (high-byte register vs REX) was measured on the Go assembler, not proved",
    ]
