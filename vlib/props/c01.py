"""C01 — register allocation preserves the meaning of the program."""
import json, os

FILES = ["c09.go", "c02.go", "c01.go", "c01x.go", "c01file.go"]


MAIN_ATTRS = ("none", "NOSPLIT", "NOFRAME", "NOSPLIT_NOFRAME", "NEEDCTXT", "NOSPLIT_NEEDCTXT_NOFRAME")


def floors(ctx, sub, floors_):
    """Lower bounds on the number of judged cases per stream: silently dropped cases must not hide a failure."""
    st = ctx.coverage.get("input_distribution", {}).get(sub)
    if st is None:
        return
    for key, lo in floors_.items():
        got = st.get(key, 0)
        if got < lo:
            ctx.obligation_failures.append((f"{sub}: sample floor {key}", f"only {got} cases of stream '{key}' were judged (floor {lo})"))
    ctx.coverage.setdefault("sample_floors", {})[sub] = floors_


def ceilings(ctx, sub, ceil_):
    st = ctx.coverage.get("input_distribution", {}).get(sub)
    if st is None:
        return
    for key, hi in ceil_.items():
        got = sum(v for k, v in st.items() if k == key or k.startswith(key + ":"))
        if got > hi:
            ctx.obligation_failures.append((f"{sub}: drop ceiling {key}", f"{got} cases were dropped as '{key}' (ceiling {hi})"))


def exact_model_info(ctx, sub="c01", driver="drv_c01"):
    """INFORMATIONAL: the exact allocation of the implementation next to the Lean model of avo's greedy allocator.
    Which colour a virtual register gets is not pinned by the property (any valid assignment is fine; an error is
    always allowed), so a disagreement here never fails the check: only the agreement rate is recorded."""
    base = os.path.join(ctx.dir, sub)
    ops, impl, model = base + ".ops.info", base + ".impl.info", base + ".model.info"
    if not (os.path.exists(ops) and os.path.exists(impl)):
        return
    before = len(ctx.obligation_failures)
    if not ctx.run_driver(ops, model, driver=driver):
        del ctx.obligation_failures[before:]          # informational only
        ctx.notes.append("exact allocator model: driver did not run on the informational stream")
        return
    n = same = same_class = 0
    for a, b in zip(open(impl), open(model)):
        n += 1
        same += a == b
        same_class += a.split()[:1] == b.split()[:1]
    ctx.coverage["exact_allocator_model_agreement"] = {"functions": n, "same_allocation_or_both_error": same, "same_outcome_class": same_class,
                                                      "role": "informational: not part of the verdict"}
    if same != n:
        ctx.notes.append(f"informational: the exact model of avo's allocator (Model/Alloc.lean) differs from the implementation on {n - same} of {n} "
                         "functions (colour choice is free under the property; the acceptors judge the implementation's own allocation)")


def file_route(ctx, driver="drv_c01"):
    """FILES of 1..5 generated functions through the real entry point pass.Compile.Execute(file): accept-file (Compile reported
    success => no function of the file is one for which the allocation passes, run on that function alone, found no valid
    assignment), the per-function acceptors on EVERY function of a successfully compiled file, accept-print (no virtual register
    in the printed assembly). Floors: every position of the failing function is sampled."""
    nf = 400 if ctx.tier == "quick" else 8000
    nt = lambda req, resp: req.startswith("accept-file") and req.endswith("=> ok")
    if ctx.differential("c01file", nf, nontrivial=nt, driver=driver) is not None:
        floors(ctx, "c01file", {"files": nf, "compile:ok": nf // 6, "compile:err": nf // 3,
                                "class:no_failing_function": nf // 8,
                                "class:failing_function_before_a_succeeding_last": nf // 8,
                                "class:only_the_last_fails": nf // 25, "class:several_fail": nf // 25,
                                "class:first_fails_of_several": nf // 10, "class:a_middle_function_fails": nf // 20,
                                "file_functions:1": nf // 10, "file_functions:5": nf // 10,
                                "fn_kind:gp_over": nf // 10, "fn_kind:vec_over": nf // 25, "fn_kind:k_over": nf // 25,
                                "fn_kind:hb_over": nf // 25, "fn_kind:rex_clash": nf // 25, "fn_kind:bad_label": nf // 25,
                                "fn_route:ok": nf, "fn_route:err": nf // 2,
                                "compiled_functions_judged_with_virtuals": nf // 3, "printed_files": nf // 6,
                                # function-level context of the functions of successfully compiled files
                                **{f"compiled:attr:{a}": nf // 25 for a in MAIN_ATTRS}})
        ceilings(ctx, "c01file", {"failing_builder_compiled": 0, "compiled_function_not_judged": 0, "print_error": 0,
                                  "file_build_rejected": 0})
    ctx.coverage["file_route_rule"] = (
        "files of 1..5 generated functions (form-table functions, SP/K0 idioms, staircases, pressure exactly at the register file in "
        "each kind, 1..4 simultaneous high-byte views; and, in every position — first / a middle one / last / not-last / several / all "
        "/ none —, functions WITHOUT a valid assignment: 16..20 GP, 33..36 vector, 8..10 opmask values live at once, 5..7 simultaneous "
        "high-byte views, a high-byte view next to R8B..R15B/SIB/DIB, a jump to an undefined label) through the real entry point "
        "pass.Compile.Execute(file). accept-file (sound: checkFile_sound => statement FileOK; the model of Compile satisfies it for all "
        "files: compileFile_okB, compileFile_err_of_fn_err, compileFile_checkFile, and the library's stage-major order agrees with it: "
        "compileFileStaged_ok_iff): Compile reported success => no function of the file is one on which the real allocation passes, run "
        "on an identical copy of that ONE function, reported an error. Compile reported success => EVERY function of the file is judged "
        "by accept-alloc / accept-bind / accept-enc on what Compile left in its operands, inputs and outputs (model: "
        "compileFile_bound_ok). accept-print (sound: noVirtualText_sound): the text of the real Go-assembly printer for the compiled "
        "file contains the printed form `<virtual:…>` of no virtual register. An error of Compile is always acceptable")


def run(ctx):
    if not ctx.build_harness(FILES):
        return
    ctx.regen([("Gen/Regs", "Regs")])
    ctx.forbidden_scan()
    if not ctx.build_driver():
        return
    if ctx.lake_each(["AvoVerif.Props.C01", "AvoVerif.Props.C01Tables", "AvoVerif.Props.C01Pipeline"]):
        ctx.audit("C01")
    if ctx.tier == "thorough":
        ctx.leanchecker(["AvoVerif.Props.C01", "AvoVerif.Props.C01Tables", "AvoVerif.Props.C01Pipeline"])
    nt = lambda req, resp: req.startswith("accept-alloc") and "=> ok 0" not in req and "=> err" not in req
    ctx.run_corpus("c01", nontrivial=nt)
    n = 2500 if ctx.tier == "quick" else 60000
    if ctx.differential("c01", n, nontrivial=nt) is not None:
        floors(ctx, "c01", {"functions": n * 9 // 10, "outcome:ok": n // 2, "bound_functions": n // 2, "staircase_depth_ge6": n // 64,
                            "usedef_crosschecks": 2 * n, "bound_input_output_pairs": 5 * n, "compile:ok": n // 6,
                            # author-written restricted registers (SP views, K0) next to virtuals; plain reg-to-reg moves (see c03.py)
                            "bound:virt_next_to_restricted_instrs": n // 8, "bound:regmove_virt_restricted": n // 10,
                            "bound:regmove_virt_phys": n // 10, "bound:regmove_virt_virt": n // 25, "bound:rcopy_functions": n // 16})
        ceilings(ctx, "c01", {"cfg_rejected": n // 50, "liveness_error": 0})
        exact_model_info(ctx)
    file_route(ctx)
    # measured end to end on the CPU: avo-compiled vs private-storage execution of the same program
    nx, trials = (150, 48) if ctx.tier == "quick" else (6000, 256)
    if ctx.differential("c01x", nx, extra=["-dir", os.path.join(ctx.dir, "x-gen"), "-trials", str(trials)],
                        nontrivial=lambda req, resp: " same " in req) is not None:
        floors(ctx, "c01x", {"programs": nx // 2, "judged": nx // 2})
    ctx.coverage["rule"] = (
        "generated functions (all GP widths incl. 8H views of the same virtual, XMM/YMM/ZMM, K, gather/scatter forms with VECTOR index "
        "registers, four-operand forms, author-chosen physical and implicit-register instructions — the RESTRICTED registers SP (64/32/16/8-bit "
        "views) and K0 included, as operands and address registers next to virtual registers —, plain register-to-register moves "
        "(MOVB/MOVW/MOVL/MOVQ/KMOVx/MOVOU/VMOVDQU) between a virtual and a restricted / other physical / virtual register in both directions, "
        "'copy of SP / K0' idioms with and without interference, pressure below and above the register "
        "file, loops, diamonds, dead definitions, and 'staircase' loops that need up to 13 (thorough: 52) liveness sweeps) through the real "
        "LabelTarget/CFG/ZeroExtend/Liveness/AllocateRegisters/BindRegisters/VerifyAllocation one by one, and an identical twin of every third "
        "function through the entry point pass.Compile (whole pass list in the library's order). Everything is judged by acceptors on the "
        "implementation's OWN output: (i) accept-alloc = hypotheses of theorem accepted_preserves (liveness post-fixpoint on the "
        "implementation's use/def/CFG/live sets, no definition onto a different live-out byte, allocation shape), for the pass-by-pass "
        "allocation and for pass.Compile's allocation; (ii) accept-regs (sound: checkRegsAt_sound) = Instruction.Registers() is exactly "
        "the harness's own traversal of the operand values (register operands; base AND index of memory operands) and every address register "
        "is in InputRegisters(); (iii) accept-usedef / accept-cfg = the use/def sets and the CFG the allocator relies on against the "
        "specification derived from the form's operand actions / from the opcode (C02's and C09's acceptors in C01's driver); (iv) "
        "accept-bind (sound: checkBind_sound) on operands, inputs and outputs after BindRegisters and after pass.Compile; accept-enc = no "
        "high-byte register in a REX-requiring instruction; (v) accept-stage = no pass panics, binding keeps the shape of operands; (vi) "
        "measured, accept-exec: generated GP programs (all widths, 8H views, implicit MULQ/CL, forward branches, jumps to the next label, "
        "diamonds, flags consumers) are compiled by pass.Compile AND rewritten with every virtual register in its own stack slot; both are "
        "assembled, linked and executed on random and boundary argument vectors and must return the same results. The exact Lean model of "
        "avo's greedy allocator (Model/Alloc.lean, about which avo_alloc_valid_installed / pipeline_preserves / compiled_preserves are "
        "proved) is compared with the implementation on an INFORMATIONAL stream only (coverage.exact_allocator_model_agreement): the "
        "property leaves the colour free, and an error is always an acceptable outcome, so neither the exact allocation nor ok-vs-error is "
        "part of the verdict; sample floors (coverage.sample_floors) make silently dropped cases an obligation failure. "
        "non-trivial = compiled successfully with at least one virtual register")
    ctx.assumptions += [
        "real x86 instructions are functions of their declared input bytes and write only their declared output bytes (C04); a VEX-encoded write to an XMM/YMM view also zeroes the upper ZMM bits, which avo's byte masks do not express (DESIGN §6 F12: modelled-not-verified)",
        "flags and other global machine state are shared by both executions (part of Mem in the abstract machine)",
        "the encodability rule (high-byte register vs REX) was measured on the Go assembler, not proved",
        "distinct virtual registers of one function have distinct ids. reg.Collection hands out a 16-bit index per kind (reg/collection.go: c.idx[k]++ on uint16) shared by the whole build.Context, so the 65 537th GP64() has the id of the first: two virtuals are then ONE register to liveness, allocation and this model, and a value is clobbered (MOVQ $42,keep; 65 536 x GP64(); MOVQ $7,t; MOVQ keep,ret returns 7). This is finding F13 of C20 (known_findings.json) seen through C01; the model takes ids as given",
        "completeness of the allocator (finding an assignment whenever one exists) is not part of the property ('compiling either fails with an error or …') and is not checked; floors on the number of successfully compiled functions guard against a pipeline that always fails",
        "the generator's strict mode approximates 'reads only register bytes it has previously written'; 1 function in 6 is generated without it (virtual bytes live at entry) — the acceptors do not need the hypothesis, only theorem entry_rel / compiled_preserves_from_entry does",
    ]
    ctx.trusted += [
        "the harness's traversal of operand values (c01OpRegs: reg.Register; operand.Mem{Base,Index}) is the ground truth for 'the registers of an instruction'",
        "accept-exec: the comparison of the two executions is done by the generated Go program; the Lean driver only sees the verdict string `same` / `diff:…` (measured, not proved)",
        "the use/def sets (InputRegisters/OutputRegisters) and Succ lists are the implementation's; they are cross-checked by accept-usedef on a sample (every cancelling form, 1 in 4 of the others) and accept-cfg on every function",
    ]
