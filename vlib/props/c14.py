"""C14 — build constraints mean the same thing to avo and to the Go toolchain."""

THEOREM_MODULES = ["AvoVerif.Props.C14", "AvoVerif.Props.C14Tables", "AvoVerif.Props.C14Bounds", "AvoVerif.Props.C14Hist"]


def _nontrivial(req, resp):
    # a formula with at least two terms / options / lines, or a text with a separator
    head = req.split(" ", 3)
    tok = head[2] if req.startswith("accept-tags") and len(head) > 2 else (head[1] if len(head) > 1 else "")
    if req.startswith(("hist", "accept-hist")):
        return req.count(" P.") >= 2  # a history with at least two prints
    return any(ch in tok for ch in ",+;") or (req.startswith(("parse", "tcline", "ctx")) and len(tok) > 4)


def _floors(ctx, tag, n):
    """Lower bounds on the number of judged cases per stream: silently dropped cases are an obligation failure."""
    st = ctx.coverage.get("input_distribution", {}).get(tag)
    if not isinstance(st, dict):
        ctx.obligation_failures.append((f"{tag}: stats", "no input-distribution statistics were written"))
        return
    shapes = st.get("FileShapes") or {}
    floors = {
        "Formulas": n, "Valid": n * 6 // 10, "Invalid": n // 20, "InvalidEvaluated": n // 20, "Judged": n * 6 // 10,
        "WithUnicode": n // 4, "WithNegation": n // 2, "LargeShapeFormulas": n // 40,
        "LongFormulas": 10 + min(40, n // 600) // 2, "LongOverLimit": 6, "LongUnderLimit": 4,
        "BigFormulas": 13, "TermRequests": 400, "BadUTF8Terms": 5, "ParseRequests": n // 4, "ParseErrors": 10,
        "TclineRequests": n // 4, "CtxRequests": n // 8, "AvoValidCodepoints": 100000,
        "ParseJudged": n // 2, "CtxFormulas": n // 40,
        # call histories (c14hist.go): the same *ir.File printed again after its constraints changed (directly after its
        # own last print / with another file printed in between), after a clear, set again after a clear, both printer
        # orders around a change, a new file in the place of a printed one, every route of change
        "HistRequests": n // 16, "HistPrints": n // 4, "HistPrintsAsm": n // 10, "HistPrintsStub": n // 10,
        "HistPrintsFormat": n // 40, "HistReprintChanged": n // 32, "HistReprintChangedInterleaved": n // 400,
        "HistReprintCleared": n // 200, "HistReprintSetAgain": n // 500, "HistChangedAsmThenStub": n // 200,
        "HistChangedStubThenAsm": n // 200, "HistReprintUnchanged": n // 16, "HistReallocPrinted": n // 800,
        "HistRawSet": n // 50, "HistRawAppend": n // 300, "HistRawExpr": n // 300, "HistCtxConstraints": n // 40,
        "HistCtxConstraint": n // 250, "HistCtxConstraintExpr": n // 250, "HistCtxRefused": n // 250,
        "HistCtxGlobalRoutes": n // 80, "HistInPlaceLine": n // 160, "HistInPlaceTerm": n // 160,
        "HistAfterInPlace": n // 100, "HistClears": n // 80, "HistFilesRaw": n // 100, "HistFilesHand": n // 100,
        "HistFilesCtx": n // 40,
    }
    for key, lo in floors.items():
        got = st.get(key, 0)
        if got < lo:
            ctx.obligation_failures.append((f"{tag}: sample floor {key}", f"only {got} cases of stream '{key}' (floor {lo})"))
    for sh in "0123":
        if shapes.get(sh, 0) < n // 10:
            ctx.obligation_failures.append((f"{tag}: sample floor file shape {sh}", f"only {shapes.get(sh, 0)} formulas were printed into a file of shape {sh} (floor {n // 10})"))
    # files that could not be printed / judged by go/build are legitimate only for the listed findings (F8d, F8e)
    if st.get("PrinterErrors", 0) > 2 * (st.get("FormatErrors", 0) + 4):
        ctx.obligation_failures.append((f"{tag}: printer errors", f"{st.get('PrinterErrors')} printer errors vs {st.get('FormatErrors')} Format errors"))
    if st.get("HistInvalidAtPrint", 0) * 20 > st.get("HistPrints", 0):
        ctx.obligation_failures.append((f"{tag}: histories", f"{st.get('HistInvalidAtPrint')} of {st.get('HistPrints')} prints in histories were not judged (invalid set in the file)"))
    ctx.coverage.setdefault("sample_floors", {})[tag] = floors


def run(ctx):
    # only the shared core + this property's Go files: other people's half-edited files cannot break the check
    if not ctx.build_harness(["c14.go", "c14hist.go", "gen_tagchars.go"]):
        return
    # the toolchain's tag characters and strings.Fields separators, measured on every run
    ctx.regen([("Oracle/TagChars", "TagChars")])
    ctx.forbidden_scan()
    # the driver (model + acceptor) must build even when a table theorem breaks
    if not ctx.build_driver():
        return
    if ctx.lake_each(THEOREM_MODULES):
        ctx.audit("C14")
    if ctx.tier == "thorough":
        ctx.leanchecker(THEOREM_MODULES)
    # never let known findings crowd a new violation out of the report
    big = 10 ** 7
    ctx.run_corpus("c14", nontrivial=_nontrivial, max_report=big)
    if ctx.replay:
        ctx.differential("c14", 0, nontrivial=_nontrivial, max_report=big)
        return
    if ctx.tier == "quick":
        if ctx.differential("c14", 8000, nontrivial=_nontrivial, max_report=big) is not None:
            _floors(ctx, "c14", 8000)
    else:
        for i in range(3):
            if ctx.differential("c14", 120000, extra=["-seed", str(ctx.seed * 1000 + i)], tag=f"-{i}",
                                nontrivial=_nontrivial, max_report=big, timeout=7200) is not None:
                _floors(ctx, f"c14-{i}", 120000)
    ctx.coverage["exhaustive"] = False
    ctx.coverage["rule"] = (
        "generated AND-of-OR-of-AND formulas (usually 0-4 lines x 0-4 options x 0-4 terms, one in 12 larger: up to 10 lines x 6 "
        "options x 6 terms or 2 x 2 x 40, over a per-formula pool of <= 6 tags: ASCII, digits, dots, underscores, non-ASCII "
        "letters/digits, negation; invalid terms '!!x', '', '!', 'a-b', spaces, commas, control and non-letter code points in "
        "~15% of formulas) x ALL 2^k assignments of the formula's tags, through the real Validate/Evaluate (invalid sets "
        "too)/GoString/Format/ParseConstraint/ParseOption, both printers and build.Context.ConstraintExpr; exact comparison "
        "with the Lean model of Validate, GoString, Evaluate, the CLASS of Format's result (error / no line / lines - the "
        "header TEXT is not compared with the model, it is given to the real go/build/constraint and the decisions per "
        "assignment are compared, so any semantically equal rendering is accepted) and parse(print); and an acceptor per "
        "formula (Obs.ok, theorem acceptObs_sound) that demands: Format succeeds, go/build/constraint accepts the header avo "
        "printed, its evaluation equals avo's Evaluate on every assignment, go/build.Context.MatchFile on the printed stub and "
        "assembly files selects the file exactly then, and every constraint parses back from its printed form. The printed "
        "files are real ones: by formula, an empty ir.File, a hand-built file with two #includes and two documented functions "
        "(one with a pragma), or a file built through build.Context (+Attributes NOSPLIT) and pass.Compile (which adds the "
        "textflag.h include), constraints entered one by one or as a set. Long lines: in every tier 10 fixed formulas at the "
        "64 KiB limit of Format's bufio.Scanner (header of 65535 / 65536 bytes, one 70000-byte tag, two-byte letters, many "
        "short tags, a long tag on a line go/format cannot convert) and ~1 generated formula in 300 (<= 40 per run) grown so "
        "that the toolchain-computed header length lands on/near the limit (sizes steered with go/build/constraint, never "
        "with avo's own output). Plus: avo's one-character validity over ALL code points vs the toolchain's (exhaustive), "
        "term literals vs constraint.Parse (including byte strings that are not UTF-8: must be invalid), "
        "ParseConstraint/ParseOption on well-formed and malformed text, exact and through an acceptor (accept-parse: the "
        "parsed constraint means what the toolchain reads from the same text, all assignments of its words), `// +build` "
        "comment lines (well-formed and malformed) vs the toolchain model, formulas at the toolchain's complexity limits "
        "(100 operators per line, 1000 operands), build.Context.ConstraintExpr sequences (exact; accept-ctx: a Context "
        "without errors holds a valid set; that set then goes through the whole formula check). CALL HISTORIES in one process "
        "(n/16 generated + 7 fixed; Model/TagsHist, Props/C14Hist): up to four files side by side (bare ir.NewFile, a "
        "hand-built file with functions, files of a build.Context changed through its methods or through the package-level "
        "functions) over 2-4 tags; 8-22 operations: set / append / parse-and-append (directly on the ir.File, or "
        "Context.Constraints / Constraint / ConstraintExpr, one in 8 with an invalid input the Context must refuse), "
        "replace a line or a term IN PLACE, clear, print with the assembly printer / the stub printer / buildtags.Format "
        "directly (a change is usually followed by 1-3 prints), drop the file (runtime.GC) and allocate a new one in its "
        "place; `hist` compares exactly, per print, the class of the header, Evaluate and the toolchain's decisions on the "
        "header lines EXTRACTED FROM THE REAL OUTPUT (leading comment region only) on all assignments, and the constraints "
        "the file holds, plus the error count per Context, with the state machine of Model/TagsHist; `accept-hist` (acceptHist, "
        "theorem acceptHist_sound) demands on every print that go/build/constraint on the extracted header and go/build "
        "MatchFile on the printed file agree with avo's Evaluate of the constraints the file holds at that moment. Sample floors "
        "(coverage.sample_floors) per stream and per file shape. non-trivial = at least two terms/options/lines")
    ctx.assumptions += [
        "go >= 1.18 syntax file is active (plusbuild=false, gobuild=true; recorded in the input distribution, not judged: "
        "what Format prints is judged by the toolchain's reading of it on every formula)",
        "the toolchain reads a `//go:build` line back as the expression go/format printed (parseExpr . String = id on the "
        "expressions synthesised from `// +build` lines): not proved, measured on every generated formula by evaluating the "
        "real parse of the real header on all assignments",
        "the file selection of go/build is that of a zero build.Context plus BuildTags (no GOOS/GOARCH/compiler/release/cgo tags)",
        "tags_equiv needs beyond Validate exactly three size clauses, each at the real boundary (witness theorems on both "
        "sides): <= 101 terms per line (F8c), <= 1000 parser operands in the synthesised expression (F8d; input-level "
        "sufficient: 2*sum(terms-per-line) <= 1001, printable_of_bounds), `//go:build` line < 65536 bytes (F8e; input-level "
        "sufficient: sum over terms of (bytes+10) + 3 < 65536); empty options / empty lines are invalid since /repo 0ad3cb8 "
        "(F8, F8b fixed)",
        "the model follows the CURRENT code on Format's error outcome (scanLimit = 65536 in Model/Tags.lean): if /repo is "
        "repaired (scanner buffer enlarged) the `fmt=` class of the exact `tags` line changes on lines >= 64 KiB and the "
        "model constant must be updated; the acceptor itself needs no change",
        "when go/format synthesises a `//go:build` line, the `// +build` lines it regenerates from it are not longer than "
        "that line (so only the `//go:build` line can reach the scanner limit): not modelled, measured by the exact "
        "comparison of Format's error outcome at the boundary sizes",
        "terms are text: byte strings that are not valid UTF-8 are judged only by `never valid` (accept-badutf8); the Lean "
        "model's strings are sequences of code points",
        "Evaluate on INVALID sets (an invalid term is false) is outside the property text; it is compared exactly with the "
        "model as behaviour of the code",
        "histories: a new printer object is made for every print (as build.Generate and avogen do); re-using one printer "
        "object for two prints concatenates both outputs in the unchanged code (prnt.Generator is never reset) and is not "
        "exercised; address re-use of a collected *ir.File is attempted (drop + runtime.GC + allocate) but not forced",
    ]
    ctx.trusted += [
        "Oracle.tagRanges / Oracle.spaceCodes are measured from go/build/constraint.Parse and strings.Fields of the installed "
        "toolchain over every code point on every run",
        "go/build/constraint, go/build.Context.MatchFile, go/format of the installed toolchain as ground truth",
        "modelled-not-verified: go/printer's recognition of `// +build` comments is modelled line-wise (exact for the sources "
        "avo produces from valid sets; measured through the class of Format's result and the toolchain's decisions on every "
        "generated formula)",
        "the compiled driver runs linear-time versions of the model's split/fields (csimp theorems split_eq_splitFast, "
        "fields_eq_fieldsFast, audited)",
        "the acceptor consults the model only to tell the three listed causes (F8c/F8d/F8e) from an unexpected failure of the "
        "same shape; every answer other than `ok` is reported",
    ]
