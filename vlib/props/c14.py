"""C14 — build constraints mean the same thing to avo and to the Go toolchain."""

THEOREM_MODULES = ["AvoVerif.Props.C14", "AvoVerif.Props.C14Tables"]


def _nontrivial(req, resp):
    # a formula with at least two terms / options / lines, or a text with a separator
    head = req.split(" ", 3)
    tok = head[2] if req.startswith("accept-tags") and len(head) > 2 else (head[1] if len(head) > 1 else "")
    return any(ch in tok for ch in ",+;") or (req.startswith(("parse", "tcline", "ctx")) and len(tok) > 4)


def run(ctx):
    # only the shared core + this property's Go files: other people's half-edited files cannot break the check
    if not ctx.build_harness(["c14.go", "gen_tagchars.go"]):
        return
    # the toolchain's tag characters and strings.Fields separators, measured on every run
    ctx.regen([("Oracle/TagChars", "TagChars")])
    ctx.forbidden_scan()
    # the driver (model + acceptor) must build even when a table theorem breaks
    if not ctx.build_driver():
        return
    if ctx.lake_each(THEOREM_MODULES):
        ctx.audit("C14")
    if ctx.tier == "thorough":
        ctx.leanchecker(THEOREM_MODULES)
    # never let known findings crowd a new violation out of the report
    big = 10 ** 7
    ctx.run_corpus("c14", nontrivial=_nontrivial, max_report=big)
    if ctx.replay:
        ctx.differential("c14", 0, nontrivial=_nontrivial, max_report=big)
        return
    if ctx.tier == "quick":
        ctx.differential("c14", 8000, nontrivial=_nontrivial, max_report=big)
    else:
        for i in range(3):
            ctx.differential("c14", 120000, extra=["-seed", str(ctx.seed * 1000 + i)], tag=f"-{i}",
                             nontrivial=_nontrivial, max_report=big, timeout=7200)
    ctx.coverage["exhaustive"] = False
    ctx.coverage["rule"] = (
        "generated AND-of-OR-of-AND formulas (0-4 lines x 0-4 options x 0-4 terms over a per-formula pool of <= 6 tags: "
        "ASCII, digits, dots, underscores, non-ASCII letters/digits, negation; invalid terms '!!x', '', '!', 'a-b', "
        "spaces, commas, control and non-letter code points in ~15% of formulas) x ALL 2^k assignments of the formula's tags, "
        "through the real Validate/Evaluate/GoString/Format/ParseConstraint/ParseOption, both printers and "
        "build.Context.ConstraintExpr; exact comparison with the Lean model, and an acceptor per formula that demands: "
        "go/build/constraint accepts the header avo printed, its evaluation equals avo's Evaluate on every assignment, "
        "go/build.Context.MatchFile on the printed stub and assembly files selects the file exactly then, and every "
        "constraint parses back from its printed form. Plus: avo's one-character validity over ALL code points vs the "
        "toolchain's (exhaustive), term literals vs constraint.Parse, `// +build` comment lines (well-formed and malformed) "
        "vs the toolchain model, formulas at the toolchain's complexity limits (100 operators per line, 1000 operands). "
        "non-trivial = at least two terms/options/lines")
    ctx.assumptions += [
        "go >= 1.18 syntax file is active (plusbuild=false, gobuild=true): measured by the `syntax` request on every run",
        "the toolchain reads a `//go:build` line back as the expression go/format printed (parseExpr . String = id on the "
        "expressions synthesised from `// +build` lines): not proved, measured on every generated formula by evaluating the "
        "real parse of the real header on all assignments",
        "the file selection of go/build is that of a zero build.Context plus BuildTags (no GOOS/GOARCH/compiler/release/cgo tags)",
        "tags_equiv needs beyond Validate: <= 101 terms per line (F8c), 2*sum(terms-per-line) <= 1001 (sufficient for the "
        "parser's 1000-operand limit, F8d); empty options / empty lines are invalid since /repo 0ad3cb8 (F8, F8b fixed)",
    ]
    ctx.trusted += [
        "Oracle.tagRanges / Oracle.spaceCodes are measured from go/build/constraint.Parse and strings.Fields of the installed "
        "toolchain over every code point on every run",
        "go/build/constraint, go/build.Context.MatchFile, go/format of the installed toolchain as ground truth",
        "modelled-not-verified: go/printer's recognition of `// +build` comments is modelled line-wise (exact for the sources "
        "avo produces from valid sets; measured by exact comparison of Format's output on every generated formula)",
    ]
