"""C18 — invalid requests are reported as errors; nothing is emitted and nothing panics."""
import os

from .. import modules


def run(ctx):
    if not ctx.build_harness(["c18.go"]):
        return
    # allocatable-register limits of the model come from the regenerated register table
    ctx.regen([modules.REGS])
    ctx.forbidden_scan()
    if not ctx.build_driver():
        return
    if ctx.lake_each(["AvoVerif.Props.C18"]):
        ctx.audit("C18")
    if ctx.tier == "thorough":
        ctx.leanchecker(["AvoVerif.Model.Ctx", "AvoVerif.Props.C18"])
    n = 20000 if ctx.tier == "quick" else 300000

    def nontrivial(req, resp):
        # a history that reaches an error path or a second section
        return req.startswith("c18 ") and (" e 0 " not in " " + resp + " " or " fn f2" in req or " glob " in req)

    # lines of listed findings never count against the cap on recorded failures (vlib/core.py), so a small cap is enough
    # per-process file names: two runs of this check at the same time must not share ops/impl/model files
    tag = "-%d" % os.getpid()
    mism = ctx.differential("c18", n, nontrivial=nontrivial, max_report=50, tag=tag)
    dist = ctx.coverage.get("input_distribution", {})
    if "c18" + tag in dist:
        dist["c18"] = dist.pop("c18" + tag)
    # listed findings account for mismatching lines on every run: keep the files only when something unlisted failed
    if mism is not None and getattr(ctx, "_unlisted", 0) == 0 and not ctx.corr_failures:
        for ext in (".ops", ".impl", ".model", ".stats.json"):
            try:
                os.remove(os.path.join(ctx.dir, "c18" + tag + ext))
            except OSError:
                pass
    ctx.coverage["exhaustive"] = False
    ctx.coverage["measured_only"] = (
        "theorems are about the executable model (Model/Ctx.lean); the tie to the Go code is the exact comparison + "
        "acceptor on generated histories; absence of panics is measured, not proved")
    # lower bounds on what was actually judged: a generator or harness change that silently stops producing a
    # stream must not look like success (floors are about a third of what seed 1 yields per 20000 histories)
    if mism is not None and not ctx.replay:
        d = dist.get("c18", {})
        oc, gen = d.get("outcome_classes", {}), d.get("generator", {})
        scale = n / 20000.0
        floors_oc = {"ok": 2400, "builder_error": 1600, "output_pass_error": 300, "nil_panic": 350,
                     "pass_error_alloc": 100, "pass_error_duplabel": 250, "pass_error_endlabel": 200,
                     "pass_error_membase": 250, "pass_error_memscale": 500, "pass_error_unklabel": 250}
        floors_gen = {"route_pkg": 1500, "route_ctx": 5000, "main_via_flags": 800, "implement": 120,
                      "mode_single_stub_break": 300, "mode_single_nil_argument": 350, "fn_bad_name": 250,
                      "pragma_nl": 90, "doc_nl": 90, "raw_m:-:1:8": 20, "raw_m:-:1:1": 90, "raw_m:-:-:0": 150,
                      "raw_m:1:1:0": 70, "press_over": 100, "mov_err": 300, "ins_bad": 300}
        floors_gen.update({"nil_" + k: 30 for k in ("Load.src", "Load.dst", "Store.src", "Store.dst", "Dereference",
                                                    "AddDatum", "AppendDatum", "Constraints", "Constraint",
                                                    "Instruction", "Signature")})
        low = []
        for tbl, floors in ((oc, floors_oc), (gen, floors_gen)):
            for k, fl in floors.items():
                ctx.obligations += 1
                if tbl.get(k, 0) < int(fl * scale):
                    low.append(f"{k}: {tbl.get(k, 0)} < {int(fl * scale)}")
                else:
                    ctx.discharged += 1
        if low:
            ctx.obligation_failures.append(("c18: sample floors", "; ".join(low)))
    ctx.coverage["rule"] = (
        "random histories of 1-80 builder calls (about 26% valid, 15% valid but for one compile-time fault, 5% valid but "
        "for one request that makes a stub unprintable, 6% valid but for one call with a nil argument, 20% with "
        "builder-time faults, 18% with several compile-time faults, 10% mixed) over Function/TEXT (valid names, names "
        "that are not Go identifiers, duplicates), Implement (without Package), Attributes, Doc, Pragma (plain / with a "
        "line break), SignatureExpr/Signature (valid and rejected), 22 instruction constructors with matching and "
        "non-matching operands, Context.Instruction with hand-built memory operands (no base; no base but index and "
        "scale 1/2/4/8; index with scale 0), Label/Comment/Commentf, Param/ParamIndex/Return/ReturnIndex and "
        "Base/Len/Cap/Real/Imag/Index/Field/Dereference chains, Load/Store/Dereference (deducible, not deducible, bad "
        "component), AllocLocal, StaticGlobal/GLOBL/ConstData, DataAttributes, AddDatum/DATA (overlapping or not), "
        "AppendDatum, Constraints/Constraint/ConstraintExpr (valid/invalid), register-pressure functions around the "
        "allocatable limit of each kind, nil arguments to Load/Store/Dereference/AddDatum/AppendDatum/Constraints/"
        "Constraint/Instruction/Signature; 3 of 4 through build.Context methods, 1 of 4 through the package-level "
        "functions on a swapped-in context; every call under recover; then Result() and build.Main with [Compile, "
        "Output(goasm), Output(stubs)] into buffers, 1 of 8 instead with the Config of build.NewFlags(-out -stubs -log -e "
        "-pkg) into files. 34 fixed histories (witnesses of all listed findings, one per fault kind) run first. Exact "
        "comparison with the model: error count and class per fault, node count and local size per function, datum count "
        "and size per data section, constraint count, order of file sections (line c18); status, which outputs were "
        "written, diagnostic line count (line c18main). Acceptor (accept-c18): the property itself (Spec) evaluated on "
        "the implementation's outcome with fault counts computed by the model; histories with a nil argument are judged "
        "by the acceptor only. Message classes are calibrated on every run by provoking each class once (line c18cal), "
        "not matched by wording; unrecognised messages are the distinct class 'unknown'. c18max: LogError truncation "
        "(MaxErrors > 0), not part of the property. Lower bounds on every outcome class and generator stream are "
        "obligations. Non-trivial = reaches an error path or has several sections.")
    ctx.assumptions += [
        "operands-match-a-form, signature-expression-accepted and MOV-deducible are classifications made by the harness "
        "from hand-written rules (22-opcode form catalogue, Go syntax, size/class table), not by the model; that the "
        "other ~6400 constructors reject operands matching no form is C06's business",
        "absence of panics is established by running every call under recover, not by a theorem (Lean functions are total)",
        "the register-pressure block makes n virtual registers of one kind pairwise interfere; allocation fails iff n "
        "exceeds the number of non-restricted physical registers of the kind in Gen.Regs",
        "compile-time faults are compared as a set (the reported one must be among those present), not by pass order; "
        "a compile error whose message is none of the calibrated ones is accepted as long as status and outputs are right",
        "the property's list of invalid requests is taken as is: requests avo does not validate and that are not on the "
        "list are modelled as accepted (status 0, output written): AllocLocal with a negative size, Label(\"\"), "
        "duplicate function names, duplicate data section names, newlines in Comment; negative sizes and Label(\"\") "
        "are not generated",
        "AddDatum/DATA with a negative offset (rejected by avo since eebfead, message 'negative offset') is neither "
        "modelled nor generated: offsets are natural numbers in the model; note that without an active data section "
        "such a call records two messages (no active global + negative offset), i.e. one per fault of the call, which "
        "the model's one-message-per-request step could not express",
        "function names that are not Go identifiers and Doc/Pragma text with a line break are not on the list either: "
        "the statement then demands only all-or-nothing (a failing generation writes nothing); the generated names are "
        "ASCII (the model's identifier syntax is the ASCII part of Go's), the broken texts are 3 fixed ones",
        "a call with a nil argument may be reported as an error or ignored (Spec allows both) but must not panic; "
        "when such a call panics no further builder call is issued on that context (how much of the abandoned call's "
        "effect is in place is not pinned down), Result() and Main are still run and a panic there is attributed to "
        "the nil call; histories with a nil argument are judged by the acceptor only (no exact comparison)",
        "Package(path) is never called (it runs `go list`; several messages for one call — one per package error — "
        "would be outside 'one message per fault'); Implement is exercised only without a package",
        "build.Generate itself (os.Exit, flag.CommandLine) is not run; its Config comes from build.NewFlags on a private "
        "FlagSet. That -out/-stubs files are created (truncated) when the flags are parsed, so that a failing generation "
        "leaves an empty file where the previous output was, is observed (stat flags_failure_truncated_previous_output) "
        "but not judged: the observation points are Result() and what Main writes",
        "component slots referenced by a request always exist (the driver answers bad-slot otherwise)",
    ]
    ctx.trusted.append("harness/c18.go shadow of signatures/components (steers generation, decides only the MOV-deducible flag)")
    ctx.trusted.append("harness/c18.go calibration witnesses (one canonical request per message class)")
