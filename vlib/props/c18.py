"""C18 — invalid requests are reported as errors; nothing is emitted and nothing panics."""
import os

from .. import modules


def run(ctx):
    if not ctx.build_harness(["c18.go"]):
        return
    # allocatable-register limits of the model come from the regenerated register table
    ctx.regen([modules.REGS])
    ctx.forbidden_scan()
    if not ctx.build_driver():
        return
    if ctx.lake_each(["AvoVerif.Props.C18"]):
        ctx.audit("C18")
    if ctx.tier == "thorough":
        ctx.leanchecker(["AvoVerif.Model.Ctx", "AvoVerif.Props.C18"])
    n = 20000 if ctx.tier == "quick" else 300000

    def nontrivial(req, resp):
        # a history that reaches an error path or a second section
        return req.startswith("c18 ") and (" e 0 " not in " " + resp + " " or " fn f2" in req or " glob " in req)

    # known findings account for many mismatching lines: keep them all so that none hides a new one
    # per-process file names: two runs of this check at the same time must not share ops/impl/model files
    tag = "-%d" % os.getpid()
    mism = ctx.differential("c18", n, nontrivial=nontrivial, max_report=10**7, tag=tag)
    dist = ctx.coverage.get("input_distribution", {})
    if "c18" + tag in dist:
        dist["c18"] = dist.pop("c18" + tag)
    if mism == 0:
        for ext in (".ops", ".impl", ".model", ".stats.json"):
            try:
                os.remove(os.path.join(ctx.dir, "c18" + tag + ext))
            except OSError:
                pass
    ctx.coverage["exhaustive"] = False
    ctx.coverage["rule"] = (
        "random histories of 1-80 builder calls (about 30% valid, 15% valid but for one compile-time fault, 25% with "
        "builder-time faults, 20% with several compile-time faults, 10% mixed) over Function/TEXT, Attributes, Doc, Pragma, "
        "SignatureExpr/Signature (valid and rejected), 22 instruction constructors with matching and non-matching operands, "
        "Context.Instruction with a base-less memory operand, Label/Comment, Param/ParamIndex/Return/ReturnIndex and "
        "Base/Len/Cap/Real/Imag/Index/Field/Dereference chains, Load/Store/Dereference (deducible, not deducible, bad "
        "component), AllocLocal, StaticGlobal/GLOBL/ConstData, DataAttributes, AddDatum/DATA (overlapping or not), "
        "AppendDatum, Constraints/Constraint/ConstraintExpr (valid/invalid), register-pressure functions around the "
        "allocatable limit of each kind; 3 of 4 through build.Context methods, 1 of 4 through the package-level functions "
        "on a swapped-in context; every call under recover; then Result() and build.Main with [Compile, Output(goasm), "
        "Output(stubs)] into buffers. Exact comparison with the model: error count and class per fault, node count and "
        "local size per function, datum count and size per data section, constraint count, order of file sections (line c18); status, which "
        "outputs were written, diagnostic line count (line c18main). Acceptor (accept-c18): the property itself evaluated "
        "on the implementation's outcome with fault counts computed by the model. c18max: LogError truncation "
        "(MaxErrors > 0), not part of the property. Non-trivial = reaches an error path or has several sections.")
    ctx.assumptions += [
        "operands-match-a-form, signature-expression-accepted and MOV-deducible are classifications made by the harness "
        "from hand-written rules (instruction set forms, Go syntax, size/class table), not by the model",
        "absence of panics is established by running every call under recover, not by a theorem (Lean functions are total)",
        "the register-pressure block makes n virtual registers of one kind pairwise interfere; allocation fails iff n "
        "exceeds the number of non-restricted physical registers of the kind in Gen.Regs",
        "compile-time faults are compared as a set (the reported one must be among those present), not by pass order",
    ]
    ctx.trusted.append("harness/c18.go shadow of signatures/components (steers generation, decides only the MOV-deducible flag)")
