"""C18 — invalid requests are reported as errors; nothing is emitted and nothing panics."""
import os

from .. import modules


def run(ctx):
    if not ctx.build_harness(["c18.go", "c18cons.go", "c18sig.go", "c18data.go", "c18proc.go", "gen_tagchars.go"]):
        return
    # allocatable-register limits of the model come from the regenerated register table
    # … and which characters may stand in a build tag from the installed go/build/constraint (measured on every run)
    ctx.regen([modules.REGS, modules.TAGCHARS])
    ctx.forbidden_scan()
    if not ctx.build_driver():
        return
    if ctx.lake_each(["AvoVerif.Props.C18", "AvoVerif.Props.C18Tables"]):
        ctx.audit("C18")
    if ctx.tier == "thorough":
        ctx.leanchecker(["AvoVerif.Model.Ctx", "AvoVerif.Props.C18", "AvoVerif.Props.C18Tables"])
    n = 20000 if ctx.tier == "quick" else 300000

    def nontrivial(req, resp):
        # a history that reaches an error path or a second section
        return req.startswith("c18 ") and (" e 0 " not in " " + resp + " " or " fn f2" in req or " glob " in req)

    # lines of listed findings never count against the cap on recorded failures (vlib/core.py), so a small cap is enough
    # per-process file names: two runs of this check at the same time must not share ops/impl/model files
    tag = "-%d" % os.getpid()
    mism = ctx.differential("c18", n, nontrivial=nontrivial, max_report=50, tag=tag)
    dist = ctx.coverage.get("input_distribution", {})
    if "c18" + tag in dist:
        dist["c18"] = dist.pop("c18" + tag)
    # listed findings account for mismatching lines on every run: keep the files only when something unlisted failed
    if mism is not None and getattr(ctx, "_unlisted", 0) == 0 and not ctx.corr_failures:
        for ext in (".ops", ".impl", ".model", ".stats.json"):
            try:
                os.remove(os.path.join(ctx.dir, "c18" + tag + ext))
            except OSError:
                pass
    ctx.coverage["exhaustive"] = False
    ctx.coverage["measured_only"] = (
        "theorems are about the executable model (Model/Ctx.lean); the tie to the Go code is the exact comparison + "
        "acceptor on generated histories; absence of panics is measured, not proved")
    # lower bounds on what was actually judged: a generator or harness change that silently stops producing a
    # stream must not look like success (floors are about a third of what seed 1 yields per 20000 histories)
    if mism is not None and not ctx.replay:
        d = dist.get("c18", {})
        oc, gen = d.get("outcome_classes", {}), d.get("generator", {})
        scale = n / 20000.0
        floors_oc = {"ok": 2400, "builder_error": 1600, "output_pass_error": 300, "nil_panic": 350,
                     "pass_error_alloc": 100, "pass_error_duplabel": 250, "pass_error_endlabel": 200,
                     "pass_error_membase": 250, "pass_error_memscale": 500, "pass_error_unklabel": 250}
        floors_gen = {"route_pkg": 1500, "route_ctx": 5000, "main_via_flags": 800, "implement": 120,
                      "mode_single_stub_break": 300, "mode_single_nil_argument": 350, "fn_bad_name": 250,
                      "pragma_nl": 90, "doc_nl": 90, "raw_m:-:1:8": 20, "raw_m:-:1:1": 90, "raw_m:-:-:0": 150,
                      "raw_m:1:1:0": 70, "press_over": 100, "mov_err": 300, "ins_bad": 300}
        floors_gen.update({"nil_" + k: 30 for k in ("Load.src", "Load.dst", "Store.src", "Store.dst", "Dereference",
                                                    "AddDatum", "AppendDatum", "Constraints", "Constraint",
                                                    "Instruction", "Signature")})
        # build constraints: every Unicode general category as the one bad character of a tag name, every valid
        # category in valid names, every position, negation, every structural fault, all three routes x both
        # APIs x every convertible type (measured minima over seeds 1..5 are about three times these)
        bad_cats = ("Cc Cf Cn Co Mc Me Mn Nl No Pc Pd Pe Pf Pi Po Ps Sc Sk Sm So Zl Zp Zs ascii").split()
        floors_gen.update({"cons_badchar_" + c: 18 for c in bad_cats})
        floors_gen.update({"cons_validchar_" + c: 1400 for c in ("Ll", "Lm", "Lo", "Lt", "Lu", "Nd", "ascii")})
        floors_gen.update({"cons_validchar_Pc": 800, "cons_validchar_Po": 20,
                           "cons_badchar_pos_first": 160, "cons_badchar_pos_middle": 160, "cons_badchar_pos_last": 160,
                           "cons_badchar_alone": 60, "cons_badchar_nonascii": 540, "cons_bad_negated": 230,
                           "cons_valid_negated": 5000,
                           "cons_badterm_char": 580, "cons_badterm_bang": 40, "cons_badterm_bangbang": 85,
                           "cons_badterm_empty": 40, "cons_badterm_innerbang": 40, "cons_badterm_notutf8": 80,
                           "cons_bad_emptyline": 110, "cons_bad_emptyoption": 70, "cons_bad_danglingcomma": 30,
                           "cons_bad_at_opt0_term0": 590, "cons_bad_at_opt0_term1": 130, "cons_bad_at_opt1_term0": 130,
                           "cons_bad_at_opt1_term1": 30, "cons_Constraints_none": 800, "cons_expr_odd_space": 500,
                           "cons_conv_And": 480, "cons_conv_Any": 680, "cons_conv_Not": 100, "cons_conv_Opt": 400,
                           "cons_conv_Option": 400, "cons_conv_Term": 700, "cons_conv_Constraint": 1500,
                           "inject_badconstraint": 180, "mode_single_bad_constraint": 200})
        for rt in ("Constraints", "Constraint", "ConstraintExpr"):
            floors_gen.update({"cons_invalid_" + rt: 280, "cons_invalid_pkg_" + rt: 85,
                               "cons_valid_" + rt: 1800, "cons_valid_pkg_" + rt: 560})
        # the other request kinds, sampled at the boundary of validity rather than from a few fixed values
        floors_gen.update({"sig_mutant_invalid_" + k: v for k, v in dict(
            append=50, delete=50, double=170, dup=55, insert=55, other=30, swap=50, truncate=55, word=85).items()})
        floors_gen.update({"sig_mutant_valid_" + k: v for k, v in dict(
            append=90, delete=130, double=180, dup=25, insert=70, other=370, swap=140, truncate=24, word=380).items()})
        floors_gen.update({"root_near_miss_name": 360, "root_far_index": 75, "nav_far_index": 120, "datum_negative": 100,
                           "datum_zero_width_at_edge": 600, "datum_bad_at_zero_width": 30,
                           "nav_near_miss_field": 15, "nav_near_miss_on_slice": 40, "nav_near_miss_on_str": 10,
                           "nav_near_miss_on_complex": 15, "nav_near_miss_on_arr": 30, "nav_near_miss_on_struct": 40,
                           "nav_near_miss_on_ptr": 30,
                           "attr_any": 1000, "dattr_any": 400, "label_near_miss_defined": 3400,
                           "label_near_miss_referenced": 1100})
        # the process: Main on the Config of build.NewFlags with the default limit of 10 messages; the child-process
        # route (build.Generate, real exit code); data at scale (valid side)
        floors_gen.update({"main_via_flags_limit10": 400, "child_runs": 130, "child_exit_nonzero": 85, "child_exit_zero": 40,
                           "child_limit10": 65, "datum_boundary_valid": 3000, "datum_boundary_bad": 140,
                           "datum_placed_below_all": 340, "datum_straddles_64": 2400, "datum_straddles_128": 1700,
                           "datum_straddles_256": 1100, "datum_straddles_4096": 200, "datum_longer_than_64": 1300,
                           "datum_offset_from_4096": 550})
        floors_gen.update({"datum_start_residue64_%d" % i: 270 for i in range(8)})
        # fixed parts of the run (do not scale with n): the sweep of the measured table's edges; k faults for k around
        # every multiple of 256 (each k: all the same and mixed, Main on buffers + on the flags Config + child process);
        # collisions that lie only beyond / only before a 64-, 128-, 256-, 4096-byte boundary of the earlier or of the
        # later datum, in the first / last byte only
        floors_abs = {"cons_edge_valid": 800, "cons_edge_invalid": 800, "datum_sweep": 1500,
                      "datum_overlap_first_byte_only": 240, "datum_overlap_last_byte_only": 240, "datum_overlap_contains": 45}
        for kk in (255, 256, 257, 511, 512, 513, 767, 768, 769, 1023, 1024, 1025):
            floors_abs["long_same_%d" % kk] = 2
            floors_abs["long_mixed_%d" % kk] = 2
        for mod, fl in ((64, 100), (128, 75), (256, 50), (4096, 12)):
            for side in ("earlier", "new"):
                floors_abs["datum_overlap_only_beyond_%d_of_%s" % (mod, side)] = fl
                floors_abs["datum_overlap_only_before_%d_of_%s" % (mod, side)] = fl
        low = []
        for k, fl in floors_abs.items():
            ctx.obligations += 1
            if gen.get(k, 0) < fl:
                low.append(f"{k}: {gen.get(k, 0)} < {fl}")
            else:
                ctx.discharged += 1
        for tbl, floors in ((oc, floors_oc), (gen, floors_gen)):
            for k, fl in floors.items():
                ctx.obligations += 1
                if tbl.get(k, 0) < int(fl * scale):
                    low.append(f"{k}: {tbl.get(k, 0)} < {int(fl * scale)}")
                else:
                    ctx.discharged += 1
        if low:
            ctx.obligation_failures.append(("c18: sample floors", "; ".join(low)))
    ctx.coverage["rule"] = (
        "random histories of 1-80 builder calls (about 26% valid, 15% valid but for one compile-time fault, 5% valid but "
        "for one request that makes a stub unprintable, 6% valid but for one call with a nil argument, 3% valid but for "
        "one invalid build constraint, 17% with builder-time faults, 18% with several compile-time faults, 10% mixed) over "
        "Function/TEXT (valid names, names that are not Go identifiers, duplicates), Implement (without Package), "
        "Attributes/DataAttributes (a fixed list and any 16-bit value without NOFRAME), Doc, Pragma (plain / with a "
        "line break), SignatureExpr/Signature (generated signatures and their mutants — delete/insert/swap/truncate/"
        "append/word replacement/duplication/non-signature expressions — classified valid or invalid by go/types itself; "
        "a valid mutant's structure is read back from go/types), 22 instruction constructors with matching and "
        "non-matching operands (operand classes r64 r32 r16 r8 xmm ymm zmm k imm8 imm16 imm32 imm64 m lbl, base-less and "
        "scale-0 memory, nil; 0-5 operands for the variadic one), Context.Instruction with hand-built memory operands "
        "(no base; no base but index and scale 1/2/4/8; index with scale 0), Label (four names and near misses of them: "
        "other case, one character more, look-alike letter)/Comment/Commentf, Param/ParamIndex/Return/ReturnIndex (names: "
        "near misses — the other tuple's names, the printers' default names arg/ret, other case, a character more — and "
        "the empty name; indices: just outside, negative, and the 32/64-bit wrap-around points) and "
        "Base/Len/Cap/Real/Imag/Index/Field/Dereference chains (same near misses), Load/Store/Dereference (deducible, "
        "not deducible, bad component), AllocLocal, StaticGlobal/GLOBL/ConstData, AddDatum/DATA (overlapping or not, "
        "aimed at the edges of existing data, zero-width data at the start/end of existing ones followed by placements "
        "there, negative offsets with an active section), AppendDatum, Constraints/Constraint/ConstraintExpr — tag names "
        "over the whole of Unicode: every general category (Lu Ll Lt Lm Lo Nd valid; Nl No M* P* S* Z* C*, unassigned, "
        "ASCII punctuation, bytes that are not UTF-8 invalid) at the first/middle/last position, negated or not, in any "
        "option/term position, `!`/`!!`/empty terms, empty options and lines, dangling commas, odd white space in the text "
        "form, zero lines, through Term/Not/Option/Opt/Constraint/Any/Constraints/And; validity is never decided by the "
        "harness: every term carries the verdict of the installed go/build/constraint, the model decides with the table "
        "measured from it (Oracle/TagChars) and a disagreement is answered bad-termclass; plus a sweep of that table's "
        "boundary: for every maximal range [a,b] the code points a-1, a, b, b+1 and all of Latin-1 (about 2700 code points), each "
        "as the one doubtful character of a request in a three-call history (quick: route/position/negation in rotation; "
        "thorough: all 24 combinations) —, register-pressure functions around the "
        "allocatable limit of each kind, nil arguments to Load/Store/Dereference/AddDatum/AppendDatum/Constraints/"
        "Constraint/Instruction/Signature; 3 of 4 through build.Context methods, 1 of 4 through the package-level "
        "functions on a swapped-in context; every call under recover; then Result() and build.Main with [Compile, "
        "Output(goasm), Output(stubs)] into buffers, 1 of 8 instead with the Config of build.NewFlags(-out -stubs -log -e "
        "-pkg) into files, half of these without -e (the default limit of 10 messages + 'too many errors'); one random history "
        "in 48 and every long history also in a CHILD PROCESS (this binary, subcommand c18child, rebuilds the history from the "
        "same generator state and ends in build.Generate() with -out/-stubs/-log files): the exit code the operating system "
        "reports and the files on disk are judged by the same acceptor (route=….child). The status judged everywhere is the "
        "process exit status = low 8 bits of what Main returned (model exitCode; measured by os.Exit(k) in a child for 17 "
        "values of k, line c18exit). Long histories: exactly k builder-time faults for k = 255 256 257 511 512 513 767 768 "
        "769 1023 1024 1025, all the same fault (a wrong operand in an unrolled loop) and a rotation of eight fault kinds, "
        "each through Main on buffers, Main on the flags Config (with and without the limit) and the child process. Data at "
        "scale: one placement in three is made relative to the boundaries 8…8192 (ends at / starts at / crosses / any "
        "residue / back to front below everything placed), sizes 1-8 and strings of 1-300 bytes, bad ones aimed at the last "
        "byte / first byte / only beyond / only before a 64-128-256-4096 boundary of the earlier or of the later datum / "
        "containing / identical; plus a deterministic sweep (one section, datum A across a boundary 64…4096, datum X at the "
        "characteristic distances, both orders; quick: a quarter of the ~7700 cases rotating with the seed). 41 fixed histories (witnesses of all listed findings, one per fault kind, the witnesses of the "
        "seeded changes about tag characters and zero-width data) run first. Exact "
        "comparison with the model: error count and class per fault, node count and local size per function, datum count "
        "and size per data section, constraint count, order of file sections (line c18); status, which outputs were "
        "written, diagnostic line count (line c18main). Acceptor (accept-c18): the property itself (Spec) evaluated on "
        "the implementation's outcome with fault counts computed by the model; histories with a nil argument are judged "
        "by the acceptor only. Message classes are calibrated on every run by provoking each class once (line c18cal), "
        "not matched by wording; unrecognised messages are the distinct class 'unknown'. c18max: LogError truncation "
        "(MaxErrors > 0), not part of the property. Lower bounds on every outcome class and generator stream are "
        "obligations. Non-trivial = reaches an error path or has several sections.")
    ctx.assumptions += [
        "operands-match-a-form and MOV-deducible are classifications made by the harness from hand-written rules "
        "(22-opcode form catalogue, size/class table), signature-expression-accepted is what go/types says (asked "
        "directly, not through avo), none by the model; that the other ~6400 constructors reject operands matching no "
        "form is C06's business",
        "absence of panics is established by running every call under recover, not by a theorem (Lean functions are total)",
        "the register-pressure block makes n virtual registers of one kind pairwise interfere; allocation fails iff n "
        "exceeds the number of non-restricted physical registers of the kind in Gen.Regs",
        "compile-time faults are compared as a set (the reported one must be among those present), not by pass order; "
        "a compile error whose message is none of the calibrated ones is accepted as long as status and outputs are right",
        "the property's list of invalid requests is taken as is: requests avo does not validate and that are not on the "
        "list are modelled as accepted (status 0, output written): AllocLocal with a negative size, Label(\"\"), "
        "duplicate function names, duplicate data section names, newlines in Comment; negative sizes and Label(\"\") "
        "are not generated",
        "AddDatum/DATA with a negative offset is modelled and generated only with an active data section (class "
        "negoff); without one such a call records two messages (no active global + negative offset), i.e. one per fault of "
        "the call, which the model's one-message-per-request step does not express: the driver answers "
        "bad-negoff-outside-section if such a request is ever issued",
        "which characters a build tag may contain is a fact about the Go toolchain: the model takes it as the parameter "
        "tc (theorems for all tc) instantiated with Oracle/TagChars, measured on every run by asking the installed "
        "go/build/constraint about every code point; the rest of a term's syntax (one optional `!`, non-empty) is "
        "hand-written in the model and compared on every generated term with the live verdict of constraint.Parse",
        "Attributes(NOFRAME) is never requested: a NOFRAME function whose allocation reaches the base pointer fails to "
        "compile ('NOFRAME function clobbers base pointer register'), a compile-time fault outside the property's list "
        "that the model does not describe",
        "the operating system keeps the low 8 bits of the value given to os.Exit (POSIX); measured on every run for 17 values "
        "(c18exit) and modelled as exitCode; Spec speaks about that exit code, whatever integer Main returned",
        "the child-process route replays a history from the generator state; it is used only for histories without nil "
        "arguments and without panics (a panic inside the child would be the Go runtime's exit status 2)",
        "a diagnostic is one line per message; a message that itself contains line breaks (buildtags prints the offending "
        "character raw) is counted once",
        "function names that are not Go identifiers and Doc/Pragma text with a line break are not on the list either: "
        "the statement then demands only all-or-nothing (a failing generation writes nothing); the generated names are "
        "ASCII (the model's identifier syntax is the ASCII part of Go's), the broken texts are 3 fixed ones",
        "a call with a nil argument may be reported as an error or ignored (Spec allows both) but must not panic; "
        "when such a call panics no further builder call is issued on that context (how much of the abandoned call's "
        "effect is in place is not pinned down), Result() and Main are still run and a panic there is attributed to "
        "the nil call; histories with a nil argument are judged by the acceptor only (no exact comparison)",
        "Package(path) is never called (it runs `go list`; several messages for one call — one per package error — "
        "would be outside 'one message per fault'); Implement is exercised only without a package",
        "build.Generate itself (os.Exit, flag.CommandLine) is not run; its Config comes from build.NewFlags on a private "
        "FlagSet. That -out/-stubs files are created (truncated) when the flags are parsed, so that a failing generation "
        "leaves an empty file where the previous output was, is observed (stat flags_failure_truncated_previous_output) "
        "but not judged: the observation points are Result() and what Main writes",
        "component slots referenced by a request always exist (the driver answers bad-slot otherwise)",
    ]
    ctx.trusted.append("harness/c18.go shadow of signatures/components (steers generation, decides only the MOV-deducible flag)")
    ctx.trusted.append("harness/c18.go calibration witnesses (one canonical request per message class)")
    ctx.trusted.append("harness/c18cons.go c18toolTerm / c18toolExpr (read the answer of go/build/constraint.Parse, strings.Fields, "
                       "strings.Split) and harness/c18sig.go c18typesSig (reads the answer of go/types.Eval)")
    ctx.trusted.append("harness/c18proc.go (spawns the child processes, reads exit codes and file sizes)")
