"""C09 — the control-flow graph matches x86 control flow."""

LEAN = ["AvoVerif.Props.C09", "AvoVerif.Props.C09Accept", "AvoVerif.Props.C09Tables"]

# Lower bounds on what the generator must have produced AND the implementation must have answered (per run, in the
# quick tier; the thorough tier produces at least as many): a stream that silently dries up, or an instruction the
# form table no longer builds, is a broken obligation, not a silent pass.
FLOORS = {
    "cases:table": 5000, "cases:enum": 13000, "cases:named": 2500,
    "ok:graph": 7000, "err:dup": 3000, "err:trailing": 2000, "err:unknown": 4000, "err:nolabel": 1000,
    "table:ok": 3500, "table:err:nolabel": 500, "table:err:dup": 100, "table:err:trailing": 80,
    "named:ok": 1500, "named:err:dup": 100, "named:err:trailing": 100, "named:err:unknown": 40, "named:err:nolabel": 40,
    "enum:ok": 2000, "enum:err:nolabel": 200,
    "nonbranch_labelref": 3000, "name_variant_defined": 1200,
    "shape:empty": 20, "shape:no_instructions": 100, "shape:100+_instructions": 40,
    # the same functions through the real pass.Compile (graph read off the function when the pipeline stops in the allocator)
    "pipe:judged": 20000, "pipe:ok": 9000, "pipe:err": 4000, "pipe:pruned_something": 3000,
    "pipe:file:0+0": 2000, "pipe:file:1+0": 2000, "pipe:file:0+1": 2000, "pipe:file:1+1": 2000, "pipe:file:2+0": 2000, "pipe:file:0+2": 2000, "pipe:file:2+2": 2000,
}


def floors(ctx, stats):
    """Sample floors. The error classes are the harness's reading of avo's messages and are used for these
    statistics only; when a message is reworded the class becomes `other` and only the total of errors is checked."""
    reworded = stats.get("err:other", 0) > 0
    for key, lo in FLOORS.items():
        if reworded and ":err:" in key or (reworded and key.startswith("err:")):
            continue
        ctx.obligations += 1
        got = stats.get(key, 0)
        if got < lo:
            ctx.obligation_failures.append((f"c09 sample floor {key}", f"{got} < {lo}: the generator/implementation no longer yields enough of these cases"))
        else:
            ctx.discharged += 1
    ctx.obligations += 2
    errs = sum(v for k, v in stats.items() if k.startswith("err:"))
    if errs < 10000:
        ctx.obligation_failures.append(("c09 sample floor errors", f"{errs} < 10000 functions reported as errors"))
    else:
        ctx.discharged += 1
    if stats.get("build_failed", 0) != 0:
        ctx.obligation_failures.append(("c09 generator", f"the form table refused {stats.get('build_failed')} instructions of the C09 alphabet: " +
                                        ", ".join(k for k in stats if k.startswith("build_failed:"))))
    else:
        ctx.discharged += 1


def run(ctx):
    if not ctx.build_harness(["c09.go", "gen_branchops.go"]):
        return
    ctx.regen([("Gen/BranchOps", "BranchOps")])
    ctx.forbidden_scan()
    if not ctx.build_driver():
        return
    if ctx.lake_each(LEAN):
        ctx.audit("C09")
    if ctx.tier == "thorough":
        ctx.leanchecker(LEAN)
    nt = lambda req, resp: " L " in req and " I 1 " in req
    ctx.run_corpus("c09", nontrivial=nt)
    if ctx.replay:
        ctx.differential("c09", 0, nontrivial=nt)
        return
    n = 6000 if ctx.tier == "quick" else 150000
    if ctx.differential("c09", n, nontrivial=nt) is not None:
        floors(ctx, ctx.coverage.get("input_distribution", {}).get("c09", {}))
    ctx.coverage["rule"] = (
        "three streams of node sequences, every instruction built by the real form table (x86.VerifBuild), run through the real "
        "pass.LabelTarget + pass.CFG: (table) random functions of the shared generator: labels at start/end, consecutive and "
        "duplicate labels incl. adjacent twins, comments, conditional/unconditional branches, RET in the middle, Rel targets, "
        "indirect JMP r64/m64, undefined labels, fall-off-the-end; (enum) EVERY node sequence up to length 3 over {label a, label b, "
        "comment, NOP, RET, JMP a, JNE a, JMP b, JNE b, JMP AX, JMP z(undefined), CALL a}, length 4 over 8 and length 5 over 6 of "
        "these symbols (thorough: 4 / 5 / 6); (named) functions whose label names differ only by case, surrounding blanks, a tab, "
        "one trailing character, length 300, Unicode (composed/decomposed), the empty name, register-like names, with CALL label "
        "(a non-branch instruction carrying a label reference: no edge, no error), empty / label-only / comment-only functions and "
        "functions of 100-400 instructions. Compared: (1) `cfg`: outcome of the real passes = outcome of the Lean model "
        "(error yes/no; Succ and Pred as sets of instruction indices), (2) `accept-cfg`: the outcome is judged by the proved acceptor "
        "acceptCFG with the control-flow class of every instruction derived from its OPCODE (JMP / J.. / RET), not from avo's flags. "
        "(pipe) EVERY function of the three streams is additionally cloned, prefixed with 33 instructions that keep 17 general-purpose "
        "virtual registers alive (so that the REAL pass.Compile stops with an error in AllocateRegisters, after Verify, "
        "PruneJumpToFollowingLabel, PruneDanglingLabels, LabelTarget, CFG, ZeroExtend32BitOutputs and Liveness ran in their real order "
        "and before PruneSelfMoves clears Succ/Pred) and run through pass.Compile in a file with 0-2 small compiling functions before and 0-2 after it; the node list as the pipeline left it and the graph "
        "found on its instructions (instruction list taken from fn.Nodes, not from an accessor) are compared with the model and judged "
        "by the acceptor exactly like the direct route: state left behind by an earlier pass of the pipeline is visible here. "
        "Only ok / err / panic is tied to the implementation: WHICH of the four errors avo reports (its message) is read for the "
        "sample-floor statistics only. A nil successor (fall off the end) is dropped on both sides; multiplicity and order of "
        "Succ/Pred are not compared. Sample floors per stream and per outcome are proof obligations of the run. "
        "Non-trivial = has a label and a branch")
    ctx.assumptions += [
        "'return' is the near return RET (featureTerminal); far returns (RETFW/RETFL/RETFQ) fall through in avo (a conservative extra edge)",
        "the control-flow class of an opcode as x86 defines it is written down by hand as `specFeature`/`specFlags` (RET return, JMP "
        "unconditional, every other J.. conditional, nothing else a branch); features_are_x86_classes proves that the regenerated table "
        "(feature bits exported by the verif hook in a fixed layout, independent of the numbering of avo's constants) agrees for all "
        "forms of all opcodes, and accept-cfg judges avo's per-instruction flags against it on every generated instruction",
        "which error is reported (labelTarget_err, the four classes of buildCFG_err_iff) is a theorem about the model only; the "
        "implementation is tied on error-or-not (and no panic)",
        "ir.Function.LabelTarget itself (bindings of labels no branch refers to) is not compared: it is observable only through Succ/Pred",
        "the same *ir.Instruction pointer appearing twice in Nodes is outside the model (not constructible through build.Context)",
        "calling pass.CFG twice on one function (duplicate Succ/Pred entries) is not exercised; the graph is compared as sets",
    ]
    ctx.trusted += ["harness/c09.go: encoding of ir nodes into request lines and of Succ/Pred into index sets (exercised by corpus/C09 and the seeded changes)",
                    "Drv/C09.lean: request parsing (the acceptor itself is Avo.Func.acceptCFG with acceptCFG_sound / acceptCFG_complete)"]
