"""C09 — the control-flow graph matches x86 control flow."""

def run(ctx):
    if not ctx.build_harness(["c09.go", "gen_branchops.go"]):
        return
    ctx.regen([("Gen/BranchOps", "BranchOps")])
    ctx.forbidden_scan()
    if not ctx.build_driver():
        return
    if ctx.lake_each(["AvoVerif.Props.C09", "AvoVerif.Props.C09Tables"]):
        ctx.audit("C09")
    if ctx.tier == "thorough":
        ctx.leanchecker(["AvoVerif.Props.C09", "AvoVerif.Props.C09Tables"])
    nt = lambda req, resp: " L " in req and " I 1 " in req
    ctx.run_corpus("c09", nontrivial=nt)
    if ctx.replay:
        ctx.differential("c09", 0, nontrivial=nt)
        return
    n = 6000 if ctx.tier == "quick" else 150000
    ctx.differential("c09", n, nontrivial=lambda req, resp: " L " in req and " I 1 " in req)
    ctx.coverage["rule"] = ("random node sequences (labels at start/end, consecutive and duplicate labels incl. adjacent twins, "
                            "comments, conditional/unconditional branches, RET in the middle, Rel targets, undefined labels, "
                            "fall-off-the-end) built with the real form table, run through the real pass.LabelTarget + pass.CFG; "
                            "Succ/Pred compared as sorted index sets with the model, and an acceptor demands the prescribed graph "
                            "or an error; non-trivial = has a label and a branch")
    ctx.assumptions += ["'return' is the near return RET (featureTerminal); far returns fall through in avo (conservative extra edge)",
                        "branch/conditional/terminal classification of an instruction is taken from the implementation's flags (tied to the form table by C06/C02 checks)"]
