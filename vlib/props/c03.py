"""C03 — allocation obeys the register file: class, width, reserved, pinned registers."""
from . import c01

def run(ctx):
    if not ctx.build_harness(c01.FILES):
        return
    ctx.regen([("Gen/Regs", "Regs")])
    ctx.forbidden_scan(["AvoVerif.Audit.C03", "AvoVerif.Drv.C01", "drivers.DrvC01"])
    if not ctx.build_driver("drv_c01"):
        return
    if ctx.lake_each(["AvoVerif.Props.C03", "AvoVerif.Props.C03Pipeline"]):
        ctx.audit("C03")
    if ctx.tier == "thorough":
        ctx.leanchecker(["AvoVerif.Props.C03", "AvoVerif.Props.C03Pipeline"])
    nt = lambda req, resp: req.startswith("accept-bind") and not req.endswith("=> 0")
    n = 2500 if ctx.tier == "quick" else 60000
    ctx.differential("c01", n, nontrivial=nt, driver="drv_c01")
    ctx.coverage["rule"] = ("same generated functions as C01 (incl. ones exceeding 15 GP / 32 vector / 7 mask registers and 8H-heavy ones); "
                            "acceptor accept-bind: every operand register of the bound function is physical, an author-chosen physical "
                            "register is unchanged, every occurrence of a virtual is replaced by the view of ONE physical id of the same "
                            "kind with the same mask, not Restricted (SP, K0), 8H only on index 0..3; exact comparison of the outcome "
                            "class (ok / failed / nonphysical / highbyte) with the model; non-trivial = function with virtual registers")
    ctx.assumptions += ["Gen.regs is the register table reported by the compiled reg package on this run"]
