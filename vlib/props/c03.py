"""C03 — allocation obeys the register file: class, width, reserved, pinned registers."""
from . import c01

def run(ctx):
    if not ctx.build_harness(c01.FILES):
        return
    ctx.regen([("Gen/Regs", "Regs")])
    ctx.forbidden_scan(["AvoVerif.Audit.C03", "AvoVerif.Drv.C01", "drivers.DrvC01"])
    if not ctx.build_driver("drv_c01"):
        return
    if ctx.lake_each(["AvoVerif.Props.C03", "AvoVerif.Props.C03Pipeline"]):
        ctx.audit("C03")
    if ctx.tier == "thorough":
        ctx.leanchecker(["AvoVerif.Props.C03", "AvoVerif.Props.C03Pipeline"])
    nt = lambda req, resp: req.startswith("accept-bind") and not req.endswith("=> 0")
    n = 2500 if ctx.tier == "quick" else 60000
    if ctx.differential("c01", n, nontrivial=nt, driver="drv_c01") is not None:
        c01.floors(ctx, "c01", {"functions": n * 9 // 10, "outcome:ok": n // 2, "bound_functions": n // 2,
                                "bound_input_output_pairs": 5 * n, "compile:ok": n // 6, "outcome:err_nonphysical": n // 200,
                                "outcome:err_highbyte": n // 200,
                                # author-written restricted registers (SP views, K0) next to virtual registers, and plain
                                # register-to-register moves by the class of their sides — counted on BOUND functions only
                                "bound:virt_next_to_restricted_instrs": n // 8, "bound:regmove_virt_restricted": n // 10,
                                "bound:fgen_regmove_virt_restricted": n // 25, "bound:fgen_virt_next_to_restricted_instrs": n // 16,
                                "bound:regmove_virt_phys": n // 10, "bound:regmove_virt_virt": n // 25,
                                "bound:rcopy_functions": n // 16, "rcopy_kind:k": n // 100, "rcopy:from": n // 50,
                                "rcopy:into": n // 100, "rcopy:both": n // 100, "rcopy:interf": n // 100,
                                # function-level context (c01Decorate): attribute class x what makes a wrong colour set visible
                                **{f"bound:attr:{a}:gp_live_ge5": n // 125 for a in c01.MAIN_ATTRS},
                                **{f"bound:attr:{a}:virt_opmask": n // 60 for a in c01.MAIN_ATTRS},
                                **{f"bound:attr:{a}:gp_live_ge5": n // 250 for a in ("other", "other_with_NOFRAME")},
                                **{f"bound:attr:{a}:virt_opmask": n // 125 for a in ("other", "other_with_NOFRAME")}})
        c01.ceilings(ctx, "c01", {"cfg_rejected": n // 50, "liveness_error": 0})
        c01.exact_model_info(ctx)
    c01.file_route(ctx)
    ctx.coverage["rule"] = (
        "same generated functions as C01 (incl. ones exceeding 15 GP / 32 vector / 7 mask registers, 8H-heavy ones, gather/scatter forms "
        "with vector index registers, four-operand forms; author-written RESTRICTED registers — SP in its 64/32/16/8-bit views, K0 — as "
        "operands and address registers of any opcode next to virtual registers; plain register-to-register moves MOVB/MOVW/MOVL/MOVQ/KMOVx/"
        "MOVOU/VMOVDQU between a virtual register and a restricted / other physical / virtual register in both directions; and the idioms "
        "'a virtual register is a copy of SP / K0' and 'is copied into SP / K0' with and without interference, under pressure below, at and "
        "above the register file — all with sample floors counted on successfully BOUND functions; every function, in the single-function "
        "streams and in the file route, carries a function-level context drawn by c01Decorate: text attributes none / NOSPLIT / NOFRAME / "
        "NOSPLIT|NOFRAME / NEEDCTXT / NOSPLIT|NEEDCTXT|NOFRAME / arbitrary 12-bit flag sets, a local frame or none, a signature or the void "
        "default, with floors per attribute class x {>= 5 virtual GP registers live at once, a virtual opmask register} on bound functions). accept-bind (sound: theorem checkBind_sound ⇒ statement BoundOK ∧ Unreserved): "
        "every register found after BindRegisters in the OPERANDS, the declared INPUTS and the declared OUTPUTS of every instruction — "
        "enumerated by the harness's own traversal of the operand values (register operands; base and index of memory operands), not by "
        "Instruction.Registers()/operand.Registers — is physical; an author-chosen or implicit physical register is unchanged; every "
        "occurrence of a virtual is the view of the ONE physical id the allocation assigns to it, same mask (8L stays 8L, 8H stays 8H), "
        "same class as the virtual, a row of the regenerated register file that is not Restricted (hence, theorem checkBindOne_in_colour_set, "
        "a member of the unrestricted candidate set of the virtual's kind) and — whatever the flags say — not general-purpose register 4 "
        "(the stack pointer) nor opmask 0 (K0) by the hardware numbering of its id, 8H only on index 0..3. accept-regs: "
        "Instruction.Registers() (what AllocateRegisters and VerifyAllocation look at) is exactly that traversal. accept-enc: no high-byte "
        "register in an instruction that needs REX after allocation. 'An error instead of emitting code': an `ok` outcome is judged by the "
        "acceptors (so 'ok with an invalid assignment' is a violation); an error outcome is always acceptable to the property, WHICH error "
        "is not compared. The exact model of avo's greedy allocator is compared on an informational stream only (colour choice is free). "
        "non-trivial = bound function with virtual registers")
    ctx.assumptions += [
        "Gen.regs is the register table reported by the compiled reg package on this run",
        "which GP index is the stack pointer (4) and which opmask is K0 (0), and which names those rows print as, is the hardware numbering verified by C20, not here",
        "distinct virtual registers of one function have distinct ids: reg.Collection hands out 16-bit indices that wrap after 65 536 registers of a kind (finding F13 of C20); beyond that two virtuals are one register to every pass",
        "completeness of the allocator (that it finds an assignment whenever one exists) is not part of the property and not checked; a floor on the number of successfully bound functions guards against a pipeline that always fails",
        "file route: 'no valid assignment was found for function j' is what the real AllocateRegisters/BindRegisters/VerifyAllocation report on an identical copy of function j alone (the passes are deterministic; on the unchanged tree pass.Compile and that route never disagreed in either direction); a Compile that succeeds on such a file is reported even if it had bound the function validly by other means",
    ]
    ctx.trusted += ["the harness's traversal of operand values (c01OpRegs: reg.Register, operand.Mem{Base,Index}) is the ground truth for 'the registers of an instruction'"]
