"""C13 — data sections contain exactly the constants placed in them."""
from vlib import modules


def _floors(ctx, sub, floors):
    """Lower bounds on the number of judged cases per stream: a change that silently drops cases (a build that
    stops working, a generator that loses a class) must not leave the run green."""
    st = ctx.coverage.get("input_distribution", {}).get(sub)
    if st is None:
        return
    for key, lo in floors.items():
        ctx.obligations += 1
        got = st.get(key, 0)
        if got >= lo:
            ctx.discharged += 1
        else:
            ctx.obligation_failures.append((f"{sub}: sample floor {key}", f"{key} = {got}, at least {lo} required"))


def run(ctx):
    if not ctx.build_harness(["c13.go", "gen_consts.go"]):
        return
    ctx.regen([modules.CONSTS])
    ctx.forbidden_scan()
    # the driver (model + acceptors) must build even when a table theorem breaks
    if not ctx.build_driver():
        return
    targets = ["AvoVerif.Props.C13", "AvoVerif.Props.C13Accept", "AvoVerif.Props.C13Tables"]
    if ctx.lake_each(targets):
        ctx.audit("C13")
    if ctx.tier == "thorough":
        ctx.leanchecker(targets)
    nontrivial = lambda req, resp: not (req.startswith("data ") and req.endswith(" 0"))
    if hasattr(ctx, "run_corpus"):
        ctx.run_corpus("c13", nontrivial=nontrivial)
    quick = ctx.tier == "quick"
    if quick:
        n, extra = 3000, ["-measure", "400", "-nonmono", "24", "-f32", str(1 << 24), "-f32budget", "60"]
        floors = {"sections": 3000, "exact_data_lines": 2500, "sections_100_or_more_data": 15, "sections_10_to_99_data": 30,
                  "placement_below_previous_end_requested": 500, "negative_offset_requested": 20, "measured_sections_read_back": 380,
                  "measured_sections_100_or_more_data": 1, "f32_sweep_checked": 1 << 22, "f32_requests": 1000,
                  "f64_requests": 1000, "int_requests": 500, "str_requests": 500, "f11_witnesses_assembled": 2,
                  "via_2": 300, "via_3": 30, "via_4": 150, "with_other_sections_in_file": 200}
    else:
        n, extra = 60000, ["-measure", "6000", "-nonmono", "200", "-f32", str(1 << 32), "-f32budget", "450"]
        floors = {"sections": 60000, "exact_data_lines": 50000, "sections_100_or_more_data": 300, "sections_10_to_99_data": 600,
                  "placement_below_previous_end_requested": 10000, "negative_offset_requested": 400, "measured_sections_read_back": 5700,
                  "measured_sections_100_or_more_data": 20, "f32_sweep_checked": 1 << 26, "f11_witnesses_assembled": 2,
                  "via_2": 6000, "via_3": 600, "via_4": 3000, "with_other_sections_in_file": 4000}
    if ctx.differential("c13", n, extra=extra + ["-dir", "meas"], nontrivial=nontrivial, timeout=3000) is not None and not ctx.replay:
        _floors(ctx, "c13", floors)
    ctx.level = "proof"
    ctx.coverage["proof_partial"] = (
        "floats are MEASURED, not proved: the theorems take ConstOK / ConstOKReal (the assembler turns the printed decimal back "
        "into the constant's bit pattern) as a hypothesis; it is checked per value (Lean's exact-rational model of cmd/asm's "
        "conversion on every generated float, the kernel on the boundary vectors of Gen/Consts, strconv on a float32 sweep, the "
        "real assembler+linker on a sample). The assembler itself (`assemble`) is a hand-written Lean model, tied to cmd/asm by "
        "measurement only.")
    ctx.coverage["rule"] = (
        "random call sequences through FIVE entry points — build.Context.StaticGlobal/DataAttributes/AddDatum/AppendDatum, "
        "Context.ConstData, the package-level wrappers build.GLOBL/build.DATA and build.ConstData (on a swapped-in context), "
        "and ir.NewStaticGlobal/Global.AddDatum/Append/Grow directly — with, for a fifth of the cases, other sections before and "
        "after it in the same file that are written to while it is not active. Shapes: adjacent, aligned, overlapping by one or "
        "more bytes, out-of-order, inside gaps, zero-length strings at boundaries and inside data, appends after gaps and grows, "
        "negative offsets; in every tier also TABLES of 10-60 and 100-400 data (in order, shuffled, reversed) followed by probes "
        "aimed at entries chosen uniformly over the whole table (first/last byte, same offset, exact gap fit, containment, "
        "zero-length at boundaries), so that an overlap structure that is only right for few or for recent entries is exercised. "
        "All 11 constant kinds with boundary and random values. Exact comparison with the Lean model: accept/reject flags, data "
        "list, size (sequences without negative offsets), and the text of the DATA/GLOBL block where the order of the lines is "
        "not at issue (sections whose data are in increasing order). Acceptors on the implementation's own output: accept-data "
        "(the property replayed with the implementation's decisions: no accepted placement shares a byte with an earlier one or "
        "is negative, every rejection is justified by Go's interval test, appends land at the furthest extent, final data = the "
        "accepted constants, pairwise disjoint, inside [0,size), size = furthest extent; `acceptData_sound`), accept-attrs (the "
        "attributes stored and the value of the GLOBL line's attribute text per the toolchain's textflag.h equal the requested "
        "value; ConstData: RODATA|NOPTR), accept-lines for EVERY section (Lean's model of cmd/asm applied to all printed lines "
        "of the file that are not comments/#include gives the image; out-of-order sections must give it once sorted by offset), "
        "accept-int / accept-str (the assembler's reading of the constant's text stores its bytes). MEASURED: sections are built "
        "with `go build` together with accessor functions under 4 linkable attribute sets, the bytes of every symbol read from "
        "the running binary and compared with the model image (accept-asm); a failing batch is narrowed to the guilty sections "
        "(each assembled alone, rest rebuilt, bisection); out-of-order and negative sections are assembled alone with `go tool "
        "asm` (their rejection class is part of the request; those the assembler accepts are read back like the others); float "
        "texts converted as cmd/asm does (float token -> ParseFloat 64 then float32; NO decimal point -> integer): float64 "
        "boundary+random, float32 stratified sweep (quick 2^24 values, thorough as many of the 2^32 as fit in 450 s, through the real "
        "operand.F32.String) plus the F11 witnesses through the real assembler and linker; every float text is also converted by "
        "Lean's own exact-rational model of the assembler (fparse lines compare it with strconv, accept-f32/f64 judge with it). "
        "Gen/Consts is BEHAVIOURAL: the constant types by go/types, Asm()/Bytes() of the compiled package on boundary vectors, "
        "checked against the model by the kernel (no source text compared). Lower bounds on the number of judged cases per "
        "stream are proof obligations of the run.")
    ctx.assumptions += [
        "Go int arithmetic does not overflow: offsets near MaxInt64 make Offset+Bytes() wrap in ir.Datum.Interval (two equal "
        "data at MaxInt64-1 are both accepted, size not grown); the model uses unbounded Int and such offsets are not generated "
        "(cmd/asm refuses every offset >= 2^30 anyway: same class as finding C13-NEGOFF)",
        "placements at negative offsets: avo accepts them, no byte of the symbol is there and the assembler refuses the file "
        "(finding C13-NEGOFF); they are excluded from the exact model comparison (so rejecting them in avo does not alarm) and "
        "from the hypotheses of data_disjoint / data_end_to_end (InScope)",
        "out-of-order sections (finding F14) get no measured bytes (the build fails); Lean's assembler model must give the image "
        "from their lines sorted by offset. A repair that SORTS the printed lines keeps the check silent; a repair that REJECTS "
        "out-of-order placements in AddDatum would need the model's `addDatum` updated (reported as a broken correspondence)",
        "floats: the theorems take `ConstOK` (the assembler converts the printed decimal to the constant's bit pattern) "
        "as a hypothesis; it is measured per value, not proved for all values (no verified shortest-decimal printing in Lean). "
        "Only finite values are in the property's quantifier: NaN/Inf print `NaN.0`/`+Inf.0`, which the assembler rejects; not generated",
        "strings: proved for every byte string with `$%+q` (string_text_roundtrip); the former `$%q` (runes printed raw) is "
        "kept only as the regression witness of F15",
        "cmd/asm's DATA semantics (monotone offsets, no negative offsets, WriteInt truncation, WriteString padding, Unquote, the "
        "lexer's rewriting of U+00B7/U+2215, `$(text)` = float only with a decimal point else integer) are modelled in "
        "Model/Data.lean `assemble` / Model/Float.lean `asmFloat` and measured against the real toolchain on every run; "
        "`parseMag` reads a leading 0 as decimal (cmd/asm: octal) — unreachable from `%+d` / `%#0Nx` output",
        "several symbols in one file are independent: not a theorem; exercised by the decoy sections and by the measured "
        "program (hundreds of symbols in one file)",
        "attributes: only the numeric value is judged (stored value, and the GLOBL text evaluated with textflag.h); that the "
        "linker honours RODATA/NOPTR/DUPOK is not measured; the measured program uses 4 linkable sets (asm data without NOPTR "
        "does not link)",
        "the text of the DATA/GLOBL block (in-order sections), of integer constants (`int` lines, Gen/Consts vectors) and of "
        "string constants (`str` lines) is compared exactly with the model (`$%+d`, `$%#0Nx`, `$%+q`): a change to another text "
        "form the assembler reads the same way, e.g. `$1` for `$0x01`, would be reported as a broken correspondence / table "
        "theorem although accept-int / accept-str / accept-lines would still pass (the operand text form is property C05's)",
    ]
    ctx.trusted += ["the Go toolchain (go build, cmd/asm, cmd/link) and the host CPU for the measured image",
                    "strconv.ParseFloat / ParseUint of the installed Go as ground truth for the assembler's number parsing",
                    "the toolchain's textflag.h for the value of attribute names",
                    "go/types (golang.org/x/tools/go/packages) for the list of constant types",
                    "acceptors' diagnosis strings (`dataProblems`, `linesVerdict`) and the parsing of the printed block "
                    "(`parseBlock`) are glue; the accept decisions themselves are `acceptData`/`acceptLines`/`acceptBytes` "
                    "(soundness: Props/C13Accept.lean)"]
