"""C13 — data sections contain exactly the constants placed in them."""
from vlib import modules


def run(ctx):
    if not ctx.build_harness(["c13.go", "gen_consts.go"]):
        return
    ctx.regen([modules.CONSTS])
    ctx.forbidden_scan()
    # the driver (model + acceptors) must build even when a table theorem breaks
    if not ctx.build_driver():
        return
    if ctx.lake_each(["AvoVerif.Props.C13", "AvoVerif.Props.C13Tables"]):
        ctx.audit("C13")
    if ctx.tier == "thorough":
        ctx.leanchecker(["AvoVerif.Props.C13", "AvoVerif.Props.C13Tables"])
    nontrivial = lambda req, resp: not (req.startswith("data ") and req.endswith(" 0"))
    if hasattr(ctx, "run_corpus"):
        ctx.run_corpus("c13", nontrivial=nontrivial)
    quick = ctx.tier == "quick"
    if quick:
        n, extra = 3000, ["-measure", "400", "-nonmono", "4", "-f32", str(1 << 24), "-f32budget", "60"]
    else:
        n, extra = 60000, ["-measure", "6000", "-nonmono", "12", "-f32", str(1 << 32), "-f32budget", "600"]
    ctx.differential("c13", n, extra=extra + ["-dir", "meas"], nontrivial=nontrivial, timeout=3000)
    ctx.level = "proof"
    ctx.coverage["rule"] = (
        "random call sequences through build.Context.StaticGlobal/DataAttributes/AddDatum/AppendDatum/ConstData and "
        "ir.Global.Grow (adjacent, aligned, overlapping by one or more bytes, out-of-order, inside gaps, zero-length "
        "strings at boundaries and inside data, appends after gaps and grows, a few negative offsets = out of scope), all 11 "
        "constant kinds with boundary and random values: exact comparison of accept/reject flags, data list, size and the "
        "printed DATA/GLOBL lines with the Lean model; acceptors on the implementation's own output (accept-data: the "
        "property replayed with the implementation's decisions; accept-lines: Lean's model of the assembler applied to the "
        "printed lines gives the image; accept-int / accept-str: the assembler's reading of the constant's text stores its "
        "bytes). MEASURED: sections are built with `go build` together with accessor functions, the bytes of every symbol "
        "read from the running binary and compared with the model image (accept-asm); float texts converted as cmd/asm "
        "does (ParseFloat 64 then float32): float64 boundary+random, float32 stratified sweep (quick 2^24 values, thorough up "
        "to all 2^32 within 10 min, through the real operand.F32.String) plus the F11 witnesses through the real assembler and "
        "linker; every float text is also converted by Lean's own exact-rational model of the assembler (fparse lines compare it "
        "with strconv, accept-f32/f64 judge with it)")
    ctx.assumptions += [
        "Go int arithmetic does not overflow; placements at negative offsets are outside the property's quantifier",
        "floats: the theorems take `ConstOK` (the assembler converts the printed decimal to the constant's bit pattern) "
        "as a hypothesis; it is measured per value, not proved for all values (no verified shortest-decimal printing in Lean)",
        "strings: proved for literals the assembler's lexer leaves alone (LexerSafe); U+00B7 / U+2215 are finding F15",
        "strconv.IsPrint (which runes >= 0x80 %q prints raw) is supplied by the harness per request; the round trip "
        "theorem holds for every such table",
        "cmd/asm's DATA semantics (monotone offsets, WriteInt truncation, WriteString padding, Unquote) are modelled in "
        "Model/Data.lean `assemble` and measured against the real toolchain on every run",
    ]
    ctx.trusted += ["the Go toolchain (go build, cmd/asm, cmd/link) and the host CPU for the measured image",
                    "strconv.ParseFloat / FormatFloat / IsPrint of the installed Go as ground truth for floats and %q printability"]
