"""C06 — all instruction entry points accept exactly the documented forms and agree.

Proof: generic theorems about `build` (first match), `addinstruction` and argument forwarding for all
operand lists (Props/C06.lean) lifted to every constructor / Context method / package-level function
of the CURRENT sources through kernel-checked obligations over the regenerated tables
(Gen.FormsMeta, Gen.Forms_00..15, Gen.Ctors_00..07; Props/C06T/*, Props/C06Tables.lean).
Correspondence: operand-class predicates exhaustively on a universe of ~1200 operands (hand-picked shapes + for
every operand type a member and every one-attribute change of it, made of physical and of virtual registers) x every
operand type code; the three API layers called by name on matching and near-miss operand tuples (quick: all
functions outside the V block + fixed-register families + a seeded V sample, rest swept), a purity
pass over all suffix variants of each opcode, branch attributes against the mnemonic, a corpus.
Tie "shipped tables = generator output": internal/cmd/avogen built from the working tree regenerates
every z*.go target, byte-compared with the checked-in files."""
import difflib, os, shutil, subprocess

from .. import core
from ..modules import forms_modules, ctors_modules, REGS

GO_FILES = ["c06.go", "c06_optab_ast.go", "c06_ctors_ast.go", "c05derive.go", "gen_forms.go", "zz_c06_wrappers.go"]
SHARDS = [f"AvoVerif.Props.C06T.Ctors{i:02d}" for i in range(8)] + [f"AvoVerif.Props.C06T.Forms{i:02d}" for i in range(16)]
PROPS = ["AvoVerif.Props.C06", "AvoVerif.Props.C06Classes"] + SHARDS + ["AvoVerif.Props.C06Tables"]

GENERATE_DIRS = ("x86", "build", "internal/inst")   # directories whose `//go:generate avogen …` lines are replayed
# the generated files the property speaks about (form table, constructors, Context methods / package-level functions,
# the instruction database they are generated from) must be there and regenerate; every OTHER checked-in generated
# file with a go:generate line (test files, zmov.go) is regenerated and compared when present, not required
EXPECTED_SHIPPED = {"x86/zoptab.go", "x86/zctors.go", "build/zinstructions.go", "internal/inst/ztable.go"}

# lower bounds on what a run must have judged (per differential run): a generator or selection change that silently
# drops a stream shows up as a broken obligation instead of an empty, trivially green stream
FLOORS_QUICK = {"match": 2500, "other-suffix-class": 300, "sibling": 100, "derive": 2500, "replace": 2500, "swap": 2000, "drop": 200, "extra": 200,
                "replay": 3000, "pure-checks": 3000, "sweep": 1500, "accepted": 8000, "rejected": 5000, "layers-checks": 12000,
                "doc-checks": 15000, "attr-checks": 8000, "attr-checks-branch-or-terminal": 200,
                # operand-list lengths far from the arity (wrap-around of a narrowed operand count), per length class;
                # by name through the three layers for variadic functions, through x86.VerifBuild for the others
                "len:a+1": 1000, "len:a+2": 1000, "len:256+a": 1000, "len:255": 400, "len:256": 400, "len:257": 400, "len:512+a": 400,
                "len:65536+a": 6, "len-by-name": 1500, "via-build": 3000}
FLOORS_THOROUGH = dict(FLOORS_QUICK, **{"match": 9000, "derive": 9000, "replace": 9000, "swap": 8000, "sweep": 0, "replay": 20000, "pure-checks": 20000,
                                        "accepted": 30000, "rejected": 25000, "layers-checks": 60000, "doc-checks": 60000})


def check_floors(ctx, tag):
    st = ctx.coverage.get("input_distribution", {}).get("c06" + tag)
    if not st:
        ctx.obligation_failures.append(("c06 sample floors", f"no statistics for run c06{tag}"))
        return
    h = st.get("histogram", {})
    low = []
    for k, v in (FLOORS_QUICK if ctx.tier == "quick" else FLOORS_THOROUGH).items():
        if h.get(k, 0) < v:
            low.append(f"{k}: {h.get(k, 0)} < {v}")
    if st.get("functions_called_nonV") != st.get("functions_total_nonV"):
        low.append(f"functions outside the V block called: {st.get('functions_called_nonV')} of {st.get('functions_total_nonV')}")
    if st.get("functions_called", 0) + st.get("functions_swept", 0) < st.get("functions_total", 1):
        low.append(f"functions called at least once: {st.get('functions_called', 0)} + {st.get('functions_swept', 0)} swept of {st.get('functions_total')}")
    if st.get("functions_called_with_fixed_class", 0) < 60 or st.get("doc_checks_on_functions_with_fixed_class", 0) < 1000:
        low.append(f"functions with fixed-register/value classes: {st.get('functions_called_with_fixed_class')} called, "
                   f"{st.get('doc_checks_on_functions_with_fixed_class')} judged calls")
    if st.get("class_checks", 0) < 40000 or st.get("class_checks_true", 0) < 600 or st.get("suffix_class_codes", 0) < 8:
        low.append(f"class stream: {st.get('class_checks')} checks, {st.get('class_checks_true')} true, {st.get('suffix_class_codes')} suffix class codes")
    # systematically derived near misses (harness/c05derive.go): every (operand type, one-attribute change) pair of the
    # catalogue is in the universe of the exhaustive class stream, and most pairs reach the three layers by name
    if st.get("universe_derived_pairs", 0) != st.get("universe_derived_pairs_total", -1) or st.get("universe_derived_pairs_total", 0) < 500 \
            or st.get("universe_derived_operands", 0) < 400 or st.get("universe_types_without_catalogue", 1) != 0:
        low.append(f"derived near misses in the universe: {st.get('universe_derived_pairs')} of {st.get('universe_derived_pairs_total')} "
                   f"(type, change) pairs, {st.get('universe_derived_operands')} operands added, "
                   f"{st.get('universe_types_without_catalogue')} operand types without catalogue")
    if st.get("derive_pairs_called", 0) < (250 if ctx.tier == "quick" else 300):  # measured: quick 330, thorough 343-352 per seed stream
        low.append(f"derived near misses through the three layers: {st.get('derive_pairs_called')} (type, change) pairs")
    for k in ("missing-layer", "unrecognised-ctor-body", "bad-range", "no-sample"):
        if h.get(k, 0):
            low.append(f"{k}: {h[k]} functions could not be exercised")
    if low:
        ctx.obligation_failures.append((f"c06{tag} sample floors", "; ".join(low)))


def regenerate_tables(ctx):
    """Build avogen from the working tree, run every `//go:generate avogen …` line of x86/, build/ and
    internal/inst/ into .work/C06/regen/ and byte-compare with the checked-in file."""
    root = os.path.join(ctx.dir, "regen")
    shutil.rmtree(root, ignore_errors=True)
    os.makedirs(root)
    exe = os.path.join(root, "avogen")
    rc, out = core.sh(["go", "build", "-o", exe, "./internal/cmd/avogen"], cwd=core.REPO, env=core.GOENV, timeout=900)
    if rc != 0:
        ctx.obligation_failures.append(("avogen build", out[-3000:]))
        return
    # replay the go:generate lines found in the tree (output files that are not checked in — the stress /
    # benchmark test files generated on demand — are not "shipped tables" and are skipped)
    targets, skipped = [], []
    for d in GENERATE_DIRS:
        for fn in sorted(os.listdir(os.path.join(core.REPO, d))):
            if not fn.endswith(".go"):
                continue
            for line in open(os.path.join(core.REPO, d, fn), encoding="utf-8", errors="replace"):
                if not line.startswith("//go:generate avogen "):
                    continue
                args = line.split()[2:]
                if "-output" not in args or args.index("-output") + 1 >= len(args):
                    ctx.obligation_failures.append(("go:generate line", f"{d}/{fn}: no -output in `{line.strip()}`"))
                    continue
                outfn = args[args.index("-output") + 1]
                if os.path.exists(os.path.join(core.REPO, d, outfn)):
                    targets.append((d, outfn, args))
                else:
                    skipped.append(f"{d}/{outfn}")
    missing = EXPECTED_SHIPPED - {f"{d}/{fn}" for d, fn, _ in targets}
    if missing:
        ctx.obligation_failures.append(("go:generate lines", f"no go:generate line / no shipped file for {sorted(missing)}"))
    ctx.coverage["generated_not_shipped_skipped"] = skipped
    ndiff = 0
    compared = []
    for d, fn, args in targets:
        wd = os.path.join(root, d)
        os.makedirs(wd, exist_ok=True)
        if "-bootstrap" in args:
            link = os.path.join(root, "internal", "data")
            if not os.path.exists(link):
                os.symlink(os.path.join(core.REPO, "internal", "data"), link)
        # argv[0] must be "avogen": the generated-code warning quotes the command line
        p = subprocess.run(["avogen"] + args, executable=exe, cwd=wd, env=core.GOENV, stdout=subprocess.PIPE,
                           stderr=subprocess.STDOUT, text=True, timeout=900)
        shipped = os.path.join(core.REPO, d, fn)
        produced = os.path.join(wd, fn)
        if p.returncode != 0 or not os.path.exists(produced):
            ctx.obligation_failures.append((f"avogen {' '.join(args)}", (p.stdout or "")[-2000:]))
            continue
        if not os.path.exists(shipped):
            ctx.obligation_failures.append((f"shipped {d}/{fn}", "file named by a go:generate line is missing"))
            continue
        a, b = open(shipped, "rb").read(), open(produced, "rb").read()
        compared.append(f"{d}/{fn}")
        if a != b:
            ndiff += 1
            diff = list(difflib.unified_diff(a.decode("utf-8", "replace").splitlines(), b.decode("utf-8", "replace").splitlines(),
                                             f"shipped {d}/{fn}", "regenerated", lineterm="", n=0))
            ctx.add_concrete(f"regen {d}/{fn} differs from the generator's output",
                             {"request": f"regen {d}/{fn}", "impl": "shipped file", "model": "avogen " + " ".join(args),
                              "diff": "\n".join(diff[:60]), "differing_lines": sum(1 for l in diff if l[:1] in "+-") })
    ctx.coverage["regenerated_files"] = compared
    ctx.coverage["regenerated_files_differing"] = ndiff
    ctx.evaluations += len(compared)
    ctx.log(f"regen: {len(compared)} generated files compared with the checked-in ones, {ndiff} differ")


def run(ctx):
    ctx.level = "proof"
    if not ctx.build_harness(GO_FILES):
        return
    ok = ctx.regen(forms_modules() + ctors_modules() + [REGS])
    ctx.forbidden_scan()
    # the driver (model + acceptors) must build even when a table theorem breaks
    if not ctx.build_driver():
        return
    if ok and ctx.lake_each(PROPS):
        ctx.audit("C06")
    if ctx.tier == "thorough":
        ctx.leanchecker(["AvoVerif.Props.C06", "AvoVerif.Props.C06Tables"])

    nontrivial = lambda req, resp: not (req.startswith("class ") and resp == "0") and not req.startswith("addi") \
        and not req.startswith("accept-names")
    # hand-picked / minimised call sequences first (corpus/C06/*.txt), each file replayed in order in one process
    ctx.run_corpus("c06", nontrivial=nontrivial, timeout=600)
    # quick: every function outside the AVX `V…` block + every family with a fixed-register/value class + 600 seeded
    # functions of the V block (whole families), the rest swept; thorough: all
    n = 600 if ctx.tier == "quick" else 100000
    ctx.differential("c06", n, nontrivial=nontrivial, timeout=3000)
    check_floors(ctx, "")
    if ctx.tier == "thorough":
        # all functions again with other operand samples / near misses
        base = ctx.seed
        for k in (1, 2):
            ctx.seed = base * 1000003 + k
            ctx.differential("c06", n, tag=f"-s{k + 1}", nontrivial=nontrivial, timeout=3000)
            check_floors(ctx, f"-s{k + 1}")
        ctx.seed = base
    regenerate_tables(ctx)

    ctx.coverage["rule"] = (
        "(0) corpus/C06/*.txt: hand-picked call sequences (`call NAME operands…`) replayed in file order in one process "
        "through all three layers (purity across suffix variants, every kind of JMP operand, first/last opcode, rejection "
        "on a context with history, fixed-register classes and their siblings, wrong operand counts). "
        "(i) operand-class predicates: every operand of a universe of ~1200 (all physical registers of reg.Families, the "
        "exported wrapped registers and converted views, virtual registers of every kind/width incl. identifiers above 7 "
        "and ill-sized ones, ~170 memory shapes with nil / GP / pseudo / vector / mask base and index, symbol without base, "
        "RSP / 8- / 16-bit / X16+ index registers, every constant type at boundary values, Rel at the int8/int32 limits, "
        "LabelRef, nil, *Mem, a foreign Op; + DERIVED near misses: for every operand type a member with every attribute present and "
        "every one-attribute change of it per the catalogue of harness/c05derive.go — memory operands with base absent / 32- / 16- / "
        "8-bit / vector / opmask / pseudo, index absent / general purpose / vector of each width / opmask / pseudo / SP, scale 0 or 3, "
        "symbol, displacement beyond 32 bits, a register or constant instead; registers of every other width and kind, other views and "
        "neighbours of the fixed registers; constants of every other type and just outside the range; branch targets just outside the "
        "8-bit range — once made of physical and once of virtual registers) x every operand type code 0..max+2 through x86.VerifMatch (the generated "
        "oprndtype.Match switch) against the hand model — exhaustive over that universe; `sfxset`: the accepted suffix "
        "lists of every suffix class code 0..max+2 (sffxscls.SuffixesSet + sffxs.Strings) against the model's table. "
        "(ii) x86 constructor, Context method and package-level function called BY NAME (closures generated from /repo by "
        "harness/cmd/genctors).  SELECTION quick: every function outside the AVX/AVX-512 `V…` block (672: MOVQ, ADDQ, "
        "JMP, RET, XORQ, … always), every family with a fixed-register/value class (al cl ax eax rax xmm0 imm2u imm16 1 3), "
        "every function the Go-side pre-check finds suspicious, 600 seeded functions of the V block (whole families: all "
        "suffix variants of an opcode together); every function NOT selected is swept (first and last admitted form, "
        "constructor only, judged by accept-doc/accept-attrs) so that every opcode and suffix code passes through "
        "opc.Forms/opc.String/sffxs.Strings; thorough: all functions, three seeds. "
        "FIRST PASS per function: one matching operand sample per form admitted by its suffixes, samples of forms of other "
        "suffix classes, per sample the same-width sibling of every fixed-register/value operand and 2-3 near misses "
        "(operand-list LENGTHS: per distinct arity a of the admitted forms a matching sample extended to a+1, a+2, 256+a operands "
        "(every selected function), 255, 256, 257, 512+a (every non-V function, 1/6 of the V block; thorough: all) and 65536+a (8 "
        "functions; thorough also 1/40 of the rest) — variadic functions by name on all three layers, the others through "
        "x86.VerifBuild, the body of their constructor; the model compares the unbounded length: build_none_of_long; "
        "one operand replaced by a derived one-attribute change of a member of its class; operand replaced by a random universe "
        "operand, two operands swapped; operand dropped/added for variadic functions "
        "in BOTH tiers).  SECOND PASS (purity): per family up to 4 (thorough 10) operand lists that were accepted, preferring "
        "those most members accept, given to EVERY member of the family in a shuffled order and back in reverse. "
        "JUDGEMENTS: `instr` = exact model comparison of the constructor (opcode, suffixes, operands, Inputs/Outputs in "
        "order incl. implicit registers — order and multiplicity are observable: ir.InputRegisters' cancelling rule reads "
        "the first two — flags, ISA) on the opcode's form rows carried inline; `accept-doc` = the property on the "
        "function's own doc comment; `accept-layers` = three layers equal + node/error deltas on contexts holding 0-4 "
        "instructions and 0-3 earlier errors; `addi` = addinstruction model; `accept-attrs` = terminal/branch/conditional "
        "flags of every accepted instruction against the MNEMONIC (J… = branch, conditional unless JMP; RET terminal; "
        "nothing else), independent of the table's feature column and of the generator; `accept-pure` = a repeated call "
        "(same function, same operands) returns what the first call in the process returned. "
        "Form rows, ISA lists, opcode strings are tabulated from the COMPILED table (x86.VerifForms; features/actions in the "
        "hook's fixed layout), the source literal is only cross-checked when its shape is recognised. "
        "non-trivial = everything except class lines answering 0, addi and accept-names lines. "
        "FLOORS: a run that judges fewer cases of a stream than its floor (FLOORS_QUICK/THOROUGH in vlib/props/c06.py), "
        "does not call every non-V function, or leaves a function uncalled is a broken obligation. "
        "(iii) avogen built from the working tree replays every `//go:generate avogen` line of x86/, build/, internal/inst/ "
        "whose output is checked in (zoptab, zctors, zinstructions, ztable required; test files and zmov when present).")
    ctx.coverage["statement_scope"] = (
        "C06_tables: for every constructor row of every shard (every_opcode_has_ctor: the rows cover the whole opcode enum) "
        "the Context method and package-level function of the same name forward the operands in order to the same "
        "build(opc.Forms(), suffixes, ops); accepted iff a documentation row matches; on acceptance opcode, suffixes, "
        "operands, one node, no error, no panic (build_no_panic) and terminal/branch/conditional = what the mnemonic says "
        "(forms_feat + build_attrs); on rejection one error, no node.  Read/write sets and ISA of the result are those of "
        "the first matching row (build_first); that the rows' actions/ISA are the instruction database's is tied by "
        "regeneration (iii) only — a generator and its output changed together in the action or ISA column are outside "
        "this check (the CPU-level meaning of actions is C04's subject).")
    ctx.assumptions += [
        "a Context with an active function (Context.Function called): Instruction() appends to it",
        "identifiers in the generated files denote what the Go compiler resolves them to (import names of x86/operand "
        "checked by the translator; constant identifiers unique per package); the translator reports the builder "
        "function, its suffix type, the Forms method, the addinstruction helper, the method receiver and the package-level "
        "context under canonical names after resolving them structurally (signature / initialiser), so renaming them is harmless",
        "internal/inst/ztable.go is regenerated from the in-tree copies of the external databases under internal/data "
        "(Opcodes XML, Go arch table); those files themselves are external inputs and are taken as given",
        "forms with more operands than maxoperands (index panic in form.match) do not occur (forms_wf)",
        "the body of Context.addinstruction is not translated: it is modelled (Model/Instr.addinstruction) and compared "
        "behaviourally on every call (accept-layers + addi: node/error deltas on the context the method was called on)",
        "the bodies of the table accessors (opc.Forms, opc.String, sffxs.Strings, sffxscls.SuffixesSet, isas.List: "
        "`None < x && x < max`) are modelled, and compared behaviourally for EVERY code: Forms through a by-name call of "
        "every constructor, String and List through x86.VerifForms on every row, SuffixesSet/Strings through `sfxset` lines",
        "implicit register VALUES come from the compiled package (x86.VerifImplReg); impl_regs_known ties them to rows of "
        "the compiled register table, fixed_regs ties the six fixed-register classes; that implregEAX denotes EAX rather "
        "than another register of the table is tied only by the `instr` comparison against reg.<Var> of the source switch",
        "branch attributes: the specification `J… = jump, RET = return` is x86/Go-assembler knowledge written in "
        "Model/Instr.specFeat; an instruction database that gained a non-J branch mnemonic (LOOP, XBEGIN with a rel "
        "operand) would have to extend it",
    ]
    ctx.trusted += [
        "harness/cmd/genctors (wrapper generator: one-line closures `x86.NAME(o[0], …)`), go/ast translators of "
        "c06_optab_ast.go (enums, small tables, opcformstable ranges) / c06_ctors_ast.go (constructor and wrapper bodies: "
        "single-assignment locals inlined); form rows come from the compiled table via x86.VerifForms",
        "the operand universe is fixed per run (listed in the rule): class predicates are compared on it exhaustively, "
        "not on all operands; the Lean statement quantifies over all operand lists for the MODEL predicates",
        "acceptors of Drv/C06.lean: accept-attrs is Model/Instr.attrsOK (attrsOK_sound/complete); accept-doc evaluates "
        "tupleMatches over the parsed documentation rows (the statement of documented_iff_matches; its string parsing "
        "is glue); accept-layers / accept-pure / accept-names compare tokens for equality (glue)",
    ]
