"""C06 — all instruction entry points accept exactly the documented forms and agree.

Proof: generic theorems about `build` (first match), `addinstruction` and argument forwarding for all
operand lists (Props/C06.lean) lifted to every constructor / Context method / package-level function
of the CURRENT sources through kernel-checked obligations over the regenerated tables
(Gen.FormsMeta, Gen.Forms_00..15, Gen.Ctors_00..07; Props/C06T/*, Props/C06Tables.lean).
Correspondence: operand-class predicates exhaustively on a universe of ~450 operands x every operand
type code; the three API layers called by name on matching and near-miss operand tuples.
Tie "shipped tables = generator output": internal/cmd/avogen built from the working tree regenerates
every z*.go target, byte-compared with the checked-in files."""
import difflib, os, shutil, subprocess

from .. import core
from ..modules import forms_modules, ctors_modules, REGS

GO_FILES = ["c06.go", "c06_optab_ast.go", "c06_ctors_ast.go", "gen_forms.go", "zz_c06_wrappers.go"]
SHARDS = [f"AvoVerif.Props.C06T.Ctors{i:02d}" for i in range(8)] + [f"AvoVerif.Props.C06T.Forms{i:02d}" for i in range(16)]
PROPS = ["AvoVerif.Props.C06"] + SHARDS + ["AvoVerif.Props.C06Tables"]

GENERATE_DIRS = ("x86", "build", "internal/inst")   # directories whose `//go:generate avogen …` lines are replayed
EXPECTED_SHIPPED = {"x86/zoptab.go", "x86/zctors.go", "x86/zctors_test.go", "build/zinstructions.go",
                    "build/zinstructions_test.go", "build/zmov.go", "internal/inst/ztable.go"}


def regenerate_tables(ctx):
    """Build avogen from the working tree, run every `//go:generate avogen …` line of x86/, build/ and
    internal/inst/ into .work/C06/regen/ and byte-compare with the checked-in file."""
    root = os.path.join(ctx.dir, "regen")
    shutil.rmtree(root, ignore_errors=True)
    os.makedirs(root)
    exe = os.path.join(root, "avogen")
    rc, out = core.sh(["go", "build", "-o", exe, "./internal/cmd/avogen"], cwd=core.REPO, env=core.GOENV, timeout=900)
    if rc != 0:
        ctx.obligation_failures.append(("avogen build", out[-3000:]))
        return
    # replay the go:generate lines found in the tree (output files that are not checked in — the stress /
    # benchmark test files generated on demand — are not "shipped tables" and are skipped)
    targets, skipped = [], []
    for d in GENERATE_DIRS:
        for fn in sorted(os.listdir(os.path.join(core.REPO, d))):
            if not fn.endswith(".go"):
                continue
            for line in open(os.path.join(core.REPO, d, fn), encoding="utf-8", errors="replace"):
                if not line.startswith("//go:generate avogen "):
                    continue
                args = line.split()[2:]
                if "-output" not in args or args.index("-output") + 1 >= len(args):
                    ctx.obligation_failures.append(("go:generate line", f"{d}/{fn}: no -output in `{line.strip()}`"))
                    continue
                outfn = args[args.index("-output") + 1]
                if os.path.exists(os.path.join(core.REPO, d, outfn)):
                    targets.append((d, outfn, args))
                else:
                    skipped.append(f"{d}/{outfn}")
    missing = EXPECTED_SHIPPED - {f"{d}/{fn}" for d, fn, _ in targets}
    if missing:
        ctx.obligation_failures.append(("go:generate lines", f"no go:generate line / no shipped file for {sorted(missing)}"))
    ctx.coverage["generated_not_shipped_skipped"] = skipped
    ndiff = 0
    compared = []
    for d, fn, args in targets:
        wd = os.path.join(root, d)
        os.makedirs(wd, exist_ok=True)
        if "-bootstrap" in args:
            link = os.path.join(root, "internal", "data")
            if not os.path.exists(link):
                os.symlink(os.path.join(core.REPO, "internal", "data"), link)
        # argv[0] must be "avogen": the generated-code warning quotes the command line
        p = subprocess.run(["avogen"] + args, executable=exe, cwd=wd, env=core.GOENV, stdout=subprocess.PIPE,
                           stderr=subprocess.STDOUT, text=True, timeout=900)
        shipped = os.path.join(core.REPO, d, fn)
        produced = os.path.join(wd, fn)
        if p.returncode != 0 or not os.path.exists(produced):
            ctx.obligation_failures.append((f"avogen {' '.join(args)}", (p.stdout or "")[-2000:]))
            continue
        if not os.path.exists(shipped):
            ctx.obligation_failures.append((f"shipped {d}/{fn}", "file named by a go:generate line is missing"))
            continue
        a, b = open(shipped, "rb").read(), open(produced, "rb").read()
        compared.append(f"{d}/{fn}")
        if a != b:
            ndiff += 1
            diff = list(difflib.unified_diff(a.decode("utf-8", "replace").splitlines(), b.decode("utf-8", "replace").splitlines(),
                                             f"shipped {d}/{fn}", "regenerated", lineterm="", n=0))
            ctx.add_concrete(f"regen {d}/{fn} differs from the generator's output",
                             {"request": f"regen {d}/{fn}", "impl": "shipped file", "model": "avogen " + " ".join(args),
                              "diff": "\n".join(diff[:60]), "differing_lines": sum(1 for l in diff if l[:1] in "+-") })
    ctx.coverage["regenerated_files"] = compared
    ctx.coverage["regenerated_files_differing"] = ndiff
    ctx.evaluations += len(compared)
    ctx.log(f"regen: {len(compared)} generated files compared with the checked-in ones, {ndiff} differ")


def run(ctx):
    ctx.level = "proof"
    if not ctx.build_harness(GO_FILES):
        return
    ok = ctx.regen(forms_modules() + ctors_modules() + [REGS])
    ctx.forbidden_scan()
    # the driver (model + acceptors) must build even when a table theorem breaks
    if not ctx.build_driver():
        return
    if ok and ctx.lake_each(PROPS):
        ctx.audit("C06")
    if ctx.tier == "thorough":
        ctx.leanchecker(["AvoVerif.Props.C06", "AvoVerif.Props.C06Tables"])

    nontrivial = lambda req, resp: not (req.startswith("class ") and resp == "0") and not req.startswith("addi") \
        and not req.startswith("accept-names")
    n = 600 if ctx.tier == "quick" else 100000
    ctx.differential("c06", n, nontrivial=nontrivial, timeout=3000)
    if ctx.tier == "thorough":
        # all functions again with other operand samples / near misses
        base = ctx.seed
        for k in (1, 2):
            ctx.seed = base * 1000003 + k
            ctx.differential("c06", n, tag=f"-s{k + 1}", nontrivial=nontrivial, timeout=3000)
        ctx.seed = base
    regenerate_tables(ctx)

    ctx.coverage["rule"] = (
        "(i) operand-class predicates: every operand of a universe of ~450 (all physical registers of reg.Families, the "
        "exported wrapped registers and converted views, virtual registers of every kind/width and ill-sized ones, ~150 "
        "memory shapes with nil / GP / pseudo / vector / mask base and index, every constant type at boundary values, "
        "Rel at the int8/int32 limits, LabelRef, nil, *Mem, a foreign Op) x every operand type code 0..max+2 through "
        "x86.VerifMatch (the generated oprndtype.Match switch) against the hand model — exhaustive over that universe. "
        "(ii) x86 constructor, Context method and package-level function called BY NAME (closures generated from /repo by "
        "harness/cmd/genctors) for quick: 600 seeded functions + every function the Go-side pre-check finds suspicious, "
        "thorough: all; per function one matching operand sample per form admitted by its suffixes, samples of forms of "
        "other suffix classes, and per sample 2-3 near misses (operand replaced by a random universe operand, two operands "
        "swapped, operand dropped/added for variadic functions); `instr` = exact model comparison of the constructor "
        "(opcode, suffixes, operands, Inputs/Outputs incl. implicit registers, flags, ISA) on the opcode's form rows "
        "carried inline, `accept-doc` = the property on the function's own doc comment, `accept-layers` = three layers "
        "equal + node/error deltas, `addi` = addinstruction model; non-trivial = everything except class lines answering 0, "
        "addi and accept-names lines. (iii) avogen built from the working tree replays every `//go:generate avogen` line of x86/, build/, internal/inst/ whose output is checked in (7 files, incl. internal/inst/ztable.go bootstrapped from internal/data).")
    ctx.assumptions += [
        "a Context with an active function (Context.Function called): Instruction() appends to it",
        "identifiers in the generated files denote what the Go compiler resolves them to (import names of x86/operand/ir "
        "checked by the translator; constant identifiers unique per package)",
        "internal/inst/ztable.go is regenerated from the in-tree copies of the external databases under internal/data "
        "(Opcodes XML, Go arch table); those files themselves are external inputs and are taken as given",
        "forms with more operands than maxoperands (index panic in form.match) do not occur (forms_wf)",
    ]
    ctx.trusted += [
        "harness/cmd/genctors (wrapper generator: one-line closures `x86.NAME(o[0], …)`), go/ast translators of "
        "c06_optab_ast.go / c06_ctors_ast.go (AST rows cross-checked against the compiled table via x86.VerifForms on every run)",
    ]
