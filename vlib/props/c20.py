"""C20 — the register model aliases registers exactly as the hardware does."""
import json, os
from ..modules import REGS, REGHW, REGVARS


def run(ctx):
    if not ctx.build_harness(["c20.go", "c20ctx.go", "c20proc.go", "c20allocn.go", "c20vars.go", "gen_reghw.go"]):
        return
    # Gen.Regs from the compiled reg package; Oracle.RegHW measured now: go tool asm + three decoders
    # + execution of every register write on the host CPU (throw-away module under .work/C20/reghw/probe)
    # Gen.RegVars: the exported register variables (go/types enumeration of /repo/reg + a generated observer program
    # built against the current tree under .work/C20/regvars)
    ctx.regen([REGS, REGHW, REGVARS])
    ctx.forbidden_scan()
    # the driver (model, tables, acceptors) must build even when a table theorem breaks
    if not ctx.build_driver():
        return
    if ctx.lake_each(["AvoVerif.Props.C20", "AvoVerif.Props.C20Ctx", "AvoVerif.Props.C20Proc", "AvoVerif.Props.C20Allocn"]):
        ctx.audit("C20")
    if ctx.tier == "thorough":
        ctx.leanchecker(["AvoVerif.Props.C20", "AvoVerif.Props.C20Ctx", "AvoVerif.Props.C20Proc", "AvoVerif.Props.C20Allocn"])
    nt = lambda req, resp: not ((req.startswith("spec ") and int(req.split()[1]) >= 128) or req.startswith("id ")
                                or (req.startswith("lookup") and resp == "nil"))
    ctx.run_corpus("c20", nontrivial=nt)
    runs = []
    if ctx.replay:
        ctx.differential("c20", 0, nontrivial=nt, max_report=1000)
    else:
        ctx.differential("c20", 2000 if ctx.tier == "quick" else 60000, nontrivial=nt, max_report=1000)
        runs.append("c20")
        if ctx.tier == "thorough":
            base = ctx.seed
            for k in (1, 2):
                ctx.seed = base * 1000003 + k
                ctx.differential("c20", 20000, tag=f"-s{k}", nontrivial=nt, max_report=1000)
                runs.append(f"c20-s{k}")
            ctx.seed = base
    # lower bounds on what was judged: a stream that silently shrinks (an enumerator that finds nothing, an interface
    # whose methods are no longer seen, allocations that all fail) must not pass for "no mismatch"
    floors = {"row": 172, "accept-reg": 172, "accept-var": 172, "accept-class": 172, "pas": 600, "accept-as": 150,
              "accept-ident": 14000, "accept-lookup": 1000, "lookupid": 1000, "lookupphys": 2000, "spec": 65536,
              "accept-ctor": 50, "vas": 300, "accept-vas": 40, "accept-vnew": 300, "vnew": 60, "vlook": 500,
              "accept-vlook": 400, "accept-vlookdflt": 400, "coll": 100, "collrun": 3, "accept-fresh": 100, "accept-lookup-junk": 100,
              # Context histories (c20ctx.go): how many, by which route, and — per call that is not a register request — how many
              # histories have registers of one kind SEEN on both sides of that call (so no call can drop out of the sweep unnoticed)
              "ctxh": 600, "accept-ctxfresh": 600, "ctxh:scripted": 380, "ctxh:random-route-m": 80, "ctxh:random-route-g": 80,
              "ctxh:random-route-x": 180, "ctxh:dereference-seen": 100, "ctxh:with-errors": 200, "ctxh:300-or-more-registers": 8}
    # the table after the process was used (c20proc.go): digest checks after every step, the full stream after the scripted part
    # and at the end, and what the steps really did (a compile that allocated registers of each kind, allocators that ran, …)
    floors.update({"tblh": 75, "after": 8000, "accept-after": 4500, "proc:full-stream-after-history": 2, "proc:main-ok:gp": 1,
                   "proc:allocated-ok:1": 3, "proc:allocated-ok:2": 3, "proc:allocated-ok:3": 3, "proc:mutated-accessor-result": 24,
                   "proc:random-operations": 500})
    # reg.Allocation on partial allocations (c20allocn.go)
    floors.update({"alook": 4000, "accept-alookup": 2500, "amerge": 400, "alook:physical": 500, "alook:virtual-with-entry": 1500,
                   "alook:virtual-without-entry": 1200, "alook:virtual-without-entry-index-below-physical-count": 500})
    # lookups with an index >= 256 whose low byte is a real register index of the kind (Family.Lookup, LookupPhysical, LookupID,
    # Allocation.LookupRegister): must all answer nil
    floors.update({"lookup:index-folds-to-real-register-mod-256": 9000})
    floors.update({"proc:compiled-ok:" + shape: 1 for shape in ("gp", "vec", "k", "all", "sp", "h8", "k0")})
    floors.update({"ctxh:straddle:" + name: 16 for name in (
        "Function", "TEXT", "Implement", "SignatureExpr", "Signature", "Attributes", "Doc", "Pragma", "Label", "Comment", "AllocLocal",
        "Load", "Store", "ParamIndex", "Instr", "StaticGlobal", "AddDatum", "ConstData", "ConstraintExpr", "Result", "Compile", "Main", "NewContext", "NewCollection")})
    for tag in runs:
        got = ctx.coverage.get("input_distribution", {}).get(tag, {}).get("requests_by_kind")
        if got is None:
            continue  # the run itself failed: already recorded
        low = {k: (got.get(k, 0), v) for k, v in floors.items() if got.get(k, 0) < v}
        if low:
            ctx.obligation_failures.append((f"{tag}: sample floors", "fewer judged cases than the floor (got, floor): " + repr(low)))
    try:
        ctx.coverage["oracle_RegHW"] = json.load(open(os.path.join(ctx.dir, "reghw", "summary.json")))
    except Exception as e:  # the generator failed: already recorded as a broken obligation by regen
        ctx.coverage["oracle_RegHW"] = {"unavailable": str(e)}
    ctx.coverage["exhaustive"] = True
    hw = ctx.coverage.get("oracle_RegHW", {})
    if isinstance(hw.get("register_views"), int):
        # execution is part of the statement ("machine state after a move through each register view"): say how much of
        # it was real on this host, and refuse to pass on a host where not even the GP rows ran
        ctx.coverage["executed"] = (f"{hw.get('rows_with_execution')} of {hw.get('oracle_rows')} measured rows were executed on the host CPU "
                                    f"(host_avx512={hw.get('host_avx512')}); encoding-only rows: {len(hw.get('encoding_only_rows', []))}")
        if not hw.get("host_avx512"):
            ctx.assumptions.append("THIS HOST LACKS AVX-512: all vector and opmask rows were checked by encoding only (three decoders), "
                                   "the executed half of RegOK/ExecAgrees is vacuous for them on this host")
        if (hw.get("rows_with_execution") or 0) < 60:
            ctx.obligation_failures.append(("oracle RegHW: executed rows", f"only {hw.get('rows_with_execution')} rows were executed (floor 60: the GP views)"))
    ctx.coverage["proof_partial"] = (
        "proof over regenerated + measured tables: the theorems about ids, specs, lookups, conversions, virtual registers and "
        "collections hold for all inputs; the theorems about hardware (reg_hw, reg_identity, reg_class, reg_vars) are kernel-checked "
        "over tables MEASURED on this run (go tool asm, three decoders, the host CPU) — what the assembler and the CPU do cannot be a "
        "theorem about avo; hwViewExists/hwSpecExists (which views x86-64 has) and varDenotes (what a register name denotes) are hand-written")
    ctx.coverage["rule"] = (
        "EXHAUSTIVE on every run: all rows of reg.Families (176) with ID/Mask/Size/Asm/Info and operand.Is* classification; every EXPORTED "
        "REGISTER VARIABLE of package reg (176; enumerated by type-checking /repo/reg with go/types, observed through a generated program "
        "linked against the current tree) against the hand-written naming table (accept-var + theorem reg_vars); every "
        "physical register x every conversion its interface offers (696 calls; a panic, nil or unusable result is the outcome `fails`) and every "
        "Collection constructor x conversion at 5 counter values; reg.NewVirtual / Family.Virtual / Collection.VirtualRegister / GP(s) / Vec(s) on "
        "kinds 0..4 x 18 spec values (+ random arguments) x every conversion; reg.Allocation.LookupRegister / LookupDefault / "
        "LookupRegisterDefault for every virtual constructor x every physical id of every kind (virtual -> physical view); "
        "reg.LookupID for every physical id x 18 spec values; LookupPhysical over kinds 0..4 x idx 0..33 x 12 specs; "
        "Spec.Size/Mask for all 65536 spec values; identity acceptor on all 14 878 pairs of physical registers; allocation runs of 65536 and "
        "65537 registers per kind (every allocation under recover: a refusal is accepted from allocation number 65536 on). "
        "CONTEXT HISTORIES (ctxh / accept-ctxfresh): a build.Context embeds a reg.Collection, so registers also come from its methods, "
        "from the package-level functions build.GP8()…K() on the global context and from Dereference; scripted sweep (register, <call>, "
        "register of the same kind, for each of the 24 other calls (21 of the Context, build.Main, a second Context / Collection coming to life) x GP/vector/opmask x methods/package-level functions x "
        "outside/inside a function) + n/4 random histories of 1-100 calls (some of 800-1400) with registers requested before the first "
        "Function, between functions and after compiling, methods and package-level functions mixed: exact comparison of the registers the "
        "caller sees (kind, rank of the id within the kind, mask) with the state machine of Model/RegCtx.lean (whose only effect on the "
        "collection is Coll.alloc) and acceptor CtxFreshOK on the implementation's own ids per kind (theorems ctx_fresh, ctx_fresh_ok, "
        "ctx_others_irrelevant for ALL histories). "
        "FOLDING INDICES: for every real index k of every kind the indices k+256, k+512, k+65280 and 255, 256, 65535 x 18 specs through "
        "Family.Lookup, LookupPhysical, LookupID and (specs of the kind) Allocation.LookupRegister with an entry naming such an id: all nil. "
        "PARTIAL ALLOCATIONS (alook / accept-alookup / amerge): reg.Allocation.LookupRegister / LookupDefault / LookupRegisterDefault and "
        "operand.ApplyAllocation (register operand, base of a memory operand) for virtual registers of every kind x spec x index 0..40, 255, 256, "
        "1000, 65535 and every physical register x allocations that are empty / partial without the id (but with the same index number in "
        "this and another kind) / with the id mapped to a register with or without that view, to a virtual id, to a pseudo or unknown-kind id "
        "/ full, + random ones; Allocation.Merge: exact against Model/RegAllocn.lean, acceptor AllocLookupOK (a virtual register without an "
        "entry is never turned into a physical one; a result IS the register the entry names) — theorems lookupRegister_virtual_unallocated, "
        "lookupRegister_identity, alloc_lookup_ok_*. "
        "AFTER THE PROCESS WAS USED (tblh / after / accept-after, LAST section of a run): all of the above table / API lines (rows as the families "
        "list them then, every conversion of every register of the clean snapshot incl. the restricted SP views and K0, LookupID, "
        "LookupPhysical grid, virtual -> physical views, with their acceptors) are recomputed after EVERY step of a process history — "
        "functions built through build.Context and compiled with pass.Compile / build.Main using GP / vector / opmask registers, restricted "
        "registers as operands, 8H registers, register pressure; allocators created and run directly (NewAllocatorForKind, "
        "NewAllocator(Family.Registers()), NewAllocator(own slice), SetPriority, Add, AddInterference, Allocate; kinds 0-3 and an unknown "
        "one); the slice Family.Registers() returns sorted / reversed / overwritten / truncated+appended / nilled / swapped by the caller; "
        "Collections, Contexts, shuffled queries; 24 (thorough 120) chunks of 25 (40) random such operations; the Context histories of the "
        "run — and the digest is compared with the clean one (tblh, model answer `same`: theorem proc_table_const); the full stream is emitted "
        "again, wrapped with the history, after the scripted part, at the end, and at once when a digest differs, so the exact model and "
        "the acceptors against the measured oracle judge the table as it is THEN (theorems proc_views_exact, proc_phys_as). "
        "GENERATED (-n): conversion chains of length 2-5 on physical and virtual registers, mixed allocation "
        "histories, malformed/random ids, kinds, indexes and specs for the lookups and the virtual constructors. Exact comparison with the Lean model "
        "for everything the API pins down; acceptors (accept-reg/-var/-ident/-as/-lookup/-lookup-virtual/-lookup-junk/-vas/-vnew/-vlook/-vlookdflt/-ctor/"
        "-fresh/-alloc-fail/-class/-vclass) evaluate (`decide`) the declarative clauses proved in Props/C20.lean (RegOK, VarOK, IdentOK, AsOK, "
        "JunkLookupOK, VAsOK, VNewOK, DefaultViewOK, CtorOK, VirtualLookupOK, FreshOK, AllocFailOK, ClassOK, VClassOK) on the implementation's outputs against the measured table. "
        "LookupID on a value with junk in the flag byte (never built by avo) is judged by an acceptor only (nil, or the register the kind/index "
        "fields name). Lower bounds on the number of judged cases per stream are obligations. "
        "non-trivial = not a spec value >= 128, a raw id decomposition or a lookup answering nil")
    ctx.assumptions += [
        "DIVERGENCE FROM THE SENTENCE, declared: 'the bytes a write through the view can change' is checked as 'the bytes that take the written "
        "value' (measured: zeros->ones experiment). Bytes that a write merely CLEARS as a side effect of the encoding (bytes 4-7 of the 64-bit "
        "register for a 32-bit GP write, everything above the operand for VEX/EVEX vector writes) are not part of avo's view masks by design "
        "(32-bit case: ZeroExtend32BitOutputs; vector case: finding F12 under C01/C04); they are measured, listed under "
        "coverage.oracle_RegHW.zeroing_side_effects and characterised by theorem hw_zeroing, but NOT compared with the masks",
        "the four views of the stack pointer (SP 8/16/32/64-bit) are checked by encoding only (a write through them cannot be executed safely); "
        "every other general-purpose row is executed (theorem reg_executed_gp); vector / opmask rows are executed when the host has AVX-512 "
        "(see coverage.executed)",
        "vector rows: MOVOU (legacy SSE, X0-X15), VMOVDQU (VEX, X/Y0-15) and VMOVDQU64 (EVEX, all) are each measured where the assembler accepts them",
        "each register name is assembled and executed only as the DESTINATION of a move from memory, in the width context chosen from avo's own "
        "Kind()/Size() report (so `h.width = r.size` can only fail when the assembler picks another width for that name; a too-wide or "
        "too-narrow table row is caught by views_sound/views_complete and by reg_vars, where the width comes from the variable's NAME); "
        "names as base, index or source operands are not measured here (C05 assembles operands in all positions)",
        "pseudo registers FP/PC/SB/SP(pseudo) (kind 0, mask 0, all with id 0) are not hardware registers and are excluded from every clause "
        "except reg_vars (the variable FramePointer holds FP, …)",
        "operand classification of a *converted* physical register by the six specific-register predicates IsAL..IsXMM0 is judged by the "
        "acceptor only (F20a, fixed); the exact model comparison covers IsRegister..IsK for converted registers and all 16 predicates for table rows and virtual registers",
        "a virtual register 'exists in hardware' when SOME register of its kind has that width view (hwSpecExists); which physical register it "
        "ends up in, and that the allocator never picks one lacking the view (8H on SI), is C03/C01's subject — C20 checks the view conversion "
        "itself (Allocation.LookupRegister: exists exactly when the hardware view exists, theorem virt_to_phys)",
        "the numbering of reg.Kind (Pseudo 0, GP 1, Vector 2, Opmask 3) and the layout of reg.ID (flag | kind<<8 | index<<16) are part of the "
        "model (Model/Reg.lean, shared with other properties) and are compared with the compiled package on every run (theorem spec_consts, "
        "ids_wellformed, the `id` stream): a renumbering is reported as a broken obligation, never silently mis-modelled; the oracle's class "
        "labels are taken from the compiled constants",
        "freshness of virtual registers is proved for all histories of a Collection and of a Context (virt_fresh, coll_run_fresh, ctx_fresh) "
        "and measured on Collection histories of at most 600 mixed allocations, seven runs of 65536/65537 allocations, and Context histories "
        "of at most 1400 calls (thorough: 9000); that no call of a Context other than the register constructors and Dereference touches the "
        "collection is the MODEL (Model/RegCtx.lean), tied to the code by the history streams only (a call the generator does not know — a new "
        "Context method — is outside it until added to c20CtxOthers); registers of two different Contexts may share ids by design (each has its "
        "own collection) and are not compared",
    ]
    ctx.assumptions += [
        "the register table is package-level state of the library; that no public API use changes it is the MODEL (Model/RegProc.lean, "
        "proc_table_const — trivial there), tied to the code by re-evaluating the exhaustive stream after generated process histories in "
        "ONE process (sequential; no concurrent use). A caller that mutates the slice returned by Family.Registers() is part of those "
        "histories: an accessor handing out the family's own backing array is reported once a caller writes to it. Writing to the exported "
        "variables themselves (reg.Families[i] = nil, reg.RSP = …) is not public API USE and is not generated",
    ]
    ctx.trusted += [
        "Oracle.regHW: go tool asm + go tool objdump (instruction bytes), decoders (own prefix/ModRM field extraction, binutils objdump, "
        "golang.org/x/arch x86asm — required to agree), and the host CPU executing each write inside a full-register-file trampoline (harness/gen_reghw.go)",
        "hwViewExists / hwViews / hwSpecExists (Model/RegHW.lean): the hand-written list of width views x86-64 has (GP 0-15: 8L/16/32/64, 8H only 0-3; vector 0-31: 128/256/512; K0-7: 64)",
        "varDenotes / pseudoVars (Model/RegHW.lean): the hand-written x86-64 / avo naming convention (ECX = 32-bit view of GP 1, R10W = 16-bit view of "
        "GP 10, SPB = low byte of GP 4, X7/Y7/Z7, K3, FramePointer = FP …); theorem varDenotes_sane checks it only against hwViewExists",
        "Gen.regs is produced by calling the compiled reg package's own API (reg.Families[*].Registers()); Gen.regVars by go/types enumeration "
        "of the exported package-level variables implementing reg.Register plus a generated program that reads each of them (harness/c20vars.go)",
    ]
