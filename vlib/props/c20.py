"""C20 — the register model aliases registers exactly as the hardware does."""
import json, os
from ..modules import REGS, REGHW


def run(ctx):
    if not ctx.build_harness():
        return
    # Gen.Regs from the compiled reg package; Oracle.RegHW measured now: go tool asm + three decoders
    # + execution of every register write on the host CPU (throw-away module under .work/C20/reghw/probe)
    ctx.regen([REGS, REGHW])
    ctx.forbidden_scan()
    # the driver (model, tables, acceptors) must build even when a table theorem breaks
    if not ctx.build_driver():
        return
    if ctx.lake_each(["AvoVerif.Props.C20"]):
        ctx.audit("C20")
    if ctx.tier == "thorough":
        ctx.leanchecker(["AvoVerif.Props.C20"])
    nt = lambda req, resp: not ((req.startswith("spec ") and int(req.split()[1]) >= 128) or req.startswith("id ")
                                or (req.startswith("lookup") and resp == "nil"))
    ctx.run_corpus("c20", nontrivial=nt)
    if ctx.replay:
        ctx.differential("c20", 0, nontrivial=nt, max_report=1000)
    else:
        ctx.differential("c20", 2000 if ctx.tier == "quick" else 60000, nontrivial=nt, max_report=1000)
        if ctx.tier == "thorough":
            base = ctx.seed
            for k in (1, 2):
                ctx.seed = base * 1000003 + k
                ctx.differential("c20", 20000, tag=f"-s{k}", nontrivial=nt, max_report=1000)
            ctx.seed = base
    try:
        ctx.coverage["oracle_RegHW"] = json.load(open(os.path.join(ctx.dir, "reghw", "summary.json")))
    except Exception as e:  # the generator failed: already recorded as a broken obligation by regen
        ctx.coverage["oracle_RegHW"] = {"unavailable": str(e)}
    ctx.coverage["exhaustive"] = True
    ctx.coverage["rule"] = (
        "EXHAUSTIVE on every run: all rows of reg.Families (176) with ID/Mask/Size/Asm/Info and operand.Is* classification; every "
        "physical register x every conversion its interface offers (696 calls, panics recovered) and every Collection constructor x "
        "conversion at 5 counter values; reg.LookupID for every physical id x 18 spec values; LookupPhysical over kinds 0..4 x idx 0..33 x 12 specs; "
        "Spec.Size/Mask for all 65536 spec values; identity acceptor on all 14 878 pairs of physical registers; allocation runs of 65536 and "
        "65537 registers per kind. GENERATED (-n): conversion chains of length 2-5 on physical and virtual registers, mixed allocation "
        "histories, malformed/random ids, kinds, indexes and specs for the lookups. Exact comparison with the Lean model for everything "
        "the API pins down; acceptors (accept-reg/-ident/-as/-lookup/-lookup-virtual/-vas/-fresh/-class/-vclass) evaluate the proved clauses of the "
        "property (RegOK, IdentOK, AsOK, VAsOK, FreshOK, ClassOK) on the implementation's outputs against the measured table. "
        "non-trivial = not a spec value >= 128, a raw id decomposition or a lookup answering nil")
    ctx.assumptions += [
        "the bytes 'a write through the view can change' are the bytes that take the written value (measured: zeros->ones experiment); bytes "
        "that a write merely CLEARS as a side effect of the encoding (bytes 4-7 of the 64-bit register for a 32-bit GP write, everything above "
        "the operand for VEX/EVEX vector writes) are not part of avo's view masks by design (32-bit case: ZeroExtend32BitOutputs); they are "
        "measured and listed under coverage.oracle_RegHW.zeroing_side_effects and characterised by theorem hw_zeroing, not compared with the masks",
        "the four views of the stack pointer (SP 8/16/32/64-bit) are checked by encoding only (a write through them cannot be executed safely)",
        "vector rows: MOVOU (legacy SSE, X0-X15), VMOVDQU (VEX, X/Y0-15) and VMOVDQU64 (EVEX, all) are each measured where the assembler accepts them",
        "pseudo registers FP/PC/SB/SP(pseudo) (kind 0, mask 0, all with id 0) are not hardware registers and are excluded from every clause",
        "operand classification of a *converted* physical register by the six specific-register predicates IsAL..IsXMM0 is judged by the "
        "acceptor only (known finding F20a); the exact model comparison covers IsRegister..IsK for converted registers and all 16 predicates for table rows and virtual registers",
    ]
    ctx.trusted += [
        "Oracle.regHW: go tool asm + go tool objdump (instruction bytes), decoders (own prefix/ModRM field extraction, binutils objdump, "
        "golang.org/x/arch x86asm — required to agree), and the host CPU executing each write inside a full-register-file trampoline (harness/gen_reghw.go)",
        "hwViewExists / hwViews (Model/RegHW.lean): the hand-written list of width views x86-64 has (GP 0-15: 8L/16/32/64, 8H only 0-3; vector 0-31: 128/256/512; K0-7: 64)",
        "Gen.regs is produced by calling the compiled reg package's own API (reg.Families[*].Registers())",
    ]
