"""setup: build harness, regenerate every Gen/Oracle module, build the Lean project."""
import sys
from . import core
from .modules import ALL_MODULES

def main():
    ctx = core.Ctx("SETUP", "quick", 1)
    if not ctx.build_harness():
        print("setup: harness build failed"); return 1
    ctx.regen(ALL_MODULES)
    # the library root imports every property module, so that one `lake build` elaborates all theorems
    import glob, os
    props = sorted(os.path.basename(f)[:-5] for f in glob.glob(os.path.join(core.LEAN, "AvoVerif", "Props", "*.lean")))
    root = "".join(f"import AvoVerif.Props.{m}\n" for m in props)
    rp = os.path.join(core.LEAN, "AvoVerif.lean")
    if not os.path.exists(rp) or open(rp).read() != root:
        open(rp, "w").write(root)
    ok, out = ctx.lake([], timeout=7200)
    if not ok:
        # A failing property module on the current tree is reported by its check; the driver must exist.
        print("setup: full lake build failed (a check will report which obligation is broken):")
        print(out[-3000:])
        return 0
    print("setup: ok")
    return 0

if __name__ == "__main__":
    sys.exit(main())
