"""Shared machinery of ./check: build the harness and the Lean project from
/repo's current working tree, regenerate Gen/Oracle modules, run the axiom
audit, run differential (model vs implementation) and acceptor pipelines,
decide the verdict and write the evidence file."""
import fcntl, hashlib, json, os, re, subprocess, sys, time

VERIF = os.path.dirname(os.path.dirname(os.path.abspath(__file__)))
REPO = os.environ.get("AVO_REPO", "/repo")
WORK = os.path.join(VERIF, ".work")
LEAN = os.path.join(VERIF, "lean")
BIN = os.path.join(WORK, "bin")
AVOH = os.path.join(BIN, "avoh")
def driver_path(name):
    return os.path.join(LEAN, ".lake", "build", "bin", name)
REPLAYS = os.path.join(VERIF, "replays")
ALLOWED_AXIOMS = {"propext", "Classical.choice", "Quot.sound"}
FORBIDDEN = re.compile(r"\b(sorry|admit|native_decide|bv_decide|implemented_by|unsafe)\b|^axiom\s|maxHeartbeats\s+0\b")

GOENV = dict(os.environ, GOFLAGS="-mod=mod", GOPROXY="off", GOSUMDB="off", GOTOOLCHAIN="local",
             CGO_ENABLED="0", GOCACHE=os.environ.get("GOCACHE", os.path.join(WORK, "gocache")))

TRUSTED_BASE = [
    "Lean 4.33.0 kernel (property theorems depend on at most propext, Classical.choice, Quot.sound; no sorry/admit/native_decide/bv_decide/own axioms: grep + #print axioms on every run)",
    "avoh (Go translator gen-lean, generators, canonicalisers) and avodriver request parsing: trusted glue",
    "Props/*.lean statements say what properties.jsonl says",
]


def sh(cmd, cwd=None, env=None, timeout=None, stdin=None, stdout=subprocess.PIPE):
    try:
        p = subprocess.run(cmd, cwd=cwd, env=env, timeout=timeout, stdin=stdin, stdout=stdout,
                           stderr=subprocess.STDOUT, text=True)
    except subprocess.TimeoutExpired as e:
        # a hung harness or driver (e.g. a changed avo that makes a traversal loop for ever) is an obligation failure, not a hang
        o = e.stdout if isinstance(e.stdout, str) else (e.stdout or b"").decode(errors="replace")
        return 124, (o or "") + f"\nTIMEOUT after {timeout}s: {cmd if isinstance(cmd, str) else ' '.join(map(str, cmd[:4]))} ..."
    return p.returncode, p.stdout if p.stdout is not None else ""


class Lock:
    def __init__(self, name="lock"):
        os.makedirs(WORK, exist_ok=True)
        self.path = os.path.join(WORK, name)

    def __enter__(self):
        self.f = open(self.path, "w")
        fcntl.flock(self.f, fcntl.LOCK_EX)
        return self

    def __exit__(self, *a):
        fcntl.flock(self.f, fcntl.LOCK_UN)
        self.f.close()


class Ctx:
    def __init__(self, prop, tier, seed, replay=None):
        self.prop, self.tier, self.seed, self.replay = prop, tier, seed, replay
        self.t0 = time.time()
        self.dir = os.path.join(WORK, prop)
        os.makedirs(self.dir, exist_ok=True)
        os.makedirs(BIN, exist_ok=True)
        os.makedirs(REPLAYS, exist_ok=True)
        self.obligation_failures = []   # (name, detail) broken proof obligations
        self.corr_failures = []         # differential mismatches (dicts)
        self.concrete = []              # concrete violations (dicts with 'key')
        self.coverage = {}
        self.assumptions = []
        self.samples = []
        self.evaluations = 0
        self.nontrivial = set()
        self.obligations = 0
        self.discharged = 0
        self.checker_cmds = []
        self.trusted = list(TRUSTED_BASE)
        self.level = "proof"
        self.notes = []
        self.known_printed = []
        self.findings = [f for f in load_findings() if f["property"] == prop]
        self._known_reps = {}
        self._unlisted = 0
        self.avoh_bin = AVOH

    # ---------------------------------------------------------------- build
    def log(self, msg):
        print(f"[{self.prop} {time.time()-self.t0:6.1f}s] {msg}", flush=True)

    COMMON_GO = ["main.go", "rng.go", "util.go", "genlean.go", "gen_regs.go", "formsdb.go", "prog.go"]

    def build_harness(self, files=None):
        """go build -tags verif of the harness against /repo's working tree.
        With `files` (names under harness/), only the shared core plus those files are
        compiled, into a per-property binary: another property's half-edited Go file then
        cannot break this check."""
        target = ["."]
        if files is not None:
            self.avoh_bin = os.path.join(BIN, "avoh-" + self.prop)
            target = list(dict.fromkeys(self.COMMON_GO + list(files)))
        with Lock("golock"):
            hdir = os.path.join(VERIF, "harness")
            # go.sum must be the repo's
            src = os.path.join(REPO, "go.sum")
            if os.path.exists(src):
                data = open(src).read()
                dst = os.path.join(hdir, "go.sum")
                if not os.path.exists(dst) or open(dst).read() != data:
                    open(dst, "w").write(data)
            wrappers = self._gen_c06_wrappers(hdir)
            if files is not None and "zz_c06_wrappers.go" in target and not os.path.exists(wrappers):
                target.remove("zz_c06_wrappers.go")
            rc, out = sh(["go", "build", "-tags", "verif", "-o", self.avoh_bin] + target, cwd=hdir, env=GOENV, timeout=900)
            if rc != 0 and os.path.exists(wrappers) and (files is None or "zz_c06_wrappers.go" in target):
                # the generated by-name wrappers must never keep the harness from building: without them the
                # maps (declared empty in c06.go) stay empty and C06 reports a broken obligation
                os.remove(wrappers)
                t2 = [t for t in target if t != "zz_c06_wrappers.go"]
                rc2, out2 = sh(["go", "build", "-tags", "verif", "-o", self.avoh_bin] + t2, cwd=hdir, env=GOENV, timeout=900)
                if rc2 == 0:
                    self.log("harness built WITHOUT zz_c06_wrappers.go (it did not compile):\n" + out[-1500:])
                    rc, out = rc2, out2
        if rc != 0:
            self.log("harness build failed:\n" + out[-4000:])
            self.obligation_failures.append(("harness-build", out[-4000:]))
            return False
        return True

    def _gen_c06_wrappers(self, hdir):
        """Pre-build step (C06): harness/zz_c06_wrappers.go holds closures calling every x86 constructor,
        Context method and package-level build function by name; it is generated from /repo's two source files
        by harness/cmd/genctors (go/ast only) and regenerated only when their hash changes.  If generation
        fails the file is removed: the harness then builds with the empty maps declared in c06.go."""
        out = os.path.join(hdir, "zz_c06_wrappers.go")
        try:
            h = hashlib.sha256()
            for rel in ("x86/zctors.go", "build/zinstructions.go"):
                h.update(open(os.path.join(REPO, rel), "rb").read())
            h.update(open(os.path.join(hdir, "cmd", "genctors", "main.go"), "rb").read())
            digest = h.hexdigest()
            if os.path.exists(out) and ("hash=" + digest) in open(out).readline():
                return out
            rc, msg = sh(["go", "run", "./cmd/genctors", "-repo", REPO, "-out", out, "-hash", digest],
                         cwd=hdir, env=GOENV, timeout=300)
            if rc != 0:
                raise RuntimeError(msg[-1500:])
        except Exception as e:  # missing sources, parse errors, ...
            self.log(f"genctors failed ({e}); building the harness without by-name wrappers")
            if os.path.exists(out):
                os.remove(out)
        return out

    def default_timeout(self):
        """wall-clock limit of one harness / driver run: a quick check must never hang for an hour"""
        return 900 if self.tier == "quick" else 7200

    def cap_timeout(self, timeout):
        timeout = timeout or self.default_timeout()
        return min(timeout, self.default_timeout()) if self.tier == "quick" else timeout

    def avoh(self, args, timeout=None, cwd=None):
        timeout = self.cap_timeout(timeout)
        rc, out = sh([self.avoh_bin] + args, cwd=cwd or self.dir, env=GOENV, timeout=timeout)
        return rc, out

    def regen(self, modules):
        """modules: list of (relative lean path, generator name[, extra args]).
        Writes the file only when its text changed (Lake hashes sources)."""
        ok = True
        with Lock():
            for m in modules:
                rel, name = m[0], m[1]
                extra = list(m[2:]) if len(m) > 2 else []
                rc, out = sh([self.avoh_bin, "gen-lean", name, REPO] + extra, cwd=self.dir, env=GOENV, timeout=900,
                             )
                path = os.path.join(LEAN, "AvoVerif", rel + ".lean")
                if rc != 0:
                    self.log(f"gen-lean {name} failed: {out[-2000:]}")
                    self.obligation_failures.append((f"gen-lean {name}", out[-2000:]))
                    ok = False
                    continue
                os.makedirs(os.path.dirname(path), exist_ok=True)
                if not os.path.exists(path) or open(path).read() != out:
                    open(path, "w").write(out)
        return ok

    def lake(self, targets, timeout=3000):
        with Lock():
            rc, out = sh(["lake", "build"] + targets, cwd=LEAN, timeout=timeout)
        self.checker_cmds.append("cd lean && lake build " + " ".join(targets))
        if rc != 0:
            self.log("lake build failed:\n" + out[-6000:])
        return rc == 0, out

    def build_driver(self, name=None):
        name = name or ("drv_" + self.prop.lower())
        ok, out = self.lake([name])
        if not ok:
            self.obligation_failures.append((f"{name} build", out[-3000:]))
        return ok

    def lake_each(self, targets, required=()):
        """Build every target; a failing non-required target is a broken proof
        obligation (recorded), a failing required one aborts."""
        ok_all = True
        ok, out = self.lake(list(targets))
        if ok:
            return True
        # find which ones fail
        for t in targets:
            ok, out = self.lake([t])
            if not ok:
                ok_all = False
                errs = "\n".join(l for l in out.splitlines() if "error" in l)[:3000]
                self.obligation_failures.append((t, errs or out[-3000:]))
        return ok_all

    def lean_closure(self, roots):
        """Files of this project transitively imported by the given module names."""
        seen, todo = {}, list(roots)
        while todo:
            m = todo.pop()
            if m in seen or not m.startswith(("AvoVerif", "drivers")):
                continue
            path = os.path.join(LEAN, *m.split(".")) + ".lean"
            if not os.path.exists(path):
                continue
            seen[m] = path
            for line in open(path, encoding="utf-8"):
                mm = re.match(r"\s*(?:public\s+)?import\s+([\w.]+)", line)
                if mm:
                    todo.append(mm.group(1))
        return seen

    def forbidden_scan(self, roots=None):
        """No sorry/admit/own axioms/native_decide/... in any Lean file the property's
        theorems and driver depend on (comments stripped)."""
        p = self.prop
        roots = roots or [f"AvoVerif.Audit.{p}", f"AvoVerif.Drv.{p}", f"drivers.Drv{p}"]
        files = sorted(self.lean_closure(roots).values())
        bad = []
        for p in files:
                incomment = 0
                for i, line in enumerate(open(p, encoding="utf-8"), 1):
                    code = line
                    outl = ""
                    j = 0
                    while j < len(code):
                        if code.startswith("/-", j):
                            incomment += 1; j += 2; continue
                        if code.startswith("-/", j) and incomment:
                            incomment -= 1; j += 2; continue
                        if not incomment:
                            if code.startswith("--", j):
                                break
                            outl += code[j]
                        j += 1
                    if FORBIDDEN.search(outl):
                        bad.append(f"{p}:{i}: {line.strip()}")
        self.coverage["lean_files_scanned"] = len(files)
        if bad:
            self.obligation_failures.append(("forbidden-constructs", "\n".join(bad)))
        return bad

    def audit(self, name=None):
        """Run lean on Audit/<prop>.lean, parse `#print axioms` output."""
        name = name or self.prop
        rel = f"AvoVerif/Audit/{name}.lean"
        n_expected = sum(1 for l in open(os.path.join(LEAN, rel)) if l.startswith("#print axioms"))
        with Lock():
            rc, out = sh(["lake", "env", "lean", rel], cwd=LEAN, timeout=1800)
        self.checker_cmds.append(f"cd lean && lake env lean {rel}")
        got = {}
        for m in re.finditer(r"'([^']+)' depends on axioms: \[([^\]]*)\]", out.replace("\n ", " ").replace("\n", " ")):
            got[m.group(1)] = {a.strip() for a in m.group(2).split(",") if a.strip()}
        for m in re.finditer(r"'([^']+)' does not depend on any axioms", out):
            got[m.group(1)] = set()
        self.obligations += n_expected
        good = 0
        for thm, axs in got.items():
            if axs <= ALLOWED_AXIOMS:
                good += 1
            else:
                self.obligation_failures.append((thm, f"uses axioms {sorted(axs - ALLOWED_AXIOMS)}"))
        self.discharged += good
        if rc != 0 or len(got) != n_expected:
            errs = "\n".join(l for l in out.splitlines() if "error" in l)[:3000]
            self.obligation_failures.append((f"audit {name}", f"{len(got)}/{n_expected} theorems reported; " + errs))
        self.coverage.setdefault("theorems", []).extend(sorted(got))
        return got

    def leanchecker(self, modules):
        with Lock():
            rc, out = sh(["lake", "env", "leanchecker"] + modules, cwd=LEAN, timeout=3000)
        self.checker_cmds.append("cd lean && lake env leanchecker " + " ".join(modules))
        if rc != 0:
            self.obligation_failures.append(("leanchecker", out[-3000:]))
        return rc == 0

    # --------------------------------------------------------- differential
    def run_driver(self, ops_path, model_path, timeout=None, driver=None):
        driver = driver or ("drv_" + self.prop.lower())
        timeout = self.cap_timeout(timeout)
        with open(ops_path) as fin, open(model_path, "w") as fout:
            try:
                p = subprocess.run([driver_path(driver)], stdin=fin, stdout=fout, stderr=subprocess.PIPE, timeout=timeout)
            except subprocess.TimeoutExpired:
                self.obligation_failures.append((driver, f"driver timed out after {timeout}s"))
                return False
        if p.returncode != 0:
            self.obligation_failures.append((driver, (p.stderr or b"").decode()[-2000:]))
            return False
        return True

    def differential(self, sub, n, extra=(), tag="", timeout=None, nontrivial=None, max_report=20, driver=None):
        """Run `avoh sub` to produce ops/impl, the driver to produce model, and
        compare line by line.  Lines whose request starts with `accept-` are
        acceptor requests (expected response `ok`): a mismatch there is a
        concrete violation; any other mismatch is a broken correspondence."""
        base = os.path.join(self.dir, sub + tag)
        ops, impl, model, stats = base + ".ops", base + ".impl", base + ".model", base + ".stats.json"
        args = [sub, "-seed", str(self.seed), "-n", str(n), "-ops", ops, "-impl", impl, "-stats", stats,
                "-tier", self.tier, "-repo", REPO] + list(extra)
        if self.replay:
            # harnesses that decode request lines re-run exactly the recorded requests; the others
            # regenerate the recorded run from its seed and tier (set by ./check from the replay file)
            args += ["-replay", self.replay]
        rc, out = self.avoh(args, timeout=timeout)
        if rc != 0:
            self.log(f"avoh {sub} failed rc={rc}: {out[-3000:]}")
            self.obligation_failures.append((f"avoh {sub}", out[-3000:]))
            return None
        if not self.run_driver(ops, model, timeout=timeout, driver=driver):
            return None
        nlines = 0
        mism = 0
        with open(ops) as fo, open(impl) as fi, open(model) as fm:
            for req, a, b in zip(fo, fi, fm):
                nlines += 1
                req, a, b = req.rstrip("\n"), a.rstrip("\n"), b.rstrip("\n")
                if len(self.samples) < 3 or (nlines % 4999 == 0 and len(self.samples) < 6):
                    self.samples.append({"request": req[:400], "impl": a[:300], "model": b[:300]})
                if nontrivial is None or nontrivial(req, a):
                    self.nontrivial.add(hashlib.blake2b(req.encode(), digest_size=8).digest())
                if a != b:
                    mism += 1
                    rec = {"request": req, "impl": a, "model": b, "sub": sub}
                    if req.startswith("accept-"):
                        rec["key"] = req
                        # the cap on recorded failures counts UNLISTED failures only: lines of a listed known
                        # finding (one representative kept per finding) can never crowd out a new violation
                        f = self.match_finding(req, b)
                        if f is not None:
                            if f["id"] not in self._known_reps:
                                self._known_reps[f["id"]] = True
                                self.concrete.append(rec)
                        elif self._unlisted < max_report:
                            self._unlisted += 1
                            self.concrete.append(rec)
                    elif len(self.corr_failures) < max_report:
                        self.corr_failures.append(rec)
        # line counts must agree
        for pth in (impl, model):
            c = sum(1 for _ in open(pth))
            if c != nlines or c == 0:
                self.obligation_failures.append((f"{sub}: line count", f"ops/impl/model line counts differ or empty ({pth}: {c} vs {nlines})"))
        self.evaluations += nlines
        try:
            self.coverage.setdefault("input_distribution", {})[sub + tag] = json.load(open(stats))
        except Exception:
            pass
        self.log(f"{sub}{tag}: {nlines} requests, {mism} mismatches")
        return mism

    def run_corpus(self, sub, **kw):
        """Replay /verif/corpus/<prop>/*.txt (minimised past failures and hand-picked
        seeds) against the current implementation before the generated cases."""
        d = os.path.join(VERIF, "corpus", self.prop)
        if not os.path.isdir(d):
            return 0
        lines = []
        for fn in sorted(os.listdir(d)):
            if fn.endswith(".txt"):
                lines += [l for l in open(os.path.join(d, fn)).read().splitlines() if l.strip() and not l.startswith("#")]
        if not lines:
            return 0
        path = os.path.join(self.dir, sub + "-corpus.in")
        open(path, "w").write("\n".join(lines) + "\n")
        saved, self.replay = self.replay, None
        try:
            r = self.differential(sub, len(lines), extra=["-replay", path], tag="-corpus", **kw)
        finally:
            self.replay = saved
        self.coverage["corpus_cases"] = len(lines)
        return r

    # -------------------------------------------------------------- verdict
    def add_concrete(self, key, detail):
        self.concrete.append(dict(detail, key=key))

    def write_replay(self, kind, payload):
        h = hashlib.blake2b(json.dumps(payload, sort_keys=True, default=str).encode(), digest_size=6).hexdigest()
        path = os.path.join(REPLAYS, f"{self.prop}-{kind}-{h}.json")
        with open(path, "w") as f:
            json.dump(dict(property=self.prop, tier=self.tier, seed=self.seed, kind=kind, **payload), f, indent=1, default=str)
        return path

    def match_finding(self, key, verdict=None):
        """A listed finding matches a failing request when its `match` regex matches the request (key) and, if the
        entry has a `verdict` regex, that one matches the model's answer (the class of failure) as well: a finding
        then suppresses only its own kind of failure on its own inputs."""
        for f in self.findings:
            if f.get("status") != "finding":
                continue
            pat = f.get("match", "")
            if pat and re.search(pat, key):
                vp = f.get("verdict")
                if vp and verdict is not None and not re.search(vp, verdict):
                    continue
                return f
        return None

    def finish(self, level_extra=None):
        violations = []
        # concrete violations first
        seen_known = {}
        for c in self.concrete:
            f = self.match_finding(c["key"], c.get("model"))
            if f:
                seen_known.setdefault(f["id"], (f, c))
            else:
                violations.append(("concrete", c))
        for fid, (f, c) in seen_known.items():
            print(f"KNOWN-FINDING: property={self.prop} {f['id']}: {f['what']}", flush=True)
        out_lines = []
        if violations:
            path = self.write_replay("concrete", {"violations": [v[1] for v in violations[:10]]})
            out_lines.append(f"VIOLATION property={self.prop} replay={path}")
        else:
            # broken proof obligation or correspondence: a concrete failing input
            # was searched for by the acceptors / generators of this run
            corr = []
            for c in self.corr_failures:
                f = self.match_finding(c["request"], c.get("model"))
                if f:
                    if f["id"] not in seen_known:
                        seen_known[f["id"]] = (f, c)
                        print(f"KNOWN-FINDING: property={self.prop} {f['id']}: {f['what']}", flush=True)
                else:
                    corr.append(c)
            if self.obligation_failures or corr:
                path = self.write_replay("obligation" if self.obligation_failures else "correspondence", {
                    "broken_obligations": [{"name": n, "detail": d} for n, d in self.obligation_failures[:10]],
                    "correspondence_mismatches": corr[:10],
                })
                out_lines.append(f"VIOLATION property={self.prop} replay={path} no-failing-input-found")
        nviol = len(violations) + (1 if (not violations and out_lines) else 0)
        # stale findings
        for f in self.findings:
            if f.get("status") == "finding" and f["id"] not in seen_known and f.get("must_reproduce", True) and not out_lines:
                self.notes.append(f"finding {f['id']} did not reproduce on this run (tier {self.tier})")
        cov = dict(self.coverage)
        cov.update({
            "obligations": self.obligations,
            "discharged": self.discharged if not self.obligation_failures else min(self.discharged, max(self.obligations - len(self.obligation_failures), 0)),
            "checker_cmd": " ; ".join(dict.fromkeys(self.checker_cmds)) or "none",
            "trusted_base": self.trusted,
            "evaluations": self.evaluations,
            "distinct_nontrivial": len(self.nontrivial),
            "samples": self.samples[:8],
            "traces_validated_against_impl": self.evaluations,
            "known_findings_seen": sorted(seen_known),
            "broken_obligations": [n for n, _ in self.obligation_failures],
            "notes": self.notes,
        })
        if level_extra:
            cov.update(level_extra)
        ev = {
            "property_id": self.prop, "tier": self.tier, "seed": self.seed, "level": self.level,
            "coverage": cov, "assumptions": self.assumptions, "wall_s": round(time.time() - self.t0, 2),
            "violations": nviol,
        }
        os.makedirs(os.path.join(VERIF, "evidence"), exist_ok=True)
        with open(os.path.join(VERIF, "evidence", f"{self.prop}.json"), "w") as f:
            json.dump(ev, f, indent=1, default=str)
        for l in out_lines:
            print(l, flush=True)
        if not out_lines:
            print(f"OK property={self.prop} tier={self.tier} seed={self.seed} obligations={self.obligations} "
                  f"discharged={cov['discharged']} evaluations={self.evaluations} wall={ev['wall_s']}s", flush=True)
        return 1 if out_lines else 0


def load_findings():
    p = os.path.join(VERIF, "known_findings.json")
    if not os.path.exists(p):
        return []
    return json.load(open(p)).get("findings", [])
