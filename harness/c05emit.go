package main

import (
	"encoding/hex"
	"fmt"
	"sort"
	"strconv"
	"strings"

	"github.com/mmcloughlin/avo/operand"
	"github.com/mmcloughlin/avo/reg"
)

// ---------------------------------------------------------------------------
// Canonical encodings of operands (what the constructor was given)
//   r:<kind>:<idx>:<mask>                       physical register (pseudo: kind 0, name appended r:0:0:0:FP)
//   m:<symhex>:<static>:<disp>:<base|->:<index|->:<scale>     base/index as kind.idx.mask[.NAME]
//   i:<u8|u16|u32|u64|i8|i16|i32|i64>:<value>
//   l:<int32>        operand.Rel
//   b:<hex name>     operand.LabelRef
// ---------------------------------------------------------------------------

func c05EncRegWith(r reg.Register, sep string) string {
	p, ok := r.(reg.Physical)
	if !ok {
		return "virtual"
	}
	s := strings.Join([]string{strconv.Itoa(int(r.Kind())), strconv.Itoa(int(p.PhysicalIndex())), strconv.Itoa(int(r.Mask()))}, sep)
	if r.Kind() == reg.KindPseudo {
		s += sep + r.Asm()
	}
	return s
}

func c05EncOp(op operand.Op) string {
	switch v := op.(type) {
	case reg.Register:
		return "r:" + c05EncRegWith(v, ":")
	case operand.Mem:
		b, x := "-", "-"
		if v.Base != nil {
			b = c05EncRegWith(v.Base, ".")
		}
		if v.Index != nil {
			x = c05EncRegWith(v.Index, ".")
		}
		return fmt.Sprintf("m:%s:%s:%d:%s:%s:%d", hexs(v.Symbol.Name), b01(v.Symbol.Static), v.Disp, b, x, v.Scale)
	case operand.U8:
		return fmt.Sprintf("i:u8:%d", uint8(v))
	case operand.U16:
		return fmt.Sprintf("i:u16:%d", uint16(v))
	case operand.U32:
		return fmt.Sprintf("i:u32:%d", uint32(v))
	case operand.U64:
		return fmt.Sprintf("i:u64:%d", uint64(v))
	case operand.I8:
		return fmt.Sprintf("i:i8:%d", int8(v))
	case operand.I16:
		return fmt.Sprintf("i:i16:%d", int16(v))
	case operand.I32:
		return fmt.Sprintf("i:i32:%d", int32(v))
	case operand.I64:
		return fmt.Sprintf("i:i64:%d", int64(v))
	case operand.Rel:
		return fmt.Sprintf("l:%d", int32(v))
	case operand.LabelRef:
		return "b:" + hexs(string(v))
	}
	return "other"
}

// c05Features describes the operand situation of a case (inputs only, no
// judgement): used to recognise classes of known findings.
func c05Features(c *c05Case) string {
	set := map[string]bool{}
	var gpRegs []reg.Register
	noteReg := func(r reg.Register, addr bool) {
		if r == nil {
			return
		}
		p, ok := r.(reg.Physical)
		if !ok {
			return
		}
		switch r.Kind() {
		case reg.KindGP:
			gpRegs = append(gpRegs, r)
			if c05IsHigh(r) {
				set["hi8"] = true
			}
			if p.PhysicalIndex() >= 8 {
				set["rex"] = true
			}
			if !addr && r.Size() == 1 && !c05IsHigh(r) && p.PhysicalIndex() >= 4 && p.PhysicalIndex() < 8 {
				set["rex"] = true // SPL, BPL, SIL, DIL
			}
			if !addr && r.Size() == 8 {
				set["w64"] = true
			}
		case reg.KindVector:
			if p.PhysicalIndex() >= 16 {
				set["hivec"] = true
			}
		case reg.KindOpmask:
			if p.PhysicalIndex() == 0 {
				set["k0"] = true
			}
		case reg.KindPseudo:
			set["pseudo"+r.Asm()] = true
		}
	}
	for _, op := range c.ops {
		switch v := op.(type) {
		case reg.Register:
			noteReg(v, false)
		case operand.Mem:
			noteReg(v.Base, true)
			noteReg(v.Index, true)
			set["mem"] = true
			if v.Symbol.Name != "" {
				set["sym"] = true
			}
			if v.Index != nil && v.Base != nil && v.Base.Kind() == reg.KindPseudo {
				set["pseudoidx"] = true
			}
		case operand.U8:
			if v >= 0x80 {
				set["u8hi"] = true
			}
		case operand.I8:
			if v < 0 {
				set["i8neg"] = true
			}
		case operand.U16:
			if v >= 0x8000 {
				set["u16hi"] = true
			}
		case operand.I16:
			if v < 0 {
				set["i16neg"] = true
			}
		case operand.U32:
			if v >= 0x80000000 {
				set["u32hi"] = true
			}
		case operand.I32:
			if v < 0 {
				set["i32neg"] = true
			}
		case operand.U64:
			if v >= 1<<63 {
				set["u64hi"] = true
			}
		case operand.I64:
			if v < 0 {
				set["i64neg"] = true
			}
		case operand.Rel:
			set["rel"] = true
		case operand.LabelRef:
			set["label"] = true
		}
	}
	// repeated vector register among the operands (gathers require distinct registers)
	seen := map[string]bool{}
	for _, op := range c.ops {
		var rs []reg.Register
		switch v := op.(type) {
		case reg.Register:
			rs = []reg.Register{v}
		case operand.Mem:
			if v.Index != nil {
				rs = []reg.Register{v.Index}
			}
		}
		for _, r := range rs {
			if p, ok := r.(reg.Physical); ok && (r.Kind() == reg.KindVector || r.Kind() == reg.KindOpmask) {
				key := fmt.Sprintf("%d.%d", r.Kind(), p.PhysicalIndex())
				if seen[key] {
					set["vecdup"] = true
				}
				seen[key] = true
			}
		}
	}
	if len(set) == 0 {
		return "-"
	}
	var ks []string
	for k := range set {
		ks = append(ks, k)
	}
	sort.Strings(ks)
	return strings.Join(ks, "+")
}

// c05Describe returns "<OPCODE> <sfx|-> <sig|-> <isa|-> <feat> <stream> <n> <ops…>".
func c05Describe(c *c05Case) string {
	sfx := "-"
	if len(c.sfx) > 0 {
		sfx = strings.Join(c.sfx, ".")
	}
	sig, isa := "-", "-"
	if c.form != nil {
		if ts := c.form.explicitTypes(); len(ts) > 0 {
			sig = strings.Join(ts, ",")
		}
		if len(c.form.ISAs) > 0 {
			isa = strings.Join(c.form.ISAs, "+")
		}
	}
	parts := []string{c.gen.Opcode, sfx, sig, isa, c05Features(c), c.stream, strconv.Itoa(len(c.ops))}
	for _, op := range c.ops {
		parts = append(parts, c05EncOp(op))
	}
	return strings.Join(parts, " ")
}

// c05Decode canonicalises the disassembly of a case: "<codehex> <nrelocs> <relocs…> <mnemonic> <n> <args…>".
func c05Decode(c *c05Case) string {
	head := []string{hex.EncodeToString(c.code), strconv.Itoa(len(c.relocs))}
	for _, r := range c.relocs {
		head = append(head, strings.ReplaceAll(r, " ", "_"))
	}
	if len(c.dis) == 0 {
		return strings.Join(append(head, "undecoded", "0"), " ")
	}
	var off, n int
	var text string
	p := strings.SplitN(c.dis[0], "|", 3)
	off, _ = strconv.Atoi(p[0])
	n, _ = strconv.Atoi(p[1])
	text = p[2]
	want := len(c.code)
	if c.label != "" && want > 1 && c.code[want-1] == 0xc3 {
		want-- // the RET behind the label
	}
	if off != 0 {
		return strings.Join(append(head, "undecoded", "0"), " ")
	}
	if n > want {
		// the decoder ran into the padding: a lone prefix byte
		if want == 1 {
			return strings.Join(append(head, "(prefix)", "1", "I:"+strconv.Itoa(int(c.code[0]))), " ")
		}
		return strings.Join(append(head, "undecoded", "0"), " ")
	}
	if n < want {
		// more than one machine instruction: report all of them joined
		return strings.Join(append(head, "multiple", strconv.Itoa(len(c.dis))), " ")
	}
	d, err := c05ParseIntel(text, c.blobBase, n, c.code)
	if err != nil {
		return strings.Join(append(head, "unparsed", "0"), " ")
	}
	// vpcmp{eq,lt,…}{u}{b,w,d,q} of the immediate form (EVEX map 0F3A): make the predicate an immediate again
	if m := c05VpcmpRe.FindStringSubmatch(strings.Fields(d)[0]); m != nil && len(c.code) > 2 && c.code[0] == 0x62 && c.code[1]&7 == 3 {
		fs := strings.Fields(d)
		fs[0] = "vpcmp" + m[2] + m[3]
		k, _ := strconv.Atoi(fs[1])
		fs[1] = strconv.Itoa(k + 1)
		fs = append(fs, "I:"+strconv.Itoa(int(c.code[want-1])))
		d = strings.Join(fs, " ")
	}
	return strings.Join(append(head, d), " ")
}

func c05Scripted(db *formsDB, g *c05Gen) []*c05Case {
	type sc struct {
		name, opcode string
		ops          []operand.Op
	}
	list := []sc{
		{"F6-andq-u32", "ANDQ", []operand.Op{operand.Imm(0xffffffff), reg.RBX}},
		{"F6-movq-mem-u32", "MOVQ", []operand.Op{operand.U32(0x80000000), operand.Mem{Base: reg.RAX}}},
		{"F6-ok-i32", "ANDQ", []operand.Op{operand.I32(-1), reg.RBX}},
		{"F7-movq-m32-xmm", "MOVQ", []operand.Op{operand.NewParamAddr("x", 0), reg.X3}},
		{"F7-movq-xmm-m32", "MOVQ", []operand.Op{reg.X3, operand.NewParamAddr("ret", 8)}},
		{"F5-addb-ah-r8", "ADDB", []operand.Op{reg.AH, reg.R8B}},
		{"F5-movb-ch-sil", "MOVB", []operand.Op{reg.CH, reg.SIB}},
		{"F10-call-label", "CALL", []operand.Op{operand.LabelRef("sub")}},
		{"ok-addq", "ADDQ", []operand.Op{reg.R13, operand.Mem{Base: reg.R12, Index: reg.R13, Scale: 8, Disp: -128}}},
	}
	var out []*c05Case
	for _, s := range list {
		idxs := db.byOpcode[s.opcode]
		if len(idxs) == 0 {
			continue
		}
		c := g.buildOps(db, &db.rows[idxs[0]], "scripted:"+s.name, nil, s.ops)
		if c != nil {
			out = append(out, c)
		}
	}
	return out
}

func c05Emit(o *out, db *formsDB, cases, panics []*c05Case) map[string]any {
	st := map[string]any{}
	count := map[string]int{}
	seenOp := map[string]bool{}
	emitOperand := func(op operand.Op) {
		tok := c05EncOp(op)
		if seenOp[tok] {
			return
		}
		seenOp[tok] = true
		var text string
		_, panicked := safely(func() error { text = op.Asm(); return nil })
		if panicked {
			o.emit("asm-text "+tok, "panic")
			return
		}
		o.emit("asm-text "+tok, hexs(text))
		o.emit("accept-parse "+tok+" "+hexs(text), "ok")
		count["operands"]++
	}
	for _, c := range panics {
		o.emit("accept-asm "+c05Describe(c)+" => panic", "ok")
		count["ctor_panics"]++
	}
	opcodes := map[string]bool{}
	forms := map[int]bool{}
	for _, c := range cases {
		for _, op := range c.ops {
			emitOperand(op)
		}
		desc := c05Describe(c)
		opcodes[c.gen.Opcode] = true
		if c.form != nil {
			forms[c.form.Index] = true
		} else {
			count["no_matched_form"]++
		}
		// the printed line, parsed back by the model's independent parser
		o.emit("accept-line "+desc+" => "+hexs(c.line), "ok")
		switch c.status {
		case "ok":
			c.decoded = c05Decode(c)
			o.emit("accept-asm "+desc+" => ok "+c.decoded, "ok")
			count["assembled"]++
		default:
			o.emit("accept-asm "+desc+" => rejected "+hexs(c.errmsg), "ok")
			count["asm_rejected"]++
		}
		count["stream_"+strings.SplitN(c.stream, ":", 2)[0]]++
	}
	for k, v := range count {
		st[k] = v
	}
	st["opcodes_covered"] = len(opcodes)
	st["opcodes_total"] = len(db.byOpcode)
	st["forms_covered"] = len(forms)
	st["forms_total"] = len(db.rows)
	return st
}
