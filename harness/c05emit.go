package main

import (
	"encoding/hex"
	"fmt"
	"sort"
	"strconv"
	"strings"

	"github.com/mmcloughlin/avo/operand"
	"github.com/mmcloughlin/avo/reg"
	"github.com/mmcloughlin/avo/x86"
)

// ---------------------------------------------------------------------------
// Canonical encodings of operands (what the constructor was given)
//   r:<kind>:<idx>:<mask>                       physical register (pseudo: kind 0, name appended r:0:0:0:FP)
//   m:<symhex>:<static>:<disp>:<base|->:<index|->:<scale>     base/index as kind.idx.mask[.NAME]
//   i:<u8|u16|u32|u64|i8|i16|i32|i64>:<value>
//   l:<int32>        operand.Rel
//   b:<hex name>     operand.LabelRef
// ---------------------------------------------------------------------------

func c05EncRegWith(r reg.Register, sep string) string {
	p, ok := r.(reg.Physical)
	if !ok {
		return "virtual"
	}
	s := strings.Join([]string{strconv.Itoa(int(r.Kind())), strconv.Itoa(int(p.PhysicalIndex())), strconv.Itoa(int(r.Mask()))}, sep)
	if r.Kind() == reg.KindPseudo {
		s += sep + r.Asm()
	}
	return s
}

func c05EncOp(op operand.Op) string {
	switch v := op.(type) {
	case reg.Register:
		return "r:" + c05EncRegWith(v, ":")
	case operand.Mem:
		b, x := "-", "-"
		if v.Base != nil {
			b = c05EncRegWith(v.Base, ".")
		}
		if v.Index != nil {
			x = c05EncRegWith(v.Index, ".")
		}
		return fmt.Sprintf("m:%s:%s:%d:%s:%s:%d", hexs(v.Symbol.Name), b01(v.Symbol.Static), v.Disp, b, x, v.Scale)
	case operand.U8:
		return fmt.Sprintf("i:u8:%d", uint8(v))
	case operand.U16:
		return fmt.Sprintf("i:u16:%d", uint16(v))
	case operand.U32:
		return fmt.Sprintf("i:u32:%d", uint32(v))
	case operand.U64:
		return fmt.Sprintf("i:u64:%d", uint64(v))
	case operand.I8:
		return fmt.Sprintf("i:i8:%d", int8(v))
	case operand.I16:
		return fmt.Sprintf("i:i16:%d", int16(v))
	case operand.I32:
		return fmt.Sprintf("i:i32:%d", int32(v))
	case operand.I64:
		return fmt.Sprintf("i:i64:%d", int64(v))
	case operand.Rel:
		return fmt.Sprintf("l:%d", int32(v))
	case operand.LabelRef:
		return "b:" + hexs(string(v))
	}
	return "other"
}

// c05Features describes the operand situation of a case (inputs only, no
// judgement): used to recognise classes of known findings.
func c05Features(c *c05Case) string {
	set := map[string]bool{}
	var gpRegs []reg.Register
	noteReg := func(r reg.Register, addr bool) {
		if r == nil {
			return
		}
		p, ok := r.(reg.Physical)
		if !ok {
			return
		}
		switch r.Kind() {
		case reg.KindGP:
			gpRegs = append(gpRegs, r)
			if c05IsHigh(r) {
				set["hi8"] = true
			}
			if p.PhysicalIndex() >= 8 {
				set["rex"] = true
			}
			if !addr && r.Size() == 1 && !c05IsHigh(r) && p.PhysicalIndex() >= 4 && p.PhysicalIndex() < 8 {
				set["rex"] = true // SPL, BPL, SIL, DIL
			}
			if !addr && r.Size() == 8 {
				set["w64"] = true
			}
		case reg.KindVector:
			if p.PhysicalIndex() >= 16 {
				set["hivec"] = true
			}
		case reg.KindOpmask:
			if p.PhysicalIndex() == 0 {
				set["k0"] = true
			}
		case reg.KindPseudo:
			set["pseudo"+r.Asm()] = true
		}
	}
	for _, op := range c.ops {
		switch v := op.(type) {
		case reg.Register:
			noteReg(v, false)
		case operand.Mem:
			noteReg(v.Base, true)
			noteReg(v.Index, true)
			set["mem"] = true
			if v.Symbol.Name != "" {
				set["sym"] = true
			}
			if v.Index != nil && v.Base != nil && v.Base.Kind() == reg.KindPseudo {
				set["pseudoidx"] = true
			}
		case operand.U8:
			if v >= 0x80 {
				set["u8hi"] = true
			}
		case operand.I8:
			if v < 0 {
				set["i8neg"] = true
			}
		case operand.U16:
			if v >= 0x8000 {
				set["u16hi"] = true
			}
		case operand.I16:
			if v < 0 {
				set["i16neg"] = true
			}
		case operand.U32:
			if v >= 0x80000000 {
				set["u32hi"] = true
			}
		case operand.I32:
			if v < 0 {
				set["i32neg"] = true
			}
		case operand.U64:
			if v >= 1<<63 {
				set["u64hi"] = true
			}
		case operand.I64:
			if v < 0 {
				set["i64neg"] = true
			}
		case operand.Rel:
			set["rel"] = true
		case operand.LabelRef:
			set["label"] = true
		}
	}
	// repeated vector register among the operands (gathers require distinct registers)
	seen := map[string]bool{}
	for _, op := range c.ops {
		var rs []reg.Register
		switch v := op.(type) {
		case reg.Register:
			rs = []reg.Register{v}
		case operand.Mem:
			if v.Index != nil {
				rs = []reg.Register{v.Index}
			}
		}
		for _, r := range rs {
			if p, ok := r.(reg.Physical); ok && (r.Kind() == reg.KindVector || r.Kind() == reg.KindOpmask) {
				key := fmt.Sprintf("%d.%d", r.Kind(), p.PhysicalIndex())
				if seen[key] {
					set["vecdup"] = true
				}
				seen[key] = true
			}
		}
	}
	if len(set) == 0 {
		return "-"
	}
	var ks []string
	for k := range set {
		ks = append(ks, k)
	}
	sort.Strings(ks)
	return strings.Join(ks, "+")
}

// c05Describe returns "<OPCODE> <sfx|-> <sig|-> <isa|-> <feat> <stream> <n> <ops…>".
func c05Describe(c *c05Case) string {
	sfx := "-"
	if len(c.sfx) > 0 {
		sfx = strings.Join(c.sfx, ".")
	}
	sig, isa := "-", "-"
	if c.form != nil {
		if ts := c.form.explicitTypes(); len(ts) > 0 {
			sig = strings.Join(ts, ",")
		}
		if len(c.form.ISAs) > 0 {
			isa = strings.Join(c.form.ISAs, "+")
		}
	}
	parts := []string{c.call, sfx, sig, isa, c05Features(c), c.stream, strconv.Itoa(len(c.ops))}
	for _, op := range c.ops {
		parts = append(parts, c05EncOp(op))
	}
	return strings.Join(parts, " ")
}

// c05Decode canonicalises the disassembly of a case: "<codehex> <x86asm MemBytes> <nrelocs> <relocs…> <mnemonic> <n> <args…>".
func c05Decode(c *c05Case) string {
	// code, x86asm's memory access width (0 = x86asm does not decode it / reports none), relocations
	head := []string{hex.EncodeToString(c.code), strconv.Itoa(c.xmem), strconv.Itoa(len(c.relocs))}
	for _, r := range c.relocs {
		head = append(head, strings.ReplaceAll(r, " ", "_"))
	}
	if len(c.dis) == 0 {
		return strings.Join(append(head, "undecoded", "0"), " ")
	}
	var off, n int
	var text string
	p := strings.SplitN(c.dis[0], "|", 3)
	off, _ = strconv.Atoi(p[0])
	n, _ = strconv.Atoi(p[1])
	text = p[2]
	want := len(c.code)
	if c.label != "" && want > 1 && c.code[want-1] == 0xc3 {
		want-- // the RET behind the label
	}
	if off != 0 {
		return strings.Join(append(head, "undecoded", "0"), " ")
	}
	if n > want {
		// the decoder ran into the padding: a lone prefix byte
		if want == 1 {
			return strings.Join(append(head, "(prefix)", "1", "I:"+strconv.Itoa(int(c.code[0]))), " ")
		}
		return strings.Join(append(head, "undecoded", "0"), " ")
	}
	if n < want && c.call == "CALL" {
		// the assembler wraps a function that calls in a frame (push rbp; mov rbp,rsp; …; pop rbp): judge the call itself
		for _, e := range c.dis {
			q := strings.SplitN(e, "|", 3)
			if len(q) == 3 && strings.HasPrefix(strings.TrimSpace(q[2]), "call") {
				o2, _ := strconv.Atoi(q[0])
				n2, _ := strconv.Atoi(q[1])
				if d, err := c05ParseIntel(q[2], c.blobBase, o2+n2, c.code); err == nil {
					return strings.Join(append(head, d), " ")
				}
			}
		}
	}
	if n < want {
		// more than one machine instruction
		return strings.Join(append(head, "multiple", "0"), " ")
	}
	d, err := c05ParseIntel(text, c.blobBase, n, c.code)
	if err != nil {
		return strings.Join(append(head, "unparsed", "0"), " ")
	}
	// vpcmp{eq,lt,…}{u}{b,w,d,q} of the immediate form (EVEX map 0F3A): make the predicate an immediate again
	if m := c05VpcmpRe.FindStringSubmatch(strings.Fields(d)[0]); m != nil && len(c.code) > 2 && c.code[0] == 0x62 && c.code[1]&7 == 3 {
		fs := strings.Fields(d)
		fs[0] = "vpcmp" + m[2] + m[3]
		k, _ := strconv.Atoi(fs[1])
		fs[1] = strconv.Itoa(k + 1)
		fs = append(fs, "I:"+strconv.Itoa(int(c.code[want-1])))
		d = strings.Join(fs, " ")
	}
	return strings.Join(append(head, d), " ")
}

// c05Scripted: one witness per known class of findings (so that every listed
// finding is re-examined on every run) and a few instructions that must pass.
func c05Scripted(db *formsDB, g *c05Gen) []*c05Case {
	type sc struct {
		stream, opcode string
		sfx            []string
		ops            []operand.Op
	}
	list := []sc{
		{"scripted:F6-andq-u32", "ANDQ", nil, []operand.Op{operand.Imm(0xffffffff), reg.RBX}},
		{"scripted:F6-movq-mem-u32", "MOVQ", nil, []operand.Op{operand.U32(0x80000000), operand.Mem{Base: reg.RAX}}},
		{"scripted:F6-pushq-u32", "PUSHQ", nil, []operand.Op{operand.U32(0x80000000)}},
		{"scripted:ok-andq-i32", "ANDQ", nil, []operand.Op{operand.I32(-1), reg.RBX}},
		{"scripted:ok-movq-u32-reg", "MOVQ", nil, []operand.Op{operand.U32(0xffffffff), reg.R9}},
		{"scripted:ok-movq-imm64", "MOVQ", nil, []operand.Op{operand.U64(0x8000000000000001), reg.R9}},
		{"scripted:F7-movq-m32-xmm", "MOVQ", nil, []operand.Op{operand.NewParamAddr("x", 0), reg.X3}},
		{"scripted:F7-movq-xmm-m32", "MOVQ", nil, []operand.Op{reg.X3, operand.NewParamAddr("ret", 8)}},
		{"scripted:F7-movq-r32-xmm", "MOVQ", nil, []operand.Op{reg.ECX, reg.X3}},
		{"scripted:F7-vsqrtpd-bcst", "VSQRTPD", []string{"BCST"}, []operand.Op{operand.Mem{Base: reg.RAX}, reg.X3}},
		{"scripted:F5-addb-ah-r8", "ADDB", nil, []operand.Op{reg.AH, reg.R8B}},
		{"scripted:F5-movb-ch-sil", "MOVB", nil, []operand.Op{reg.CH, reg.SIB}},
		{"scripted:F5-movbqzx-ah", "MOVBQZX", nil, []operand.Op{reg.AH, reg.RBX}},
		{"scripted:ok-movb-ah-bl", "MOVB", nil, []operand.Op{reg.AH, reg.BL}},
		{"scripted:crc32b-dil", "CRC32B", nil, []operand.Op{reg.DIB, reg.EBP}},
		{"scripted:ok-crc32b-r8", "CRC32B", nil, []operand.Op{reg.R9B, reg.EBP}},
		{"scripted:rdrandl-r64", "RDRANDL", nil, []operand.Op{reg.R10}},
		{"scripted:cvtsd2sl-r64", "CVTSD2SL", nil, []operand.Op{reg.X1, reg.RAX}},
		{"scripted:ok-cvtsd2sq-r64", "CVTSD2SQ", nil, []operand.Op{reg.X1, reg.RAX}},
		{"scripted:xchgl-eax-eax", "XCHGL", nil, []operand.Op{reg.EAX, reg.EAX}},
		{"scripted:nop", "NOP", nil, nil},
		{"scripted:rel", "JMP", nil, []operand.Op{operand.Rel(5)}},
		{"scripted:F10-call-label", "CALL", nil, []operand.Op{operand.LabelRef("sub")}},
		{"scripted:ok-jmp-label", "JMP", nil, []operand.Op{operand.LabelRef("done")}},
		{"k0mask", "VADDPD", nil, []operand.Op{reg.Z1, reg.Z2, reg.K0, reg.Z3}},
		{"scripted:imm8-negative", "PSHUFD", nil, []operand.Op{operand.I8(-1), reg.X1, reg.X2}},
		{"scripted:imm8-high", "BTQ", nil, []operand.Op{operand.U8(0x80), reg.RAX}},
		{"hivec", "ADDPD", nil, []operand.Op{reg.X17, reg.X1}},
		{"scripted:jmp-sym-mem", "JMP", nil, []operand.Op{operand.NewDataAddr(operand.NewStaticSymbol("tbl"), 8)}},
		{"scripted:ok-jmp-mem", "JMP", nil, []operand.Op{operand.Mem{Base: reg.R12, Disp: 8}}},
		{"malformed:sp-index", "ADDQ", nil, []operand.Op{operand.Mem{Base: reg.RAX, Index: reg.RSP, Scale: 1}, reg.RBX}},
		{"malformed:narrow-base", "ADDQ", nil, []operand.Op{operand.Mem{Base: reg.EAX, Disp: 8}, reg.RBX}},
		{"scripted:ok-addq", "ADDQ", nil, []operand.Op{reg.R13, operand.Mem{Base: reg.R12, Index: reg.R13, Scale: 8, Disp: -128}}},
		// accepted operand shapes whose printed form the assembler reads differently or not at all (review C05-3)
		{"shape:label-regname", "JMP", nil, []operand.Op{operand.LabelRef("AX")}},
		{"shape:label-regname", "JNE", nil, []operand.Op{operand.LabelRef("R8")}},
		{"shape:label-regname", "CALL", nil, []operand.Op{operand.LabelRef("AX")}},
		{"shape:pseudo-nosym", "MOVQ", nil, []operand.Op{operand.Mem{Base: reg.FramePointer, Disp: 8}, reg.RAX}},
		{"shape:pseudo-nosym", "MOVQ", nil, []operand.Op{operand.Mem{Base: reg.StaticBase, Disp: 8}, reg.RAX}},
		{"shape:sym-gpbase", "MOVQ", nil, []operand.Op{operand.Mem{Symbol: operand.Symbol{Name: "x"}, Base: reg.RAX, Disp: 8}, reg.RBX}},
		{"shape:param-nonident", "MOVQ", nil, []operand.Op{operand.NewParamAddr("a-b", 8), reg.RAX}},
		{"shape:param-regname", "MOVQ", nil, []operand.Op{operand.NewParamAddr("AX", 8), reg.RAX}},
		{"scripted:ok-movq-param", "MOVQ", nil, []operand.Op{operand.NewParamAddr("ax_1", 8), reg.RAX}},
		{"scripted:ok-movw-imm16", "MOVW", nil, []operand.Op{operand.U16(0x8000), reg.R9W}},
		{"scripted:ok-movw-imm16-neg", "ADDW", nil, []operand.Op{operand.I16(-32768), reg.BX}},
		{"scripted:ok-movq-i64", "MOVQ", nil, []operand.Op{operand.I64(-0x80000001), reg.R10}},
		{"scripted:ok-evex", "VADDPD", []string{"BCST", "Z"}, []operand.Op{operand.Mem{Base: reg.R12, Disp: 8}, reg.Z17, reg.K3, reg.Z31}},
	}
	var out []*c05Case
	for _, s := range list {
		idxs := c05Call[s.opcode]
		if len(idxs) == 0 {
			continue
		}
		c := g.buildOps(db, &db.rows[idxs[0]], s.stream, s.sfx, s.ops)
		if c != nil {
			out = append(out, c)
		}
	}
	return out
}

func c05Emit(o *out, db *formsDB, cases, panics []*c05Case) map[string]any {
	st := map[string]any{}
	count := map[string]int{}
	seenOp := map[string]bool{}
	emitOperand := func(op operand.Op) {
		tok := c05EncOp(op)
		if seenOp[tok] {
			return
		}
		seenOp[tok] = true
		var text string
		_, panicked := safely(func() error { text = op.Asm(); return nil })
		if panicked {
			o.emit("asm-text "+tok, "panic")
			return
		}
		// exact comparison with the model's renderer, except for constants: the property pins their value down, not
		// their spelling ($0x05 / $5 / $+5 are the same constant to the assembler); accept-parse judges the value read back
		if !strings.HasPrefix(tok, "i:") {
			o.emit("asm-text "+tok, hexs(text))
		}
		o.emit("accept-parse "+tok+" "+hexs(text), "ok")
		count["operands"]++
	}
	for _, c := range panics {
		o.emit("accept-asm "+c05Describe(c)+" => panic", "ok")
		count["ctor_panics"]++
	}
	opcodes := map[string]bool{}
	forms := map[int]bool{}
	for _, c := range cases {
		for _, op := range c.ops {
			emitOperand(op)
		}
		desc := c05Describe(c)
		opcodes[c.call] = true
		if c.form != nil {
			forms[c.form.Index] = true
		} else {
			count["no_matched_form"]++
		}
		// the printed line, parsed back by the model's independent parser
		o.emit("accept-line "+desc+" => "+hexs(c.line), "ok")
		// the operands are members of the operand classes the matched form names (Lean model of the class predicates)
		if c.form != nil {
			o.emit("accept-class "+desc, "ok")
			count["class_judged"]++
		}
		switch c.status {
		case "ok":
			c.decoded = c05Decode(c)
			o.emit("accept-asm "+desc+" => ok "+c.decoded, "ok")
			count["assembled"]++
		default:
			o.emit("accept-asm "+desc+" => rejected "+hexs(c.errmsg), "ok")
			count["asm_rejected"]++
		}
		count["stream_"+strings.SplitN(c.stream, ":", 2)[0]]++
		if c.tail {
			count["padded_block"]++
		}
		for _, op := range c.ops {
			if tok := c05EncOp(op); strings.HasPrefix(tok, "i:") {
				count["const_"+strings.Split(tok, ":")[1]]++
			}
		}
		if f := c05Features(c); f != "-" {
			for _, t := range strings.Split(f, "+") {
				count["feat_"+t]++
			}
		}
		if c.form != nil {
			for _, t := range c.form.explicitTypes() {
				count["type_"+t]++
			}
			if len(c.form.ISAs) > 0 {
				count["isa_"+c.form.ISAs[0]]++
			} else {
				count["isa_base"]++
			}
		}
		for _, s := range c.sfx {
			count["sfx_"+s]++
		}
		if c.xmem > 0 {
			count["x86asm_width_available"]++
		}
	}
	for k, v := range count {
		st[k] = v
	}
	st["opcodes_covered"] = len(opcodes)
	st["opcodes_total"] = len(c05Call)
	st["forms_covered"] = len(forms)
	st["forms_total"] = len(db.rows)
	return st
}

// ---------------------------------------------------------------------------
// Replay: rebuild cases from the canonical description of accept-asm /
// accept-line request lines.
// ---------------------------------------------------------------------------

func c05DecReg(fields []string) (reg.Register, error) {
	if len(fields) < 3 {
		return nil, fmt.Errorf("bad register %v", fields)
	}
	k, _ := strconv.Atoi(fields[0])
	i, _ := strconv.Atoi(fields[1])
	m, _ := strconv.Atoi(fields[2])
	for _, fam := range reg.Families {
		if int(fam.Kind) != k {
			continue
		}
		for _, p := range fam.Registers() {
			if reg.Kind(k) == reg.KindPseudo {
				if len(fields) > 3 && p.Asm() == fields[3] {
					return p, nil
				}
				continue
			}
			if int(p.PhysicalIndex()) == i && int(p.Mask()) == m {
				return p, nil
			}
		}
	}
	return nil, fmt.Errorf("no such register %v", fields)
}

func c05DecOp(tok string) (operand.Op, error) {
	f := strings.Split(tok, ":")
	switch f[0] {
	case "r":
		return c05DecReg(f[1:])
	case "m":
		if len(f) != 7 {
			return nil, fmt.Errorf("bad memory operand %q", tok)
		}
		name, err := unhexs(f[1])
		if err != nil {
			return nil, err
		}
		d, _ := strconv.Atoi(f[3])
		sc, _ := strconv.Atoi(f[6])
		m := operand.Mem{Symbol: operand.Symbol{Name: name, Static: f[2] == "1"}, Disp: d, Scale: uint8(sc)}
		if f[4] != "-" {
			if m.Base, err = c05DecReg(strings.Split(f[4], ".")); err != nil {
				return nil, err
			}
		}
		if f[5] != "-" {
			if m.Index, err = c05DecReg(strings.Split(f[5], ".")); err != nil {
				return nil, err
			}
		}
		return m, nil
	case "i":
		if len(f) != 3 {
			return nil, fmt.Errorf("bad constant %q", tok)
		}
		switch f[1] {
		case "u8", "u16", "u32", "u64":
			v, err := strconv.ParseUint(f[2], 10, 64)
			if err != nil {
				return nil, err
			}
			switch f[1] {
			case "u8":
				return operand.U8(v), nil
			case "u16":
				return operand.U16(v), nil
			case "u32":
				return operand.U32(v), nil
			}
			return operand.U64(v), nil
		default:
			v, err := strconv.ParseInt(f[2], 10, 64)
			if err != nil {
				return nil, err
			}
			switch f[1] {
			case "i8":
				return operand.I8(v), nil
			case "i16":
				return operand.I16(v), nil
			case "i32":
				return operand.I32(v), nil
			}
			return operand.I64(v), nil
		}
	case "l":
		v, err := strconv.ParseInt(f[1], 10, 32)
		return operand.Rel(v), err
	case "b":
		name, err := unhexs(f[1])
		return operand.LabelRef(name), err
	}
	return nil, fmt.Errorf("bad operand %q", tok)
}

// c05Replay rebuilds the cases named by request lines (accept-asm lines; other kinds are regenerated with them).
func c05Replay(db *formsDB, g *c05Gen, lines []string) ([]*c05Case, error) {
	var out []*c05Case
	seen := map[string]bool{}
	for _, l := range lines {
		f := strings.Fields(l)
		if len(f) < 8 || (f[0] != "accept-asm" && f[0] != "accept-line" && f[0] != "accept-class") {
			continue
		}
		n, err := strconv.Atoi(f[7])
		if err != nil || len(f) < 8+n {
			return nil, fmt.Errorf("bad request line %q", l)
		}
		key := strings.Join(f[1:8+n], " ")
		if seen[key] {
			continue
		}
		seen[key] = true
		var ops []operand.Op
		for _, t := range f[8 : 8+n] {
			op, err := c05DecOp(t)
			if err != nil {
				return nil, err
			}
			ops = append(ops, op)
		}
		idxs := c05Call[f[1]]
		if len(idxs) == 0 {
			return nil, fmt.Errorf("unknown opcode %q", f[1])
		}
		var sfx []string
		if f[2] != "-" {
			sfx = strings.Split(f[2], ".")
		}
		c := g.buildOps(db, &db.rows[idxs[0]], f[6], sfx, ops)
		if c == nil {
			// the constructor rejects it now: nothing is emitted for a rejected instruction
			g.stats["replay_ctor_rejected"]++
			continue
		}
		out = append(out, c)
	}
	return out, nil
}

// c05ReplayClass re-evaluates the `opclass <type> <operand>` lines of a replay / corpus file on the real predicate.
func c05ReplayClass(db *formsDB, lines []string) ([]c05ClassLine, error) {
	typeCode := map[string]uint8{}
	for code, name := range db.oprndName {
		typeCode[name] = code
	}
	var out []c05ClassLine
	seen := map[string]bool{}
	for _, l := range lines {
		f := strings.Fields(l)
		if len(f) != 3 || f[0] != "opclass" || seen[l] {
			continue
		}
		seen[l] = true
		code, ok := typeCode[f[1]]
		if !ok {
			return nil, fmt.Errorf("opclass: unknown operand type %q", f[1])
		}
		op, err := c05DecOp(f[2])
		if err != nil {
			return nil, err
		}
		res := "0"
		if _, panicked := safely(func() error {
			if x86.VerifMatch(code, op) {
				res = "1"
			}
			return nil
		}); panicked {
			res = "panic"
		}
		out = append(out, c05ClassLine{strings.Join(f, " "), res})
	}
	return out, nil
}
