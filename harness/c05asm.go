package main

import (
	"bytes"
	"encoding/hex"
	"fmt"
	"os"
	"os/exec"
	"path/filepath"
	"regexp"
	"strconv"
	"strings"
	"sync"

	"github.com/mmcloughlin/avo/attr"
	"github.com/mmcloughlin/avo/ir"
	"github.com/mmcloughlin/avo/operand"
	"github.com/mmcloughlin/avo/printer"
	"github.com/mmcloughlin/avo/reg"
	"github.com/mmcloughlin/avo/x86"
	"golang.org/x/arch/x86/x86asm"
)

// ---------------------------------------------------------------------------
// The measured oracle of C05: print with the real printer, assemble with
// `go tool asm`, read the bytes back with `go tool objdump`, decode with
// binutils objdump (and x86asm where it knows the instruction).
// ---------------------------------------------------------------------------

// c05Print renders the cases as one assembly file through printer.NewGoAsm:
// one TEXT symbol f<id> per instruction (NOSPLIT, frame 0: the assembler adds
// no prologue), a label + RET behind instructions that refer to a label.
// It returns the file text and, per line number (1-based), the case on it.
func c05Print(cases []*c05Case) (text []byte, lineOwner map[int]*c05Case, err error) {
	file := ir.NewFile()
	file.Includes = []string{"textflag.h"}
	for _, c := range cases {
		fn := ir.NewFunction("f" + strconv.Itoa(c.id))
		fn.Attributes = attr.NOSPLIT
		fn.AddInstruction(c.inst)
		if c.tail {
			// a second instruction with a long opcode in the same block: the printer pads every opcode of the block to
			// the longest one (goasm.flush), so the line under test is printed with padding
			t, e := x86.VerifBuild("PREFETCHNTA", nil, []operand.Op{operand.Mem{Base: reg.RAX}})
			if e != nil || t == nil {
				return nil, nil, fmt.Errorf("cannot build PREFETCHNTA")
			}
			fn.AddInstruction(t)
		}
		if c.label != "" {
			fn.AddLabel(ir.Label(c.label))
			ret, e := x86.VerifBuild("RET", nil, nil)
			if e != nil || ret == nil {
				return nil, nil, fmt.Errorf("cannot build RET")
			}
			fn.AddInstruction(ret)
		}
		file.AddSection(fn)
	}
	var perr error
	_, panicked := safely(func() error {
		text, perr = printer.NewGoAsm(printer.Config{Name: "avo", Pkg: "p"}).Print(file)
		return perr
	})
	if panicked || perr != nil {
		return nil, nil, fmt.Errorf("printer failed: %v", perr)
	}
	lineOwner = map[int]*c05Case{}
	byName := map[string]*c05Case{}
	for _, c := range cases {
		byName["f"+strconv.Itoa(c.id)] = c
	}
	var cur *c05Case
	for i, l := range strings.Split(string(text), "\n") {
		if strings.HasPrefix(l, "TEXT ") {
			name := strings.TrimPrefix(l, "TEXT \u00b7")
			if j := strings.Index(name, "("); j >= 0 {
				name = name[:j]
			}
			cur = byName[name]
			if cur != nil {
				cur.line = ""
			}
		}
		if cur != nil {
			lineOwner[i+1] = cur
			// the first indented line of the block that is not a comment is the instruction under test
			if t := strings.TrimLeft(l, " \t"); cur.line == "" && t != l && t != "" && !strings.HasPrefix(t, "//") {
				cur.line = l
			}
		}
	}
	return text, lineOwner, nil
}

var c05LineRe = regexp.MustCompile(`\.s:(\d+)`)

type c05Asm struct {
	dir     string
	goroot  string
	mu      sync.Mutex
	runs    int
	bisects int
}

// assemble assembles the cases (one file); on errors it removes the
// instructions the assembler complains about (marking them rejected with the
// message) and retries; errors without a usable position are located by bisection.
func (a *c05Asm) assemble(tag string, cases []*c05Case) error {
	if len(cases) == 0 {
		return nil
	}
	alive := cases
	for attempt := 0; attempt < 40 && len(alive) > 0; attempt++ {
		text, owner, err := c05Print(alive)
		if err != nil {
			return err
		}
		base := filepath.Join(a.dir, fmt.Sprintf("%s_%d", tag, attempt))
		if err := os.WriteFile(base+".s", text, 0o644); err != nil {
			return err
		}
		cmd := exec.Command("go", "tool", "asm", "-e", "-I", filepath.Join(a.goroot, "pkg", "include"), "-p", "p", "-o", base+".o", base+".s")
		cmd.Env = envForGo()
		out, runErr := cmd.CombinedOutput()
		a.mu.Lock()
		a.runs++
		a.mu.Unlock()
		if runErr == nil {
			err := a.readback(base, alive)
			os.Remove(base + ".s")
			return err
		}
		os.Remove(base + ".s")
		// attribute messages to instructions
		bad := map[*c05Case]string{}
		crashed := bytes.Contains(out, []byte("panic:")) || bytes.Contains(out, []byte("goroutine "))
		for _, l := range strings.Split(string(out), "\n") {
			if crashed && (strings.HasPrefix(l, "\t") || strings.HasPrefix(l, "goroutine") || strings.HasPrefix(l, "cmd/") || strings.HasPrefix(l, "main.")) {
				continue
			}
			m := c05LineRe.FindStringSubmatch(l)
			if m == nil {
				continue
			}
			n, _ := strconv.Atoi(m[1])
			if c := owner[n]; c != nil {
				if _, seen := bad[c]; !seen {
					bad[c] = c05CleanMsg(l)
				}
			}
		}
		if len(bad) == 0 {
			// no position: bisect
			if len(alive) == 1 {
				return a.single(tag+"_s", alive[0])
			}
			a.mu.Lock()
			a.bisects++
			a.mu.Unlock()
			h := len(alive) / 2
			if err := a.assemble(tag+"a", alive[:h]); err != nil {
				return err
			}
			return a.assemble(tag+"b", alive[h:])
		}
		// The position the assembler prints is not always the culprit's (an undefined label is
		// reported again at every later jump): every suspect is assembled once more on its own.
		var next []*c05Case
		for k, c := range alive {
			if _, isBad := bad[c]; isBad {
				if err := a.single(fmt.Sprintf("%s_%d_s%d", tag, attempt, k), c); err != nil {
					return err
				}
			} else {
				next = append(next, c)
			}
		}
		alive = next
	}
	if len(alive) > 0 {
		return fmt.Errorf("assembler still failing after 40 attempts (%s)", tag)
	}
	return nil
}

// single assembles one instruction on its own: accepted (machine code read back) or rejected with the assembler's message.
func (a *c05Asm) single(tag string, c *c05Case) error {
	text, _, err := c05Print([]*c05Case{c})
	if err != nil {
		return err
	}
	base := filepath.Join(a.dir, tag)
	if err := os.WriteFile(base+".s", text, 0o644); err != nil {
		return err
	}
	cmd := exec.Command("go", "tool", "asm", "-I", filepath.Join(a.goroot, "pkg", "include"), "-p", "p", "-o", base+".o", base+".s")
	cmd.Env = envForGo()
	out, runErr := cmd.CombinedOutput()
	a.mu.Lock()
	a.runs++
	a.mu.Unlock()
	os.Remove(base + ".s")
	if runErr == nil {
		return a.readback(base, []*c05Case{c})
	}
	c.status = "rejected"
	c.errmsg = c05CleanMsg(c05FirstLine(string(out)))
	return nil
}

func c05FirstLine(s string) string {
	for _, l := range strings.Split(s, "\n") {
		if strings.TrimSpace(l) != "" {
			return l
		}
	}
	return "no-output"
}

var c05PosRe = regexp.MustCompile(`\S*\.s:\d+:?\s*|\(\S*\.s:\d+\)|^asm: |\b\d{5}\b`)

// c05CleanMsg removes positions from an assembler message and collapses blanks.
func c05CleanMsg(l string) string {
	l = c05PosRe.ReplaceAllString(l, "")
	return strings.Join(strings.Fields(l), " ")
}

// readback reads the machine code of every symbol from `go tool objdump`.
func (a *c05Asm) readback(base string, cases []*c05Case) error {
	cmd := exec.Command("go", "tool", "objdump", base+".o")
	cmd.Env = envForGo()
	out, err := cmd.Output()
	if err != nil {
		return fmt.Errorf("go tool objdump: %v", err)
	}
	byName := map[string]*c05Case{}
	for _, c := range cases {
		byName["p.f"+strconv.Itoa(c.id)] = c
		c.code = nil
		c.relocs = nil
	}
	var cur *c05Case
	for _, l := range strings.Split(string(out), "\n") {
		if strings.HasPrefix(l, "TEXT ") {
			name := strings.TrimPrefix(l, "TEXT ")
			if j := strings.Index(name, "(SB)"); j >= 0 {
				name = name[:j]
			}
			cur = byName[name]
			continue
		}
		if cur == nil {
			continue
		}
		var fs []string
		for _, f := range strings.Split(l, "\t") {
			if strings.TrimSpace(f) != "" {
				fs = append(fs, strings.TrimSpace(f))
			}
		}
		if len(fs) < 3 || !strings.HasPrefix(fs[1], "0x") {
			continue
		}
		b, err := hex.DecodeString(fs[2])
		if err != nil {
			return fmt.Errorf("go tool objdump: unexpected line %q", l)
		}
		off := len(cur.code)
		cur.code = append(cur.code, b...)
		for _, f := range fs[3:] {
			if strings.HasPrefix(f, "[") && strings.Contains(f, "]R_") {
				// [3:7]R_PCREL:data<1>+16 (positions relative to the row): make them relative to the symbol
				var lo, hi int
				var rest string
				if n, _ := fmt.Sscanf(f, "[%d:%d]%s", &lo, &hi, &rest); n == 3 {
					cur.relocs = append(cur.relocs, fmt.Sprintf("%d:%d:%s", off+lo, off+hi, rest))
				}
			}
		}
	}
	for _, c := range cases {
		if c.tail {
			// PREFETCHNTA (AX) = 0f 18 00 behind the instruction under test
			if n := len(c.code); n > 3 && c.code[n-3] == 0x0f && c.code[n-2] == 0x18 && c.code[n-1] == 0x00 {
				c.code = c.code[:n-3]
			} else {
				c.code = nil
				c.status = "rejected"
				c.errmsg = "second instruction of the block missing from the machine code"
				continue
			}
		}
		if len(c.code) == 0 {
			c.status = "rejected"
			c.errmsg = "no machine code in object file"
		} else {
			c.status = "ok"
		}
	}
	os.Remove(base + ".o")
	return nil
}

var c05DisRe = regexp.MustCompile(`^\s*([0-9a-f]+):\t([0-9a-f ]+?)\s*(?:\t(.*))?$`)

// disassemble decodes all assembled cases with binutils objdump: the code of
// each symbol is placed in a flat file followed by 15 one-byte NOPs, so that a
// decoding error cannot run into the next instruction.
func (a *c05Asm) disassemble(tag string, cases []*c05Case) error {
	var blob []byte
	starts := map[int]*c05Case{}
	ends := map[*c05Case]int{}
	for _, c := range cases {
		if c.status != "ok" {
			continue
		}
		starts[len(blob)] = c
		c.blobBase = len(blob)
		blob = append(blob, c.code...)
		ends[c] = len(blob)
		blob = append(blob, bytes.Repeat([]byte{0x90}, 15)...)
		c.dis = nil
	}
	if len(blob) == 0 {
		return nil
	}
	path := filepath.Join(a.dir, tag+".bin")
	if err := os.WriteFile(path, blob, 0o644); err != nil {
		return err
	}
	out, err := exec.Command("objdump", "-D", "-w", "-b", "binary", "-mi386:x86-64", "-M", "intel", path).Output()
	if err != nil {
		return fmt.Errorf("objdump: %v", err)
	}
	var cur *c05Case
	for _, l := range strings.Split(string(out), "\n") {
		m := c05DisRe.FindStringSubmatch(l)
		if m == nil {
			continue
		}
		addr, _ := strconv.ParseInt(m[1], 16, 64)
		if c := starts[int(addr)]; c != nil {
			cur = c
		}
		if cur == nil || int(addr) >= ends[cur] {
			continue
		}
		n := len(strings.Fields(m[2]))
		cur.dis = append(cur.dis, fmt.Sprintf("%d|%d|%s", int(addr)-(ends[cur]-len(cur.code)), n, strings.TrimSpace(m[3])))
	}
	os.Remove(path)
	return nil
}

// xdecode adds the x86asm view where it decodes the complete instruction.
func c05XDecode(c *c05Case) {
	c.xdis, c.xmem = "", 0
	code := c.code
	if c.label != "" && len(code) > 1 && code[len(code)-1] == 0xc3 {
		code = code[:len(code)-1]
	}
	if len(code) == 0 || code[0] == 0xc4 || code[0] == 0xc5 || code[0] == 0x62 {
		return // VEX/EVEX: x86asm knows only a handful of them and misreads the rest
	}
	inst, err := x86asm.Decode(code, 64)
	if err != nil || inst.Len != len(code) || inst.Op == 0 {
		return
	}
	c.xdis = x86asm.IntelSyntax(inst, 0, nil)
	c.xmem = inst.MemBytes
}
