package main

import "fmt"

// C18, data placements at scale.  Whether a placement overlaps an earlier one is
// a question about bytes, whatever their position; an implementation that keeps
// the occupied bytes in words, pages or sorted runs has boundaries of its own
// (64, 128, 256, 4096 …) that a generator staying below offset 60 never crosses.
// Here data straddle every kind of boundary, are placed back to front and
// interleaved, and collide in the last byte / the first byte / only beyond a
// boundary of the earlier or of the later datum.  The judge is the model's byte
// arithmetic (Glob.overlapsAny; theorems addDatum_fault_iff, overlaps_shift, data_disjoint).

var c18dataBounds = []int{8, 16, 32, 64, 128, 192, 256, 320, 384, 448, 512, 1024, 2048, 4096, 8192, 63, 65, 127, 129, 255, 257, 4095, 4097}

var c18dataMods = []int{64, 128, 256, 4096}

// placeDatum: AddDatum(off, v) with a constant of the given size, recorded; classifies
// the placement relative to the data already in the section (statistics only).
func (h *c18hist) placeDatum(off, size int) {
	v := h.constOf(size)
	h.noteDatum(off, size)
	h.op("datum", itoa(off), itoa(size))
	h.call("AddDatum", func() { h.a.AddDatum(off, v) })
	if !h.overlapsAny(off, size) {
		h.addData(off, size)
	}
	h.stats["datum"]++
}

func (h *c18hist) noteDatum(off, size int) {
	if !h.haveGlob {
		return
	}
	end := off + size
	if size > 0 {
		for _, m := range c18dataMods {
			if off/m != (end-1)/m {
				h.stats[fmt.Sprintf("datum_straddles_%d", m)]++
			}
		}
		if size > 64 {
			h.stats["datum_longer_than_64"]++
		}
		h.stats[fmt.Sprintf("datum_start_residue64_%d", (off%64)/8)]++
	}
	if off >= 4096 {
		h.stats["datum_offset_from_4096"]++
	}
	// the earlier non-empty data this one shares bytes with
	var hits [][2]int
	for _, d := range h.data {
		if d[1] > 0 && size > 0 && !(d[0]+d[1] <= off || end <= d[0]) {
			hits = append(hits, d)
		}
	}
	if len(hits) == 0 {
		lowest := -1
		for _, d := range h.data {
			if lowest < 0 || d[0] < lowest {
				lowest = d[0]
			}
		}
		if lowest >= 0 && end <= lowest && size > 0 {
			h.stats["datum_placed_below_all"]++
		}
		return
	}
	h.stats["datum_overlap"]++
	if len(hits) != 1 {
		return
	}
	d := hits[0]
	lo, hi := max(off, d[0]), min(end, d[0]+d[1])
	if hi-lo == 1 {
		if lo == d[0]+d[1]-1 {
			h.stats["datum_overlap_last_byte_only"]++
		}
		if lo == d[0] {
			h.stats["datum_overlap_first_byte_only"]++
		}
	}
	if off < d[0] && end > d[0]+d[1] {
		h.stats["datum_overlap_contains"]++
	}
	for _, m := range c18dataMods {
		// first multiple of m strictly inside the earlier datum / the new one
		if b := (d[0]/m + 1) * m; b < d[0]+d[1] {
			if lo >= b {
				h.stats[fmt.Sprintf("datum_overlap_only_beyond_%d_of_earlier", m)]++
			} else if hi <= b {
				h.stats[fmt.Sprintf("datum_overlap_only_before_%d_of_earlier", m)]++
			}
		}
		if b := (off/m + 1) * m; b < end {
			if lo >= b {
				h.stats[fmt.Sprintf("datum_overlap_only_beyond_%d_of_new", m)]++
			} else if hi <= b {
				h.stats[fmt.Sprintf("datum_overlap_only_before_%d_of_new", m)]++
			}
		}
	}
}

func (h *c18hist) bigSize() int {
	r := h.r
	switch r.intn(4) {
	case 0:
		return 1 + r.intn(300) // a string
	case 1:
		return pick(r, []int{63, 64, 65, 127, 128, 129, 16, 32, 100, 256})
	}
	return 1 << r.intn(4)
}

// genDatumBoundary: one placement relative to a boundary (valid) or aimed at a
// particular part of an earlier datum (bad).
func (h *c18hist) genDatumBoundary(bad bool) {
	r := h.r
	size := h.bigSize()
	off := h.gsize
	if bad && len(h.data) > 0 {
		m := pick(r, c18dataMods)
		d := pick(r, h.data)
		// prefer an earlier datum that crosses a multiple of m
		for tries := 0; tries < 12 && (d[1] == 0 || d[0]/m == (d[0]+d[1]-1)/m); tries++ {
			d = pick(r, h.data)
		}
		end := d[0] + d[1]
		b := (d[0]/m + 1) * m // first multiple of m above the start of d
		switch k := r.intn(7); {
		case d[1] == 0:
			off, size = max(d[0]-1, 0), 2+r.intn(8)
		case k == 0: // its last byte only
			off = end - 1
		case k == 1: // its first byte only
			off = max(d[0]-size+1, 0)
		case k == 2 && b < end: // only bytes beyond the boundary inside it
			off = b + r.intn(end-b)
		case k == 3 && b < end: // only bytes before that boundary
			size = 1 + r.intn(min(b-d[0], 8))
			off = b - size - r.intn(b-d[0]-size+1)
		case k == 4: // it lies inside the new one
			off, size = max(d[0]-1-r.intn(3), 0), d[1]+2+r.intn(70)
		case k == 5: // the same bytes
			off, size = d[0], d[1]
		default: // a new datum crossing a multiple of m whose part beyond it meets the earlier one
			m = pick(r, c18dataMods)
			for tries := 0; tries < 12 && d[0] < m; tries++ {
				d = pick(r, h.data)
			}
			if b := d[0] / m * m; b > 0 && d[1] > 0 {
				off = b - 1 - r.intn(7)
				size = d[0] - off + 1 + r.intn(d[1])
			} else {
				if size < 2 {
					size = 8
				}
				off = max(d[0]-1-r.intn(size-1), 0)
			}
		}
		h.stats["datum_boundary_bad"]++
		h.placeDatum(off, size)
		return
	}
	for tries := 0; tries < 10; tries++ {
		b := pick(r, c18dataBounds)
		if r.chance(1, 3) {
			b = 64 * (1 + r.intn(70))
		}
		switch r.intn(5) {
		case 0: // ends at the boundary
			off = b - size
		case 1: // starts at it
			off = b
		case 2: // any residue
			off = b + r.intn(64)
		case 3: // back to front: just below everything placed so far
			lowest := h.gsize
			for _, d := range h.data {
				lowest = min(lowest, d[0])
			}
			off = lowest - size - r.intn(3)
		default: // crosses it
			if size < 2 {
				size = 2 + r.intn(7)
			}
			off = b - 1 - r.intn(size-1)
		}
		if off >= 0 && !h.overlapsAny(off, size) {
			h.stats["datum_boundary_valid"]++
			h.placeDatum(off, size)
			return
		}
	}
	h.placeDatum(h.gsize, size)
}

// ---- a deterministic sweep: one section, one earlier datum A across a boundary, one later datum X
// (or the other way round) at each of the characteristic distances.

type c18dataCase struct {
	aOff, aSize, xOff, xSize int
	xFirst                   bool
}

func c18dataSweep() []c18dataCase {
	var out []c18dataCase
	for _, b := range []int{64, 128, 192, 256, 512, 1024, 4096} {
		for _, as := range []int{2, 4, 8, 12, 100, 130} {
			for _, j := range []int{1, as / 2, as - 1} {
				a0 := b - j
				if a0 < 0 {
					continue
				}
				aEnd := a0 + as
				for _, xs := range []int{1, 4, 8, 70} {
					for _, x0 := range []int{a0 - xs, a0 - xs + 1, b - 1, b, aEnd - 1, aEnd, b - xs, a0} {
						if x0 < 0 {
							continue
						}
						out = append(out, c18dataCase{a0, as, x0, xs, false}, c18dataCase{a0, as, x0, xs, true})
					}
				}
			}
		}
	}
	return out
}

func c18dataScript(c c18dataCase) func(h *c18hist) {
	return func(h *c18hist) {
		h.scriptGlob()
		if c.xFirst {
			h.placeDatum(c.xOff, c.xSize)
			h.placeDatum(c.aOff, c.aSize)
		} else {
			h.placeDatum(c.aOff, c.aSize)
			h.placeDatum(c.xOff, c.xSize)
		}
		h.stats["datum_sweep"]++
	}
}
