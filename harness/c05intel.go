package main

import (
	"fmt"
	"regexp"
	"strconv"
	"strings"
)

// ---------------------------------------------------------------------------
// Canonicaliser for binutils objdump's Intel syntax: one instruction text →
// "<mnemonic> <n> <arg>…" with
//   R:<reg>                                  register
//   M:<bytes>:<seg|->:<base|->:<index|->:<scale>:<disp>[:b]   memory (bytes 0 = not reported; :b = broadcast)
//   I:<unsigned decimal>                     immediate as printed (already extended to the operation size)
//   J:<signed decimal>                       branch target relative to the end of the instruction
//   K:<kreg>  Z  E:<rounding>                EVEX decorations, placed behind the operand they are attached to
// Prefix words are joined to the mnemonic with '+' (lock+add).
// ---------------------------------------------------------------------------

var c05PrefixWords = map[string]bool{
	"lock": true, "rep": true, "repz": true, "repnz": true, "repe": true, "repne": true, "data16": true, "addr32": true,
	"bnd": true, "notrack": true, "xacquire": true, "xrelease": true, "cs": true, "ds": true, "es": true, "fs": true, "gs": true, "ss": true,
	"rex.W": true, "rex.R": true, "rex.X": true, "rex.B": true, "rex": true, "rex.WR": true, "rex.WB": true, "rex.WX": true, "rex.RB": true,
	"rex.RX": true, "rex.XB": true, "rex.WRX": true, "rex.WRB": true, "rex.WXB": true, "rex.RXB": true, "rex.WRXB": true,
}

var c05PtrBytes = map[string]int{
	"BYTE": 1, "WORD": 2, "DWORD": 4, "FWORD": 6, "QWORD": 8, "TBYTE": 10, "OWORD": 16, "XMMWORD": 16, "YMMWORD": 32, "ZMMWORD": 64,
}

var c05CmpPreds = []string{"eq", "lt", "le", "unord", "neq", "nlt", "nle", "ord", "eq_uq", "nge", "ngt", "false", "neq_oq", "ge", "gt", "true",
	"eq_os", "lt_oq", "le_oq", "unord_s", "neq_us", "nlt_uq", "nle_uq", "ord_s", "eq_us", "nge_uq", "ngt_uq", "false_os", "neq_os", "ge_oq", "gt_oq", "true_us"}

var (
	c05CmpRe    = regexp.MustCompile(`^(v?)cmp([a-z_]+?)(ps|pd|ss|sd|ph|sh)$`)
	c05VpcmpRe  = regexp.MustCompile(`^vpcmp(eq|lt|le|neq|nlt|nle)(u?)(b|w|d|q)$`)
	c05PclmulRe = regexp.MustCompile(`^(v?)pclmul(l|h)q(l|h)qdq$`)
	c05BraceRe  = regexp.MustCompile(`\{[^}]*\}`)
	c05JumpRe   = regexp.MustCompile(`^(j[a-z]+|call|loop|loope|loopne|jrcxz|jecxz|xbegin)$`)
)

// c05ParseIntel canonicalises one objdump line. addrEnd is the offset of the
// end of the instruction within its symbol (branch targets are made relative to it);
// symBase is the absolute address objdump used for offset 0 of the symbol.
func c05ParseIntel(text string, symBase, addrEnd int, code []byte) (string, error) {
	if i := strings.Index(text, "#"); i >= 0 {
		text = text[:i]
	}
	if i := strings.Index(text, "<"); i >= 0 { // symbolic target annotation
		text = text[:i]
	}
	text = strings.TrimSpace(text)
	// encoding pseudo-prefixes objdump prints in front of some instructions
	for strings.HasPrefix(text, "{") {
		j := strings.Index(text, "}")
		if j < 0 {
			break
		}
		text = strings.TrimSpace(text[j+1:])
	}
	if text == "" || strings.Contains(text, "(bad)") {
		return "", fmt.Errorf("undecodable: %q", text)
	}
	// mnemonic with prefix words
	var mn []string
	rest := text
	for {
		rest = strings.TrimLeft(rest, " \t")
		j := strings.IndexAny(rest, " \t")
		w := rest
		if j >= 0 {
			w = rest[:j]
		}
		mn = append(mn, w)
		if j < 0 {
			rest = ""
			break
		}
		rest = rest[j:]
		if !c05PrefixWords[w] {
			break
		}
	}
	rest = strings.TrimSpace(rest)
	mnem := mn[len(mn)-1]
	var args []string
	if rest != "" {
		for _, a := range strings.Split(rest, ",") {
			toks, err := c05ParseIntelArg(strings.TrimSpace(a), mnem, symBase, addrEnd)
			if err != nil {
				return "", fmt.Errorf("%v in %q", err, text)
			}
			args = append(args, toks...)
		}
	}
	// pseudo-ops that hide an immediate (objdump's predicate tables are not injective:
	// the immediate itself is the last byte of the instruction)
	var extra string
	last := 0
	if addrEnd >= 1 && addrEnd <= len(code) {
		last = int(code[addrEnd-1])
	}
	if m := c05CmpRe.FindStringSubmatch(mnem); m != nil && m[2] != "" {
		for _, p := range c05CmpPreds {
			if p == m[2] {
				mnem = m[1] + "cmp" + m[3]
				extra = "I:" + strconv.Itoa(last)
			}
		}
	} else if m := c05PclmulRe.FindStringSubmatch(mnem); m != nil {
		mnem = m[1] + "pclmulqdq"
		extra = "I:" + strconv.Itoa(last)
	}
	if extra != "" {
		args = append(args, extra)
	}
	mn[len(mn)-1] = mnem
	n := 0
	for _, a := range args {
		if a[0] == 'R' || a[0] == 'M' || a[0] == 'I' || a[0] == 'J' {
			n++
		}
	}
	out := []string{strings.Join(mn, "+"), strconv.Itoa(len(args))}
	_ = n
	return strings.Join(append(out, args...), " "), nil
}

func c05ParseIntelArg(a, mnem string, symBase, addrEnd int) ([]string, error) {
	var deco []string
	for _, b := range c05BraceRe.FindAllString(a, -1) {
		in := b[1 : len(b)-1]
		switch {
		case in == "z":
			deco = append(deco, "Z")
		case len(in) == 2 && in[0] == 'k':
			deco = append(deco, "K:"+in)
		case strings.HasPrefix(in, "1to"):
			deco = append(deco, "B:"+in)
		default:
			deco = append(deco, "E:"+in)
		}
	}
	a = strings.TrimSpace(c05BraceRe.ReplaceAllString(a, ""))
	if a == "" {
		// a bare decoration operand ({sae} / {rn-sae} as its own operand)
		return deco, nil
	}
	if lb := strings.Index(a, "["); lb >= 0 || strings.Contains(a, ":0x") || strings.Contains(a, " PTR ") {
		return c05ParseIntelMem(a, deco)
	}
	if a[0] >= '0' && a[0] <= '9' {
		v, err := strconv.ParseUint(strings.TrimPrefix(a, "0x"), c05Base(a), 64)
		if err != nil {
			return nil, fmt.Errorf("bad number %q", a)
		}
		if c05JumpRe.MatchString(mnem) {
			return append([]string{"J:" + strconv.FormatInt(int64(v)-int64(symBase)-int64(addrEnd), 10)}, deco...), nil
		}
		return append([]string{"I:" + strconv.FormatUint(v, 10)}, deco...), nil
	}
	if strings.ContainsAny(a, " +*") {
		return nil, fmt.Errorf("unparsed operand %q", a)
	}
	return append([]string{"R:" + a}, deco...), nil
}

func c05Base(a string) int {
	if strings.HasPrefix(a, "0x") {
		return 16
	}
	return 10
}

func c05ParseIntelMem(a string, deco []string) ([]string, error) {
	width, seg, base, index, scale, disp, bcst := 0, "-", "-", "-", 1, int64(0), false
	head, inner := a, ""
	if lb := strings.Index(a, "["); lb >= 0 {
		rb := strings.LastIndex(a, "]")
		if rb < lb {
			return nil, fmt.Errorf("bad memory operand %q", a)
		}
		head, inner = strings.TrimSpace(a[:lb]), a[lb+1:rb]
	}
	for _, w := range strings.Fields(head) {
		switch {
		case c05PtrBytes[w] != 0:
			width = c05PtrBytes[w]
		case w == "PTR":
		case w == "BCST":
			bcst = true
		case strings.Contains(w, ":"):
			// seg: or seg:0xabs
			p := strings.SplitN(w, ":", 2)
			seg = p[0]
			if p[1] != "" {
				v, err := strconv.ParseUint(strings.TrimPrefix(p[1], "0x"), c05Base(p[1]), 64)
				if err != nil {
					return nil, fmt.Errorf("bad absolute address %q", a)
				}
				disp = int64(v)
			}
		default:
			return nil, fmt.Errorf("unknown memory qualifier %q in %q", w, a)
		}
	}
	if inner != "" {
		// terms separated by + or -
		sign := int64(1)
		term := ""
		flush := func() error {
			t := strings.TrimSpace(term)
			term = ""
			if t == "" {
				return nil
			}
			switch {
			case t[0] >= '0' && t[0] <= '9':
				v, err := strconv.ParseUint(strings.TrimPrefix(t, "0x"), c05Base(t), 64)
				if err != nil {
					return fmt.Errorf("bad displacement %q", t)
				}
				disp += sign * int64(v)
			case strings.Contains(t, "*"):
				p := strings.SplitN(t, "*", 2)
				s, err := strconv.Atoi(p[1])
				if err != nil {
					return fmt.Errorf("bad scale %q", t)
				}
				index, scale = p[0], s
			case base == "-":
				base = t
			case index == "-":
				index = t
			default:
				return fmt.Errorf("too many registers in %q", a)
			}
			return nil
		}
		for _, ch := range inner {
			if ch == '+' || ch == '-' {
				if err := flush(); err != nil {
					return nil, err
				}
				sign = 1
				if ch == '-' {
					sign = -1
				}
				continue
			}
			term += string(ch)
		}
		if err := flush(); err != nil {
			return nil, err
		}
	}
	tok := fmt.Sprintf("M:%d:%s:%s:%s:%d:%d", width, seg, base, index, scale, disp)
	if bcst {
		tok += ":b"
	}
	return append([]string{tok}, deco...), nil
}
