package main

import (
	"fmt"
	"strings"

	"github.com/mmcloughlin/avo/ir"
	"github.com/mmcloughlin/avo/operand"
	"github.com/mmcloughlin/avo/pass"
	"github.com/mmcloughlin/avo/reg"
	"github.com/mmcloughlin/avo/x86"
)

// c10Enc encodes nodes with instruction uids (position among the original instructions).
func c10Enc(nodes []ir.Node, uid map[*ir.Instruction]int) string {
	parts := []string{itoa(len(nodes))}
	for _, n := range nodes {
		switch n := n.(type) {
		case ir.Label:
			parts = append(parts, "L", hexs(string(n)))
		case *ir.Comment:
			parts = append(parts, "C")
		case *ir.Instruction:
			lbl := "-"
			if len(n.Operands) > 0 {
				if ref, ok := n.Operands[0].(operand.LabelRef); ok {
					lbl = "=" + hexs(string(ref))
				}
			}
			// suffixes travel inside the opcode token (VMOVDQU32.Z): a zeroing-masked move is another instruction
			opc := n.Opcode
			if len(n.Suffixes) > 0 {
				opc += "." + strings.Join(n.Suffixes, ".")
			}
			parts = append(parts, "I", itoa(uid[n]), b01(n.IsBranch), b01(n.IsConditional), b01(n.IsTerminal), lbl, opc, itoa(len(n.Operands)))
			for k, op := range n.Operands {
				if r, ok := op.(reg.Register); ok {
					parts = append(parts, "R", encReg(r))
				} else {
					parts = append(parts, "O", itoa(k))
				}
			}
		}
	}
	return strings.Join(parts, " ")
}

func c10EncResult(nodes []ir.Node, uid map[*ir.Instruction]int) string {
	parts := []string{itoa(len(nodes))}
	for _, n := range nodes {
		switch n := n.(type) {
		case ir.Label:
			parts = append(parts, "L", hexs(string(n)))
		case *ir.Comment:
			parts = append(parts, "C")
		case *ir.Instruction:
			parts = append(parts, "I", itoa(uid[n]))
		}
	}
	return strings.Join(parts, " ")
}

// c10NBRef reports whether some label defined in the function is the operand of a non-branch instruction
// (CALL label): the inputs on which finding F10b (PruneDanglingLabels counts branch references only) can show.
func c10NBRef(nodes []ir.Node) bool {
	defined := map[string]bool{}
	byOther := map[string]bool{}
	for _, n := range nodes {
		switch n := n.(type) {
		case ir.Label:
			defined[string(n)] = true
		case *ir.Instruction:
			if len(n.Operands) > 0 && !n.IsBranch {
				if ref, ok := n.Operands[0].(operand.LabelRef); ok {
					byOther[string(ref)] = true
				}
			}
		}
	}
	for l := range byOther {
		if defined[l] {
			return true
		}
	}
	return false
}

type c10Out struct {
	o     *out // acceptor requests (judged: a mismatch is a concrete violation)
	exact *out // line-by-line comparison with the model passes (informational, see vlib/props/c10.py)
	stats map[string]int
	tag   string // when set: prefix of the statistics keys instead of the pass name (the request keeps the pass name)
}

// c10Judge emits the requests for one run of a pass: orig = the nodes before (with the operands the instructions
// have NOW, i.e. after register binding for the `compile` stream), fn.Nodes = the nodes after.
func (c *c10Out) judge(passName string, orig []ir.Node, uid map[*ir.Instruction]int, fn *ir.Function, err error, panicked bool) {
	req := c10Enc(orig, uid)
	resp := ""
	switch {
	case panicked:
		resp = "panic"
	case err != nil:
		resp = "err"
	default:
		resp = c10EncResult(fn.Nodes, uid)
	}
	stats := c.stats
	reqPass := passName
	if c.tag != "" {
		passName = c.tag
	}
	if err == nil && len(fn.Nodes) < len(orig) {
		stats[passName+"_changed"]++
		kept := map[ir.Node]bool{}
		for _, n := range fn.Nodes {
			if i, ok := n.(*ir.Instruction); ok {
				kept[i] = true
			}
		}
		nl := 0
		for _, n := range fn.Nodes {
			if _, ok := n.(ir.Label); ok {
				nl++
			}
		}
		for _, n := range orig {
			switch n := n.(type) {
			case *ir.Instruction:
				if !kept[n] {
					stats[passName+"_deleted_instr"]++
					stats["deleted_opcode:"+n.Opcode]++
				}
			case ir.Label:
				nl--
			}
		}
		stats[passName+"_deleted_labels"] -= nl
	}
	stats[passName]++
	nb := "nbref=0"
	if c10NBRef(orig) {
		nb = "nbref=1"
		stats[passName+"_nbref"]++
	}
	c.exact.emit("cleanup "+reqPass+" "+req, resp)
	c.o.emit("accept-cleanup "+reqPass+" "+nb+" "+req+" => "+resp, "ok")
}

func (c *c10Out) run(passName string, fn *ir.Function, p func(*ir.Function) error) {
	uid := map[*ir.Instruction]int{}
	for k, i := range fn.Instructions() {
		uid[i] = k
	}
	orig := append([]ir.Node(nil), fn.Nodes...)
	err, panicked := safely(func() error { return p(fn) })
	c.judge(passName, orig, uid, fn, err, panicked)
}

// c10Decorate rebuilds fn with extra nodes that the shared generator never produces: `CALL label` (a non-branch
// instruction carrying a label reference: to a label some branch uses too, to a label nothing else refers to, to an
// undefined label), a conditional jump directly in front of its label, comments between a jump and its label.
func c10Decorate(r *rng, fn *ir.Function, stats map[string]int) *ir.Function {
	var labels []string
	for _, n := range fn.Nodes {
		if l, ok := n.(ir.Label); ok {
			labels = append(labels, string(l))
		}
	}
	out := ir.NewFunction("f")
	ncall := 0
	if r.chance(1, 2) {
		ncall = 1 + r.intn(2)
	}
	callAt := map[int]bool{}
	for k := 0; k < ncall; k++ {
		callAt[r.intn(len(fn.Nodes)+1)] = true
	}
	addCall := func() {
		l := "nowhere"
		if len(labels) > 0 && !r.chance(1, 8) {
			l = pick(r, labels)
		}
		if c, _ := x86.VerifBuild("CALL", nil, []operand.Op{operand.LabelRef(l)}); c != nil {
			out.AddInstruction(c)
			stats["call_label"]++
		}
	}
	for k, n := range fn.Nodes {
		if callAt[k] {
			addCall()
		}
		if l, ok := n.(ir.Label); ok && r.chance(1, 10) {
			if j, _ := x86.VerifBuild(pick(r, []string{"JNE", "JEQ", "JCS"}), nil, []operand.Op{operand.LabelRef(string(l))}); j != nil {
				out.AddInstruction(j)
				stats["jcc_before_label"]++
				if r.chance(1, 4) {
					out.AddComment("between")
				}
			}
		}
		out.AddNode(n)
	}
	if callAt[len(fn.Nodes)] {
		addCall()
	}
	return out
}

// c10SelfMoveFunc builds a function full of register-to-register moves, many of them self-moves.
func c10SelfMoveFunc(r *rng) *ir.Function {
	fn := ir.NewFunction("f")
	gp := []reg.Register{reg.RAX, reg.RCX, reg.RBX, reg.RSI, reg.R9, reg.R13, reg.RBP}
	n := 1 + r.intn(14)
	var placed []string
	for k := 0; k < n; k++ {
		a := pick(r, gp)
		b := a
		if r.chance(1, 3) {
			b = pick(r, gp)
		}
		var inst *ir.Instruction
		switch r.intn(9) {
		case 0:
			s := pick(r, []reg.Spec{reg.S8L, reg.S8H})
			if s == reg.S8H {
				a, b = pick(r, gp[:3]), a
				if r.chance(2, 3) {
					b = a
				} else {
					b = pick(r, gp[:3])
				}
				s2 := reg.S8H
				if r.chance(1, 3) {
					s2 = reg.S8L // AL vs AH of the same register: not a self move
				}
				inst, _ = x86.VerifBuild("MOVB", nil, []operand.Op{asSpec(a, s), asSpec(b, s2)})
			} else {
				inst, _ = x86.VerifBuild("MOVB", nil, []operand.Op{asSpec(a, s), asSpec(b, s)})
			}
		case 1:
			inst, _ = x86.VerifBuild("MOVW", nil, []operand.Op{asSpec(a, reg.S16), asSpec(b, reg.S16)})
		case 2:
			inst, _ = x86.VerifBuild("MOVL", nil, []operand.Op{asSpec(a, reg.S32), asSpec(b, reg.S32)})
		case 3, 4:
			inst, _ = x86.VerifBuild("MOVQ", nil, []operand.Op{a, b})
		case 5:
			x := physVec(r.intn(4))
			y := x
			if r.chance(1, 3) {
				y = physVec(r.intn(4))
			}
			inst, _ = x86.VerifBuild(pick(r, []string{"MOVQ", "MOVQ", "MOVOU", "MOVAPS", "MOVUPD", "MOVSD", "VMOVDQU", "VMOVAPS"}), nil, []operand.Op{x, y})
		case 6:
			inst, _ = x86.VerifBuild("MOVQ", nil, []operand.Op{operand.Mem{Base: a}, a})
		case 7:
			inst, _ = x86.VerifBuild("ADDQ", nil, []operand.Op{a, a})
		default:
			inst, _ = x86.VerifBuild("MOVQ", nil, []operand.Op{operand.U64(1), a})
		}
		if inst == nil {
			inst, _ = x86.VerifBuild("NOP", nil, nil)
		}
		if r.chance(1, 6) {
			l := fmt.Sprintf("m%d", k)
			fn.AddLabel(ir.Label(l))
			placed = append(placed, l)
		}
		fn.AddInstruction(inst)
		if len(placed) > 0 && r.chance(1, 8) {
			// a backward branch: the deleted moves then sit inside loops and behind branch targets
			if j, _ := x86.VerifBuild(pick(r, []string{"JNE", "JMP", "JCS"}), nil, []operand.Op{operand.LabelRef(pick(r, placed))}); j != nil {
				fn.AddInstruction(j)
			}
		}
	}
	if r.chance(4, 5) {
		ret, _ := x86.VerifBuild("RET", nil, nil)
		fn.AddInstruction(ret)
	}
	return fn
}

func init() {
	register("c10", "clean-up passes on generated node lists", func(args []string) error {
		f := newStdFlags("c10")
		if err := f.fs.Parse(args); err != nil {
			return err
		}
		db, err := loadForms(*f.repo)
		if err != nil {
			return err
		}
		o, err := openOut(f)
		if err != nil {
			return err
		}
		defer o.close()
		xf := *f
		xops, ximpl := *f.ops+".exact", *f.impl+".exact"
		xf.ops, xf.impl = &xops, &ximpl
		xo, err := openOut(&xf)
		if err != nil {
			return err
		}
		defer xo.close()
		r := newRng(*f.seed)
		stats := map[string]int{}
		c := &c10Out{o: o, exact: xo, stats: stats}
		for k := 0; k < *f.n; k++ {
			mk := func(rr *rng) *ir.Function {
				cfg := genCfg{minInstr: 1, maxInstr: 3 + rr.intn(16), nGP: 2, physPct: 60, branchPct: 45,
					malformed: rr.chance(1, 8), jumpBeforeLabelPct: 40, opcodes: []string{"NOP", "ADDQ", "MOVQ"}}
				fn := newFgen(rr, db, cfg).generate()
				return c10Decorate(rr, fn, stats)
			}
			sub := r.fork()
			seed := sub.s
			c.run("jumps", mk(&rng{s: seed}), pass.PruneJumpToFollowingLabel)
			c.run("labels", mk(&rng{s: seed}), pass.PruneDanglingLabels)
			// as in Compile: jumps, then labels on the result
			fn := mk(&rng{s: seed})
			if err, _ := safely(func() error { return pass.PruneJumpToFollowingLabel(fn) }); err == nil {
				c.run("labels", fn, pass.PruneDanglingLabels)
			}
			c.run("selfmoves", c10SelfMoveFunc(r.fork()), pass.PruneSelfMoves)
		}
		// every node sequence up to length 4 over a small alphabet, through the two label passes and their composition
		enumLen := 4
		if *f.tier == "thorough" {
			enumLen = 5
		}
		alphabet := c09Syms("La", "Lb", "C", "NOP", "RET", "JMPa", "JNEa", "JMPb", "CALLa")
		for _, pn := range []string{"jumps", "labels", "jumps+labels"} {
			pn := pn
			c09Enumerate(alphabet, 0, enumLen, func(fn *ir.Function) {
				stats["enum"]++
				switch pn {
				case "jumps":
					c.run("jumps", fn, pass.PruneJumpToFollowingLabel)
				case "labels":
					c.run("labels", fn, pass.PruneDanglingLabels)
				default:
					c.run("compile", fn, func(fn *ir.Function) error {
						if err := pass.PruneJumpToFollowingLabel(fn); err != nil {
							return err
						}
						return pass.PruneDanglingLabels(fn)
					})
				}
			})
		}
		// whole pipeline: functions over virtual registers through the real pass.Compile; the allocator decides which
		// moves become self-moves
		for k := 0; k < *f.n; k++ {
			c10Compile(c, r.fork())
		}
		// register moves of EVERY opcode and width of the form table (c10vec.go): a complete sweep of author-written
		// self-moves, random move functions over vector / opmask registers, and functions over vector / opmask
		// virtual registers through the real pass.Compile (self-moves made by the allocator)
		if err := c10VecStreams(c, db, r.fork(), *f.n); err != nil {
			return err
		}
		stats["build_failed"] = 0
		for _, n := range c09BuildFailed {
			stats["build_failed"] += n
		}
		return writeJSON(*f.stats, stats)
	})
}

// c10Compile builds a function over a few virtual and physical registers and runs the REAL pass.Compile on it.
// The request carries the original node list with the operands AFTER register binding (the instructions are bound
// in place before PruneSelfMoves runs), so the acceptor judges the deleted moves on the registers the allocator chose.
func c10Compile(c *c10Out, r *rng) {
	stats := c.stats
	col := reg.NewCollection()
	nv := 2 + r.intn(3)
	var vs []reg.GPVirtual
	for k := 0; k < nv; k++ {
		vs = append(vs, col.GP64())
	}
	fn := ir.NewFunction("f")
	n := 2 + r.intn(14)
	nl := r.intn(1 + n/3)
	labelAt := map[int][]string{}
	var labels []string
	for k := 0; k < nl; k++ {
		l := fmt.Sprintf("c%d", k)
		labels = append(labels, l)
		p := r.intn(n)
		labelAt[p] = append(labelAt[p], l)
	}
	view := func(v reg.GPVirtual, s reg.Spec) reg.Register {
		switch s {
		case reg.S8L:
			return v.As8L()
		case reg.S16:
			return v.As16()
		case reg.S32:
			return v.As32()
		}
		return v.As64()
	}
	add := func(opc string, ops ...operand.Op) {
		inst, err := x86.VerifBuild(opc, nil, ops)
		if err != nil || inst == nil {
			c09BuildFailed[opc]++
			return
		}
		fn.AddInstruction(inst)
	}
	// define every virtual first so that the moves below copy defined values
	for _, v := range vs {
		add("MOVQ", operand.U64(uint64(1+r.intn(1000))), v)
	}
	for i := 0; i < n; i++ {
		for _, l := range labelAt[i] {
			if r.chance(1, 3) {
				add("JMP", operand.LabelRef(l)) // a jump to the label that follows
			}
			if r.chance(1, 6) {
				fn.AddComment("c")
			}
			fn.AddLabel(ir.Label(l))
		}
		a, b := pick(r, vs), pick(r, vs)
		switch x := r.intn(100); {
		case x < 15:
			// a value moved between two short-lived virtuals that never interfere: the allocator tends to give
			// them the same register, which turns the move into a self-move (32-bit ones must then be kept)
			va, vb := col.GP64(), col.GP64()
			spec := pick(r, []reg.Spec{reg.S64, reg.S64, reg.S32, reg.S32, reg.S16, reg.S8L})
			opc := map[reg.Spec]string{reg.S64: "MOVQ", reg.S32: "MOVL", reg.S16: "MOVW", reg.S8L: "MOVB"}[spec]
			add("MOVQ", operand.U64(uint64(1+r.intn(1000))), va)
			if spec == reg.S16 || spec == reg.S8L {
				add("MOVQ", operand.U64(3), vb) // partial write below: define the rest first
			}
			add(opc, view(va, spec), view(vb, spec))
			add("ADDQ", vb, pick(r, []reg.Register{reg.RAX, reg.RCX}))
			stats["compile_virtual_moves"]++
		case x < 40:
			spec := pick(r, []reg.Spec{reg.S64, reg.S64, reg.S64, reg.S32, reg.S16, reg.S8L})
			opc := map[reg.Spec]string{reg.S64: "MOVQ", reg.S32: "MOVL", reg.S16: "MOVW", reg.S8L: "MOVB"}[spec]
			add(opc, view(a, spec), view(b, spec))
			stats["compile_virtual_moves"]++
		case x < 50:
			add("ADDQ", a, b)
		case x < 56:
			add("MOVQ", a, pick(r, []reg.Register{reg.RAX, reg.RCX, reg.R9}))
		case x < 60:
			p := pick(r, []reg.GPPhysical{reg.RAX, reg.RBX, reg.R13})
			add("MOVQ", p, p) // an author-written self-move
		case x < 75 && len(labels) > 0:
			add(pick(r, []string{"JNE", "JEQ", "JMP"}), operand.LabelRef(pick(r, labels)))
		case x < 80 && len(labels) > 0:
			add("CALL", operand.LabelRef(pick(r, labels)))
			stats["call_label"]++
		case x < 85:
			add("MOVQ", operand.U64(7), a)
		default:
			add("NOP")
		}
	}
	// keep every virtual alive to the end in half of the functions (then no two of them share a register)
	if r.chance(1, 2) {
		for _, v := range vs {
			add("ADDQ", v, reg.RAX)
		}
	}
	add("RET")
	uid := map[*ir.Instruction]int{}
	for k, i := range fn.Instructions() {
		uid[i] = k
	}
	orig := append([]ir.Node(nil), fn.Nodes...)
	// moves between two DIFFERENT virtual registers: only the allocator can turn them into self-moves
	virtMove := map[*ir.Instruction]bool{}
	for _, i := range fn.Instructions() {
		if len(i.Operands) == 2 && strings.HasPrefix(i.Opcode, "MOV") {
			a, ok1 := i.Operands[0].(reg.Virtual)
			b, ok2 := i.Operands[1].(reg.Virtual)
			if ok1 && ok2 && a.ID() != b.ID() {
				virtMove[i] = true
			}
		}
	}
	file := ir.NewFile()
	file.AddSection(fn)
	err, panicked := safely(func() error { return pass.Compile.Execute(file) })
	if err != nil && !panicked {
		// a function the pipeline rejects is not an output to judge; the check has a floor on the accepted ones
		stats["compile_rejected"]++
		return
	}
	for _, n := range orig {
		if i, ok := n.(*ir.Instruction); ok {
			for _, op := range i.Operands {
				if rr, ok := op.(reg.Register); ok {
					if _, virt := rr.(reg.Virtual); virt {
						stats["compile_unbound_operand"]++
					}
				}
			}
		}
	}
	if err == nil {
		kept := map[*ir.Instruction]bool{}
		for _, i := range fn.Instructions() {
			kept[i] = true
		}
		for i := range virtMove {
			if !kept[i] {
				stats["compile_deleted_allocator_selfmoves"]++
			} else if len(i.Operands) == 2 && i.Operands[0] == i.Operands[1] {
				stats["compile_kept_allocator_selfmoves:"+i.Opcode]++
			}
		}
	}
	c.judge("compile", orig, uid, fn, err, panicked)
}
