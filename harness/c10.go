package main

import (
	"fmt"
	"strings"

	"github.com/mmcloughlin/avo/ir"
	"github.com/mmcloughlin/avo/operand"
	"github.com/mmcloughlin/avo/pass"
	"github.com/mmcloughlin/avo/reg"
	"github.com/mmcloughlin/avo/x86"
)

// c10Enc encodes nodes with instruction uids (position among the original instructions).
func c10Enc(nodes []ir.Node, uid map[*ir.Instruction]int) string {
	parts := []string{itoa(len(nodes))}
	for _, n := range nodes {
		switch n := n.(type) {
		case ir.Label:
			parts = append(parts, "L", hexs(string(n)))
		case *ir.Comment:
			parts = append(parts, "C")
		case *ir.Instruction:
			lbl := "-"
			if len(n.Operands) > 0 {
				if ref, ok := n.Operands[0].(operand.LabelRef); ok {
					lbl = "=" + hexs(string(ref))
				}
			}
			parts = append(parts, "I", itoa(uid[n]), b01(n.IsBranch), b01(n.IsConditional), b01(n.IsTerminal), lbl, n.Opcode, itoa(len(n.Operands)))
			for k, op := range n.Operands {
				if r, ok := op.(reg.Register); ok {
					parts = append(parts, "R", encReg(r))
				} else {
					parts = append(parts, "O", itoa(k))
				}
			}
		}
	}
	return strings.Join(parts, " ")
}

func c10EncResult(nodes []ir.Node, uid map[*ir.Instruction]int) string {
	parts := []string{itoa(len(nodes))}
	for _, n := range nodes {
		switch n := n.(type) {
		case ir.Label:
			parts = append(parts, "L", hexs(string(n)))
		case *ir.Comment:
			parts = append(parts, "C")
		case *ir.Instruction:
			parts = append(parts, "I", itoa(uid[n]))
		}
	}
	return strings.Join(parts, " ")
}

func c10Run(o *out, stats map[string]int, passName string, fn *ir.Function, p func(*ir.Function) error) {
	uid := map[*ir.Instruction]int{}
	for k, i := range fn.Instructions() {
		uid[i] = k
	}
	req := c10Enc(fn.Nodes, uid)
	before := len(fn.Nodes)
	err, panicked := safely(func() error { return p(fn) })
	resp := ""
	switch {
	case panicked:
		resp = "panic"
	case err != nil:
		resp = "err"
	default:
		resp = c10EncResult(fn.Nodes, uid)
	}
	if len(fn.Nodes) < before {
		stats[passName+"_deleted"] += before - len(fn.Nodes)
		stats[passName+"_changed"]++
	}
	stats[passName]++
	o.emit("cleanup "+passName+" "+req, resp)
	o.emit("accept-cleanup "+passName+" "+req+" => "+resp, "ok")
}

// c10SelfMoveFunc builds a function full of register-to-register moves, many of them self-moves.
func c10SelfMoveFunc(r *rng) *ir.Function {
	fn := ir.NewFunction("f")
	gp := []reg.Register{reg.RAX, reg.RCX, reg.RBX, reg.RSI, reg.R9, reg.R13, reg.RBP}
	n := 1 + r.intn(14)
	for k := 0; k < n; k++ {
		a := pick(r, gp)
		b := a
		if r.chance(1, 3) {
			b = pick(r, gp)
		}
		var inst *ir.Instruction
		switch r.intn(9) {
		case 0:
			s := pick(r, []reg.Spec{reg.S8L, reg.S8H})
			if s == reg.S8H {
				a, b = pick(r, gp[:3]), a
				if r.chance(2, 3) {
					b = a
				} else {
					b = pick(r, gp[:3])
				}
				s2 := reg.S8H
				if r.chance(1, 3) {
					s2 = reg.S8L // AL vs AH of the same register: not a self move
				}
				inst, _ = x86.VerifBuild("MOVB", nil, []operand.Op{asSpec(a, s), asSpec(b, s2)})
			} else {
				inst, _ = x86.VerifBuild("MOVB", nil, []operand.Op{asSpec(a, s), asSpec(b, s)})
			}
		case 1:
			inst, _ = x86.VerifBuild("MOVW", nil, []operand.Op{asSpec(a, reg.S16), asSpec(b, reg.S16)})
		case 2:
			inst, _ = x86.VerifBuild("MOVL", nil, []operand.Op{asSpec(a, reg.S32), asSpec(b, reg.S32)})
		case 3, 4:
			inst, _ = x86.VerifBuild("MOVQ", nil, []operand.Op{a, b})
		case 5:
			x := physVec(r.intn(4))
			y := x
			if r.chance(1, 3) {
				y = physVec(r.intn(4))
			}
			inst, _ = x86.VerifBuild(pick(r, []string{"MOVQ", "MOVOU", "MOVAPS", "MOVSD"}), nil, []operand.Op{x, y})
		case 6:
			inst, _ = x86.VerifBuild("MOVQ", nil, []operand.Op{operand.Mem{Base: a}, a})
		case 7:
			inst, _ = x86.VerifBuild("ADDQ", nil, []operand.Op{a, a})
		default:
			inst, _ = x86.VerifBuild("MOVQ", nil, []operand.Op{operand.U64(1), a})
		}
		if inst == nil {
			inst, _ = x86.VerifBuild("NOP", nil, nil)
		}
		if r.chance(1, 6) {
			fn.AddLabel(ir.Label(fmt.Sprintf("m%d", k)))
		}
		fn.AddInstruction(inst)
	}
	if r.chance(4, 5) {
		ret, _ := x86.VerifBuild("RET", nil, nil)
		fn.AddInstruction(ret)
	}
	return fn
}

func init() {
	register("c10", "clean-up passes on generated node lists", func(args []string) error {
		f := newStdFlags("c10")
		if err := f.fs.Parse(args); err != nil {
			return err
		}
		db, err := loadForms(*f.repo)
		if err != nil {
			return err
		}
		o, err := openOut(f)
		if err != nil {
			return err
		}
		defer o.close()
		r := newRng(*f.seed)
		stats := map[string]int{}
		for k := 0; k < *f.n; k++ {
			mk := func(rr *rng) *ir.Function {
				cfg := genCfg{minInstr: 1, maxInstr: 3 + rr.intn(16), nGP: 2, physPct: 60, branchPct: 45,
					malformed: rr.chance(1, 8), jumpBeforeLabelPct: 40, opcodes: []string{"NOP", "ADDQ", "MOVQ", "CALL"}}
				return newFgen(rr, db, cfg).generate()
			}
			sub := r.fork()
			seed := sub.s
			c10Run(o, stats, "jumps", mk(&rng{s: seed}), pass.PruneJumpToFollowingLabel)
			c10Run(o, stats, "labels", mk(&rng{s: seed}), pass.PruneDanglingLabels)
			// as in Compile: jumps, then labels on the result
			fn := mk(&rng{s: seed})
			if err, _ := safely(func() error { return pass.PruneJumpToFollowingLabel(fn) }); err == nil {
				c10Run(o, stats, "labels", fn, pass.PruneDanglingLabels)
			}
			c10Run(o, stats, "selfmoves", c10SelfMoveFunc(r.fork()), pass.PruneSelfMoves)
		}
		return writeJSON(*f.stats, stats)
	})
}
