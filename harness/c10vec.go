package main

// C10 — register moves of every opcode, register class and width of the form table.
//
// The acceptor (Props/C10Accept.lean, Props/C10Moves.lean) judges a deleted move by what the move DOES (a model of
// the architectural effect of register-to-register moves, cross-checked against the CPU), so the generator must not
// be tied to the opcodes PruneSelfMoves prunes today either.  Everything here is derived from the compiled form
// table: every opcode that has a form `OPC t, t` (t one of r8 r16 r32 r64 xmm ymm zmm k) or a masked form
// `OPC t, k, t`, with every suffix set the form accepts.

import (
	"fmt"
	"sort"
	"strings"

	"github.com/mmcloughlin/avo/ir"
	"github.com/mmcloughlin/avo/operand"
	"github.com/mmcloughlin/avo/pass"
	"github.com/mmcloughlin/avo/reg"
	"github.com/mmcloughlin/avo/x86"
)

// c10Cand is one two-register (or masked three-register) instruction shape of the form table.
type c10Cand struct {
	opcode string
	cls    string   // class of the destination: r8 r16 r32 r64 xmm ymm zmm k
	scls   string   // class of the source: the same, or another width of the same register file (MOVBLZX r8, r32)
	masked bool     // OPC t, k, t
	sfx    []string // suffixes (nil, or e.g. ["Z"])
	mov    bool     // the opcode name contains MOV
	evex   bool     // an AVX-512 form: registers 16..31 are available
	pure   bool     // no implicit operands, the last operand is written, the others are only read (safe to execute)
}

func (c *c10Cand) key() string {
	k := c.opcode
	if len(c.sfx) > 0 {
		k += "." + strings.Join(c.sfx, ".")
	}
	if c.masked {
		return k + "/" + c.cls + ",k"
	}
	if c.scls != c.cls {
		return k + "/" + c.scls + ">" + c.cls
	}
	return k + "/" + c.cls
}

// c10SameFile: two register classes that are views of one register file.
func c10SameFile(a, b string) bool {
	gp := func(t string) bool { return t == "r8" || t == "r16" || t == "r32" || t == "r64" }
	vec := func(t string) bool { return t == "xmm" || t == "ymm" || t == "zmm" }
	return a == b && c10RegClasses[a] || gp(a) && gp(b) || vec(a) && vec(b)
}

var c10RegClasses = map[string]bool{"r8": true, "r16": true, "r32": true, "r64": true, "xmm": true, "ymm": true, "zmm": true, "k": true}

// c10Cands lists the shapes in a fixed order (opcode, class, masked, suffixes).
func c10Cands(db *formsDB) []*c10Cand {
	seen := map[string]bool{}
	var out []*c10Cand
	for i := range db.rows {
		row := &db.rows[i]
		ts := row.explicitTypes()
		var cls, scls string
		masked := false
		switch {
		case len(ts) == 2 && c10SameFile(ts[0], ts[1]):
			scls, cls = ts[0], ts[1]
		case len(ts) == 3 && ts[0] == ts[2] && ts[1] == "k" && (ts[0] == "xmm" || ts[0] == "ymm" || ts[0] == "zmm"):
			scls, cls, masked = ts[0], ts[0], true
		default:
			continue
		}
		evex := false
		for _, isa := range row.ISAs {
			if strings.HasPrefix(isa, "AVX512") {
				evex = true
			}
		}
		pure := true
		nexp := 0
		for _, o := range row.Operands {
			if o.Implicit {
				pure = false
				continue
			}
			nexp++
			if last := nexp == len(ts); (last && o.Action&2 == 0) || (!last && o.Action != 1) {
				pure = false
			}
		}
		sets := row.Suffixes
		if len(sets) == 0 {
			sets = [][]string{nil}
		}
		for _, sf := range sets {
			if len(sf) > 1 {
				continue // rounding / SAE combinations belong to arithmetic forms; one suffix is enough for moves
			}
			c := &c10Cand{opcode: row.Opcode, cls: cls, scls: scls, masked: masked, sfx: append([]string(nil), sf...),
				mov: strings.Contains(row.Opcode, "MOV"), evex: evex, pure: pure}
			if len(sf) > 0 && !c.mov {
				continue
			}
			if seen[c.key()] {
				continue
			}
			seen[c.key()] = true
			out = append(out, c)
		}
	}
	sort.Slice(out, func(a, b int) bool { return out[a].key() < out[b].key() })
	return out
}

// c10PhysOf returns physical register number idx of the class (8H: idx 0..3 only).
func c10PhysOf(cls string, idx int, high8 bool) reg.Register {
	switch cls {
	case "r8":
		if high8 {
			return asSpec(physGP64[idx%4], reg.S8H)
		}
		return asSpec(c10GP(idx), reg.S8L)
	case "r16":
		return asSpec(c10GP(idx), reg.S16)
	case "r32":
		return asSpec(c10GP(idx), reg.S32)
	case "r64":
		return c10GP(idx)
	case "xmm":
		return reg.Vector.Lookup(reg.Index(idx), reg.S128)
	case "ymm":
		return reg.Vector.Lookup(reg.Index(idx), reg.S256)
	case "zmm":
		return reg.Vector.Lookup(reg.Index(idx), reg.S512)
	case "k":
		return reg.Opmask.Lookup(reg.Index(idx%8), reg.S64)
	}
	return nil
}

func c10GP(idx int) reg.Register {
	idx %= 16
	if idx == 4 {
		idx = 12 // not the stack pointer
	}
	return reg.GeneralPurpose.Lookup(reg.Index(idx), reg.S64)
}

// build instantiates the shape on the given registers (k = mask register of a masked shape).
func (c *c10Cand) build(src, dst, k reg.Register) *ir.Instruction {
	ops := []operand.Op{src, dst}
	if c.masked {
		ops = []operand.Op{src, k, dst}
	}
	var inst *ir.Instruction
	if err, p := safely(func() error {
		var e error
		inst, e = x86.VerifBuild(c.opcode, c.sfx, ops)
		return e
	}); err != nil || p {
		return nil
	}
	return inst
}

func c10Nop() *ir.Instruction {
	n, _ := x86.VerifBuild("NOP", nil, nil)
	return n
}

func c10Ret() *ir.Instruction {
	n, _ := x86.VerifBuild("RET", nil, nil)
	return n
}

// c10SweepInsts: the instructions of one shape that the sweep tries: the author-written self-move on several
// registers of the class (low, high, EVEX-only, AH-style) and, for moves, the same opcode between two DIFFERENT
// registers.  nil entries = the real constructor rejected the operands.
func c10SweepInsts(cd *c10Cand) []*ir.Instruction {
	idxs := []int{1, 9}
	if cd.evex && cd.cls != "k" && cd.cls[0] != 'r' {
		idxs = append(idxs, 19)
	}
	if cd.cls == "k" {
		idxs = []int{3, 6}
	}
	var out []*ir.Instruction
	for _, ix := range idxs {
		// the same physical register on both sides (seen at two widths when the classes differ)
		out = append(out, cd.build(c10PhysOf(cd.scls, ix, false), c10PhysOf(cd.cls, ix, false), c10PhysOf("k", 1+ix%7, false)))
	}
	if cd.cls == "r8" || cd.scls == "r8" {
		out = append(out, cd.build(c10PhysOf(cd.scls, 1, true), c10PhysOf(cd.cls, 1, true), nil)) // CH (with CX / ECX / RCX)
	}
	if cd.mov {
		a, b := c10PhysOf(cd.scls, idxs[0], false), c10PhysOf(cd.cls, idxs[1], false)
		out = append(out, cd.build(a, b, c10PhysOf("k", 2, false)))
	}
	return out
}

// c10Sweep: one function per shape; a NOP follows every instruction under test (removeinstructions skips the node
// behind a deletion).
func c10Sweep(c *c10Out, cands []*c10Cand) {
	stats := c.stats
	for _, cd := range cands {
		fn := ir.NewFunction("f")
		n := 0
		for _, inst := range c10SweepInsts(cd) {
			if inst == nil {
				stats["sweep_build_failed"]++
				continue
			}
			fn.AddInstruction(inst)
			fn.AddInstruction(c10Nop())
			n++
		}
		if n == 0 {
			continue
		}
		fn.AddInstruction(c10Ret())
		stats["sweep_shapes"]++
		if cd.mov {
			stats["sweep_mov_shapes"]++
		}
		if cd.masked {
			stats["sweep_masked_shapes"]++
		}
		stats["sweep_cls:"+cd.cls]++
		if cd.scls != cd.cls {
			stats["sweep_mixed_width_shapes"]++
		}
		c.run("selfmoves", fn, pass.PruneSelfMoves)
	}
}

// c10PickShape picks a register class uniformly and then a move shape of that class (the table has far more XMM
// shapes than opmask or 8-bit ones).
func c10PickShape(r *rng, movs []*c10Cand) *c10Cand {
	classes := []string{"r8", "r16", "r32", "r64", "xmm", "ymm", "zmm", "k"}
	for try := 0; try < 8; try++ {
		cls := pick(r, classes)
		var in []*c10Cand
		for _, cd := range movs {
			if cd.cls == cls {
				in = append(in, cd)
			}
		}
		if len(in) > 0 {
			return pick(r, in)
		}
	}
	return pick(r, movs)
}

// c10VecMoveFunc: a function of random moves (mostly self-moves) over the move shapes, in loops and behind labels.
func c10VecMoveFunc(r *rng, movs []*c10Cand, stats map[string]int) *ir.Function {
	fn := ir.NewFunction("f")
	n := 1 + r.intn(12)
	var placed []string
	for k := 0; k < n; k++ {
		cd := c10PickShape(r, movs)
		hi := 16
		if cd.evex && cd.cls != "k" && cd.cls[0] != 'r' {
			hi = 32
		}
		a := r.intn(hi)
		b := a
		if r.chance(1, 4) {
			b = r.intn(hi)
		}
		high8 := (cd.cls == "r8" || cd.scls == "r8") && r.chance(1, 4)
		inst := cd.build(c10PhysOf(cd.scls, a, high8), c10PhysOf(cd.cls, b, high8), c10PhysOf("k", r.intn(8), false))
		if inst == nil {
			inst = c10Nop()
		} else if a == b {
			stats["vecmoves_self:"+cd.cls]++
			if cd.scls != cd.cls {
				stats["vecmoves_self_mixed_width"]++
			}
		}
		if r.chance(1, 6) {
			l := fmt.Sprintf("v%d", k)
			fn.AddLabel(ir.Label(l))
			placed = append(placed, l)
		}
		fn.AddInstruction(inst)
		if r.chance(1, 3) {
			fn.AddInstruction(c10Nop())
		}
		if len(placed) > 0 && r.chance(1, 8) {
			if j, _ := x86.VerifBuild(pick(r, []string{"JNE", "JMP", "JCS"}), nil, []operand.Op{operand.LabelRef(pick(r, placed))}); j != nil {
				fn.AddInstruction(j)
			}
		}
	}
	if r.chance(4, 5) {
		fn.AddInstruction(c10Ret())
	}
	return fn
}

// c10Virt is a virtual register of a class together with the instructions that define it from / store it to memory
// at its full width.
type c10Virt struct {
	full reg.Register // the register at the width it was allocated with
	cls  string       // class of `full`
}

func c10NewVirt(col *reg.Collection, cls string) c10Virt {
	switch cls {
	case "xmm":
		return c10Virt{col.XMM(), cls}
	case "ymm":
		return c10Virt{col.YMM(), cls}
	case "zmm":
		return c10Virt{col.ZMM(), cls}
	case "k":
		return c10Virt{col.K(), cls}
	}
	return c10Virt{col.GP64(), "r64"}
}

// view returns the register seen at the width of class cls.
func (v c10Virt) view(cls string) reg.Register {
	switch cls {
	case "r8":
		return asSpec(v.full, reg.S8L)
	case "r16":
		return asSpec(v.full, reg.S16)
	case "r32":
		return asSpec(v.full, reg.S32)
	case "r64":
		return asSpec(v.full, reg.S64)
	case "xmm":
		return asSpec(v.full, reg.S128)
	case "ymm":
		return asSpec(v.full, reg.S256)
	case "zmm":
		return asSpec(v.full, reg.S512)
	}
	return v.full
}

var c10MemOps = map[string]string{"xmm": "MOVOU", "ymm": "VMOVDQU", "zmm": "VMOVDQU64", "k": "KMOVQ", "r64": "MOVQ"}

// c10Wider lists the classes a virtual may be allocated with when an instruction uses it at class cls (a 256-bit
// move on a register that is a ZMM elsewhere in the function is exactly where a cleared upper part shows).
func c10Wider(cls string) []string {
	switch cls {
	case "xmm":
		return []string{"xmm", "ymm", "zmm"}
	case "ymm":
		return []string{"ymm", "zmm"}
	case "zmm":
		return []string{"zmm"}
	case "k":
		return []string{"k"}
	}
	return []string{"r64"}
}

// c10WiderOf returns the wider of two classes of one register file.
func c10WiderOf(a, b string) string {
	order := map[string]int{"r8": 1, "r16": 2, "r32": 3, "r64": 4, "xmm": 5, "ymm": 6, "zmm": 7, "k": 8}
	if order[a] > order[b] {
		return a
	}
	return b
}

// c10CompileVec builds a function over vector / opmask / general-purpose VIRTUAL registers whose moves are taken from
// the move shapes of the form table and runs the REAL pass.Compile on it.  `first` is the shape used by the first
// step (the caller cycles through all of them, so every shape is exercised whatever the random choices are).
func c10CompileVec(c *c10Out, r *rng, movs []*c10Cand, first *c10Cand, firstMode string, seenSelf map[string]bool) {
	stats := c.stats
	col := reg.NewCollection()
	fn := ir.NewFunction("f")
	base := operand.Mem{Base: reg.RAX}
	add := func(opc string, sfx []string, ops ...operand.Op) *ir.Instruction {
		var inst *ir.Instruction
		err, p := safely(func() error {
			var e error
			inst, e = x86.VerifBuild(opc, sfx, ops)
			return e
		})
		if err != nil || p || inst == nil {
			c09BuildFailed[opc]++
			return nil
		}
		fn.AddInstruction(inst)
		return inst
	}
	load := func(v c10Virt, disp int) {
		m := base
		m.Disp = disp
		add(c10MemOps[v.cls], nil, m, v.full)
	}
	store := func(v c10Virt, disp int) {
		m := base
		m.Disp = disp
		add(c10MemOps[v.cls], nil, v.full, m)
	}
	type made struct {
		inst *ir.Instruction
		cd   *c10Cand
		mode string
	}
	var moves []made
	steps := 1 + r.intn(5)
	for s := 0; s < steps; s++ {
		cd := first
		if s > 0 {
			cd = c10PickShape(r, movs)
		}
		// the class the virtual registers are allocated with: the operand's own class, or (author-written self-moves
		// only: two registers whose upper parts are live never share a physical register) a wider one
		alloc := c10Wider(c10WiderOf(cd.scls, cd.cls))[0]
		var kreg reg.Register
		if cd.masked {
			kv := c10NewVirt(col, "k")
			load(kv, 512)
			kreg = kv.full
		}
		mode := []string{"alloc", "alloc", "author", "author", "phys", "distinct"}[r.intn(6)]
		if s == 0 {
			mode = firstMode
		}
		disp := 64 * s
		var inst *ir.Instruction
		switch mode {
		case "alloc":
			// the source dies at the move and the destination is born there: the allocator tends to give both the
			// same physical register
			va, vb := c10NewVirt(col, alloc), c10NewVirt(col, alloc)
			load(va, disp)
			if (cd.cls == "r8" || cd.cls == "r16" || cd.masked || cd.opcode == "MOVSD" || cd.opcode == "MOVSS") && r.chance(1, 2) {
				load(vb, disp) // partial write below: define the rest first (the two registers then interfere)
			}
			inst = add(cd.opcode, cd.sfx, c10Ops(cd, va.view(cd.scls), vb.view(cd.cls), kreg)...)
			store(vb, disp)
		case "author":
			v := c10NewVirt(col, pick(r, c10Wider(c10WiderOf(cd.scls, cd.cls))))
			load(v, disp)
			inst = add(cd.opcode, cd.sfx, c10Ops(cd, v.view(cd.scls), v.view(cd.cls), kreg)...)
			store(v, disp)
		case "phys":
			ix := 8 + r.intn(7)
			inst = add(cd.opcode, cd.sfx, c10Ops(cd, c10PhysOf(cd.scls, ix, false), c10PhysOf(cd.cls, ix, false), kreg)...)
		default:
			va, vb := c10NewVirt(col, alloc), c10NewVirt(col, alloc)
			load(va, disp)
			load(vb, disp)
			inst = add(cd.opcode, cd.sfx, c10Ops(cd, va.view(cd.scls), vb.view(cd.cls), kreg)...)
			store(va, disp)
			store(vb, disp)
		}
		if inst != nil {
			moves = append(moves, made{inst, cd, mode})
		}
		if r.chance(1, 5) {
			add("NOP", nil)
		}
	}
	add("RET", nil)
	uid := map[*ir.Instruction]int{}
	for k, i := range fn.Instructions() {
		uid[i] = k
	}
	orig := append([]ir.Node(nil), fn.Nodes...)
	file := ir.NewFile()
	file.AddSection(fn)
	err, panicked := safely(func() error { return pass.Compile.Execute(file) })
	if err != nil && !panicked {
		stats["compilevec_rejected"]++
		return
	}
	if err == nil {
		kept := map[*ir.Instruction]bool{}
		for _, i := range fn.Instructions() {
			kept[i] = true
		}
		for _, m := range moves {
			ops := m.inst.Operands
			src, ok1 := ops[0].(reg.Register)
			dst, ok2 := ops[len(ops)-1].(reg.Register)
			if ok1 && ok2 && src.ID() == dst.ID() {
				// source and destination are the same physical register after allocation
				seenSelf[m.cd.key()] = true
				stats["compilevec_self:"+m.cd.cls]++
				stats["compilevec_self_mode:"+m.mode]++
				if !kept[m.inst] {
					stats["compilevec_self_deleted:"+m.cd.cls]++
				}
			}
		}
	}
	save := c.tag
	c.tag = "compilevec"
	c.judge("compile", orig, uid, fn, err, panicked)
	c.tag = save
}

func c10Ops(cd *c10Cand, src, dst, k reg.Register) []operand.Op {
	if cd.masked {
		return []operand.Op{src, k, dst}
	}
	return []operand.Op{src, dst}
}

// c10VecStreams runs the three table-driven streams.
func c10VecStreams(c *c10Out, db *formsDB, r *rng, n int) error {
	stats := c.stats
	cands := c10Cands(db)
	var movs []*c10Cand
	for _, cd := range cands {
		if cd.mov {
			movs = append(movs, cd)
		}
	}
	if len(movs) == 0 {
		return fmt.Errorf("c10: the form table has no register-to-register move shapes")
	}
	stats["move_shapes"] = len(movs)
	// (5) complete sweep of author-written self-moves
	c.tag = "sweep"
	c10Sweep(c, cands)
	// (6) random move functions over every move shape
	c.tag = "vecmoves"
	for k := 0; k < n/2; k++ {
		c.run("selfmoves", c10VecMoveFunc(r.fork(), movs, stats), pass.PruneSelfMoves)
	}
	c.tag = ""
	// (7) virtual registers of every class through pass.Compile; every shape leads at least two functions
	seenSelf := map[string]bool{}
	m := n / 2
	if m < 3*len(movs) {
		m = 3 * len(movs)
	}
	for k := 0; k < m; k++ {
		// every shape leads one function as an author-written self-move on one virtual register (a self-move after
		// allocation whatever the allocator does), then functions where only the allocator can make it one
		c10CompileVec(c, r.fork(), movs, movs[k%len(movs)], []string{"author", "alloc", "alloc"}[(k/len(movs))%3], seenSelf)
	}
	missing := 0
	for _, cd := range movs {
		if !seenSelf[cd.key()] {
			missing++
			if missing <= 5 {
				stats["compilevec_never_self:"+cd.key()] = 1
			}
		}
	}
	stats["compilevec_shapes_never_self"] = missing
	return nil
}
