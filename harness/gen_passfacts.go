package main

import (
	"fmt"
	"go/ast"
	"go/parser"
	"go/token"
	"go/types"
	"os"
	"path/filepath"
	"sort"
	"strings"

	"github.com/mmcloughlin/avo/ir"
	"github.com/mmcloughlin/avo/operand"
	"github.com/mmcloughlin/avo/pass"
	"github.com/mmcloughlin/avo/reg"
	"github.com/mmcloughlin/avo/x86"
)

// Gen.PassFacts:
//   compileOrder     — the ordered pass list of pass.Compile. Compile is an opaque closure at run time, so the list is
//                      read from the source, but by EVALUATING the initialiser rather than by matching one syntactic
//                      shape: Concat(a, b, ...), nested Concat calls, package-level variables holding a Concat,
//                      Concat(f()...) / Concat(xs...) where the slice is built by composite literals and append calls
//                      in straight-line code. Each element is rendered as written (e.g. "FunctionPass(Liveness)").
//   selfMoveOpcodes  — MEASURED: every opcode of the form table that has a two-register form is built as `OPC r, r`
//                      on one general-purpose register and run through the real pass.PruneSelfMoves; listed are the
//                      opcodes whose instruction was deleted (ordered by operand width, then name).

type passEval struct {
	funcs map[string]*ast.FuncDecl // package-level functions of package pass
	vars  map[string]ast.Expr      // package-level variables with an initialiser
	depth int
}

func newPassEval(dir string) (*passEval, error) {
	fset := token.NewFileSet()
	ents, err := os.ReadDir(dir)
	if err != nil {
		return nil, err
	}
	pe := &passEval{funcs: map[string]*ast.FuncDecl{}, vars: map[string]ast.Expr{}}
	for _, e := range ents {
		n := e.Name()
		if e.IsDir() || !strings.HasSuffix(n, ".go") || strings.HasSuffix(n, "_test.go") {
			continue
		}
		f, err := parser.ParseFile(fset, filepath.Join(dir, n), nil, 0)
		if err != nil {
			return nil, err
		}
		for _, d := range f.Decls {
			switch x := d.(type) {
			case *ast.FuncDecl:
				if x.Recv == nil {
					pe.funcs[x.Name.Name] = x
				}
			case *ast.GenDecl:
				if x.Tok != token.VAR {
					continue
				}
				for _, sp := range x.Specs {
					vs := sp.(*ast.ValueSpec)
					if len(vs.Names) == len(vs.Values) {
						for i, nm := range vs.Names {
							pe.vars[nm.Name] = vs.Values[i]
						}
					}
				}
			}
		}
	}
	return pe, nil
}

func isIdent(e ast.Expr, name string) bool {
	id, ok := e.(*ast.Ident)
	return ok && id.Name == name
}

// passes flattens an expression denoting ONE pass (possibly a Concat of passes) into the list of leaf passes.
func (pe *passEval) passes(e ast.Expr, env map[string][]string) ([]string, error) {
	pe.depth++
	defer func() { pe.depth-- }()
	if pe.depth > 40 {
		return nil, fmt.Errorf("pass list evaluation too deep")
	}
	switch x := e.(type) {
	case *ast.ParenExpr:
		return pe.passes(x.X, env)
	case *ast.CallExpr:
		if isIdent(x.Fun, "Concat") {
			var out []string
			for i, a := range x.Args {
				if x.Ellipsis.IsValid() && i == len(x.Args)-1 {
					xs, err := pe.slice(a, env)
					if err != nil {
						return nil, err
					}
					out = append(out, xs...)
					continue
				}
				xs, err := pe.passes(a, env)
				if err != nil {
					return nil, err
				}
				out = append(out, xs...)
			}
			return out, nil
		}
	case *ast.Ident:
		if init, ok := pe.vars[x.Name]; ok && x.Name != "Compile" {
			if c, ok := init.(*ast.CallExpr); ok && isIdent(c.Fun, "Concat") {
				return pe.passes(init, nil)
			}
		}
	}
	return []string{types.ExprString(e)}, nil
}

// slice evaluates an expression denoting a SLICE of passes.
func (pe *passEval) slice(e ast.Expr, env map[string][]string) ([]string, error) {
	pe.depth++
	defer func() { pe.depth-- }()
	if pe.depth > 40 {
		return nil, fmt.Errorf("pass list evaluation too deep")
	}
	switch x := e.(type) {
	case *ast.ParenExpr:
		return pe.slice(x.X, env)
	case *ast.CompositeLit:
		var out []string
		for _, el := range x.Elts {
			if kv, ok := el.(*ast.KeyValueExpr); ok {
				el = kv.Value
			}
			xs, err := pe.passes(el, env)
			if err != nil {
				return nil, err
			}
			out = append(out, xs...)
		}
		return out, nil
	case *ast.Ident:
		if x.Name == "nil" {
			return nil, nil
		}
		if v, ok := env[x.Name]; ok {
			return append([]string(nil), v...), nil
		}
		if init, ok := pe.vars[x.Name]; ok {
			return pe.slice(init, nil)
		}
		return nil, fmt.Errorf("pass list: unknown slice variable %s", x.Name)
	case *ast.CallExpr:
		if isIdent(x.Fun, "append") && len(x.Args) >= 1 {
			out, err := pe.slice(x.Args[0], env)
			if err != nil {
				return nil, err
			}
			for i, a := range x.Args[1:] {
				if x.Ellipsis.IsValid() && i == len(x.Args)-2 {
					xs, err := pe.slice(a, env)
					if err != nil {
						return nil, err
					}
					out = append(out, xs...)
					continue
				}
				xs, err := pe.passes(a, env)
				if err != nil {
					return nil, err
				}
				out = append(out, xs...)
			}
			return out, nil
		}
		if isIdent(x.Fun, "make") {
			return nil, nil
		}
		if id, ok := x.Fun.(*ast.Ident); ok && len(x.Args) == 0 {
			if fd, ok := pe.funcs[id.Name]; ok && fd.Body != nil {
				return pe.call(fd)
			}
		}
		// a conversion such as []Interface(xs)
		if len(x.Args) == 1 {
			if _, isArr := x.Fun.(*ast.ArrayType); isArr {
				return pe.slice(x.Args[0], env)
			}
		}
	}
	return nil, fmt.Errorf("pass list: unsupported slice expression %s", types.ExprString(e))
}

// call evaluates a parameterless function made of straight-line declarations, assignments and a return.
func (pe *passEval) call(fd *ast.FuncDecl) ([]string, error) {
	env := map[string][]string{}
	// named results
	if fd.Type.Results != nil {
		for _, f := range fd.Type.Results.List {
			for _, n := range f.Names {
				env[n.Name] = nil
			}
		}
	}
	for _, st := range fd.Body.List {
		switch s := st.(type) {
		case *ast.DeclStmt:
			gd, ok := s.Decl.(*ast.GenDecl)
			if !ok || gd.Tok != token.VAR {
				continue
			}
			for _, sp := range gd.Specs {
				vs := sp.(*ast.ValueSpec)
				for i, n := range vs.Names {
					if i < len(vs.Values) {
						v, err := pe.slice(vs.Values[i], env)
						if err != nil {
							return nil, err
						}
						env[n.Name] = v
					} else {
						env[n.Name] = nil
					}
				}
			}
		case *ast.AssignStmt:
			if len(s.Lhs) != len(s.Rhs) {
				return nil, fmt.Errorf("pass list: unsupported assignment in %s", fd.Name.Name)
			}
			for i := range s.Lhs {
				id, ok := s.Lhs[i].(*ast.Ident)
				if !ok {
					return nil, fmt.Errorf("pass list: unsupported assignment target in %s", fd.Name.Name)
				}
				v, err := pe.slice(s.Rhs[i], env)
				if err != nil {
					return nil, err
				}
				env[id.Name] = v
			}
		case *ast.ReturnStmt:
			if len(s.Results) == 0 {
				for _, f := range fd.Type.Results.List {
					for _, n := range f.Names {
						return env[n.Name], nil
					}
				}
				return nil, fmt.Errorf("pass list: bare return in %s", fd.Name.Name)
			}
			return pe.slice(s.Results[0], env)
		case *ast.EmptyStmt:
		default:
			return nil, fmt.Errorf("pass list: unsupported statement in %s", fd.Name.Name)
		}
	}
	return nil, fmt.Errorf("pass list: %s does not return", fd.Name.Name)
}

// selfMovePruned measures which two-register opcodes pass.PruneSelfMoves deletes when both operands are the same
// general-purpose register.
func selfMovePruned(repo string) ([]string, error) {
	db, err := loadForms(repo)
	if err != nil {
		return nil, err
	}
	widths := map[string]reg.Register{"r8": reg.CL, "r16": reg.CX, "r32": reg.ECX, "r64": reg.RCX}
	order := map[string]int{"r8": 1, "r16": 2, "r32": 3, "r64": 4}
	type hit struct {
		w    int
		name string
	}
	seen := map[string]bool{}
	var hits []hit
	for i := range db.rows {
		row := &db.rows[i]
		var ts []string
		for j, o := range row.Operands {
			if !o.Implicit {
				ts = append(ts, row.TypeNames[j])
			}
		}
		if len(ts) != 2 || ts[0] != ts[1] || widths[ts[0]] == nil || len(row.Suffixes) > 0 && len(row.Suffixes[0]) > 0 {
			continue
		}
		key := row.Opcode + "/" + ts[0]
		if seen[key] {
			continue
		}
		seen[key] = true
		r := widths[ts[0]]
		var inst *ir.Instruction
		if err, p := safely(func() error {
			var e error
			inst, e = x86.VerifBuild(row.Opcode, nil, []operand.Op{r, r})
			return e
		}); err != nil || p || inst == nil {
			continue
		}
		fn := ir.NewFunction("f")
		fn.AddInstruction(inst)
		ret, _ := x86.VerifBuild("RET", nil, nil)
		fn.AddInstruction(ret)
		if err, p := safely(func() error { return pass.PruneSelfMoves(fn) }); err != nil || p {
			return nil, fmt.Errorf("PruneSelfMoves failed on %s: %v", row.Opcode, err)
		}
		kept := false
		for _, i2 := range fn.Instructions() {
			if i2 == inst {
				kept = true
			}
		}
		if !kept {
			hits = append(hits, hit{order[ts[0]], row.Opcode})
		}
	}
	sort.Slice(hits, func(a, b int) bool {
		if hits[a].w != hits[b].w {
			return hits[a].w < hits[b].w
		}
		return hits[a].name < hits[b].name
	})
	var out []string
	for _, h := range hits {
		if len(out) == 0 || out[len(out)-1] != h.name {
			out = append(out, h.name)
		}
	}
	return out, nil
}

func init() {
	genLean["PassFacts"] = func(repo string) (string, error) {
		var b strings.Builder
		b.WriteString("-- REGENERATED by avoh gen-lean PassFacts (pass list: evaluated initialiser of pass.Compile; self-move opcodes: measured on pass.PruneSelfMoves). Do not edit.\nnamespace Avo.Gen\n")
		pe, err := newPassEval(filepath.Join(repo, "pass"))
		if err != nil {
			return "", err
		}
		init, ok := pe.vars["Compile"]
		if !ok {
			return "", fmt.Errorf("pass.Compile: package-level variable with initialiser not found")
		}
		order, err := pe.passes(init, nil)
		if err != nil {
			return "", err
		}
		if len(order) == 0 {
			return "", fmt.Errorf("Compile pass list is empty")
		}
		fmt.Fprintf(&b, "def compileOrder : List String := %s\n", leanStrList(order))
		opcodes, err := selfMovePruned(repo)
		if err != nil {
			return "", err
		}
		fmt.Fprintf(&b, "def selfMoveOpcodes : List String := %s\n", leanStrList(opcodes))
		b.WriteString("end Avo.Gen\n")
		return b.String(), nil
	}
}
