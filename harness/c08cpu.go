package main

import (
	"bytes"
	"encoding/hex"
	"fmt"
	"go/types"
	"os"
	"os/exec"
	"path/filepath"
	"strings"

	"github.com/mmcloughlin/avo/build"
	"github.com/mmcloughlin/avo/ir"
	"github.com/mmcloughlin/avo/operand"
	"github.com/mmcloughlin/avo/pass"
	"github.com/mmcloughlin/avo/printer"
	"github.com/mmcloughlin/avo/reg"
)

// C08, measured part.  For each selected (direction, type, register class) the
// REAL avo generates an assembly function around the REAL Context.Load /
// Context.Store; a throw-away Go program calls it on boundary values with
// recognisable neighbours and prints raw machine state; the lines below turn
// that into protocol requests:
//   cpu-load / cpu-store   exact comparison with the model's movSem (validation of the hand-written semantics)
//   accept-cpu             the property itself on what the CPU did (Go conversion; nothing adjacent touched)

const c08Poison = 0x5a

// c08GoSizeType is the unsigned integer type of n bytes.
func c08UintOf(n int) string { return fmt.Sprintf("uint%d", 8*n) }
func c08IntOf(n int) string  { return fmt.Sprintf("int%d", 8*n) }

type c08Row struct {
	cs    *c08Case
	idx   int
	size  int
	k     int // array length: the array covers at least 16 bytes
	gotyp string
}

func c08FullReg(ctx *build.Context, class string) (full reg.Register, view reg.Register) {
	switch class {
	case "gp8l", "gp8h", "gp16", "gp32", "gp64":
		g := ctx.GP64()
		switch class {
		case "gp8l":
			return g, g.As8L()
		case "gp8h":
			return g, g.As8H()
		case "gp16":
			return g, g.As16()
		case "gp32":
			return g, g.As32()
		}
		return g, g
	case "xmm", "ymm", "zmm":
		z := ctx.ZMM()
		switch class {
		case "xmm":
			return z, z.AsX()
		case "ymm":
			return z, z.AsY()
		}
		return z, z
	}
	k := ctx.K()
	return k, k
}

// c08PtrParam loads a pointer parameter with an explicit MOVQ (the plumbing of
// the measurement functions does not go through Load/Store, which are under test).
func c08PtrParam(ctx *build.Context, name string) (reg.Register, error) {
	b, err := ctx.Param(name).Resolve()
	if err != nil {
		return nil, err
	}
	r := ctx.GP64()
	ctx.MOVQ(b.Addr, r)
	return r, nil
}

func c08MoveFull(ctx *build.Context, class string, src, dst operand.Op) {
	switch class {
	case "gp8l", "gp8h", "gp16", "gp32", "gp64":
		ctx.MOVQ(src, dst)
	case "xmm", "ymm", "zmm":
		ctx.VMOVDQU64(src, dst)
	default:
		ctx.KMOVQ(src, dst)
	}
}

// c08ArrayBytes: every measured array is 32 bytes; the component under test is element 1, so there are
// recognisable bytes BEFORE and AFTER it.
const c08ArrayBytes = 32

// c08UnderTest: the opcode of the instruction that follows the marker comment in function name.
func c08UnderTest(fn *ir.Function) string {
	marked := false
	for _, n := range fn.Nodes {
		switch x := n.(type) {
		case *ir.Comment:
			for _, l := range x.Lines {
				if strings.HasPrefix(l, "instruction under test") {
					marked = true
				}
			}
		case *ir.Instruction:
			if marked {
				opc := x.Opcode
				if len(x.Suffixes) > 0 {
					opc += "." + strings.Join(x.Suffixes, ".")
				}
				return opc
			}
		}
	}
	return ""
}

// c08CPU generates, builds and runs the measurement program and emits the
// protocol lines.  Returns statistics for the evidence file.
func c08CPU(o *out, cases []*c08Case, wd, repo string) (map[string]any, error) {
	if len(cases) == 0 {
		return nil, fmt.Errorf("no Load/Store input selected an instruction: nothing to measure")
	}
	if err := os.RemoveAll(wd); err != nil {
		return nil, err
	}
	if err := os.MkdirAll(wd, 0o755); err != nil {
		return nil, err
	}
	var rows []c08Row
	for _, cs := range cases {
		size := int(c08Sizes.Sizeof(cs.basic))
		rows = append(rows, c08Row{cs: cs, idx: len(rows), size: size, k: c08ArrayBytes / size, gotyp: cs.basic.Name()})
	}
	ctx := build.NewContext()
	for _, rw := range rows {
		cs := rw.cs
		if cs.dir == "load" {
			ctx.Function(fmt.Sprintf("load%d", rw.idx))
			ctx.SignatureExpr(fmt.Sprintf("func(a [%d]%s, pin *[64]byte, out *[64]byte)", rw.k, rw.gotyp))
			pinp, err := c08PtrParam(ctx, "pin")
			if err != nil {
				return nil, err
			}
			full, view := c08FullReg(ctx, cs.reg.class)
			c08MoveFull(ctx, cs.reg.class, operand.Mem{Base: pinp}, full)
			ctx.Comment("instruction under test: Load(a[1], " + cs.reg.class + ")")
			ctx.Load(ctx.Param("a").Index(1), view)
			outp, err := c08PtrParam(ctx, "out")
			if err != nil {
				return nil, err
			}
			c08MoveFull(ctx, cs.reg.class, full, operand.Mem{Base: outp})
			ctx.RET()
		} else {
			ctx.Function(fmt.Sprintf("store%d", rw.idx))
			ctx.SignatureExpr(fmt.Sprintf("func(pin *[64]byte) (r [%d]%s)", rw.k, rw.gotyp))
			// pre-fill the result with 0x5a through a pointer (plumbing: no FP-named access other than the one under test)
			p := ctx.GP64()
			ctx.MOVQ(operand.U64(0x5a5a5a5a5a5a5a5a), p)
			b0, err := ctx.Return("r").Index(0).Resolve()
			if err != nil {
				return nil, err
			}
			rp := ctx.GP64()
			ctx.LEAQ(b0.Addr, rp)
			for off := 0; off < c08ArrayBytes; off += 8 {
				ctx.MOVQ(p, operand.Mem{Base: rp, Disp: off})
			}
			pinp, err := c08PtrParam(ctx, "pin")
			if err != nil {
				return nil, err
			}
			full, view := c08FullReg(ctx, cs.reg.class)
			c08MoveFull(ctx, cs.reg.class, operand.Mem{Base: pinp}, full)
			ctx.Comment("instruction under test: Store(" + cs.reg.class + ", r[1])")
			ctx.Store(view, ctx.Return("r").Index(1))
			ctx.RET()
		}
	}
	file, err := ctx.Result()
	if err != nil {
		return nil, fmt.Errorf("building the measurement functions: %v", err)
	}
	// which instruction did avo emit at the marked call in the function that is measured
	measuredOpc := map[int]string{}
	for i, fn := range file.Functions() {
		if i < len(rows) {
			measuredOpc[i] = c08UnderTest(fn)
		}
	}
	if err := pass.Compile.Execute(file); err != nil {
		return nil, fmt.Errorf("compiling the measurement functions: %v", err)
	}
	cfg := printer.Config{Name: "avoh c08", Pkg: "main"}
	asm, err := printer.NewGoAsm(cfg).Print(file)
	if err != nil {
		return nil, err
	}
	stubs, err := printer.NewStubs(cfg).Print(file)
	if err != nil {
		return nil, err
	}
	// main.go
	var m bytes.Buffer
	m.WriteString("package main\n\nimport (\n\t\"encoding/hex\"\n\t\"fmt\"\n\t\"math\"\n\t\"unsafe\"\n)\n\nvar _ = math.Float32bits\nvar _ = unsafe.Pointer(nil)\n\n")
	m.WriteString("func b2u(b bool) uint64 {\n\tif b {\n\t\treturn 1\n\t}\n\treturn 0\n}\n\n")
	m.WriteString("func le(v uint64, n int) string {\n\tb := make([]byte, n)\n\tfor i := range b {\n\t\tb[i] = byte(v >> (8 * uint(i)))\n\t}\n\treturn hex.EncodeToString(b)\n}\n\n")
	m.WriteString("var patterns = []uint64{0, 1, 0xffffffffffffffff, 0x8000000000000000, 0x7fffffffffffffff, 0x8182838485868788, 0x0102030405060708, 0x80, 0x8000, 0x80000000, 0x7f, 0xff7f}\n\n")
	m.WriteString("func main() {\n\tvar pin, out [64]byte\n\t_ = out\n")
	for _, rw := range rows {
		cs := rw.cs
		t := rw.gotyp
		n := rw.size
		// how a raw pattern becomes a value of the type, and back to raw bytes
		var fromBits, toBits string
		switch {
		case t == "bool":
			fromBits = "(v&1 == 1)"
			toBits = "b2u(x)"
		case t == "float32":
			fromBits = "math.Float32frombits(uint32(v))"
			toBits = "uint64(math.Float32bits(x))"
		case t == "float64":
			fromBits = "math.Float64frombits(v)"
			toBits = "math.Float64bits(x)"
		default:
			fromBits = fmt.Sprintf("%s(v)", t)
			toBits = fmt.Sprintf("uint64(%s(x))", c08UintOf(n))
		}
		if cs.dir == "load" {
			// Go's own conversion to the register width (general-purpose destinations)
			w := int(cs.reg.r.Size())
			conv := "uint64(0)"
			if cs.reg.r.Kind() == reg.KindGP {
				switch {
				case t == "bool":
					conv = "b2u(x)"
				case cs.basic.Info()&types.IsInteger != 0 && cs.basic.Info()&types.IsUnsigned == 0:
					// Go converts a signed integer to a wider integer type by sign extension
					conv = fmt.Sprintf("uint64(%s(%s(x)))", c08UintOf(w), c08IntOf(w))
				case cs.basic.Info()&types.IsInteger != 0:
					conv = fmt.Sprintf("uint64(%s(x))", c08UintOf(w))
				default:
					conv = toBits
				}
			}
			fmt.Fprintf(&m, "\tfor _, v := range patterns {\n\t\tfor _, pz := range []byte{0x5a, 0xa5} {\n\t\t\tfor i := range pin {\n\t\t\t\tpin[i] = pz\n\t\t\t}\n")
			fmt.Fprintf(&m, "\t\t\tx := %s\n\t\t\tvar a [%d]%s\n", fromBits, rw.k, t)
			// neighbours on both sides: recognisable non-zero bytes, written through the raw memory of the array
			fmt.Fprintf(&m, "\t\t\traw := unsafe.Slice((*byte)(unsafe.Pointer(&a)), %d)\n\t\t\tfor i := range raw {\n\t\t\t\traw[i] = byte(0xc0 + i)\n\t\t\t}\n\t\t\ta[1] = x\n", c08ArrayBytes)
			fmt.Fprintf(&m, "\t\t\tmem := append([]byte(nil), raw...)\n")
			fmt.Fprintf(&m, "\t\t\tload%d(a, &pin, &out)\n\t\t\tbase := out\n", rw.idx)
			// dependence: which memory bytes does the register depend on (first, one past last, how many)
			fmt.Fprintf(&m, "\t\t\tlo, hi, cnt := -1, 0, 0\n\t\t\tfor k := 0; k < len(raw); k++ {\n\t\t\t\tb := a\n\t\t\t\tr2 := unsafe.Slice((*byte)(unsafe.Pointer(&b)), %d)\n\t\t\t\tr2[k] ^= 0xff\n", c08ArrayBytes)
			if t == "bool" {
				// a bool may only hold 0 or 1: flip within the valid values for its byte
				fmt.Fprintf(&m, "\t\t\t\tif k == %d {\n\t\t\t\t\tr2[k] = raw[k] ^ 1\n\t\t\t\t}\n", n)
			}
			fmt.Fprintf(&m, "\t\t\t\tload%d(b, &pin, &out)\n\t\t\t\tif out != base {\n\t\t\t\t\tif lo < 0 {\n\t\t\t\t\t\tlo = k\n\t\t\t\t\t}\n\t\t\t\t\thi = k + 1\n\t\t\t\t\tcnt++\n\t\t\t\t}\n\t\t\t}\n", rw.idx)
			fmt.Fprintf(&m, "\t\t\tfmt.Printf(\"L %d v=%%s mem=%%s pin=%%02x reg=%%s go=%%s dep=%%d:%%d:%%d\\n\", le(%s, %d), hex.EncodeToString(mem), pz, hex.EncodeToString(base[:]), le(%s, %d), lo, hi, cnt)\n", rw.idx, toBits, n, conv, w)
			m.WriteString("\t\t}\n\t}\n")
		} else {
			fmt.Fprintf(&m, "\tfor _, v := range patterns {\n\t\tfor i := range pin {\n\t\t\tpin[i] = byte(0x11*(i%%15+1)) ^ byte(v>>uint(8*(i%%8)))\n\t\t}\n")
			fmt.Fprintf(&m, "\t\tr := store%d(&pin)\n\t\traw := unsafe.Slice((*byte)(unsafe.Pointer(&r)), %d)\n", rw.idx, c08ArrayBytes)
			fmt.Fprintf(&m, "\t\tfmt.Printf(\"S %d src=%%s after=%%s\\n\", hex.EncodeToString(pin[:]), hex.EncodeToString(raw))\n\t}\n", rw.idx)
		}
	}
	m.WriteString("}\n")
	files := map[string][]byte{
		"go.mod":        []byte("module c08cpu\n\ngo 1.21\n"),
		"funcs_amd64.s": asm,
		"stubs.go":      stubs,
		"main.go":       m.Bytes(),
	}
	for name, data := range files {
		if err := os.WriteFile(filepath.Join(wd, name), data, 0o644); err != nil {
			return nil, err
		}
	}
	exe := filepath.Join(wd, "c08cpu")
	cmd := exec.Command("go", "build", "-o", exe, ".")
	cmd.Dir = wd
	if outb, err := cmd.CombinedOutput(); err != nil {
		return nil, fmt.Errorf("go build of the measurement program failed: %v\n%s", err, outb)
	}
	vet := exec.Command("go", "vet", "-asmdecl", ".")
	vet.Dir = wd
	vetOut, _ := vet.CombinedOutput()
	run := exec.Command(exe)
	run.Dir = wd
	outb, err := run.Output()
	if err != nil {
		return nil, fmt.Errorf("measurement program failed: %v", err)
	}
	head := func(rw c08Row) (string, string) {
		cs := rw.cs
		return fmt.Sprintf("%s %s %s %d %d %s", cs.dir, c08TypeToken(cs.basic.Name()), cs.reg.class, int(cs.basic.Info()), rw.size, c06EncOp(cs.reg.r)), measuredOpc[rw.idx]
	}
	// the instruction in the measured function is the one the isolated run selected
	for _, rw := range rows {
		if want := strings.TrimPrefix(rw.cs.out.resp, "op "); measuredOpc[rw.idx] != want {
			return nil, fmt.Errorf("row %d (%s %s %s): the measured function holds %q at the marked call, the isolated run selected %q",
				rw.idx, rw.cs.dir, rw.gotyp, rw.cs.reg.class, measuredOpc[rw.idx], want)
		}
	}
	nLoad, nStore, bad := 0, 0, 0
	perRow := map[int]int{}
	for _, line := range strings.Split(string(outb), "\n") {
		if strings.TrimSpace(line) == "" {
			continue
		}
		fs := strings.Fields(line)
		idx := -1
		if len(fs) >= 3 {
			if _, err := fmt.Sscanf(fs[1], "%d", &idx); err != nil {
				idx = -1
			}
		}
		if idx < 0 || idx >= len(rows) || (fs[0] != "L" && fs[0] != "S") {
			bad++
			continue
		}
		rw := rows[idx]
		cs := rw.cs
		kvs := map[string]string{}
		for _, f := range fs[2:] {
			if i := strings.IndexByte(f, '='); i > 0 {
				kvs[f[:i]] = f[i+1:]
			}
		}
		hd, opc := head(rw)
		regTok := c06EncOp(cs.reg.r)
		off := rw.size // the component is element 1
		perRow[idx]++
		switch fs[0] {
		case "L":
			regImg, err1 := hex.DecodeString(kvs["reg"])
			memImg, err2 := hex.DecodeString(kvs["mem"])
			if err1 != nil || err2 != nil || len(regImg) != 64 || len(memImg) != c08ArrayBytes {
				bad++
				continue
			}
			nLoad++
			// model of the instruction: resulting register bytes (value part)
			var got string
			switch cs.reg.r.Kind() {
			case reg.KindGP:
				roff := 0
				if cs.reg.class == "gp8h" {
					roff = 1
				}
				nb := int(cs.reg.r.Size())
				got = hex.EncodeToString(regImg[roff : roff+nb])
			case reg.KindOpmask:
				got = hex.EncodeToString(regImg[:8])
			default:
				w := 16
				if s := int(cs.reg.r.Size()); c08IsFullVector(opc) && s > w {
					w = s
				}
				got = hex.EncodeToString(regImg[:w])
			}
			o.emit(fmt.Sprintf("cpu-load %s %s %s", opc, regTok, hex.EncodeToString(memImg[off:])), got)
			o.emit(fmt.Sprintf("accept-cpu %s %s off=%d v=%s reg=%s go=%s dep=%s", hd, opc, off, kvs["v"], kvs["reg"], kvs["go"], kvs["dep"]), "ok")
		case "S":
			src, err1 := hex.DecodeString(kvs["src"])
			after, err2 := hex.DecodeString(kvs["after"])
			if err1 != nil || err2 != nil || len(src) != 64 || len(after) != c08ArrayBytes {
				bad++
				continue
			}
			nStore++
			roff := 0
			if cs.reg.class == "gp8h" {
				roff = 1
			}
			before := strings.Repeat(fmt.Sprintf("%02x", c08Poison), c08ArrayBytes)
			o.emit(fmt.Sprintf("cpu-store %s %s %s %s", opc, regTok, hex.EncodeToString(src[roff:]), before[2*off:]), hex.EncodeToString(after[off:]))
			o.emit(fmt.Sprintf("accept-cpu %s %s off=%d src=%s before=%s after=%s", hd, opc, off, kvs["src"], before, kvs["after"]), "ok")
		}
	}
	// every row must have produced all its observations (12 patterns; loads x 2 register poisons)
	for _, rw := range rows {
		want := 12
		if rw.cs.dir == "load" {
			want = 24
		}
		if perRow[rw.idx] != want {
			return nil, fmt.Errorf("row %d (%s %s %s): %d observations, expected %d", rw.idx, rw.cs.dir, rw.gotyp, rw.cs.reg.class, perRow[rw.idx], want)
		}
	}
	if bad != 0 {
		return nil, fmt.Errorf("measurement program printed %d lines that could not be interpreted", bad)
	}
	// go vet -asmdecl: a width diagnostic inside a measured function is about the instruction under test (the
	// plumbing does not touch FP names other than 8-byte pointers); it is judged by the model (accept-vet)
	nVet, vetOther := 0, 0
	var vetLines []string
	for _, line := range strings.Split(string(vetOut), "\n") {
		line = strings.TrimSpace(line)
		if line == "" || strings.HasPrefix(line, "#") {
			continue
		}
		vetLines = append(vetLines, line)
		idx := -1
		for _, pref := range []string{"] load", "] store"} {
			if i := strings.Index(line, pref); i >= 0 {
				rest := line[i+len(pref):]
				if j := strings.IndexByte(rest, ':'); j > 0 {
					if _, err := fmt.Sscanf(rest[:j], "%d", &idx); err != nil {
						idx = -1
					}
				}
			}
		}
		if idx < 0 || idx >= len(rows) {
			vetOther++
			continue
		}
		nVet++
		hd, opc := head(rows[idx])
		msg := line
		if i := strings.Index(line, "] "); i >= 0 {
			msg = line[i+2:]
		}
		if i := strings.Index(msg, ": "); i >= 0 {
			msg = msg[i+2:]
		}
		o.emit(fmt.Sprintf("accept-vet %s %s %s", hd, opc, c06Hex(msg)), "ok")
	}
	return map[string]any{"rows_measured": len(rows), "load_observations": nLoad, "store_observations": nStore,
		"go_vet_asmdecl_diagnostics": nVet, "go_vet_unattributed_lines": vetOther, "go_vet_asmdecl": vetLines}, nil
}

func c08IsFullVector(opc string) bool {
	return strings.HasPrefix(opc, "VMOVDQU") || opc == "MOVOU"
}
