package main

import (
	"bytes"
	"encoding/hex"
	"fmt"
	"go/types"
	"os"
	"os/exec"
	"path/filepath"
	"strings"

	"github.com/mmcloughlin/avo/build"
	"github.com/mmcloughlin/avo/gotypes"
	"github.com/mmcloughlin/avo/operand"
	"github.com/mmcloughlin/avo/pass"
	"github.com/mmcloughlin/avo/printer"
	"github.com/mmcloughlin/avo/reg"
)

// C08, measured part.  For each selected (direction, type, register class) the
// REAL avo generates an assembly function around the REAL Context.Load /
// Context.Store; a throw-away Go program calls it on boundary values with
// recognisable neighbours and prints raw machine state; the lines below turn
// that into protocol requests:
//   cpu-load / cpu-store   exact comparison with the model's movSem (validation of the hand-written semantics)
//   accept-cpu             the property itself on what the CPU did (Go conversion; nothing adjacent touched)

const c08Poison = 0x5a

// c08GoSizeType is the unsigned integer type of n bytes.
func c08UintOf(n int) string { return fmt.Sprintf("uint%d", 8*n) }
func c08IntOf(n int) string  { return fmt.Sprintf("int%d", 8*n) }

type c08Row struct {
	cs    *c08Case
	idx   int
	size  int
	k     int // array length: the array covers at least 16 bytes
	gotyp string
}

func c08FullReg(ctx *build.Context, class string) (full reg.Register, view reg.Register) {
	switch class {
	case "gp8l", "gp8h", "gp16", "gp32", "gp64":
		g := ctx.GP64()
		switch class {
		case "gp8l":
			return g, g.As8L()
		case "gp8h":
			return g, g.As8H()
		case "gp16":
			return g, g.As16()
		case "gp32":
			return g, g.As32()
		}
		return g, g
	case "xmm", "ymm", "zmm":
		z := ctx.ZMM()
		switch class {
		case "xmm":
			return z, z.AsX()
		case "ymm":
			return z, z.AsY()
		}
		return z, z
	}
	k := ctx.K()
	return k, k
}

// c08PtrParam loads a pointer parameter with an explicit MOVQ (the plumbing of
// the measurement functions does not go through Load/Store, which are under test).
func c08PtrParam(ctx *build.Context, name string) (reg.Register, error) {
	b, err := ctx.Param(name).Resolve()
	if err != nil {
		return nil, err
	}
	r := ctx.GP64()
	ctx.MOVQ(b.Addr, r)
	return r, nil
}

func c08MoveFull(ctx *build.Context, class string, src, dst operand.Op) {
	switch class {
	case "gp8l", "gp8h", "gp16", "gp32", "gp64":
		ctx.MOVQ(src, dst)
	case "xmm", "ymm", "zmm":
		ctx.VMOVDQU64(src, dst)
	default:
		ctx.KMOVQ(src, dst)
	}
}

// c08CPU generates, builds and runs the measurement program and emits the
// protocol lines.  Returns statistics for the evidence file.
func c08CPU(o *out, cases []*c08Case, wd, repo string) (map[string]any, error) {
	if err := os.RemoveAll(wd); err != nil {
		return nil, err
	}
	if err := os.MkdirAll(wd, 0o755); err != nil {
		return nil, err
	}
	var rows []c08Row
	for _, cs := range cases {
		size := int(gotypes.Sizes.Sizeof(cs.basic))
		k := 16 / size
		if k < 2 {
			k = 2
		}
		rows = append(rows, c08Row{cs: cs, idx: len(rows), size: size, k: k, gotyp: cs.basic.Name()})
	}
	ctx := build.NewContext()
	for _, rw := range rows {
		cs := rw.cs
		if cs.dir == "load" {
			ctx.Function(fmt.Sprintf("load%d", rw.idx))
			ctx.SignatureExpr(fmt.Sprintf("func(a [%d]%s, pin *[64]byte, out *[64]byte)", rw.k, rw.gotyp))
			pinp, err := c08PtrParam(ctx, "pin")
			if err != nil {
				return nil, err
			}
			full, view := c08FullReg(ctx, cs.reg.class)
			c08MoveFull(ctx, cs.reg.class, operand.Mem{Base: pinp}, full)
			ctx.Comment("instruction under test: Load(a[0], " + cs.reg.class + ")")
			ctx.Load(ctx.Param("a").Index(0), view)
			outp, err := c08PtrParam(ctx, "out")
			if err != nil {
				return nil, err
			}
			c08MoveFull(ctx, cs.reg.class, full, operand.Mem{Base: outp})
			ctx.RET()
		} else {
			ctx.Function(fmt.Sprintf("store%d", rw.idx))
			ctx.SignatureExpr(fmt.Sprintf("func(pin *[64]byte) (r [%d]%s)", rw.k, rw.gotyp))
			p := ctx.GP64()
			ctx.MOVQ(operand.U64(0x5a5a5a5a5a5a5a5a), p)
			for off := 0; off < rw.k*rw.size; off += 8 {
				b, err := ctx.Return("r").Index(off / rw.size).Resolve()
				if err != nil {
					return nil, err
				}
				ctx.MOVQ(p, b.Addr)
			}
			pinp, err := c08PtrParam(ctx, "pin")
			if err != nil {
				return nil, err
			}
			full, view := c08FullReg(ctx, cs.reg.class)
			c08MoveFull(ctx, cs.reg.class, operand.Mem{Base: pinp}, full)
			ctx.Comment("instruction under test: Store(" + cs.reg.class + ", r[0])")
			ctx.Store(view, ctx.Return("r").Index(0))
			ctx.RET()
		}
	}
	file, err := ctx.Result()
	if err != nil {
		return nil, fmt.Errorf("building the measurement functions: %v", err)
	}
	if err := pass.Compile.Execute(file); err != nil {
		return nil, fmt.Errorf("compiling the measurement functions: %v", err)
	}
	cfg := printer.Config{Name: "avoh c08", Pkg: "main"}
	asm, err := printer.NewGoAsm(cfg).Print(file)
	if err != nil {
		return nil, err
	}
	stubs, err := printer.NewStubs(cfg).Print(file)
	if err != nil {
		return nil, err
	}
	// which instruction did avo emit for the marked call (read back from the compiled file)
	// main.go
	var m bytes.Buffer
	m.WriteString("package main\n\nimport (\n\t\"encoding/hex\"\n\t\"fmt\"\n\t\"math\"\n\t\"unsafe\"\n)\n\nvar _ = math.Float32bits\nvar _ = unsafe.Pointer(nil)\n\n")
	m.WriteString("func b2u(b bool) uint64 {\n\tif b {\n\t\treturn 1\n\t}\n\treturn 0\n}\n\n")
	m.WriteString("func le(v uint64, n int) string {\n\tb := make([]byte, n)\n\tfor i := range b {\n\t\tb[i] = byte(v >> (8 * uint(i)))\n\t}\n\treturn hex.EncodeToString(b)\n}\n\n")
	m.WriteString("var patterns = []uint64{0, 1, 0xffffffffffffffff, 0x8000000000000000, 0x7fffffffffffffff, 0x8182838485868788, 0x0102030405060708, 0x80, 0x8000, 0x80000000, 0x7f, 0xff7f}\n\n")
	m.WriteString("func main() {\n\tvar pin, out [64]byte\n\t_ = out\n")
	for _, rw := range rows {
		cs := rw.cs
		t := rw.gotyp
		n := rw.size
		// how a raw pattern becomes a value of the type, and back to raw bytes
		var fromBits, toBits string
		switch {
		case t == "bool":
			fromBits = "(v&1 == 1)"
			toBits = "b2u(x)"
		case t == "float32":
			fromBits = "math.Float32frombits(uint32(v))"
			toBits = "uint64(math.Float32bits(x))"
		case t == "float64":
			fromBits = "math.Float64frombits(v)"
			toBits = "math.Float64bits(x)"
		default:
			fromBits = fmt.Sprintf("%s(v)", t)
			toBits = fmt.Sprintf("uint64(%s(x))", c08UintOf(n))
		}
		if cs.dir == "load" {
			// Go's own conversion to the register width (general-purpose destinations)
			w := int(cs.reg.r.Size())
			conv := "uint64(0)"
			if cs.reg.r.Kind() == reg.KindGP {
				switch {
				case t == "bool":
					conv = "b2u(x)"
				case cs.basic.Info()&types.IsInteger != 0 && cs.basic.Info()&types.IsUnsigned == 0:
					// Go converts a signed integer to a wider integer type by sign extension
					conv = fmt.Sprintf("uint64(%s(%s(x)))", c08UintOf(w), c08IntOf(w))
				case cs.basic.Info()&types.IsInteger != 0:
					conv = fmt.Sprintf("uint64(%s(x))", c08UintOf(w))
				default:
					conv = toBits
				}
			}
			fmt.Fprintf(&m, "\tfor _, v := range patterns {\n\t\tfor _, pz := range []byte{0x5a, 0xa5} {\n\t\t\tfor i := range pin {\n\t\t\t\tpin[i] = pz\n\t\t\t}\n")
			fmt.Fprintf(&m, "\t\t\tx := %s\n\t\t\tvar a [%d]%s\n\t\t\ta[0] = x\n", fromBits, rw.k, t)
			// neighbours: recognisable non-zero bytes, written through the raw memory of the array
			fmt.Fprintf(&m, "\t\t\traw := unsafe.Slice((*byte)(unsafe.Pointer(&a)), %d)\n\t\t\tfor i := %d; i < len(raw); i++ {\n\t\t\t\traw[i] = byte(0xc0 + i)\n\t\t\t}\n", rw.k*n, n)
			fmt.Fprintf(&m, "\t\t\tmem := append([]byte(nil), raw...)\n")
			fmt.Fprintf(&m, "\t\t\tload%d(a, &pin, &out)\n\t\t\tbase := out\n", rw.idx)
			// dependence: flip each memory byte beyond... and inside the component
			fmt.Fprintf(&m, "\t\t\tdep := 0\n\t\t\tfor k := 0; k < len(raw); k++ {\n\t\t\t\tb := a\n\t\t\t\tr2 := unsafe.Slice((*byte)(unsafe.Pointer(&b)), %d)\n\t\t\t\tr2[k] ^= 0xff\n", rw.k*n)
			if t == "bool" {
				// a bool may only hold 0 or 1: flip within the valid values for byte 0
				fmt.Fprintf(&m, "\t\t\t\tif k == 0 {\n\t\t\t\t\tr2[k] = raw[k] ^ 1\n\t\t\t\t}\n")
			}
			fmt.Fprintf(&m, "\t\t\t\tload%d(b, &pin, &out)\n\t\t\t\tif out != base {\n\t\t\t\t\tdep = k + 1\n\t\t\t\t}\n\t\t\t}\n", rw.idx)
			fmt.Fprintf(&m, "\t\t\tfmt.Printf(\"L %d v=%%s mem=%%s pin=%%02x reg=%%s go=%%s dep=%%d\\n\", le(%s, %d), hex.EncodeToString(mem), pz, hex.EncodeToString(base[:]), le(%s, %d), dep)\n", rw.idx, toBits, n, conv, w)
			m.WriteString("\t\t}\n\t}\n")
		} else {
			fmt.Fprintf(&m, "\tfor _, v := range patterns {\n\t\tfor i := range pin {\n\t\t\tpin[i] = byte(0x11*(i%%15+1)) ^ byte(v>>uint(8*(i%%8)))\n\t\t}\n")
			fmt.Fprintf(&m, "\t\tr := store%d(&pin)\n\t\traw := unsafe.Slice((*byte)(unsafe.Pointer(&r)), %d)\n", rw.idx, rw.k*n)
			fmt.Fprintf(&m, "\t\tfmt.Printf(\"S %d src=%%s after=%%s\\n\", hex.EncodeToString(pin[:]), hex.EncodeToString(raw))\n\t}\n", rw.idx)
		}
	}
	m.WriteString("}\n")
	files := map[string][]byte{
		"go.mod":        []byte("module c08cpu\n\ngo 1.21\n"),
		"funcs_amd64.s": asm,
		"stubs.go":      stubs,
		"main.go":       m.Bytes(),
	}
	for name, data := range files {
		if err := os.WriteFile(filepath.Join(wd, name), data, 0o644); err != nil {
			return nil, err
		}
	}
	exe := filepath.Join(wd, "c08cpu")
	cmd := exec.Command("go", "build", "-o", exe, ".")
	cmd.Dir = wd
	if outb, err := cmd.CombinedOutput(); err != nil {
		return nil, fmt.Errorf("go build of the measurement program failed: %v\n%s", err, outb)
	}
	vet := exec.Command("go", "vet", "-asmdecl", ".")
	vet.Dir = wd
	vetOut, _ := vet.CombinedOutput()
	run := exec.Command(exe)
	run.Dir = wd
	outb, err := run.Output()
	if err != nil {
		return nil, fmt.Errorf("measurement program failed: %v", err)
	}
	nLoad, nStore := 0, 0
	for _, line := range strings.Split(string(outb), "\n") {
		fs := strings.Fields(line)
		if len(fs) < 3 {
			continue
		}
		var idx int
		fmt.Sscanf(fs[1], "%d", &idx)
		if idx < 0 || idx >= len(rows) {
			continue
		}
		rw := rows[idx]
		cs := rw.cs
		kvs := map[string]string{}
		for _, f := range fs[2:] {
			if i := strings.IndexByte(f, '='); i > 0 {
				kvs[f[:i]] = f[i+1:]
			}
		}
		opc := strings.TrimPrefix(cs.out.resp, "op ")
		regTok := c06EncOp(cs.reg.r)
		ti := int(cs.basic.Info())
		head := fmt.Sprintf("%s %s %s %d %d %s", cs.dir, c08TypeToken(cs.basic.Name()), cs.reg.class, ti, rw.size, regTok)
		switch fs[0] {
		case "L":
			nLoad++
			regImg, _ := hex.DecodeString(kvs["reg"])
			// model of the instruction: resulting register bytes (value part)
			var got string
			switch cs.reg.r.Kind() {
			case reg.KindGP:
				off := 0
				if cs.reg.class == "gp8h" {
					off = 1
				}
				nb := c08ValueBytes(opc, int(cs.reg.r.Size()))
				got = hex.EncodeToString(regImg[off : off+nb])
			case reg.KindOpmask:
				got = hex.EncodeToString(regImg[:8])
			default:
				w := 16
				if s := int(cs.reg.r.Size()); c08IsFullVector(opc) && s > w {
					w = s
				}
				got = hex.EncodeToString(regImg[:w])
			}
			o.emit(fmt.Sprintf("cpu-load %s %s %s", opc, regTok, kvs["mem"]), got)
			o.emit(fmt.Sprintf("accept-cpu %s %s v=%s reg=%s go=%s dep=%s", head, opc, kvs["v"], kvs["reg"], kvs["go"], kvs["dep"]), "ok")
		case "S":
			nStore++
			src, _ := hex.DecodeString(kvs["src"])
			off := 0
			if cs.reg.class == "gp8h" {
				off = 1
			}
			before := strings.Repeat(fmt.Sprintf("%02x", c08Poison), rw.k*rw.size)
			o.emit(fmt.Sprintf("cpu-store %s %s %s %s", opc, regTok, hex.EncodeToString(src[off:]), before), kvs["after"])
			o.emit(fmt.Sprintf("accept-cpu %s %s src=%s before=%s after=%s", head, opc, kvs["src"], before, kvs["after"]), "ok")
		}
	}
	if nLoad+nStore == 0 {
		return nil, fmt.Errorf("measurement program printed nothing")
	}
	return map[string]any{"rows_measured": len(rows), "load_observations": nLoad, "store_observations": nStore,
		"go_vet_asmdecl": strings.TrimSpace(string(vetOut))}, nil
}

// c08ValueBytes: how many low register bytes the harness reports for a load
// into a general-purpose register: the bytes the instruction defines as the
// (extended) value — the destination operand's width.
func c08ValueBytes(opc string, regSize int) int { return regSize }

func c08IsFullVector(opc string) bool {
	return strings.HasPrefix(opc, "VMOVDQU") || opc == "MOVOU"
}
