package main

import (
	"fmt"
	"strconv"
	"strings"

	"github.com/mmcloughlin/avo/attr"
	"github.com/mmcloughlin/avo/build"
	"github.com/mmcloughlin/avo/gotypes"
	"github.com/mmcloughlin/avo/ir"
	"github.com/mmcloughlin/avo/operand"
	"github.com/mmcloughlin/avo/pass"
	"github.com/mmcloughlin/avo/printer"
	"github.com/mmcloughlin/avo/reg"
	"github.com/mmcloughlin/avo/x86"
)

// C15: the frame pointer register survives every generated function.
//
// Correspondence of pass.EnsureBasePointerCalleeSaved with the Lean model on
// generated functions that went through the real LabelTarget / CFG /
// ZeroExtend32BitOutputs / Liveness / AllocateRegisters / BindRegisters /
// VerifyAllocation, forced into BP-related situations (author-named BP views,
// register pressure of 15 simultaneously live virtuals, all attribute sets,
// frames 0 and >0, with and without CALL); acceptors stating the property on
// the implementation's outcome, also on the outcome of the whole pass.Compile;
// and a measured end-to-end sample: functions compiled by pass.Compile are
// printed, assembled, and called through a trampoline that compares the
// caller's BP before and after.
//
// Every generated function is described by a c15Spec (seeds + options) from
// which it can be rebuilt identically: the same function is sent through the
// explicit pass sequence, through pass.Compile alone, through pass.Compile as
// one of several functions of a file (built directly as ir.File or through
// build.Context, with and without arguments), and - when Compile refuses -
// through Compile once more with the NOFRAME bit cleared (control experiment:
// was it the NOFRAME bit that caused the refusal?).

const c15LeafRef = "·c15leaf(SB)"

var c15BaseAttrs = []attr.Attribute{0, attr.NOSPLIT, attr.NOFRAME, attr.NOSPLIT | attr.NOFRAME}

func c15Inst(op string, ops ...operand.Op) *ir.Instruction {
	inst, err := x86.VerifBuild(op, nil, ops)
	if err != nil {
		return nil
	}
	return inst
}

// c15BPWrite builds an instruction with a view of the base pointer as destination.
func c15BPWrite(r *rng, src reg.Register) *ir.Instruction {
	v := func(s reg.Spec) reg.Register { return asSpec(reg.RBP, s) }
	var srcOf func(s reg.Spec) operand.Op
	srcOf = func(s reg.Spec) operand.Op {
		if src != nil {
			if x := asSpec(src, s); x != nil {
				return x
			}
		}
		return asSpec(reg.RAX, s)
	}
	// half of the time the instruction is drawn from the shapes of the form sweep (every row of the form table that
	// can have a view of BP as destination, the "looks like a no-op" shapes included), register-only ones, with the
	// other general-purpose operands replaced by views of src
	if len(c15Pool.write) > 0 && r.chance(1, 2) {
		if inst := pick(r, c15Pool.write).instWith(srcOf); inst != nil {
			return inst
		}
	}
	switch r.intn(20) {
	case 16: // BP as the SECOND output register of the instruction
		return c15Inst("XCHGQ", v(reg.S64), srcOf(reg.S64))
	case 17:
		return c15Inst("XADDQ", srcOf(reg.S64), v(reg.S64))
	case 18:
		return c15Inst("XCHGW", srcOf(reg.S16), v(reg.S16))
	case 19:
		return c15Inst("XCHGB", srcOf(reg.S8L), v(reg.S8L))
	case 0:
		return c15Inst("MOVQ", operand.I32(0x5a5a5a), v(reg.S64))
	case 1:
		return c15Inst("MOVL", operand.U32(0x1234567), v(reg.S32))
	case 2:
		return c15Inst("MOVW", operand.U16(0xbeef), v(reg.S16))
	case 3:
		return c15Inst("MOVB", operand.U8(0xa5), v(reg.S8L))
	case 4:
		return c15Inst("XORL", v(reg.S32), v(reg.S32))
	case 5:
		return c15Inst("XORQ", v(reg.S64), v(reg.S64))
	case 6:
		return c15Inst("ADDQ", srcOf(reg.S64), v(reg.S64))
	case 7:
		return c15Inst("XCHGQ", srcOf(reg.S64), v(reg.S64))
	case 8:
		return c15Inst("LEAQ", operand.Mem{Base: srcOf(reg.S64).(reg.Register), Disp: 8}, v(reg.S64))
	case 9:
		return c15Inst("MOVBQZX", srcOf(reg.S8L), v(reg.S64))
	case 10:
		return c15Inst("POPCNTQ", srcOf(reg.S64), v(reg.S64))
	case 11:
		return c15Inst("CMOVQEQ", srcOf(reg.S64), v(reg.S64))
	case 12:
		return c15Inst("ADDB", srcOf(reg.S8L), v(reg.S8L))
	case 13:
		return c15Inst("ADDW", srcOf(reg.S16), v(reg.S16))
	case 14:
		return c15Inst("SETEQ", v(reg.S8L))
	default:
		return c15Inst("MOVQ", srcOf(reg.S64), v(reg.S64))
	}
}

// c15Meta describes how a generated function was forced.
type c15Meta struct {
	gen        string
	authorBP   int
	readsBP    int
	chain      bool
	chainOnly  bool   // the copy is the only write of the chain's register
	chainT     reg.ID // copy chain: the temporary and the virtual it is copied to
	chainV     reg.ID
	nvirt      int
	executable bool
}

// c15GenDirect builds a straight-line, memory-free (hence executable) function: k
// 64-bit virtuals defined up front, register-only arithmetic on all widths,
// optional author-named BP writes and CALLs, and a tail reading every virtual
// so that all k are simultaneously live.
func c15GenDirect(r *rng, name string) (*ir.Function, c15Meta) {
	fn := ir.NewFunction(name)
	col := reg.NewCollection()
	var k int
	switch r.intn(10) {
	case 0, 1, 2, 3:
		k = 15
	case 4, 5:
		k = 14
	case 6:
		k = 16
	default:
		k = r.rangeIn(1, 13)
	}
	m := c15Meta{gen: "direct", nvirt: k, executable: true}
	vs := make([]reg.Register, k)
	for i := range vs {
		vs[i] = col.GP64()
	}
	add := func(inst *ir.Instruction) {
		if inst != nil {
			fn.AddInstruction(inst)
		}
	}
	// copy chain: the last virtual is not defined by a constant but copied (MOVL / LEAL 0(t) / MOVWLZX) from a temporary that dies at the copy: source and destination do not interfere, so under pressure the
	// allocator gives BOTH the one register left — BP: an allocator-made `MOVL BP, BP`
	chain := k >= 2 && r.chance(1, 3)
	for i, v := range vs {
		if chain && i == k-1 {
			t := col.GP64()
			if r.chance(2, 3) {
				add(c15Inst("MOVQ", operand.I32(0x7777), t))
			} else {
				// the temporary is never written (whatever the register holds on entry is copied): the copy is then the
				// ONLY instruction of the function that writes the register both get
				m.chainOnly = true
			}
			// (only copies that are NOT a no-op when both ends get one register: 32-bit destinations zero-extend;
			// `MOVQ BP, BP` cannot modify BP and a scan that leaves it out is not wrong)
			switch r.intn(6) {
			case 0, 1, 2, 3:
				add(c15Inst("MOVL", asSpec(t, reg.S32), asSpec(v, reg.S32)))
			case 4:
				add(c15Inst("LEAL", operand.Mem{Base: t}, asSpec(v, reg.S32)))
			default:
				add(c15Inst("MOVWLZX", asSpec(t, reg.S16), asSpec(v, reg.S32)))
			}
			m.chain, m.chainT, m.chainV = true, t.ID(), v.ID()
			continue
		}
		add(c15Inst("MOVQ", operand.I32(int32(0x1111*(i+1))), v))
	}
	wantBP := k <= 14 && r.chance(1, 2)
	nBody := r.intn(14)
	for j := 0; j < nBody; j++ {
		a, b := pick(r, vs), pick(r, vs)
		switch r.intn(14) {
		case 0:
			add(c15Inst(pick(r, []string{"ADDQ", "SUBQ", "XORQ", "ANDQ", "ORQ", "IMULQ"}), a, b))
		case 1:
			add(c15Inst(pick(r, []string{"ADDL", "XORL", "MOVL"}), asSpec(a, reg.S32), asSpec(b, reg.S32)))
		case 2:
			add(c15Inst("ADDW", asSpec(a, reg.S16), asSpec(b, reg.S16)))
		case 3:
			add(c15Inst("ADDB", asSpec(a, reg.S8L), asSpec(b, reg.S8L)))
		case 4:
			add(c15Inst("MOVB", operand.U8(uint8(r.intn(256))), asSpec(b, reg.S8L)))
		case 5:
			add(c15Inst("MOVW", operand.U16(uint16(r.intn(65536))), asSpec(b, reg.S16)))
		case 6:
			add(c15Inst("MOVL", operand.U32(uint32(r.intn(1<<30))), asSpec(b, reg.S32)))
		case 7:
			add(c15Inst("LEAQ", operand.Mem{Base: a, Index: b, Scale: 2, Disp: 16}, pick(r, vs)))
		case 8:
			add(c15Inst("MOVBQZX", asSpec(a, reg.S8L), b))
		case 9:
			if len(c15Pool.read) > 0 && r.chance(1, 2) {
				// an instruction that only READS a view of BP (source register): must not make the function an error
				x := a
				if inst := pick(r, c15Pool.read).instWith(func(s reg.Spec) operand.Op { return asSpec(x, s) }); inst != nil {
					add(inst)
					m.readsBP++
					break
				}
			}
			add(c15Inst("BSWAPQ", b))
		case 10, 11:
			if wantBP {
				if inst := c15BPWrite(r, a); inst != nil {
					add(inst)
					m.authorBP++
				}
			}
		default:
			add(c15Inst("NOTQ", b))
		}
	}
	if wantBP && m.authorBP == 0 {
		if inst := c15BPWrite(r, vs[0]); inst != nil {
			add(inst)
			m.authorBP++
		}
	}
	for i := 1; i < k; i++ {
		add(c15Inst("ADDQ", vs[i], vs[0]))
	}
	add(c15Inst("RET"))
	return fn, m
}

// c15GenRandom uses the shared random function generator under GP pressure and
// then forces author-named BP writes into it.
func c15GenRandom(r *rng, db *formsDB, tier string) (*ir.Function, c15Meta) {
	cfg := c15GenCfg(r, tier)
	switch r.intn(3) {
	case 0:
		cfg.nGP = 12 + r.intn(5)
		cfg.pressureTail = true
		cfg.physPct = r.intn(8)
	case 1:
		cfg.nGP = 1 + r.intn(14)
		cfg.pressureTail = r.chance(1, 2)
	}
	g := newFgen(r.fork(), db, cfg)
	fn := g.generate()
	m := c15Meta{gen: "random", nvirt: len(g.virt)}
	if r.chance(1, 2) {
		for n := 1 + r.intn(2); n > 0; n-- {
			var src reg.Register
			if len(g.virt) > 0 && r.chance(1, 2) {
				if v := pick(r, g.virt); v.kind == reg.KindGP {
					src = v.r
				}
			}
			if inst := c15BPWrite(r, src); inst != nil {
				c15Insert(r, fn, inst)
				m.authorBP++
			}
		}
	}
	return fn, m
}

// c15GenCfg: shape of the random functions (GP-heavy: this property is about a general-purpose register).
func c15GenCfg(r *rng, tier string) genCfg {
	cfg := genCfg{minInstr: 2, maxInstr: 6 + r.intn(50), physPct: r.intn(35), branchPct: r.intn(25),
		randomFormPct: 15, strict: !r.chance(1, 6)}
	cfg.pressureTail = r.chance(1, 3)
	switch r.intn(5) {
	case 0:
		cfg.nGP = 10 + r.intn(12)
		cfg.pressureTail = r.chance(2, 3)
	case 1:
		cfg.nVec, cfg.nK, cfg.nGP = r.intn(20), r.intn(6), 1+r.intn(4)
	case 2: // byte registers incl. high bytes
		cfg.nGP = 3 + r.intn(8)
		cfg.opcodes = []string{"MOVB", "ADDB", "XORB", "MOVBQZX", "MOVBLZX", "XCHGB", "MOVQ", "ADDQ", "SETEQ", "MOVW", "MOVL"}
	default:
		cfg.nGP, cfg.nVec, cfg.nK = 1+r.intn(9), r.intn(6), r.intn(3)
	}
	if tier == "thorough" && r.chance(1, 25) {
		cfg.maxInstr = 100 + r.intn(300)
	}
	return cfg
}

// c15Insert puts inst at a random position before the last node.
func c15Insert(r *rng, fn *ir.Function, inst *ir.Instruction) {
	n := len(fn.Nodes)
	p := 0
	if n > 0 {
		p = r.intn(n)
	}
	fn.Nodes = append(fn.Nodes, nil)
	copy(fn.Nodes[p+1:], fn.Nodes[p:])
	fn.Nodes[p] = inst
}

// c15WrapFrames: declared frames the assembler's int32 truncation changes (finding F18): 2^31 and 2^32-8 read as
// negative (no frame), 2^32 as 0, 2^32+8 as 8.
var c15WrapFrames = []int{1 << 31, 1<<31 + 8, 3 << 30, 1<<32 - 8, 1 << 32, 1<<32 + 8, 1<<32 + 4096, 1<<33 + 16}

func c15LocalSize(r *rng, aligned bool, nosplit bool, executable bool) int {
	if !executable && r.chance(1, 16) {
		return pick(r, c15WrapFrames)
	}
	switch r.intn(10) {
	case 0, 1, 2, 3:
		return 0
	case 4:
		return 8
	case 5:
		return 16
	case 6:
		return 8 * r.rangeIn(3, 8)
	case 7:
		if nosplit && aligned {
			return 64
		}
		return 4096
	case 8:
		if aligned {
			return 8 * r.rangeIn(1, 16)
		}
		return r.rangeIn(1, 63)
	default:
		if aligned {
			return 24
		}
		return 1 << uint(r.rangeIn(10, 30))
	}
}

// c15CountChainOnBP: did the allocator give BOTH ends of the copy chain the base pointer (an allocator-made self-move)?
func c15CountChainOnBP(fn *ir.Function, m c15Meta, stats map[string]int, prefix string) {
	if m.chain && fn.Allocation != nil && fn.Allocation[m.chainT] == reg.RBP.ID() && fn.Allocation[m.chainV] == reg.RBP.ID() {
		stats[prefix+"allocator_made_bp_self_copy"]++
		if m.chainOnly && m.authorBP == 0 {
			stats[prefix+"allocator_made_bp_self_copy_only_write"]++
		}
	}
}

// c15CountSelfOnBP counts functions with an instruction that has a view of BP as both source and destination
// (author-named or allocator-made), by the width of the destination.
func c15CountSelfOnBP(fn *ir.Function, stats map[string]int, prefix string) {
	seen := map[string]bool{}
	for _, i := range fn.Instructions() {
		if len(i.Operands) != 2 {
			continue
		}
		d, ok := i.Operands[1].(reg.Register)
		if !ok || !c15IsHWBP(d) {
			continue
		}
		src := false
		switch o := i.Operands[0].(type) {
		case reg.Register:
			src = c15IsHWBP(o)
		case operand.Mem:
			src = o.Base != nil && c15IsHWBP(o.Base)
		}
		if key := fmt.Sprintf("%sbp_onto_itself:size%d", prefix, d.Size()); src && !seen[key] {
			seen[key] = true
			stats[key]++
		}
	}
}

func c15HasCall(fn *ir.Function) bool {
	for _, i := range fn.Instructions() {
		if i.Opcode == "CALL" {
			return true
		}
	}
	return false
}

func c15Outs(fn *ir.Function) []reg.Register {
	var outs []reg.Register
	for _, i := range fn.Instructions() {
		outs = append(outs, i.OutputRegisters()...)
	}
	return outs
}

func c15IsHWBP(r reg.Register) bool {
	id := r.ID()
	return id.IsPhysical() && id.Kind() == reg.KindGP && id.Index() == 5
}

// c15Outcome: error versus no error (the message is not compared: the property asks for "an error").
func c15Outcome(fn *ir.Function, err error, panicked bool) string {
	switch {
	case panicked:
		return "panic"
	case err != nil:
		return "err"
	}
	return "ok " + itoa(fn.LocalSize)
}

// c15Ensure runs the real pass on fn and emits the model request and the acceptor.
func c15Ensure(o *out, fn *ir.Function, stats map[string]int) (ok bool, clob bool) {
	attrs := int(fn.Attributes)
	ls := fn.LocalSize
	hasCall := c15HasCall(fn)
	outs := c15Outs(fn)
	for _, r := range outs {
		if c15IsHWBP(r) {
			clob = true
			stats[fmt.Sprintf("bp_view_written:mask%d", r.Mask())]++
		}
	}
	err, panicked := safely(func() error { return pass.EnsureBasePointerCalleeSaved(fn) })
	outcome := c15Outcome(fn, err, panicked)
	body := fmt.Sprintf("%d %d", attrs, ls)
	regs := encRegs(outs)
	o.emit("bp "+body+" "+regs, outcome)
	re, _ := c15RebuiltOuts(fn)
	for _, r := range re {
		clob = clob || c15IsHWBP(r)
	}
	o.emit("accept-bp "+body+" "+b01(hasCall)+" "+encRegs(append(append([]reg.Register{}, outs...), re...))+" => "+outcome, "ok")
	stats["ensure_requests"]++
	if clob {
		stats["ensure_clobbered"]++
	}
	if ls >= 1<<31 {
		stats["ensure_frame_ge_2^31"]++
	}
	key := "ensure:"
	if clob {
		key += "clobbered"
	} else {
		key += "untouched"
	}
	key += fmt.Sprintf(":nosplit%s:noframe%s:", b01(fn.Attributes.NOSPLIT()), b01(fn.Attributes.NOFRAME()))
	if ls == 0 {
		key += "frame0"
	} else {
		key += "frame+"
	}
	key += ":call" + b01(hasCall) + " => " + strings.Fields(outcome)[0]
	if err == nil && fn.LocalSize != ls {
		key += " grown"
	}
	stats[key]++
	return err == nil, clob
}

// c15Prepare sets attributes, local size and CALLs on a generated function.
func c15Prepare(r *rng, fn *ir.Function, executable bool) {
	fn.Attributes = pick(r, c15BaseAttrs)
	if !executable && r.chance(1, 5) {
		fn.Attributes |= attr.Attribute(r.u64() & 0xffff)
	}
	if ls := c15LocalSize(r, executable || r.chance(3, 4), fn.Attributes.NOSPLIT(), executable); ls > 0 {
		if r.chance(1, 3) && ls >= 16 && ls%16 == 0 {
			fn.AllocLocal(ls / 2)
			fn.AllocLocal(ls / 2)
		} else {
			fn.AllocLocal(ls)
		}
	}
	if r.chance(1, 3) {
		for n := 1 + r.intn(2); n > 0; n-- {
			if call := c15Inst("CALL", operand.LabelRef(c15LeafRef)); call != nil {
				c15Insert(r, fn, call)
			}
		}
	}
}

// c15Spec describes a generated function reproducibly: c15Make(spec) always returns the same function.
type c15Spec struct {
	seed         uint64
	direct       bool   // straight-line generator (else the shared random generator)
	executable   bool   // aligned, small frames
	name         string // function name
	sig          string // signature expression ("" = none): exercises the `$frame-args` branch of the printer
	clearNoframe bool   // control experiment: the same function without the NOFRAME bit
}

var c15Sigs = []string{"", "", "func(x uint64) uint64", "func(a, b uint64)", "func(p *byte, n int) (r uint64, ok bool)"}

func c15NewSpec(r *rng, name string) c15Spec {
	return c15Spec{seed: r.u64(), direct: r.chance(1, 2), name: name, sig: pick(r, c15Sigs)}
}

func c15Make(s c15Spec, db *formsDB, tier string) (*ir.Function, c15Meta) {
	r := &rng{s: s.seed}
	var fn *ir.Function
	var m c15Meta
	if s.direct {
		fn, m = c15GenDirect(r.fork(), s.name)
	} else {
		fn, m = c15GenRandom(r.fork(), db, tier)
		fn.Name = s.name
	}
	c15Prepare(r, fn, s.executable)
	if s.clearNoframe {
		fn.Attributes &^= attr.NOFRAME
	}
	if s.sig != "" {
		if sig, err := gotypes.ParseSignature(s.sig); err == nil {
			fn.SetSignature(sig)
		}
	}
	return fn, m
}

// c15Pipeline runs the real passes one by one up to VerifyAllocation.  Returns "ok", "pre_error" (refused before
// allocation), "alloc_error" (allocation, binding or its verification failed) or "panic".
func c15Pipeline(fn *ir.Function, stats map[string]int) string {
	err, panicked := safely(func() error {
		if err := pass.LabelTarget(fn); err != nil {
			return err
		}
		if err := pass.CFG(fn); err != nil {
			return err
		}
		for _, i := range fn.Instructions() {
			if err := pass.ZeroExtend32BitOutputs(i); err != nil {
				return err
			}
		}
		return pass.Liveness(fn)
	})
	if panicked {
		return "panic"
	}
	if err != nil {
		return "pre_error"
	}
	err, panicked = safely(func() error {
		if err := pass.AllocateRegisters(fn); err != nil {
			return err
		}
		if err := pass.BindRegisters(fn); err != nil {
			return err
		}
		return pass.VerifyAllocation(fn)
	})
	if panicked {
		return "panic"
	}
	if err != nil {
		return "alloc_error"
	}
	for _, p := range fn.Allocation {
		if p == reg.RBP.ID() {
			stats["allocator_chose_bp"]++
			break
		}
	}
	c15CountSelfOnBP(fn, stats, "")
	return "ok"
}

// c15PrepLiveness: LabelTarget, CFG, ZeroExtend32BitOutputs only (malformed stream).
func c15PrepLiveness(fn *ir.Function) bool {
	err, _ := safely(func() error {
		if err := pass.LabelTarget(fn); err != nil {
			return err
		}
		if err := pass.CFG(fn); err != nil {
			return err
		}
		for _, i := range fn.Instructions() {
			if err := pass.ZeroExtend32BitOutputs(i); err != nil {
				return err
			}
		}
		return nil
	})
	return err == nil
}

// c15ViaContext rebuilds the functions through a fresh build.Context (attributes, signature, AllocLocal, nodes).
func c15ViaContext(fns []*ir.Function) (*ir.File, error) {
	ctx := build.NewContext()
	for _, fn := range fns {
		ctx.Function(fn.Name)
		ctx.Attributes(fn.Attributes)
		if fn.Signature != nil && fn.Signature.Bytes() > 0 {
			ctx.Signature(fn.Signature)
		}
		if fn.LocalSize != 0 {
			ctx.AllocLocal(fn.LocalSize)
		}
		for _, n := range fn.Nodes {
			switch n := n.(type) {
			case *ir.Instruction:
				ctx.Instruction(n)
			case ir.Label:
				ctx.Label(string(n))
			case *ir.Comment:
				ctx.Comment(n.Lines...)
			}
		}
	}
	return ctx.Result()
}

// c15BuildFile makes the file of the specs: directly as ir.File, or through build.Context.
func c15BuildFile(specs []c15Spec, viaCtx bool, db *formsDB, tier string) (*ir.File, error) {
	var fns []*ir.Function
	for _, s := range specs {
		fn, _ := c15Make(s, db, tier)
		fns = append(fns, fn)
	}
	if viaCtx {
		return c15ViaContext(fns)
	}
	file := ir.NewFile()
	for _, fn := range fns {
		file.AddSection(fn)
	}
	return file, nil
}

// c15TextSizes prints the file with the real Go assembly printer and returns the size token (`$frame[-args]`) of
// every TEXT line, by function name.
func c15TextSizes(file *ir.File) (map[string]string, []byte, error) {
	var asm []byte
	err, panicked := safely(func() error {
		var e error
		asm, e = printer.NewGoAsm(printer.Config{Name: "avoh", Pkg: "main"}).Print(file)
		return e
	})
	if panicked {
		return nil, nil, fmt.Errorf("printer panicked")
	}
	if err != nil {
		return nil, nil, err
	}
	sizes := map[string]string{}
	for _, line := range strings.Split(string(asm), "\n") {
		if !strings.HasPrefix(line, "TEXT ·") {
			continue
		}
		name := strings.TrimPrefix(line, "TEXT ·")
		if i := strings.Index(name, "(SB)"); i >= 0 {
			name = name[:i]
		}
		fs := strings.Split(line, ", ")
		sizes[name] = strings.TrimSpace(fs[len(fs)-1])
	}
	return sizes, asm, nil
}

type c15Compiled struct {
	file   *ir.File
	fns    []*ir.Function
	clob   []bool
	asm    []byte
	judged int
}

// c15CompileFile sends the functions of the specs through the real pass.Compile as ONE file and states the property
// on what comes out: for every function the acceptor line with its bound output registers, the resulting LocalSize
// and the size token of its printed TEXT line.  When Compile refuses the file, a control experiment (same specs,
// NOFRAME bits cleared) decides whether it was the NOFRAME bit that caused the refusal: if so some function of the
// file must be NOFRAME and write BP (judged by the acceptor); if not, the refusal is not this property's (counted).
func c15CompileFile(o *out, specs []c15Spec, viaCtx bool, db *formsDB, tier string, stats map[string]int, tag string) *c15Compiled {
	route := "file"
	if viaCtx {
		route = "ctx"
	}
	stats[tag+":files:"+route]++
	stats[tag+":functions"] += len(specs)
	// what the functions looked like before compilation
	type pre struct {
		attrs, ls int
	}
	var before []pre
	var metas []c15Meta
	for _, s := range specs {
		fn, m := c15Make(s, db, tier)
		before = append(before, pre{int(fn.Attributes), fn.LocalSize})
		metas = append(metas, m)
	}
	compile := func(specs []c15Spec) (*ir.File, error, bool) {
		file, err := c15BuildFile(specs, viaCtx, db, tier)
		if err != nil {
			return nil, err, false
		}
		err, panicked := safely(func() error { return pass.Compile.Execute(file) })
		return file, err, panicked
	}
	file, err, panicked := compile(specs)
	if panicked {
		o.emit(fmt.Sprintf("accept-bp %d %d 0 0 => panic", before[0].attrs, before[0].ls), "ok")
		stats[tag+":panic"]++
		return nil
	}
	if err != nil {
		ctl := make([]c15Spec, len(specs))
		for i, s := range specs {
			s.clearNoframe = true
			ctl[i] = s
		}
		cfile, cerr, cpanicked := compile(ctl)
		if cerr != nil || cpanicked || cfile == nil {
			// refused whatever the NOFRAME bits: not the refusal this property speaks about (nothing is emitted)
			stats[tag+":refused_regardless_of_noframe"]++
			allok := true
			for _, s := range ctl {
				fn, _ := c15Make(s, db, tier)
				if c15Pipeline(fn, map[string]int{}) != "ok" {
					allok = false
					break
				}
				if e, p := safely(func() error { return pass.EnsureBasePointerCalleeSaved(fn) }); e != nil || p {
					allok = false
					break
				}
			}
			if allok {
				stats[tag+":refusal_unexplained_by_pass_sequence"]++
			}
			return nil
		}
		// the NOFRAME bits caused the refusal: some NOFRAME function must write BP
		stats[tag+":refused_because_of_noframe"]++
		cfns := cfile.Functions()
		pickFn := -1
		for i, fn := range cfns {
			if i >= len(before) || attr.Attribute(before[i].attrs)&attr.NOFRAME == 0 {
				continue
			}
			if pickFn < 0 {
				pickFn = i
			}
			cl := false
			for _, r := range c15Outs(fn) {
				cl = cl || c15IsHWBP(r)
			}
			if !cl && i < len(ctl) {
				// the clean-up passes of Compile may have deleted the instruction that wrote BP (an allocator-made
				// `MOVQ BP, BP`, pruned as a self-move AFTER the base-pointer pass saw it): look at the function as the
				// base-pointer pass sees it (explicit pass sequence, no clean-up)
				if pfn, _ := c15Make(ctl[i], db, tier); c15Pipeline(pfn, map[string]int{}) == "ok" {
					for _, r := range c15Outs(pfn) {
						cl = cl || c15IsHWBP(r)
					}
					if cl {
						fn = pfn
						cfns[i] = pfn
						stats[tag+":refusal_explained_before_cleanup"]++
					}
				}
			}
			if cl {
				pickFn = i
				break
			}
		}
		if pickFn < 0 {
			pickFn = 0
		}
		fn := cfns[pickFn]
		o.emit(fmt.Sprintf("accept-bp %d %d %s %s => err", before[pickFn].attrs, before[pickFn].ls, b01(c15HasCall(fn)), encRegs(c15Outs(fn))), "ok")
		stats[tag+":judged_refusals"]++
		return nil
	}
	fns := file.Functions()
	sizes, asm, perr := c15TextSizes(file)
	if perr != nil {
		stats[tag+":print_error"]++
	}
	res := &c15Compiled{file: file, fns: fns, asm: asm}
	for i, fn := range fns {
		if i >= len(before) {
			break
		}
		outs := c15Outs(fn)
		cl := false
		bound := true
		for _, r := range outs {
			if reg.ToPhysical(r) == nil {
				bound = false
			}
			cl = cl || c15IsHWBP(r)
		}
		// the destinations read off the bound OPERANDS through the form table (not the instruction's Outputs list)
		re, complete := c15RebuiltOuts(fn)
		for _, r := range re {
			if c15IsHWBP(r) {
				cl = true
				stats[tag+":bp_destination_by_operands"]++
				break
			}
		}
		res.clob = append(res.clob, cl)
		if !bound {
			// Compile succeeded and left a virtual register in an Outputs list (C01's business as such), counted; the
			// function is judged all the same when all its OPERANDS are bound: what it writes is then known
			stats[tag+":unbound_after_compile"]++
			if !complete {
				continue
			}
			stats[tag+":unbound_after_compile_judged_by_operands"]++
		}
		line := fmt.Sprintf("accept-bp %d %d %s %s => ok %d", before[i].attrs, before[i].ls, b01(c15HasCall(fn)), encRegs(append(append([]reg.Register{}, outs...), re...)), fn.LocalSize)
		if t, ok := sizes[fn.Name]; ok && perr == nil {
			line += " " + t
			stats[tag+":judged_text_lines"]++
			if fn.ArgumentBytes() > 0 {
				stats[tag+":judged_text_lines_with_args"]++
			}
		}
		o.emit(line, "ok")
		res.judged++
		stats[tag+":judged_functions"]++
		if cl {
			stats[tag+":judged_clobbering"]++
		}
		if fn.LocalSize >= 1<<31 {
			stats[tag+":frame_ge_2^31"]++
		}
		for _, p := range fn.Allocation {
			if p == reg.RBP.ID() {
				stats[tag+":allocator_chose_bp"]++
				break
			}
		}
		c15CountSelfOnBP(fn, stats, tag+":")
		c15CountChainOnBP(fn, metas[i], stats, tag+":")
	}
	if len(fns) > 1 {
		stats[tag+":judged_multi_function_files"]++
	}
	return res
}

// c15FromRequest rebuilds a function from a `bp`/`accept-bp` request line (replay / corpus).
func c15FromRequest(line string) (*ir.Function, error) {
	ts := strings.Fields(line)
	if len(ts) < 4 || (ts[0] != "bp" && ts[0] != "accept-bp") {
		return nil, fmt.Errorf("not a bp request: %q", line)
	}
	attrs, e1 := strconv.Atoi(ts[1])
	ls, e2 := strconv.Atoi(ts[2])
	if e1 != nil || e2 != nil {
		return nil, fmt.Errorf("bad request %q", line)
	}
	rest := ts[3:]
	fn := ir.NewFunction("replay")
	fn.Attributes = attr.Attribute(attrs)
	fn.LocalSize = ls
	if ts[0] == "accept-bp" {
		if rest[0] == "1" {
			if call := c15Inst("CALL", operand.LabelRef(c15LeafRef)); call != nil {
				fn.AddInstruction(call)
			}
		}
		rest = rest[1:]
	}
	n, err := strconv.Atoi(rest[0])
	if err != nil || len(rest) < 1+2*n {
		return nil, fmt.Errorf("bad register list in %q", line)
	}
	inst := &ir.Instruction{Opcode: "NOP"}
	for k := 0; k < n; k++ {
		id, e1 := strconv.ParseUint(rest[1+2*k], 10, 32)
		mask, e2 := strconv.ParseUint(rest[2+2*k], 10, 16)
		if e1 != nil || e2 != nil {
			return nil, fmt.Errorf("bad register in %q", line)
		}
		var r reg.Register
		rid := reg.ID(id)
		if rid.IsVirtual() {
			if f := reg.FamilyOfKind(rid.Kind()); f != nil {
				r = f.Virtual(rid.Index(), reg.Spec(mask))
			}
		} else if p := reg.LookupID(rid, reg.Spec(mask)); p != nil {
			r = p
		}
		if r == nil {
			return nil, fmt.Errorf("no register object for id %d mask %d", id, mask)
		}
		inst.Outputs = append(inst.Outputs, r)
	}
	fn.AddInstruction(inst)
	return fn, nil
}

func init() {
	register("c15", "EnsureBasePointerCalleeSaved on generated functions: model comparison, acceptors, measured execution (C15)", func(args []string) error {
		f := newStdFlags("c15")
		nexec := f.fs.Int("exec", 0, "number of compiled functions to assemble and execute through the trampoline")
		execdir := f.fs.String("execdir", "exec", "scratch directory of the execution sample")
		forms := f.fs.Bool("forms", false, "form sweep: every instruction shape of the form table that touches a view of BP (c15forms.go)")
		formexec := f.fs.Int("formexec", -1, "form sweep: number of shapes executed (-1: every executable shape)")
		if err := f.fs.Parse(args); err != nil {
			return err
		}
		o, err := openOut(f)
		if err != nil {
			return err
		}
		defer o.close()
		stats := map[string]int{}
		if *f.replay != "" {
			lines, err := readLines(*f.replay)
			if err != nil {
				return err
			}
			formKeys := map[string]bool{}
			for _, l := range lines {
				if strings.HasPrefix(l, "accept-bp-exec") {
					continue // measured lines cannot be rebuilt from the request
				}
				if strings.HasPrefix(l, "accept-bp-form ") {
					// the shape is rebuilt from its key, measured and compiled again
					if ts := strings.Fields(l); len(ts) > 1 {
						formKeys[ts[1]] = true
					}
					continue
				}
				fn, err := c15FromRequest(l)
				if err != nil {
					return err
				}
				c15Ensure(o, fn, stats)
			}
			if len(formKeys) > 0 {
				db, err := loadForms(*f.repo)
				if err != nil {
					return err
				}
				var shapes []*c15Shape
				for _, s := range c15Shapes(db, stats) {
					if formKeys[s.key] {
						shapes = append(shapes, s)
						delete(formKeys, s.key)
					}
				}
				for k := range formKeys {
					return fmt.Errorf("accept-bp-form: no shape with key %q in the form table", k)
				}
				if err := c15FormSweep(o, newRng(*f.seed), shapes, -1, *execdir+"-forms-replay", stats); err != nil {
					stats["formsweep:error"]++
					o.emit("accept-bp-exec-failed "+hexs(err.Error()), "ok")
				}
			}
			return writeJSON(*f.stats, stats)
		}
		db, err := loadForms(*f.repo)
		if err != nil {
			return err
		}
		r := newRng(*f.seed)
		// the form sweep draws its own random stream (a fork made first, so that switching it on does not move the
		// other streams... it is forked from a separate generator seeded alike)
		var shapes []*c15Shape
		if *forms {
			shapes = c15Shapes(db, stats)
			if err := c15FormSweep(o, newRng(*f.seed^0x5eedf0f0), shapes, *formexec, *execdir+"-forms", stats); err != nil {
				stats["formsweep:error"]++
				o.emit("accept-bp-exec-failed "+hexs(err.Error()), "ok")
			}
		}
		// fixed cases first: the witnesses of finding F18 (a frame the assembler truncates) through every route
		for _, ls := range []int{1 << 31, 1<<32 + 8} {
			for _, a := range []attr.Attribute{0, attr.NOSPLIT} {
				fn := c15WrapWitness("f", a, ls)
				c15Pipeline(fn, stats)
				c15Ensure(o, fn, stats)
			}
		}
		for k := 0; k < *f.n; k++ {
			spec := c15NewSpec(r, "f")
			mode := r.intn(20)
			switch {
			case mode == 0:
				// malformed stream: the pass on a function that was never allocated
				// (virtual registers are not physical, hence never counted)
				// half of them without ZeroExtend32BitOutputs either: a write to EBP is then
				// still the 32-bit view when the pass looks at it
				fn, _ := c15Make(spec, db, *f.tier)
				if r.chance(1, 2) {
					stats["raw_functions"]++
					c15Ensure(o, fn, stats)
				} else if c15PrepLiveness(fn) {
					stats["unallocated_functions"]++
					c15Ensure(o, fn, stats)
				}
			case mode <= 3:
				// one function through the whole pass.Compile
				c15CompileFile(o, []c15Spec{spec}, r.chance(1, 2), db, *f.tier, stats, "compile1")
			case mode <= 6:
				// several functions in one file through the whole pass.Compile: most of them from the
				// straight-line generator with at most 15 live values (they compile), so that the file as a
				// whole is usually accepted unless a NOFRAME function writes BP
				n := 2 + r.intn(3)
				specs := make([]c15Spec, n)
				for j := range specs {
					specs[j] = c15NewSpec(r, fmt.Sprintf("f%d", j))
					if !r.chance(1, 6) {
						specs[j].direct = true
					}
					if r.chance(2, 3) {
						// fewer NOFRAME functions than in the single-function streams: one NOFRAME function that
						// writes BP makes Compile refuse the whole file
						specs[j].clearNoframe = true
					}
				}
				c15CompileFile(o, specs, r.chance(1, 2), db, *f.tier, stats, "compileN")
			default:
				fn, m := c15Make(spec, db, *f.tier)
				stats["generated:"+m.gen]++
				if m.authorBP > 0 {
					stats["author_named_bp"]++
				}
				if m.readsBP > 0 {
					stats["author_reads_bp"]++
				}
				switch st := c15Pipeline(fn, stats); st {
				case "ok":
					stats["allocation:ok"]++
					c15CountChainOnBP(fn, m, stats, "")
					c15Ensure(o, fn, stats)
				case "panic":
					o.emit(fmt.Sprintf("accept-bp %d %d 0 0 => panic", int(fn.Attributes), fn.LocalSize), "ok")
				default:
					stats["allocation:"+st]++
				}
			}
		}
		if *nexec > 0 {
			if err := c15Exec(o, r.fork(), *nexec, *execdir, db, *f.tier, stats); err != nil {
				// do not lose the verdicts of the lines already written: report the failed execution sample as a
				// request no handler accepts (the acceptor lines above carry any concrete violation)
				stats["exec_sample_error"]++
				o.emit("accept-bp-exec-failed "+hexs(err.Error()), "ok")
			}
		}
		return writeJSON(*f.stats, stats)
	})
}

// c15WrapWitness: `MOVQ $0x5a5a5a, BP; RET` with AllocLocal(ls).
func c15WrapWitness(name string, a attr.Attribute, ls int) *ir.Function {
	fn := ir.NewFunction(name)
	fn.Attributes = a
	fn.AllocLocal(ls)
	fn.AddInstruction(c15Inst("MOVQ", operand.I32(0x5a5a5a), reg.RBP))
	fn.AddInstruction(c15Inst("RET"))
	return fn
}

type c15ExecFn struct {
	name    string
	attrs   int
	frame   int
	clob    bool
	hasCall bool
}

// c15Exec: measured end-to-end sample.  The functions are compiled TOGETHER as one file by pass.Compile (half of the
// runs through build.Context), printed, built and called.
func c15Exec(o *out, r *rng, n int, dir string, db *formsDB, tier string, stats map[string]int) error {
	var specs []c15Spec
	nclob := 0
	for tries := 0; len(specs) < n && tries < 40*n+200; tries++ {
		spec := c15Spec{seed: r.u64(), direct: true, executable: true, name: fmt.Sprintf("c15x%d", len(specs)), sig: pick(r, c15Sigs)}
		fn, _ := c15Make(spec, db, tier)
		if fn.Attributes.NOSPLIT() && fn.LocalSize > 512 {
			continue // the linker limits NOSPLIT frames (Oracle/AsmBP records the rejection)
		}
		// screening on a twin, alone: functions Compile refuses (NOFRAME writing BP, 16 live values) would take the
		// whole file with them; they are judged by the other streams
		file := ir.NewFile()
		file.AddSection(fn)
		if err, panicked := safely(func() error { return pass.Compile.Execute(file) }); err != nil || panicked {
			continue
		}
		clob := false
		for _, x := range c15Outs(fn) {
			clob = clob || c15IsHWBP(x)
		}
		// keep the sample rich in the interesting case
		if !clob && r.chance(2, 3) {
			continue
		}
		if clob {
			nclob++
		}
		specs = append(specs, spec)
	}
	if len(specs) == 0 {
		return fmt.Errorf("exec sample: no function compiled")
	}
	res := c15CompileFile(o, specs, r.chance(1, 2), db, tier, stats, "exec")
	if res == nil || res.asm == nil || len(res.fns) != len(specs) {
		return fmt.Errorf("exec sample: the functions compile one by one but not as one file")
	}
	// the witness of finding F18, compiled and printed by the same route, in a file of its own (so that a future
	// refusal of such frames by avo does not take the sample with it)
	wfile := ir.NewFile()
	wfn := c15WrapWitness("c15wrap", 0, 1<<31)
	wfile.AddSection(wfn)
	var wasm []byte
	if err, panicked := safely(func() error { return pass.Compile.Execute(wfile) }); err == nil && !panicked {
		if sizes, a, err := c15TextSizes(wfile); err == nil {
			wasm = a
			o.emit(fmt.Sprintf("accept-bp 0 %d 0 %s => ok %d %s", 1<<31, encRegs(c15Outs(wfn)), wfn.LocalSize, sizes["c15wrap"]), "ok")
			stats["exec:wrap_witness_compiled"]++
		}
	} else {
		stats["exec:wrap_witness_refused"]++
	}
	cfg := printer.Config{Name: "avoh", Pkg: "main"}
	stubs, err := printer.NewStubs(cfg).Print(res.file)
	if err != nil {
		return fmt.Errorf("exec sample: stubs: %v", err)
	}
	var fns []c15ExecFn
	for i, fn := range res.fns {
		fns = append(fns, c15ExecFn{name: fn.Name, attrs: int(fn.Attributes), frame: fn.LocalSize, clob: res.clob[i], hasCall: c15HasCall(fn)})
	}
	extra := map[string]string{"fn_amd64.s": string(res.asm), "stubs.go": string(stubs)}
	if wasm != nil {
		fns = append(fns, c15ExecFn{name: "c15wrap", attrs: 0, frame: wfn.LocalSize, clob: true})
		extra["wrap_amd64.s"] = string(wasm)
		extra["wrap.go"] = "package main\n\nfunc c15wrap()\n"
	}
	names := make([]string, len(fns))
	for i, f := range fns {
		names[i] = f.name
	}
	// positive control of the measurement (hand-written, not avo output): a frameless
	// leaf that sets BP must be reported as "changed"
	names = append(names, "c15ctl")
	extra["ctl_amd64.s"] = c15GridFn("c15ctl", 4|512, 0, false, true)
	extra["ctl.go"] = "package main\n\nfunc c15ctl()\n"
	if err := c15WriteModule(dir, names, extra); err != nil {
		return err
	}
	if outp, err := c15Build(dir); err != nil {
		// the printed functions do not build: nothing the caller could call
		o.emit("accept-bp-exec-build "+hexs(c15FirstLine(strings.ReplaceAll(outp, "# c15run\n", ""))), "ok")
		stats["exec_build_failed"]++
		return nil
	}
	results := map[int][2]uint64{}
	crashed := map[int]bool{}
	if res, stderr, rerr := c15Run(dir, itoa(len(fns))); rerr != nil || res[len(fns)][0] == res[len(fns)][1] || res[len(fns)][1] != c15Sentinel {
		return fmt.Errorf("exec sample: the control function (frameless leaf setting BP) was not observed to change BP: %v %v %s", res[len(fns)], rerr, stderr)
	}
	stats["exec_control_detected"]++
	for start := 0; start < len(fns); {
		res, _, rerr := c15Run(dir, itoa(start))
		last := start - 1
		for i, m := range res {
			results[i] = m
			if i > last {
				last = i
			}
		}
		if last >= len(fns)-1 {
			break // everything up to the control (last entry of the table) was measured
		}
		_ = rerr
		// the child died in function last+1: record and continue behind it
		crashed[last+1] = true
		stats["exec_crashes"]++
		start = last + 2
	}
	for i, f := range fns {
		res := "crash"
		if m, ok := results[i]; ok && !crashed[i] {
			if m[0] == m[1] {
				res = "same"
			} else {
				res = "changed"
			}
		}
		o.emit(fmt.Sprintf("accept-bp-exec %d %d %s %s %s", f.attrs, f.frame, b01(f.hasCall), b01(f.clob), res), "ok")
		stats["exec_functions"]++
		if f.clob {
			stats["exec_clobbering_bp"]++
		}
		stats["exec_result:"+res]++
	}
	return nil
}
