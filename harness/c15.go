package main

import (
	"fmt"
	"strconv"
	"strings"

	"github.com/mmcloughlin/avo/attr"
	"github.com/mmcloughlin/avo/ir"
	"github.com/mmcloughlin/avo/operand"
	"github.com/mmcloughlin/avo/pass"
	"github.com/mmcloughlin/avo/printer"
	"github.com/mmcloughlin/avo/reg"
	"github.com/mmcloughlin/avo/x86"
)

// C15: the frame pointer register survives every generated function.
//
// Correspondence of pass.EnsureBasePointerCalleeSaved with the Lean model on
// generated functions that went through the real LabelTarget / CFG /
// ZeroExtend32BitOutputs / Liveness / AllocateRegisters / BindRegisters /
// VerifyAllocation, forced into BP-related situations (author-named BP views,
// register pressure of 15 simultaneously live virtuals, all attribute sets,
// frames 0 and >0, with and without CALL); acceptors stating the property on
// the implementation's outcome, also on the outcome of the whole pass.Compile;
// and a measured end-to-end sample: functions compiled by pass.Compile are
// printed, assembled, and called through a trampoline that compares the
// caller's BP before and after.

const c15LeafRef = "·c15leaf(SB)"

var c15BaseAttrs = []attr.Attribute{0, attr.NOSPLIT, attr.NOFRAME, attr.NOSPLIT | attr.NOFRAME}

func c15Inst(op string, ops ...operand.Op) *ir.Instruction {
	inst, err := x86.VerifBuild(op, nil, ops)
	if err != nil {
		return nil
	}
	return inst
}

// c15BPWrite builds an instruction with a view of the base pointer as destination.
func c15BPWrite(r *rng, src reg.Register) *ir.Instruction {
	v := func(s reg.Spec) reg.Register { return asSpec(reg.RBP, s) }
	var srcOf func(s reg.Spec) operand.Op
	srcOf = func(s reg.Spec) operand.Op {
		if src != nil {
			if x := asSpec(src, s); x != nil {
				return x
			}
		}
		return asSpec(reg.RAX, s)
	}
	switch r.intn(16) {
	case 0:
		return c15Inst("MOVQ", operand.I32(0x5a5a5a), v(reg.S64))
	case 1:
		return c15Inst("MOVL", operand.U32(0x1234567), v(reg.S32))
	case 2:
		return c15Inst("MOVW", operand.U16(0xbeef), v(reg.S16))
	case 3:
		return c15Inst("MOVB", operand.U8(0xa5), v(reg.S8L))
	case 4:
		return c15Inst("XORL", v(reg.S32), v(reg.S32))
	case 5:
		return c15Inst("XORQ", v(reg.S64), v(reg.S64))
	case 6:
		return c15Inst("ADDQ", srcOf(reg.S64), v(reg.S64))
	case 7:
		return c15Inst("XCHGQ", srcOf(reg.S64), v(reg.S64))
	case 8:
		return c15Inst("LEAQ", operand.Mem{Base: srcOf(reg.S64).(reg.Register), Disp: 8}, v(reg.S64))
	case 9:
		return c15Inst("MOVBQZX", srcOf(reg.S8L), v(reg.S64))
	case 10:
		return c15Inst("POPCNTQ", srcOf(reg.S64), v(reg.S64))
	case 11:
		return c15Inst("CMOVQEQ", srcOf(reg.S64), v(reg.S64))
	case 12:
		return c15Inst("ADDB", srcOf(reg.S8L), v(reg.S8L))
	case 13:
		return c15Inst("ADDW", srcOf(reg.S16), v(reg.S16))
	case 14:
		return c15Inst("SETEQ", v(reg.S8L))
	default:
		return c15Inst("MOVQ", srcOf(reg.S64), v(reg.S64))
	}
}

// c15Meta describes how a generated function was forced.
type c15Meta struct {
	gen        string
	authorBP   int
	nvirt      int
	executable bool
}

// c15GenDirect builds a straight-line, memory-free (hence executable) function: k
// 64-bit virtuals defined up front, register-only arithmetic on all widths,
// optional author-named BP writes and CALLs, and a tail reading every virtual
// so that all k are simultaneously live.
func c15GenDirect(r *rng, name string) (*ir.Function, c15Meta) {
	fn := ir.NewFunction(name)
	col := reg.NewCollection()
	var k int
	switch r.intn(10) {
	case 0, 1, 2, 3:
		k = 15
	case 4, 5:
		k = 14
	case 6:
		k = 16
	default:
		k = r.rangeIn(1, 13)
	}
	m := c15Meta{gen: "direct", nvirt: k, executable: true}
	vs := make([]reg.Register, k)
	for i := range vs {
		vs[i] = col.GP64()
	}
	add := func(inst *ir.Instruction) {
		if inst != nil {
			fn.AddInstruction(inst)
		}
	}
	for i, v := range vs {
		add(c15Inst("MOVQ", operand.I32(int32(0x1111*(i+1))), v))
	}
	wantBP := k <= 14 && r.chance(1, 2)
	nBody := r.intn(14)
	for j := 0; j < nBody; j++ {
		a, b := pick(r, vs), pick(r, vs)
		switch r.intn(14) {
		case 0:
			add(c15Inst(pick(r, []string{"ADDQ", "SUBQ", "XORQ", "ANDQ", "ORQ", "IMULQ"}), a, b))
		case 1:
			add(c15Inst(pick(r, []string{"ADDL", "XORL", "MOVL"}), asSpec(a, reg.S32), asSpec(b, reg.S32)))
		case 2:
			add(c15Inst("ADDW", asSpec(a, reg.S16), asSpec(b, reg.S16)))
		case 3:
			add(c15Inst("ADDB", asSpec(a, reg.S8L), asSpec(b, reg.S8L)))
		case 4:
			add(c15Inst("MOVB", operand.U8(uint8(r.intn(256))), asSpec(b, reg.S8L)))
		case 5:
			add(c15Inst("MOVW", operand.U16(uint16(r.intn(65536))), asSpec(b, reg.S16)))
		case 6:
			add(c15Inst("MOVL", operand.U32(uint32(r.intn(1<<30))), asSpec(b, reg.S32)))
		case 7:
			add(c15Inst("LEAQ", operand.Mem{Base: a, Index: b, Scale: 2, Disp: 16}, pick(r, vs)))
		case 8:
			add(c15Inst("MOVBQZX", asSpec(a, reg.S8L), b))
		case 9:
			add(c15Inst("BSWAPQ", b))
		case 10, 11:
			if wantBP {
				if inst := c15BPWrite(r, a); inst != nil {
					add(inst)
					m.authorBP++
				}
			}
		default:
			add(c15Inst("NOTQ", b))
		}
	}
	if wantBP && m.authorBP == 0 {
		if inst := c15BPWrite(r, vs[0]); inst != nil {
			add(inst)
			m.authorBP++
		}
	}
	for i := 1; i < k; i++ {
		add(c15Inst("ADDQ", vs[i], vs[0]))
	}
	add(c15Inst("RET"))
	return fn, m
}

// c15GenRandom uses the shared random function generator under GP pressure and
// then forces author-named BP writes into it.
func c15GenRandom(r *rng, db *formsDB, tier string) (*ir.Function, c15Meta) {
	cfg := allocGenCfg(r, tier)
	switch r.intn(3) {
	case 0:
		cfg.nGP = 12 + r.intn(5)
		cfg.pressureTail = true
		cfg.physPct = r.intn(8)
	case 1:
		cfg.nGP = 1 + r.intn(14)
		cfg.pressureTail = r.chance(1, 2)
	}
	g := newFgen(r.fork(), db, cfg)
	fn := g.generate()
	m := c15Meta{gen: "random", nvirt: len(g.virt)}
	if r.chance(1, 2) {
		for n := 1 + r.intn(2); n > 0; n-- {
			var src reg.Register
			if len(g.virt) > 0 && r.chance(1, 2) {
				if v := pick(r, g.virt); v.kind == reg.KindGP {
					src = v.r
				}
			}
			if inst := c15BPWrite(r, src); inst != nil {
				c15Insert(r, fn, inst)
				m.authorBP++
			}
		}
	}
	return fn, m
}

// c15Insert puts inst at a random position before the last node.
func c15Insert(r *rng, fn *ir.Function, inst *ir.Instruction) {
	n := len(fn.Nodes)
	p := 0
	if n > 0 {
		p = r.intn(n)
	}
	fn.Nodes = append(fn.Nodes, nil)
	copy(fn.Nodes[p+1:], fn.Nodes[p:])
	fn.Nodes[p] = inst
}

func c15LocalSize(r *rng, aligned bool, nosplit bool) int {
	switch r.intn(10) {
	case 0, 1, 2, 3:
		return 0
	case 4:
		return 8
	case 5:
		return 16
	case 6:
		return 8 * r.rangeIn(3, 8)
	case 7:
		if nosplit && aligned {
			return 64
		}
		return 4096
	case 8:
		if aligned {
			return 8 * r.rangeIn(1, 16)
		}
		return r.rangeIn(1, 63)
	default:
		if aligned {
			return 24
		}
		return 1 << uint(r.rangeIn(10, 30))
	}
}

func c15HasCall(fn *ir.Function) bool {
	for _, i := range fn.Instructions() {
		if i.Opcode == "CALL" {
			return true
		}
	}
	return false
}

func c15Outs(fn *ir.Function) []reg.Register {
	var outs []reg.Register
	for _, i := range fn.Instructions() {
		outs = append(outs, i.OutputRegisters()...)
	}
	return outs
}

func c15IsHWBP(r reg.Register) bool {
	id := r.ID()
	return id.IsPhysical() && id.Kind() == reg.KindGP && id.Index() == 5
}

func c15ClassifyErr(err error, panicked bool) string {
	if panicked {
		return "panic"
	}
	if strings.Contains(err.Error(), "NOFRAME") {
		return "err noframe"
	}
	return "err other:" + strings.ReplaceAll(err.Error(), " ", "_")
}

// c15Ensure runs the real pass on fn and emits the model request and the acceptor.
func c15Ensure(o *out, fn *ir.Function, stats map[string]int) (ok bool, clob bool) {
	attrs := int(fn.Attributes)
	ls := fn.LocalSize
	hasCall := c15HasCall(fn)
	outs := c15Outs(fn)
	for _, r := range outs {
		if c15IsHWBP(r) {
			clob = true
			stats[fmt.Sprintf("bp_view_written:mask%d", r.Mask())]++
		}
	}
	err, panicked := safely(func() error { return pass.EnsureBasePointerCalleeSaved(fn) })
	outcome := "ok " + itoa(fn.LocalSize)
	if err != nil {
		outcome = c15ClassifyErr(err, panicked)
	}
	body := fmt.Sprintf("%d %d", attrs, ls)
	regs := encRegs(outs)
	o.emit("bp "+body+" "+regs, outcome)
	o.emit("accept-bp "+body+" "+b01(hasCall)+" "+regs+" => "+outcome, "ok")
	stats["ensure_requests"]++
	key := "ensure:"
	if clob {
		key += "clobbered"
	} else {
		key += "untouched"
	}
	key += fmt.Sprintf(":nosplit%s:noframe%s:", b01(fn.Attributes.NOSPLIT()), b01(fn.Attributes.NOFRAME()))
	if ls == 0 {
		key += "frame0"
	} else {
		key += "frame+"
	}
	key += ":call" + b01(hasCall) + " => " + strings.Fields(outcome)[0]
	if err != nil {
		key += " " + strings.Fields(outcome)[1]
	} else if fn.LocalSize != ls {
		key += " grown"
	}
	stats[key]++
	return err == nil, clob
}

// c15Prepare sets attributes, local size and CALLs on a generated function.
func c15Prepare(r *rng, fn *ir.Function, executable bool) {
	fn.Attributes = pick(r, c15BaseAttrs)
	if !executable && r.chance(1, 5) {
		fn.Attributes |= attr.Attribute(r.u64() & 0xffff)
	}
	if ls := c15LocalSize(r, executable || r.chance(3, 4), fn.Attributes.NOSPLIT()); ls > 0 {
		if r.chance(1, 3) && ls >= 16 && ls%16 == 0 {
			fn.AllocLocal(ls / 2)
			fn.AllocLocal(ls / 2)
		} else {
			fn.AllocLocal(ls)
		}
	}
	if r.chance(1, 3) {
		for n := 1 + r.intn(2); n > 0; n-- {
			if call := c15Inst("CALL", operand.LabelRef(c15LeafRef)); call != nil {
				c15Insert(r, fn, call)
			}
		}
	}
}

// c15Compile runs the real passes up to VerifyAllocation. ok=false: not a
// function Compile would get as far as the pass under test with.
func c15Compile(fn *ir.Function, stats map[string]int) bool {
	c, ok := runAllocPipeline(fn)
	if !ok {
		stats["rejected_before_allocation"]++
		return false
	}
	if !strings.HasPrefix(c.outcome, "ok") {
		stats["allocation:"+c.outcome]++
		return false
	}
	stats["allocation:ok"]++
	for _, p := range fn.Allocation {
		if p == reg.RBP.ID() {
			stats["allocator_chose_bp"]++
			break
		}
	}
	return true
}

// c15CompileWhole runs the real pass.Compile on a one-function file and states the
// property on what comes out (no exact model line: the state between the passes
// is not observable here).  ok=false: Compile failed for a reason that is not
// this property's business, or refused the function.
func c15CompileWhole(o *out, fn *ir.Function, stats map[string]int) (ok bool, clob bool) {
	attrs := int(fn.Attributes)
	ls := fn.LocalSize
	file := ir.NewFile()
	file.AddSection(fn)
	err, panicked := safely(func() error { return pass.Compile.Execute(file) })
	outcome := "ok " + itoa(fn.LocalSize)
	if err != nil {
		outcome = c15ClassifyErr(err, panicked)
		if !panicked && outcome != "err noframe" {
			stats["compile:other_error"]++
			return false, false
		}
	}
	hasCall := c15HasCall(fn)
	outs := c15Outs(fn)
	for _, r := range outs {
		if reg.ToPhysical(r) == nil {
			// refused before binding: nothing to judge
			stats["compile:unbound_at_error"]++
			return false, false
		}
		if c15IsHWBP(r) {
			clob = true
		}
	}
	o.emit(fmt.Sprintf("accept-bp %d %d %s %s => %s", attrs, ls, b01(hasCall), encRegs(outs), outcome), "ok")
	stats["compile:"+strings.Fields(outcome)[0]+":clobbered"+b01(clob)]++
	for _, p := range fn.Allocation {
		if p == reg.RBP.ID() {
			stats["compile:allocator_chose_bp"]++
			break
		}
	}
	return err == nil, clob
}

// c15FromRequest rebuilds a function from a `bp`/`accept-bp` request line (replay / corpus).
func c15FromRequest(line string) (*ir.Function, error) {
	ts := strings.Fields(line)
	if len(ts) < 4 || (ts[0] != "bp" && ts[0] != "accept-bp") {
		return nil, fmt.Errorf("not a bp request: %q", line)
	}
	attrs, e1 := strconv.Atoi(ts[1])
	ls, e2 := strconv.Atoi(ts[2])
	if e1 != nil || e2 != nil {
		return nil, fmt.Errorf("bad request %q", line)
	}
	rest := ts[3:]
	fn := ir.NewFunction("replay")
	fn.Attributes = attr.Attribute(attrs)
	fn.LocalSize = ls
	if ts[0] == "accept-bp" {
		if rest[0] == "1" {
			if call := c15Inst("CALL", operand.LabelRef(c15LeafRef)); call != nil {
				fn.AddInstruction(call)
			}
		}
		rest = rest[1:]
	}
	n, err := strconv.Atoi(rest[0])
	if err != nil || len(rest) < 1+2*n {
		return nil, fmt.Errorf("bad register list in %q", line)
	}
	inst := &ir.Instruction{Opcode: "NOP"}
	for k := 0; k < n; k++ {
		id, e1 := strconv.ParseUint(rest[1+2*k], 10, 32)
		mask, e2 := strconv.ParseUint(rest[2+2*k], 10, 16)
		if e1 != nil || e2 != nil {
			return nil, fmt.Errorf("bad register in %q", line)
		}
		var r reg.Register
		rid := reg.ID(id)
		if rid.IsVirtual() {
			if f := reg.FamilyOfKind(rid.Kind()); f != nil {
				r = f.Virtual(rid.Index(), reg.Spec(mask))
			}
		} else if p := reg.LookupID(rid, reg.Spec(mask)); p != nil {
			r = p
		}
		if r == nil {
			return nil, fmt.Errorf("no register object for id %d mask %d", id, mask)
		}
		inst.Outputs = append(inst.Outputs, r)
	}
	fn.AddInstruction(inst)
	return fn, nil
}

func init() {
	register("c15", "EnsureBasePointerCalleeSaved on generated functions: model comparison, acceptors, measured execution (C15)", func(args []string) error {
		f := newStdFlags("c15")
		nexec := f.fs.Int("exec", 0, "number of compiled functions to assemble and execute through the trampoline")
		execdir := f.fs.String("execdir", "exec", "scratch directory of the execution sample")
		if err := f.fs.Parse(args); err != nil {
			return err
		}
		o, err := openOut(f)
		if err != nil {
			return err
		}
		defer o.close()
		stats := map[string]int{}
		if *f.replay != "" {
			lines, err := readLines(*f.replay)
			if err != nil {
				return err
			}
			for _, l := range lines {
				if strings.HasPrefix(l, "accept-bp-exec") {
					continue // measured lines cannot be rebuilt from the request
				}
				fn, err := c15FromRequest(l)
				if err != nil {
					return err
				}
				c15Ensure(o, fn, stats)
			}
			return writeJSON(*f.stats, stats)
		}
		db, err := loadForms(*f.repo)
		if err != nil {
			return err
		}
		r := newRng(*f.seed)
		for k := 0; k < *f.n; k++ {
			var fn *ir.Function
			var m c15Meta
			if r.chance(1, 2) {
				fn, m = c15GenDirect(r.fork(), "f")
			} else {
				fn, m = c15GenRandom(r.fork(), db, *f.tier)
			}
			c15Prepare(r, fn, false)
			stats["generated:"+m.gen]++
			if m.authorBP > 0 {
				stats["author_named_bp"]++
			}
			if r.chance(1, 20) {
				// malformed stream: the pass on a function that was never allocated
				// (virtual registers are not physical, hence never counted)
				// half of them without ZeroExtend32BitOutputs either: a write to EBP is then
				// still the 32-bit view when the pass looks at it
				if r.chance(1, 2) {
					stats["raw_functions"]++
					c15Ensure(o, fn, stats)
				} else if prepLiveness(fn) {
					stats["unallocated_functions"]++
					c15Ensure(o, fn, stats)
				}
				continue
			}
			if r.chance(1, 4) {
				c15CompileWhole(o, fn, stats)
				continue
			}
			if !c15Compile(fn, stats) {
				continue
			}
			c15Ensure(o, fn, stats)
		}
		if *nexec > 0 {
			if err := c15Exec(o, r.fork(), *nexec, *execdir, stats); err != nil {
				// do not lose the verdicts of the lines already written: report the failed execution sample as a
				// request no handler accepts (the acceptor lines above carry any concrete violation)
				stats["exec_sample_error"]++
				o.emit("accept-bp-exec-failed "+hexs(err.Error()), "ok")
			}
		}
		return writeJSON(*f.stats, stats)
	})
}

type c15ExecFn struct {
	fn      *ir.Function
	clob    bool
	hasCall bool
}

// c15Exec: measured end-to-end sample.
func c15Exec(o *out, r *rng, n int, dir string, stats map[string]int) error {
	file := ir.NewFile()
	var fns []c15ExecFn
	for tries := 0; len(fns) < n && tries < 40*n+200; tries++ {
		fn, _ := c15GenDirect(r.fork(), fmt.Sprintf("c15x%d", len(fns)))
		c15Prepare(r, fn, true)
		if fn.Attributes.NOSPLIT() && fn.LocalSize > 512 {
			continue // the linker limits NOSPLIT frames (Oracle/AsmBP records the rejection)
		}
		ok, clob := c15CompileWhole(o, fn, stats)
		if !ok {
			continue
		}
		// keep the sample rich in the interesting case
		if !clob && r.chance(2, 3) {
			continue
		}
		file.AddSection(fn)
		fns = append(fns, c15ExecFn{fn: fn, clob: clob, hasCall: c15HasCall(fn)})
	}
	if len(fns) == 0 {
		return fmt.Errorf("exec sample: no function compiled")
	}
	if err := pass.IncludeTextFlagHeader(file); err != nil {
		return err
	}
	cfg := printer.Config{Name: "avoh", Pkg: "main"}
	asm, err := printer.NewGoAsm(cfg).Print(file)
	if err != nil {
		return fmt.Errorf("exec sample: printing: %v", err)
	}
	stubs, err := printer.NewStubs(cfg).Print(file)
	if err != nil {
		return fmt.Errorf("exec sample: stubs: %v", err)
	}
	names := make([]string, len(fns))
	for i, f := range fns {
		names[i] = f.fn.Name
	}
	// positive control of the measurement (hand-written, not avo output): a frameless
	// leaf that sets BP must be reported as "changed"
	names = append(names, "c15ctl")
	ctl := c15GridFn("c15ctl", 4|512, 0, false, true)
	if err := c15WriteModule(dir, names, map[string]string{"fn_amd64.s": string(asm), "stubs.go": string(stubs),
		"ctl_amd64.s": ctl, "ctl.go": "package main\n\nfunc c15ctl()\n"}); err != nil {
		return err
	}
	if outp, err := c15Build(dir); err != nil {
		// the printed functions do not build: nothing the caller could call
		o.emit("accept-bp-exec-build "+hexs(c15FirstLine(strings.ReplaceAll(outp, "# c15run\n", ""))), "ok")
		stats["exec_build_failed"]++
		return nil
	}
	results := map[int][2]uint64{}
	crashed := map[int]bool{}
	if res, stderr, rerr := c15Run(dir, itoa(len(fns))); rerr != nil || res[len(fns)][0] == res[len(fns)][1] || res[len(fns)][1] != c15Sentinel {
		return fmt.Errorf("exec sample: the control function (frameless leaf setting BP) was not observed to change BP: %v %v %s", res[len(fns)], rerr, stderr)
	}
	stats["exec_control_detected"]++
	for start := 0; start < len(fns); {
		res, _, rerr := c15Run(dir, itoa(start))
		last := start - 1
		for i, m := range res {
			results[i] = m
			if i > last {
				last = i
			}
		}
		if last >= len(fns)-1 {
			break // everything up to the control (last entry of the table) was measured
		}
		_ = rerr
		// the child died in function last+1: record and continue behind it
		crashed[last+1] = true
		stats["exec_crashes"]++
		start = last + 2
	}
	for i, f := range fns {
		res := "crash"
		if m, ok := results[i]; ok && !crashed[i] {
			if m[0] == m[1] {
				res = "same"
			} else {
				res = "changed"
			}
		}
		o.emit(fmt.Sprintf("accept-bp-exec %d %d %s %s %s", int(f.fn.Attributes), f.fn.LocalSize, b01(f.hasCall), b01(f.clob), res), "ok")
		stats["exec_functions"]++
		if f.clob {
			stats["exec_clobbering_bp"]++
		}
		stats["exec_result:"+res]++
	}
	return nil
}
