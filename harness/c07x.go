package main

// C07, measured part: the real compiler, `go vet -asmdecl` and execution.
//
// For a sample of generated signatures a throw-away module is written under
// -dir (…/.work/C07/gen): Go stubs, an assembly file whose every memory operand
// is the address the REAL gotypes API resolved (Basic.Addr.Asm()), with the
// TEXT size avo prints, and a main program.  Then
//   - `go vet -asmdecl` must have no complaint about a name, offset, access
//     size or the argument size,
//   - `go run` calls every function with pseudo-random argument values; each
//     function copies parameter components (also through loaded pointers) to
//     result components, and the Go side checks the values arrive where the
//     compiler put the results,
//   - the program prints size, alignment and field offsets of the generated
//     types as the compiler (reflect/unsafe) sees them; these lines are
//     compared with the Lean model.

import (
	"bytes"
	"flag"
	"fmt"
	"os"
	"os/exec"
	"path/filepath"
	"regexp"
	"sort"
	"strings"

	"github.com/mmcloughlin/avo/build"
	"github.com/mmcloughlin/avo/gotypes"
	"github.com/mmcloughlin/avo/reg"
)

// sanitize makes names unambiguous for vet's flat naming scheme (no '_' inside
// names, at most one blank field per struct, ASCII only).
func c07sanitizeTy(t *c07ty) {
	switch t.kind {
	case c07Ptr, c07Slice, c07Array, c07Named, c07Alias:
		c07sanitizeTy(t.elem)
	case c07Struct:
		blank := false
		used := map[string]bool{}
		for i := range t.fields {
			n := t.fields[i].name
			if t.fields[i].embedded {
				// the name is the type's name (E<k>: no '_', ASCII, unique)
			} else if n == "_" && !blank {
				blank = true
			} else {
				n = strings.ReplaceAll(n, "_", "")
				n = strings.ReplaceAll(n, "é", "e")
				if n == "" {
					n = "u"
				}
				for used[n] {
					n += "k"
				}
				n += ""
			}
			used[n] = true
			t.fields[i].name = n
			c07sanitizeTy(t.fields[i].t)
		}
	}
	t.tt = nil
}

type c07leaf struct {
	isRet bool
	vi    int       // variable index
	path  []c07step // component path
	asm   string    // Basic.Addr.Asm() from the implementation
	size  int       // size of the basic type
	ptr   string    // for leaves behind a Dereference: address of the pointer to load first
	goOK  bool      // expressible as a Go expression (no blank field on the way)
	kind  string    // basic token of the leaf
}

func c07movFor(size int) string {
	switch size {
	case 1:
		return "MOVB"
	case 2:
		return "MOVW"
	case 4:
		return "MOVL"
	}
	return "MOVQ"
}

// goExpr renders the Go expression denoting the component, and the expression
// of its bits as uint64.
func c07goExpr(v string, root *c07ty, path []c07step) (expr string, bits string, ok bool) {
	expr = v
	t := root
	last := ""
	var lastT *c07ty
	for _, s := range path {
		u := t.under()
		lastT = t
		switch s.kind {
		case "f":
			if s.name == "_" {
				return "", "", false
			}
			expr += "." + s.name
		case "i":
			expr += "[" + itoa(s.i) + "]"
		case "d":
			expr = "(*" + expr + ")"
		}
		last = s.kind
		_ = u
		t = c07walk(t, []c07step{s})
		if t == nil {
			return "", "", false
		}
	}
	switch last {
	case "len":
		return expr, "uint64(len(" + expr + "))", true
	case "cap":
		return expr, "uint64(cap(" + expr + "))", true
	case "base":
		if lastT.under().kind == c07Slice {
			return expr, "uint64(uintptr(unsafe.Pointer(unsafe.SliceData(" + expr + "))))", true
		}
		return expr, "uint64(uintptr(unsafe.Pointer(unsafe.StringData(string(" + expr + ")))))", true
	case "real", "imag":
		if t.under().basic == "float32" {
			return expr, "uint64(math.Float32bits(" + last + "(" + expr + ")))", true
		}
		return expr, "uint64(math.Float64bits(" + last + "(" + expr + ")))", true
	}
	// defined and alias types: through a conversion to the underlying kind
	t = t.under()
	if t.kind == c07Ptr {
		return expr, "uint64(uintptr(unsafe.Pointer(" + expr + ")))", true
	}
	if t.kind != c07Basic {
		return "", "", false
	}
	switch t.basic {
	case "bool":
		return expr, "b2u(bool(" + expr + "))", true
	case "int8", "uint8":
		return expr, "uint64(uint8(" + expr + "))", true
	case "int16", "uint16":
		return expr, "uint64(uint16(" + expr + "))", true
	case "int32", "uint32":
		return expr, "uint64(uint32(" + expr + "))", true
	case "int64", "uint64", "int", "uint", "uintptr":
		return expr, "uint64(" + expr + ")", true
	case "float32":
		return expr, "uint64(math.Float32bits(float32(" + expr + ")))", true
	case "float64":
		return expr, "math.Float64bits(float64(" + expr + "))", true
	case "uptr":
		return expr, "uint64(uintptr(unsafe.Pointer(" + expr + ")))", true
	}
	return "", "", false
}

const c07mainPrelude = `package main

import (
	"fmt"
	"math"
	"reflect"
	"runtime/debug"
	"unsafe"
)

var _ = math.Pi
var _ unsafe.Pointer

func b2u(b bool) uint64 {
	if b {
		return 1
	}
	return 0
}

var seed uint64 = 0x9E3779B97F4A7C15

func rnd() uint64 {
	seed += 0x9E3779B97F4A7C15
	z := seed
	z = (z ^ (z >> 30)) * 0xBF58476D1CE4E5B9
	z = (z ^ (z >> 27)) * 0x94D049BB133111EB
	return z ^ (z >> 31)
}

var pool = "the quick brown fox jumps over the lazy dog"
var target int64

// fill stores pseudo-random content into any value (also unexported fields).
func fill(v reflect.Value) {
	if !v.CanSet() {
		v = reflect.NewAt(v.Type(), unsafe.Pointer(v.UnsafeAddr())).Elem()
	}
	switch v.Kind() {
	case reflect.Bool:
		v.SetBool(rnd()&1 == 1)
	case reflect.Int, reflect.Int8, reflect.Int16, reflect.Int32, reflect.Int64:
		v.SetInt(int64(rnd()) >> (64 - v.Type().Bits()))
	case reflect.Uint, reflect.Uint8, reflect.Uint16, reflect.Uint32, reflect.Uint64, reflect.Uintptr:
		v.SetUint(rnd() >> (64 - v.Type().Bits()))
	case reflect.Float32, reflect.Float64:
		v.SetFloat(float64(int64(rnd()>>40)) / 7)
	case reflect.Complex64, reflect.Complex128:
		v.SetComplex(complex(float64(int64(rnd()>>40))/3, float64(int64(rnd()>>40))/5))
	case reflect.String:
		a := int(rnd() % 20)
		b := a + int(rnd()%20)
		v.SetString(pool[a:b])
	case reflect.Slice:
		l := int(rnd() % 4)
		c := l + int(rnd()%3)
		s := reflect.MakeSlice(v.Type(), l, c)
		for i := 0; i < l; i++ {
			fill(s.Index(i))
		}
		v.Set(s)
	case reflect.Ptr:
		p := reflect.New(v.Type().Elem())
		fill(p.Elem())
		v.Set(p)
	case reflect.UnsafePointer:
		v.SetPointer(unsafe.Pointer(&target))
	case reflect.Array:
		for i := 0; i < v.Len(); i++ {
			fill(v.Index(i))
		}
	case reflect.Struct:
		for i := 0; i < v.NumField(); i++ {
			fill(v.Field(i))
		}
	}
}

func sz(i int, t reflect.Type) {
	fmt.Printf("size %d %d %d", i, t.Size(), t.Align())
	if t.Kind() == reflect.Struct {
		fmt.Printf(" %d", t.NumField())
		for k := 0; k < t.NumField(); k++ {
			fmt.Printf(" %d", t.Field(k).Offset)
		}
	} else {
		fmt.Printf(" 0")
	}
	fmt.Println()
}

var npairs, nbad int

func chk(fn string, what string, got, want uint64) {
	npairs++
	if got != want {
		nbad++
		fmt.Printf("mismatch %s %s got=%#x want=%#x\n", fn, what, got, want)
	}
}

func done(fn string) {
	fmt.Printf("exec %s %d %d\n", fn, npairs, nbad)
	npairs, nbad = 0, 0
}

func main() {
	debug.SetGCPercent(-1)
	sizes()
	calls()
}
`

var c07vetLine = regexp.MustCompile(`^(?:\./)?f_amd64\.s:(\d+):\d+: (.*)$`)

func init() {
	register("c07x", "C07 measured part: compiler sizes, go vet asmdecl, execution of generated stub+asm", func(args []string) error {
		f := newStdFlags("c07x")
		dir := f.fs.String("dir", "", "scratch directory for the generated module")
		chunk := f.fs.Uint64("chunk", 0, "chunk number mixed into the seed")
		if err := f.fs.Parse(args); err != nil {
			return err
		}
		if *dir == "" {
			return fmt.Errorf("-dir required")
		}
		o, err := openOut(f)
		if err != nil {
			return err
		}
		defer o.close()
		stats := map[string]int{}
		g := &c07gen{r: newRng((*f.seed ^ 0xc07c07) + *chunk*0x51ed27), stats: stats}
		if err := os.RemoveAll(*dir); err != nil {
			return err
		}
		if err := os.MkdirAll(*dir, 0o755); err != nil {
			return err
		}

		var sigs []*c07sig
		var decl, asm, calls bytes.Buffer
		asm.WriteString("#include \"textflag.h\"\n")
		calls.WriteString("func calls() {\n")
		declared := map[string]bool{}
		var typeList []*c07ty
		typeSeen := map[string]bool{}
		var addType func(t *c07ty)
		addType = func(t *c07ty) {
			key := t.src()
			if !typeSeen[key] {
				typeSeen[key] = true
				typeList = append(typeList, t)
			}
			switch t.kind {
			case c07Ptr, c07Slice, c07Array, c07Named, c07Alias:
				addType(t.elem)
			case c07Struct:
				for _, fl := range t.fields {
					addType(fl.t)
				}
			}
		}
		asmLineFn := map[int]int{} // line of f_amd64.s → function index
		asmLines := 1
		emitAsm := func(fi int, s string) {
			asm.WriteString(s + "\n")
			asmLines++
			asmLineFn[asmLines] = fi
		}
		usesUnsafe := false
		type pairT struct{ got, want, what string }
		for k := 0; k < *f.n; k++ {
			s := g.sig()
			// unambiguous names for vet: p0.. / r0.. or all unnamed
			for i := range s.params {
				c07sanitizeTy(s.params[i].t)
				if s.params[i].name != "" {
					s.params[i].name = "p" + itoa(i)
				}
			}
			for i := range s.results {
				c07sanitizeTy(s.results[i].t)
				if s.results[i].name != "" {
					s.results[i].name = "r" + itoa(i)
				}
			}
			s.pgroups = c07grouping(g.r, s.params)
			s.rgroups = c07grouping(g.r, s.results)
			// always the direct route: the types are go/types objects of this process
			mk := func(vs []c07var) []*gotypesVar {
				var xs []*gotypesVar
				for _, v := range vs {
					xs = append(xs, &gotypesVar{v.name, v.t})
				}
				return xs
			}
			s.real = c07direct(mk(s.params), mk(s.results))
			s.route = "direct"
			sigs = append(sigs, s)
			if s.usesUnsafe() {
				usesUnsafe = true
			}
			for _, d := range s.decls() {
				if !declared[d.name] {
					declared[d.name] = true
					decl.WriteString("type " + d.name + " " + d.elem.src() + "\n")
				}
			}
			for _, t := range s.allTypes() {
				addType(t)
			}
			fn := "f" + itoa(k)
			decl.WriteString("func " + fn + s.src() + "\n")

			// leaves through the real API
			var pl, rl []c07leaf
			for _, isRet := range []bool{false, true} {
				vs := s.params
				if isRet {
					vs = s.results
				}
				for vi, v := range vs {
					var ps [][]c07step
					derefs := 1
					if isRet {
						derefs = 0
					}
					g.pathsFixedReg(v.t, nil, derefs, &ps)
					for _, p := range ps {
						end := c07walk(v.t, p)
						if end == nil || !end.isScalar() {
							continue
						}
						tup := s.real.Params()
						if isRet {
							tup = s.real.Results()
						}
						b, err := c07apply(tup.At(vi), p).Resolve()
						if err != nil {
							stats["leaf_unresolved"]++
							continue
						}
						lf := c07leaf{isRet: isRet, vi: vi, path: p, asm: b.Addr.Asm(), size: int(c07sizes.Sizeof(b.Type)), kind: c07basicTok(b.Type.Kind())}
						// the pointer to load first (path up to the Dereference)
						for j, st := range p {
							if st.kind == "d" {
								pb, err := c07apply(tup.At(vi), p[:j]).Resolve()
								if err != nil {
									lf.ptr = "?"
								} else {
									lf.ptr = pb.Addr.Asm()
								}
							}
						}
						if lf.ptr == "?" {
							// the pointer has a defined type (type P *T): avo dereferences it but does not
							// resolve its own address, so the assembly cannot load it
							stats["leaf_behind_defined_pointer_type"]++
							continue
						}
						if isRet {
							rl = append(rl, lf)
						} else {
							pl = append(pl, lf)
						}
					}
				}
			}
			stats["param_leaves"] += len(pl)
			stats["result_leaves"] += len(rl)
			emitAsm(k, "")
			emitAsm(k, "// func "+fn+s.src())
			emitAsm(k, "TEXT ·"+fn+"(SB), NOSPLIT, "+c07textSize(s.real))
			load := func(l c07leaf) {
				if l.ptr != "" {
					emitAsm(k, "\tMOVQ "+l.ptr+", BX")
					stats["deref_loads"]++
				}
				emitAsm(k, "\t"+c07movFor(l.size)+" "+l.asm+", AX")
			}
			for _, l := range pl {
				load(l)
			}
			var pairs []pairT
			bysize := map[int][]c07leaf{}
			for _, l := range pl {
				bysize[l.size] = append(bysize[l.size], l)
			}
			for _, rlf := range rl {
				cands := bysize[rlf.size]
				if len(cands) == 0 {
					emitAsm(k, "\t"+c07movFor(rlf.size)+" $0, "+rlf.asm)
					_, bits, ok := c07goExpr("r"+itoa(rlf.vi), s.results[rlf.vi].t, rlf.path)
					if ok {
						pairs = append(pairs, pairT{bits, "0", rlf.asm + "<-0"})
					}
					continue
				}
				src := cands[g.r.intn(len(cands))]
				load(src)
				emitAsm(k, "\t"+c07movFor(rlf.size)+" AX, "+rlf.asm)
				_, gb, ok1 := c07goExpr("r"+itoa(rlf.vi), s.results[rlf.vi].t, rlf.path)
				_, wb, ok2 := c07goExpr("a"+itoa(src.vi), s.params[src.vi].t, src.path)
				if ok1 && ok2 {
					pairs = append(pairs, pairT{gb, wb, rlf.asm + "<-" + src.asm})
				}
			}
			emitAsm(k, "\tRET")
			// Go side
			calls.WriteString("\t{\n")
			var argv, resv []string
			for i, v := range s.params {
				calls.WriteString(fmt.Sprintf("\t\tvar a%d %s\n\t\tfill(reflect.ValueOf(&a%d).Elem())\n", i, v.t.src(), i))
				argv = append(argv, "a"+itoa(i))
			}
			for i := range s.results {
				resv = append(resv, "r"+itoa(i))
			}
			if s.variadic {
				argv[len(argv)-1] += "..."
			}
			call := fn + "(" + strings.Join(argv, ", ") + ")"
			if s.variadic {
				argv[len(argv)-1] = strings.TrimSuffix(argv[len(argv)-1], "...")
			}
			if len(resv) > 0 {
				call = strings.Join(resv, ", ") + " := " + call
			}
			calls.WriteString("\t\t" + call + "\n")
			for _, rv := range resv {
				calls.WriteString("\t\t_ = " + rv + "\n")
			}
			for _, av := range argv {
				calls.WriteString("\t\t_ = " + av + "\n")
			}
			for _, p := range pairs {
				calls.WriteString(fmt.Sprintf("\t\tchk(%q, %q, %s, %s)\n", fn, p.what, p.got, p.want))
			}
			calls.WriteString(fmt.Sprintf("\t\tdone(%q)\n\t}\n", fn))
			stats["exec_pairs"] += len(pairs)
		}
		calls.WriteString("}\n")

		var sizesFn bytes.Buffer
		sizesFn.WriteString("func sizes() {\n")
		for i, t := range typeList {
			sizesFn.WriteString(fmt.Sprintf("\tsz(%d, reflect.TypeOf((*%s)(nil)).Elem())\n", i, t.src()))
		}
		sizesFn.WriteString("}\n")
		_ = usesUnsafe

		files := map[string]string{
			"go.mod":    "module c07gen\n\ngo 1.23\n",
			"decl.go":   "package main\n\nimport \"unsafe\"\n\nvar _ unsafe.Pointer\n\n" + decl.String(),
			"f_amd64.s": asm.String(),
			"main.go":   c07mainPrelude,
			"calls.go":  "package main\n\nimport (\n\t\"math\"\n\t\"reflect\"\n\t\"unsafe\"\n)\n\nvar _ = math.Pi\nvar _ unsafe.Pointer\nvar _ reflect.Type\n\n" + calls.String() + "\n" + sizesFn.String(),
		}
		for name, content := range files {
			if err := os.WriteFile(filepath.Join(*dir, name), []byte(content), 0o644); err != nil {
				return err
			}
		}

		run := func(args ...string) (string, error) {
			cmd := exec.Command("go", args...)
			cmd.Dir = *dir
			cmd.Env = append(os.Environ(), "GOFLAGS=-mod=mod", "GOPROXY=off", "GOSUMDB=off", "GOTOOLCHAIN=local", "CGO_ENABLED=0", "GOAMD64=v1")
			out, err := cmd.CombinedOutput()
			return string(out), err
		}

		// --- go vet -asmdecl
		vetOut, _ := run("vet", "-asmdecl", ".")
		vetPerFn := map[int][]string{}
		vetOther := 0
		for _, line := range strings.Split(vetOut, "\n") {
			line = strings.TrimSpace(line)
			if line == "" || strings.HasPrefix(line, "#") {
				continue
			}
			m := c07vetLine.FindStringSubmatch(line)
			if m == nil {
				vetOther++
				stats["vet_unparsed_lines"]++
				continue
			}
			if strings.Contains(m[2], "RET without writing") {
				stats["vet_ret_without_writing_ignored"]++
				continue
			}
			ln := 0
			fmt.Sscanf(m[1], "%d", &ln)
			vetPerFn[asmLineFn[ln]] = append(vetPerFn[asmLineFn[ln]], m[2])
		}
		if vetOther > 0 {
			// vet itself failed (build error, …): that is a broken tool run, not a verdict
			return fmt.Errorf("go vet produced unparsed output:\n%s", vetOut)
		}
		os.WriteFile(filepath.Join(*dir, "vet.out"), []byte(vetOut), 0o644)

		// --- go run
		runOut, err := run("run", ".")
		os.WriteFile(filepath.Join(*dir, "run.out"), []byte(runOut), 0o644)
		if err != nil {
			return fmt.Errorf("go run failed: %v\n%s", err, runOut[max(0, len(runOut)-3000):])
		}
		sizeResp := map[int]string{}
		execResp := map[string][2]int{}
		var mism []string
		for _, line := range strings.Split(runOut, "\n") {
			fs := strings.Fields(line)
			if len(fs) == 0 {
				continue
			}
			switch fs[0] {
			case "size":
				var i int
				fmt.Sscanf(fs[1], "%d", &i)
				sizeResp[i] = strings.Join(fs[2:], " ")
			case "exec":
				var a, b int
				fmt.Sscanf(fs[2], "%d", &a)
				fmt.Sscanf(fs[3], "%d", &b)
				execResp[fs[1]] = [2]int{a, b}
			case "mismatch":
				mism = append(mism, line)
			}
		}
		// --- requests
		for i, t := range typeList {
			resp, ok := sizeResp[i]
			if !ok {
				return fmt.Errorf("no size line for type %d (%s)", i, t.src())
			}
			o.emit("sizes "+strings.Join(t.toks(nil), " "), resp)
		}
		stats["compiler_size_lines"] = len(typeList)
		for k, s := range sigs {
			fn := "f" + itoa(k)
			st := s.toks()
			o.emit(fmt.Sprintf("accept-count %d vet %s %s", len(vetPerFn[k]), fn, st), "ok")
			er, ok := execResp[fn]
			if !ok {
				return fmt.Errorf("no exec line for %s", fn)
			}
			o.emit(fmt.Sprintf("accept-count %d exec %s pairs=%d %s", er[1], fn, er[0], st), "ok")
			o.emit("accept-argsize "+st+" "+itoa(s.real.Bytes()), "ok")
			stats["vet_diagnostics"] += len(vetPerFn[k])
			stats["exec_mismatches"] += er[1]
			stats["exec_pairs_run"] += er[0]
		}
		stats["functions"] = len(sigs)
		// --- packages on disk: Context.Package / Implement / SignatureExpr (and the package-level functions) over
		// several packages of ONE import path that define the type names of one expression text differently
		if err := c07xDiskFamilies(g, o, *dir, stats, 3); err != nil {
			return err
		}
		// every scalar leaf must resolve, and the pointer in front of a Dereference too: dropped leaves are a verdict
		o.emit(fmt.Sprintf("accept-count %d unresolved-leaves", stats["leaf_unresolved"]+stats["leaf_behind_defined_pointer_type"]), "ok")
		var diag []string
		for k, ds := range vetPerFn {
			for _, d := range ds {
				diag = append(diag, "f"+itoa(k)+": "+d)
			}
		}
		sort.Strings(diag)
		if len(diag) > 20 {
			diag = diag[:20]
		}
		if len(mism) > 20 {
			mism = mism[:20]
		}
		return writeJSON(*f.stats, map[string]any{"counts": stats, "vet_diagnostics": diag, "exec_mismatches": mism})
	})
}

// c07xDiskFamilies writes, per family, packages `main` of module example.com/c07fam into separate directories: a
// (type declarations + body-less func Fn), b (the same text of Fn, the types defined differently), then a again;
// loads each through the REAL build.Context.Package (packages.Load in that directory), obtains the signature through
// Implement("Fn") or SignatureExpr(text), and judges it like every generated signature (model + acceptors on the
// member's own definitions), components selected through build.Param… on that Context.
func c07xDiskFamilies(g *c07gen, o *out, dir string, stats map[string]int, n int) error {
	cwd, err := os.Getwd()
	if err != nil {
		return err
	}
	defer os.Chdir(cwd)
	e := &c07emitter{o: o, stats: stats}
	for k := 0; k < n; k++ {
		var a *c07sig
		for tries := 0; ; tries++ {
			a = g.sig()
			if len(a.decls()) > 0 && !a.usesUnsafe() && len(a.params)+len(a.results) <= 6 {
				break
			}
			if tries > 2000 {
				return fmt.Errorf("no signature with a named type generated")
			}
		}
		b, memo := a.cloneSig()
		changed := 0
		for tries := 0; changed == 0 && tries < 8; tries++ {
			for _, d := range a.decls() {
				if g.r.chance(1, 2) && g.redefine(memo[d]) {
					changed++
				}
			}
		}
		if changed == 0 || a.src() != b.src() {
			stats["disk_family_skipped"]++
			continue
		}
		a2, _ := a.cloneSig()
		dirs := []string{filepath.Join(dir, "fam", itoa(k)+"a"), filepath.Join(dir, "fam", itoa(k)+"b")}
		for i, m := range []*c07sig{a, b} {
			if err := os.MkdirAll(dirs[i], 0o755); err != nil {
				return err
			}
			src := c07declSrc("main", m.decls(), false) + "\nfunc Fn" + m.src() + "\n\nfunc main() {}\n"
			files := map[string]string{"go.mod": "module example.com/c07fam\n\ngo 1.23\n", "decl.go": src, "stub_amd64.s": "// body of Fn\n"}
			for name, content := range files {
				if err := os.WriteFile(filepath.Join(dirs[i], name), []byte(content), 0o644); err != nil {
					return err
				}
			}
		}
		for i, m := range []*c07sig{a, b, a2} {
			if err := os.Chdir(dirs[i%2]); err != nil {
				return err
			}
			c := build.NewContext()
			pkgLevel := g.r.chance(1, 2)
			implement := g.r.chance(1, 2)
			func() {
				defer func() {
					if r := recover(); r != nil {
						err = fmt.Errorf("panic: %v", r)
					}
				}()
				if pkgLevel {
					old := build.VerifSwapContext(c)
					defer build.VerifSwapContext(old)
					build.Package(".")
					if implement {
						build.Implement("Fn")
					} else {
						build.Function("Fn")
						build.SignatureExpr("func" + m.src())
					}
				} else {
					c.Package(".")
					if implement {
						c.Implement("Fn")
					} else {
						c.Function("Fn")
						c.SignatureExpr("func" + m.src())
					}
				}
			}()
			if err != nil {
				return err
			}
			f, _ := c.Result()
			route := "disk-signature-expr"
			if implement {
				route = "disk-implement"
			}
			failed := 0
			if c.VerifErrCount() != 0 || len(f.Functions()) != 1 {
				// the package on disk declares everything the text names: a failure is the implementation's
				failed = 1
			}
			o.emit(fmt.Sprintf("accept-count %d %s-of-a-declared-function-failed family=%d member=%d %s", failed, route, k, i,
				hexs(strings.Join(c.VerifErrMessages(), "; "))), "ok")
			if failed == 1 {
				stats["disk_family_members"]++
				continue
			}
			m.real, m.bctx = f.Functions()[0].Signature, c
			m.route = "disk-signature-expr"
			if implement {
				m.route = "disk-implement"
			}
			e.emitSig(g, m, false)
			stats["disk_family_members"]++
		}
		stats["disk_families"]++
		if a.real != nil && b.real != nil && a.real.Bytes() != b.real.Bytes() {
			stats["disk_family_different_argsize"]++
		}
	}
	return nil
}

type gotypesVar struct {
	name string
	t    *c07ty
}

func c07direct(ps, rs []*gotypesVar) *gotypes.Signature {
	s := &c07sig{}
	for _, p := range ps {
		s.params = append(s.params, c07var{p.name, p.t})
	}
	for _, r := range rs {
		s.results = append(s.results, c07var{r.name, r.t})
	}
	return s.buildDirect()
}

// pathsFixedReg is paths() with every Dereference through BX (the register the
// generated assembly loads the pointer into).
func (g *c07gen) pathsFixedReg(t *c07ty, prefix []c07step, derefs int, out *[][]c07step) {
	var ps [][]c07step
	g.paths(t, prefix, derefs, &ps)
	for _, p := range ps {
		for i := range p {
			if p[i].kind == "d" {
				p[i].name = reg.RBX.Asm()
			}
		}
		*out = append(*out, p)
	}
}

var _ = flag.ContinueOnError
