package main

import (
	"fmt"
	"sort"
	"strconv"
	"strings"

	"github.com/mmcloughlin/avo/operand"

	"github.com/mmcloughlin/avo/ir"
	"github.com/mmcloughlin/avo/pass"
)

func classifyCFGErr(err error) string {
	msg := err.Error()
	switch {
	case strings.HasPrefix(msg, "panic"):
		return "panic"
	case strings.Contains(msg, "duplicate label"):
		return "dup"
	case strings.Contains(msg, "ends with label"):
		return "trailing"
	case strings.Contains(msg, "no label for branch"):
		return "nolabel"
	case strings.Contains(msg, "unknown label"):
		return "unknown"
	}
	return "other"
}

func sortedSet(xs []int) []int {
	sort.Ints(xs)
	out := xs[:0]
	for i, x := range xs {
		if i == 0 || x != xs[i-1] {
			out = append(out, x)
		}
	}
	return out
}

// encGraph renders Succ/Pred of every instruction as sorted index sets (nil successor = -1).
func encGraph(fn *ir.Function) string {
	idx := instrIndex(fn)
	is := fn.Instructions()
	parts := []string{"ok", itoa(len(is))}
	for _, i := range is {
		var s []int
		for _, x := range i.Succ {
			if x == nil {
				s = append(s, -1)
			} else {
				s = append(s, idx[x])
			}
		}
		s = sortedSet(s)
		parts = append(parts, itoa(len(s)))
		for _, x := range s {
			parts = append(parts, itoa(x))
		}
	}
	for _, i := range is {
		var p []int
		for _, x := range i.Pred {
			p = append(p, idx[x])
		}
		p = sortedSet(p)
		parts = append(parts, itoa(len(p)))
		for _, x := range p {
			parts = append(parts, itoa(x))
		}
	}
	return strings.Join(parts, " ")
}

// runCFG runs the real LabelTarget and CFG passes.
func runCFG(fn *ir.Function) string {
	err, _ := safely(func() error {
		if err := pass.LabelTarget(fn); err != nil {
			return err
		}
		return pass.CFG(fn)
	})
	if err != nil {
		// the property demands *an* error, not a particular message or precedence: the class is kept for
		// the statistics only (a panic stays a distinct outcome)
		cls := classifyCFGErr(err)
		lastCFGErrClass = cls
		if cls == "panic" {
			return "err panic"
		}
		return "err"
	}
	lastCFGErrClass = ""
	return encGraph(fn)
}

var lastCFGErrClass string

func init() {
	register("c09", "LabelTarget/CFG on generated node sequences", func(args []string) error {
		f := newStdFlags("c09")
		if err := f.fs.Parse(args); err != nil {
			return err
		}
		db, err := loadForms(*f.repo)
		if err != nil {
			return err
		}
		o, err := openOut(f)
		if err != nil {
			return err
		}
		defer o.close()
		r := newRng(*f.seed)
		stats := map[string]int{}
		if *f.replay != "" {
			lines, err := readLines(*f.replay)
			if err != nil {
				return err
			}
			for _, line := range lines {
				ts := strings.Fields(line)
				if len(ts) < 2 || (ts[0] != "cfg" && ts[0] != "accept-cfg") {
					continue
				}
				fn, used, err := decodeNodes(ts[1:])
				if err != nil {
					return err
				}
				req := strings.Join(ts[1:1+used], " ")
				resp := runCFG(fn)
				o.emit("cfg "+req, resp)
				o.emit("accept-cfg "+req+" => "+resp, "ok")
				stats["replayed"]++
			}
			return writeJSON(*f.stats, stats)
		}
		for k := 0; k < *f.n; k++ {
			cfg := genCfg{minInstr: 1, maxInstr: 3 + r.intn(20), nGP: 2, physPct: 50, branchPct: 35,
				malformed: r.chance(1, 2), indirectJumps: r.chance(1, 3), opcodes: []string{"NOP", "ADDQ", "MOVQ", "CALL"}}
			if r.chance(1, 10) {
				cfg.opcodes = nil
				cfg.randomFormPct = 50
			}
			g := newFgen(r.fork(), db, cfg)
			if r.chance(1, 5) {
				g.cfg.opcodes = []string{"NOP"}
			}
			fn := g.generate()
			req := encNodes(fn)
			resp := runCFG(fn)
			if strings.HasPrefix(resp, "err") {
				stats["err:"+lastCFGErrClass]++
			} else {
				stats["ok:graph"]++
			}
			stats["nodes"] += len(fn.Nodes)
			for _, n := range fn.Nodes {
				if _, ok := n.(ir.Label); ok {
					stats["labels"]++
				}
			}
			o.emit("cfg "+req, resp)
			o.emit("accept-cfg "+req+" => "+resp, "ok")
		}
		return writeJSON(*f.stats, stats)
	})
}

// decodeNodes rebuilds a function from the `cfg` request encoding (replay / corpus).
func decodeNodes(ts []string) (*ir.Function, int, error) {
	fn := ir.NewFunction("f")
	if len(ts) == 0 {
		return nil, 0, fmt.Errorf("empty node list")
	}
	n, err := strconv.Atoi(ts[0])
	if err != nil {
		return nil, 0, err
	}
	p := 1
	for k := 0; k < n; k++ {
		if p >= len(ts) {
			return nil, 0, fmt.Errorf("truncated node list")
		}
		switch ts[p] {
		case "L":
			b, err := unhexs(ts[p+1])
			if err != nil {
				return nil, 0, err
			}
			fn.AddLabel(ir.Label(b))
			p += 2
		case "C":
			fn.AddComment("c")
			p++
		case "I":
			inst := &ir.Instruction{Opcode: ts[p+5], IsBranch: ts[p+1] == "1", IsConditional: ts[p+2] == "1", IsTerminal: ts[p+3] == "1"}
			if strings.HasPrefix(ts[p+4], "=") {
				b, err := unhexs(ts[p+4][1:])
				if err != nil {
					return nil, 0, err
				}
				inst.Operands = []operand.Op{operand.LabelRef(b)}
			} else if inst.IsBranch {
				inst.Operands = []operand.Op{operand.Rel(0)}
			}
			fn.AddInstruction(inst)
			p += 6
		default:
			return nil, 0, fmt.Errorf("bad node tag %q", ts[p])
		}
	}
	return fn, p, nil
}
