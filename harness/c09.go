package main

import (
	"fmt"
	"sort"
	"strconv"
	"strings"

	"github.com/mmcloughlin/avo/ir"
	"github.com/mmcloughlin/avo/operand"
	"github.com/mmcloughlin/avo/pass"
	"github.com/mmcloughlin/avo/reg"
	"github.com/mmcloughlin/avo/x86"
)

func classifyCFGErr(err error) string {
	msg := err.Error()
	switch {
	case strings.HasPrefix(msg, "panic"):
		return "panic"
	case strings.Contains(msg, "duplicate label"):
		return "dup"
	case strings.Contains(msg, "ends with label"):
		return "trailing"
	case strings.Contains(msg, "no label for branch"):
		return "nolabel"
	case strings.Contains(msg, "unknown label"):
		return "unknown"
	}
	return "other"
}

func sortedSet(xs []int) []int {
	sort.Ints(xs)
	out := xs[:0]
	for i, x := range xs {
		if i == 0 || x != xs[i-1] {
			out = append(out, x)
		}
	}
	return out
}

// encGraph renders Succ/Pred of every instruction as sorted index sets. A nil successor ("falls off the end of
// the function") is a representation detail of avo that the property does not pin (it prescribes NO successor when
// there is no following instruction), so it is dropped here and on the model side alike. A successor/predecessor
// that is not an instruction of the function is rendered as the impossible index 1000000 (never equal to the model).
func encGraph(fn *ir.Function) string {
	idx := instrIndex(fn)
	is := fn.Instructions()
	parts := []string{"ok", itoa(len(is))}
	for _, i := range is {
		var s []int
		for _, x := range i.Succ {
			if x == nil {
				continue
			}
			s = append(s, c09Idx(idx, x))
		}
		s = sortedSet(s)
		parts = append(parts, itoa(len(s)))
		for _, x := range s {
			parts = append(parts, itoa(x))
		}
	}
	for _, i := range is {
		var p []int
		for _, x := range i.Pred {
			if x == nil {
				p = append(p, 1000001)
				continue
			}
			p = append(p, c09Idx(idx, x))
		}
		p = sortedSet(p)
		parts = append(parts, itoa(len(p)))
		for _, x := range p {
			parts = append(parts, itoa(x))
		}
	}
	return strings.Join(parts, " ")
}

func c09Idx(idx map[*ir.Instruction]int, x *ir.Instruction) int {
	if k, ok := idx[x]; ok {
		return k
	}
	return 1000000
}

// runCFG runs the real LabelTarget and CFG passes.
func runCFG(fn *ir.Function) string {
	err, _ := safely(func() error {
		if err := pass.LabelTarget(fn); err != nil {
			return err
		}
		return pass.CFG(fn)
	})
	if err != nil {
		// the property demands *an* error, not a particular message or precedence: the class is kept for
		// the statistics only (a panic stays a distinct outcome)
		cls := classifyCFGErr(err)
		lastCFGErrClass = cls
		if cls == "panic" {
			return "err panic"
		}
		return "err"
	}
	lastCFGErrClass = ""
	return encGraph(fn)
}


// ---------------------------------------------------------------------------
// The CFG as pass.Compile builds it (in situ)
// ---------------------------------------------------------------------------

// c09Clone copies a function node by node (instructions are cloned structs with their own operand slices), so that
// the route through pass.Compile and the route through LabelTarget + CFG alone never share mutable state.
func c09Clone(fn *ir.Function) *ir.Function {
	out := ir.NewFunction("f")
	for _, n := range fn.Nodes {
		switch n := n.(type) {
		case *ir.Instruction:
			c := *n
			c.Operands = append([]operand.Op(nil), n.Operands...)
			c.Inputs = append([]operand.Op(nil), n.Inputs...)
			c.Outputs = append([]operand.Op(nil), n.Outputs...)
			c.Pred, c.Succ, c.LiveIn, c.LiveOut = nil, nil, nil, nil
			out.Nodes = append(out.Nodes, &c)
		case *ir.Comment:
			c := *n
			out.Nodes = append(out.Nodes, &c)
		default:
			out.Nodes = append(out.Nodes, n)
		}
	}
	return out
}

// c09Pressure returns instructions that keep 17 64-bit general-purpose virtual registers alive at once. Put in front of
// a function they make pass.Compile stop with an error in AllocateRegisters, i.e. AFTER Verify, the two pruning passes,
// LabelTarget, CFG and Liveness have run on the function in their real order and BEFORE PruneSelfMoves clears Succ/Pred
// again: the graph built inside the real pipeline can then be read off the function.
func c09Pressure() []ir.Node {
	col := reg.NewCollection()
	var vs []reg.GPVirtual
	var out []ir.Node
	for k := 0; k < 17; k++ {
		v := col.GP64()
		vs = append(vs, v)
		inst, err := x86.VerifBuild("MOVQ", nil, []operand.Op{operand.I32(int32(k)), v})
		if err != nil || inst == nil {
			c09BuildFailed["MOVQ"]++
			return nil
		}
		out = append(out, inst)
	}
	for k := 1; k < 17; k++ {
		inst, err := x86.VerifBuild("ADDQ", nil, []operand.Op{vs[k], vs[0]})
		if err != nil || inst == nil {
			c09BuildFailed["ADDQ"]++
			return nil
		}
		out = append(out, inst)
	}
	return out
}

// c09NodeInstrs lists the instructions of fn.Nodes without going through any accessor of the implementation.
func c09NodeInstrs(fn *ir.Function) []*ir.Instruction {
	var is []*ir.Instruction
	for _, n := range fn.Nodes {
		if i, ok := n.(*ir.Instruction); ok {
			is = append(is, i)
		}
	}
	return is
}

// encGraphNodes is encGraph with the instruction list and the index map taken from fn.Nodes directly.
func encGraphNodes(fn *ir.Function) string {
	is := c09NodeInstrs(fn)
	idx := map[*ir.Instruction]int{}
	for k, i := range is {
		idx[i] = k
	}
	parts := []string{"ok", itoa(len(is))}
	for _, i := range is {
		var s []int
		for _, x := range i.Succ {
			if x == nil {
				continue
			}
			s = append(s, c09Idx(idx, x))
		}
		s = sortedSet(s)
		parts = append(parts, itoa(len(s)))
		for _, x := range s {
			parts = append(parts, itoa(x))
		}
	}
	for _, i := range is {
		var p []int
		for _, x := range i.Pred {
			if x == nil {
				p = append(p, 1000001)
				continue
			}
			p = append(p, c09Idx(idx, x))
		}
		p = sortedSet(p)
		parts = append(parts, itoa(len(p)))
		for _, x := range p {
			parts = append(parts, itoa(x))
		}
	}
	return strings.Join(parts, " ")
}

// runCFGInPipeline runs the REAL pass.Compile on a file holding (pressure prefix + a clone of fn). It returns the node
// list as the pipeline left it (after the pruning passes) and the outcome read off the function: "err" when the pipeline
// stopped before Liveness (every error of LabelTarget/CFG does), the graph found on the instructions otherwise.
// judged=false: the pipeline did not stop in the allocator (nothing to read: PruneSelfMoves clears the graph), or panicked
// outside LabelTarget/CFG's business; the caller counts these and the check has a floor on the judged ones.
func runCFGInPipeline(fn *ir.Function) (req, resp string, judged bool, why string) {
	c, err, panicked, why := c09CompileUnderPressure(fn)
	if c == nil {
		return "", "", false, why
	}
	req = encNodes(c)
	if panicked {
		return req, "err panic", true, ""
	}
	if err == nil {
		return req, "", false, "compiled"
	}
	if !c09LivenessReached(c) {
		return req, "err", true, ""
	}
	return req, encGraphNodes(c), true, ""
}

// c09CompileUnderPressure runs the real pass.Compile on a file holding (pressure prefix + a clone of fn) and returns the
// clone as the pipeline left it, with the pipeline's error.
func c09CompileUnderPressure(fn *ir.Function) (c *ir.Function, err error, panicked bool, why string) {
	pre := c09Pressure()
	if pre == nil {
		return nil, nil, false, "no_pressure"
	}
	c = c09Clone(fn)
	c.Nodes = append(pre, c.Nodes...)
	f := ir.NewFile()
	// The judged function is not always alone in its file: 0-2 small functions that compile stand before it and 0-2 after it
	// (a pass that only looks at the first or the last function of a file, or stops early, is visible this way).
	c09PipeCount++
	before, after := c09PipeShapes[c09PipeCount%len(c09PipeShapes)][0], c09PipeShapes[c09PipeCount%len(c09PipeShapes)][1]
	for k := 0; k < before; k++ {
		f.AddSection(c09Filler(k))
	}
	f.AddSection(c)
	for k := 0; k < after; k++ {
		f.AddSection(c09Filler(before + k))
	}
	err, panicked = safely(func() error { return pass.Compile.Execute(f) })
	c09PipePos[itoa(before)+"+"+itoa(after)]++
	return c, err, panicked, ""
}

var c09PipeCount int
var c09PipeShapes = [][2]int{{0, 0}, {1, 0}, {0, 1}, {1, 1}, {2, 0}, {0, 2}, {2, 2}}
var c09PipePos = map[string]int{}

// c09Filler is a small function that every pass accepts: a forward branch over one instruction and a return.
func c09Filler(k int) *ir.Function {
	fn := ir.NewFunction("filler" + itoa(k))
	add := func(opcode string, ops ...operand.Op) {
		if inst, err := x86.VerifBuild(opcode, nil, ops); err == nil && inst != nil {
			fn.AddInstruction(inst)
		} else {
			c09BuildFailed[opcode]++
		}
	}
	add("MOVQ", operand.I32(int32(k)), reg.RAX)
	add("JMP", operand.LabelRef("out"))
	add("ADDQ", reg.RAX, reg.RAX)
	fn.AddLabel("out")
	add("RET")
	return fn
}

// c09LivenessReached: every instruction carries live sets, i.e. the pipeline got past LabelTarget, CFG and Liveness.
func c09LivenessReached(c *ir.Function) bool {
	is := c09NodeInstrs(c)
	for _, i := range is {
		if i.LiveIn == nil || i.LiveOut == nil {
			return false
		}
	}
	return len(is) > 0
}

var lastCFGErrClass string

func init() {
	register("c09", "LabelTarget/CFG on generated node sequences", func(args []string) error {
		f := newStdFlags("c09")
		if err := f.fs.Parse(args); err != nil {
			return err
		}
		db, err := loadForms(*f.repo)
		if err != nil {
			return err
		}
		o, err := openOut(f)
		if err != nil {
			return err
		}
		defer o.close()
		r := newRng(*f.seed)
		stats := map[string]int{}
		if *f.replay != "" {
			lines, err := readLines(*f.replay)
			if err != nil {
				return err
			}
			for _, line := range lines {
				ts := strings.Fields(line)
				if len(ts) < 2 || (ts[0] != "cfg" && ts[0] != "accept-cfg") {
					continue
				}
				fn, used, err := decodeNodes(ts[1:])
				if err != nil {
					return err
				}
				req := strings.Join(ts[1:1+used], " ")
				resp := runCFG(fn)
				o.emit("cfg "+req, resp)
				o.emit("accept-cfg "+req+" => "+resp, "ok")
				stats["replayed"]++
			}
			return writeJSON(*f.stats, stats)
		}
		run := func(stream string, fn *ir.Function) {
			req := encNodes(fn)
			resp := runCFG(fn)
			if strings.HasPrefix(resp, "err") {
				stats["err:"+lastCFGErrClass]++
				stats[stream+":err:"+lastCFGErrClass]++
			} else {
				stats["ok:graph"]++
				stats[stream+":ok"]++
			}
			stats["cases:"+stream]++
			stats["nodes"] += len(fn.Nodes)
			ni := 0
			for _, n := range fn.Nodes {
				switch n := n.(type) {
				case ir.Label:
					stats["labels"]++
				case *ir.Instruction:
					ni++
					if !n.IsBranch && len(n.Operands) > 0 {
						if _, ok := n.Operands[0].(operand.LabelRef); ok {
							stats["nonbranch_labelref"]++
						}
					}
				}
			}
			switch {
			case len(fn.Nodes) == 0:
				stats["shape:empty"]++
			case ni == 0:
				stats["shape:no_instructions"]++
			case ni >= 100:
				stats["shape:100+_instructions"]++
			}
			o.emit("cfg "+req, resp)
			o.emit("accept-cfg "+req+" => "+resp, "ok")
			// the same function through the real pass.Compile: the graph as the pipeline builds it, on the node list
			// as the pipeline's earlier passes left it
			if preq, presp, judged, why := runCFGInPipeline(fn); judged {
				stats["pipe:judged"]++
				if strings.HasPrefix(presp, "err") {
					stats["pipe:err"]++
				} else {
					stats["pipe:ok"]++
				}
				if strings.Count(preq, " L ") < strings.Count(req, " L ") || strings.Count(preq, " I ")-33 < strings.Count(req, " I ") {
					stats["pipe:pruned_something"]++
				}
				o.emit("cfg "+preq, presp)
				o.emit("accept-cfg "+preq+" => "+presp, "ok")
			} else {
				stats["pipe:skipped:"+why]++
			}
		}
		// stream 1: functions built by the shared generator from the real form table
		for k := 0; k < *f.n; k++ {
			cfg := genCfg{minInstr: 1, maxInstr: 3 + r.intn(20), nGP: 2, physPct: 50, branchPct: 35,
				malformed: r.chance(1, 2), indirectJumps: r.chance(1, 3), opcodes: []string{"NOP", "ADDQ", "MOVQ"}}
			if r.chance(1, 10) {
				cfg.opcodes = nil
				cfg.randomFormPct = 50
			}
			g := newFgen(r.fork(), db, cfg)
			if r.chance(1, 5) {
				g.cfg.opcodes = []string{"NOP"}
			}
			run("table", g.generate())
		}
		// stream 2: EVERY node sequence up to a small length over a fixed alphabet (independent of the seed)
		for _, e := range c09EnumPlan(*f.tier) {
			c09Enumerate(e.alphabet, e.minLen, e.maxLen, func(fn *ir.Function) { run("enum", fn) })
		}
		// stream 3: hand-shaped random functions: label names of every kind, CALL label, empty / label-only /
		// comment-only functions, long functions
		for k := 0; k < *f.n/2; k++ {
			run("named", c09NamedFunc(r.fork(), stats))
		}
		for pos, c := range c09PipePos {
			stats["pipe:file:"+pos] += c
		}
		stats["build_failed"] = 0
		for opc, c := range c09BuildFailed {
			stats["build_failed"] += c
			stats["build_failed:"+opc] += c
		}
		return writeJSON(*f.stats, stats)
	})
}

// decodeNodes rebuilds a function from the `cfg` request encoding (replay / corpus).
func decodeNodes(ts []string) (*ir.Function, int, error) {
	fn := ir.NewFunction("f")
	if len(ts) == 0 {
		return nil, 0, fmt.Errorf("empty node list")
	}
	n, err := strconv.Atoi(ts[0])
	if err != nil {
		return nil, 0, err
	}
	p := 1
	for k := 0; k < n; k++ {
		if p >= len(ts) {
			return nil, 0, fmt.Errorf("truncated node list")
		}
		switch ts[p] {
		case "L":
			b, err := unhexs(ts[p+1])
			if err != nil {
				return nil, 0, err
			}
			fn.AddLabel(ir.Label(b))
			p += 2
		case "C":
			fn.AddComment("c")
			p++
		case "I":
			inst := &ir.Instruction{Opcode: ts[p+5], IsBranch: ts[p+1] == "1", IsConditional: ts[p+2] == "1", IsTerminal: ts[p+3] == "1"}
			if strings.HasPrefix(ts[p+4], "=") {
				b, err := unhexs(ts[p+4][1:])
				if err != nil {
					return nil, 0, err
				}
				inst.Operands = []operand.Op{operand.LabelRef(b)}
			} else if inst.IsBranch {
				inst.Operands = []operand.Op{operand.Rel(0)}
			}
			fn.AddInstruction(inst)
			p += 6
		default:
			return nil, 0, fmt.Errorf("bad node tag %q", ts[p])
		}
	}
	return fn, p, nil
}

// ---------------------------------------------------------------------------
// C09's own generators
// ---------------------------------------------------------------------------

// c09Sym builds one node of the enumeration alphabet; instructions come from the real form table
// (x86.VerifBuild), so their control-flow flags are avo's own.
type c09Sym struct {
	name string
	add  func(fn *ir.Function)
}

// c09BuildFailed counts instructions the form table refused (replaced by NOP); the check demands 0.
var c09BuildFailed = map[string]int{}

func c09Inst(opcode string, ops ...operand.Op) func(fn *ir.Function) {
	return func(fn *ir.Function) {
		inst, err := x86.VerifBuild(opcode, nil, ops)
		if err != nil || inst == nil {
			c09BuildFailed[opcode]++
			inst, _ = x86.VerifBuild("NOP", nil, nil)
			if inst == nil {
				inst = &ir.Instruction{Opcode: "NOP"}
			}
		}
		fn.AddInstruction(inst)
	}
}

func c09Label(l string) func(fn *ir.Function) { return func(fn *ir.Function) { fn.AddLabel(ir.Label(l)) } }

var c09Alphabet = map[string]c09Sym{}

func c09Syms(names ...string) []c09Sym {
	if len(c09Alphabet) == 0 {
		for _, s := range []c09Sym{
			{"La", c09Label("a")}, {"Lb", c09Label("b")},
			{"C", func(fn *ir.Function) { fn.AddComment("c") }},
			{"NOP", c09Inst("NOP")}, {"RET", c09Inst("RET")},
			{"JMPa", c09Inst("JMP", operand.LabelRef("a"))}, {"JNEa", c09Inst("JNE", operand.LabelRef("a"))},
			{"JMPb", c09Inst("JMP", operand.LabelRef("b"))}, {"JNEb", c09Inst("JNE", operand.LabelRef("b"))},
			{"JMPr", c09Inst("JMP", reg.RAX)}, {"JMPz", c09Inst("JMP", operand.LabelRef("z"))},
			{"CALLa", c09Inst("CALL", operand.LabelRef("a"))},
		} {
			c09Alphabet[s.name] = s
		}
	}
	var out []c09Sym
	for _, n := range names {
		s, ok := c09Alphabet[n]
		if !ok {
			panic("c09: unknown symbol " + n)
		}
		out = append(out, s)
	}
	return out
}

type c09EnumSpec struct {
	alphabet       []c09Sym
	minLen, maxLen int
}

func c09EnumPlan(tier string) []c09EnumSpec {
	full := c09Syms("La", "Lb", "C", "NOP", "RET", "JMPa", "JNEa", "JMPb", "JNEb", "JMPr", "JMPz", "CALLa")
	mid := c09Syms("La", "Lb", "C", "NOP", "RET", "JMPa", "JNEa", "JNEb")
	small := c09Syms("La", "Lb", "NOP", "RET", "JMPa", "JNEb")
	if tier == "thorough" {
		return []c09EnumSpec{{full, 0, 4}, {mid, 5, 5}, {small, 6, 6}}
	}
	return []c09EnumSpec{{full, 0, 3}, {mid, 4, 4}, {small, 5, 5}}
}

// c09Enumerate calls visit on a fresh function for every word over the alphabet with minLen <= length <= maxLen.
func c09Enumerate(alphabet []c09Sym, minLen, maxLen int, visit func(fn *ir.Function)) {
	for n := minLen; n <= maxLen; n++ {
		word := make([]int, n)
		for {
			fn := ir.NewFunction("f")
			for _, k := range word {
				alphabet[k].add(fn)
			}
			visit(fn)
			p := n - 1
			for p >= 0 {
				word[p]++
				if word[p] < len(alphabet) {
					break
				}
				word[p] = 0
				p--
			}
			if p < 0 {
				break
			}
		}
	}
}

// c09Names: groups of label names that a sloppy comparison (case folding, trimming, truncation, normalisation,
// prefix matching) would confuse although they are different labels.
var c09Names = [][]string{
	{"l0", "L0", "l0 ", " l0", "l0\t", "l00", "l"},
	{"loop", "Loop", "LOOP", "loop_", "loo"},
	{strings.Repeat("x", 300) + "a", strings.Repeat("x", 300) + "b", strings.Repeat("x", 300)},
	{"\u00fc", "\u00dc", "u\u0308", "\u03bb", "l\u00b70", "l.0"},
	{"", " ", "-", "=", "undefined_label"},
	{"AX", "ax", "SB", "a.b", "a b", "0", "00"},
}

func c09NamedFunc(r *rng, stats map[string]int) *ir.Function {
	fn := ir.NewFunction("f")
	switch r.intn(40) {
	case 0: // empty function
		return fn
	case 1: // labels (and comments) only: no instruction follows any label
		for k := 1 + r.intn(3); k > 0; k-- {
			if r.chance(1, 3) {
				fn.AddComment("c")
			}
			fn.AddLabel(ir.Label(fmt.Sprintf("only%d", k)))
		}
		return fn
	case 2: // comments only
		for k := 1 + r.intn(3); k > 0; k-- {
			fn.AddComment("c")
		}
		return fn
	}
	group := pick(r, c09Names)
	if r.chance(1, 4) {
		group = append(append([]string{}, group...), pick(r, c09Names)...)
	}
	// the labels defined in this function: a random subset of the group, each at a random instruction slot
	n := 1 + r.intn(12)
	if r.chance(1, 25) {
		n = 100 + r.intn(300)
	}
	var defined []string
	for _, l := range group {
		if r.chance(1, 2) {
			defined = append(defined, l)
		}
	}
	if len(defined) == 0 {
		defined = []string{group[0]}
	}
	valid := !r.chance(1, 4)
	at := map[int][]string{}
	for _, l := range defined {
		p := r.intn(n)
		if !valid && r.chance(1, 6) {
			p = n // trailing label
		}
		at[p] = append(at[p], l)
	}
	if !valid && r.chance(1, 4) {
		at[r.intn(n+1)] = append(at[r.intn(n+1)], pick(r, defined)) // duplicate
	}
	target := func() string {
		if valid || r.chance(3, 4) {
			return pick(r, defined)
		}
		return pick(r, group) // possibly a near-miss of a defined name: undefined
	}
	cond := []string{"JNE", "JEQ", "JCS", "JLT", "JHI", "JA", "JZ", "JPL", "JOS"}
	for i := 0; i <= n; i++ {
		for _, l := range at[i] {
			if r.chance(1, 6) {
				fn.AddComment("c")
			}
			fn.AddLabel(ir.Label(l))
		}
		if i == n {
			break
		}
		var add func(*ir.Function)
		switch x := r.intn(100); {
		case x < 25:
			add = c09Inst("JMP", operand.LabelRef(target()))
		case x < 50:
			add = c09Inst(pick(r, cond), operand.LabelRef(target()))
		case x < 62:
			// a non-branch instruction that carries a label reference
			l := target()
			if r.chance(1, 4) {
				l = pick(r, group)
			}
			add = c09Inst("CALL", operand.LabelRef(l))
			stats["call_label"]++
		case x < 65 && !valid:
			if r.chance(1, 2) {
				add = c09Inst("JMP", reg.RCX)
			} else {
				add = c09Inst("JMP", operand.Mem{Base: reg.RAX, Disp: 8})
			}
		case x < 70 && !valid:
			add = c09Inst(pick(r, append([]string{"JCXZQ", "JCXZL"}, cond...)), operand.Rel(8))
		case x < 76:
			add = c09Inst("RET")
		case x < 90:
			add = c09Inst("ADDQ", reg.RAX, reg.RCX)
		default:
			add = c09Inst("NOP")
		}
		add(fn)
		if r.chance(1, 12) {
			fn.AddComment("c")
		}
	}
	for _, l := range defined {
		if l != strings.ToLower(l) || strings.TrimSpace(l) != l || len(l) > 100 || !c09ASCII(l) || l == "" {
			stats["name_variant_defined"]++
			break
		}
	}
	return fn
}

func c09ASCII(s string) bool {
	for i := 0; i < len(s); i++ {
		if s[i] >= 0x80 {
			return false
		}
	}
	return true
}
