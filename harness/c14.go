package main

import (
	"bufio"
	"encoding/json"
	"go/build"
	"go/build/constraint"
	"io"
	"os"
	"strings"
	"unicode"
	"unicode/utf8"

	"github.com/mmcloughlin/avo/attr"
	avobuild "github.com/mmcloughlin/avo/build"
	"github.com/mmcloughlin/avo/buildtags"
	"github.com/mmcloughlin/avo/gotypes"
	"github.com/mmcloughlin/avo/ir"
	"github.com/mmcloughlin/avo/pass"
	"github.com/mmcloughlin/avo/printer"
	"github.com/mmcloughlin/avo/x86"
)

// C14: build constraints mean the same thing to avo and to the Go toolchain.
//
// Request families (see lean/AvoVerif/Drv/C14.lean for the encodings):
//   tags / tags-ignore            exact: Validate, GoString, Evaluate (all assignments, invalid sets too), the CLASS of
//                                 Format's result (error / no line / lines; the text is not compared), the
//                                 toolchain's decision on the header avo printed, parse∘print
//   accept-tags / -ignore         the property: toolchain (go/build/constraint on the header avo prints,
//                                 go/build MatchFile on both printed files) == avo's Evaluate, header accepted,
//                                 every constraint parses back from its printed form
//   term / accept-term            Term.Validate/Name/IsNegated; valid <=> toolchain takes the literal as a tag
//   accept-tagranges              avo's valid one-character terms over ALL code points == toolchain's
//   parse / parseopt              ParseConstraint / ParseOption on well-formed and malformed text
//   tcline                        measurement of the toolchain model: constraint.Parse of `// +build` lines
//   ctx                           build.Context.ConstraintExpr sequences
//   accept-badutf8                a term that is not valid UTF-8 must be invalid
//   hist / accept-hist            call histories: the same *ir.File printed repeatedly by both printers with its
//                                 constraints changed in between, several files, re-allocation (c14hist.go)

type c14Formula [][][]string

func c14EncTerm(t string) string { return hexs(t) }

func c14EncOpt(o []string) string {
	if len(o) == 0 {
		return "E"
	}
	ts := make([]string, len(o))
	for i, t := range o {
		ts[i] = c14EncTerm(t)
	}
	return strings.Join(ts, ",")
}

func c14EncConstraint(c [][]string) string {
	if len(c) == 0 {
		return "N"
	}
	os := make([]string, len(c))
	for i, o := range c {
		os[i] = c14EncOpt(o)
	}
	return strings.Join(os, "+")
}

func c14EncFormula(f c14Formula) string {
	if len(f) == 0 {
		return "Z"
	}
	cs := make([]string, len(f))
	for i, c := range f {
		cs[i] = c14EncConstraint(c)
	}
	return strings.Join(cs, ";")
}

func c14DecFormula(s string) (c14Formula, error) {
	f := c14Formula{}
	if s == "Z" {
		return f, nil
	}
	for _, cs := range strings.Split(s, ";") {
		c := [][]string{}
		if cs != "N" {
			for _, os := range strings.Split(cs, "+") {
				o := []string{}
				if os != "E" {
					for _, ts := range strings.Split(os, ",") {
						t, err := unhexs(ts)
						if err != nil {
							return nil, err
						}
						o = append(o, t)
					}
				}
				c = append(c, o)
			}
		}
		f = append(f, c)
	}
	return f, nil
}

func c14ToAvo(f c14Formula) buildtags.Constraints {
	cs := buildtags.Constraints{}
	for _, c := range f {
		ac := buildtags.Constraint{}
		for _, o := range c {
			ao := buildtags.Option{}
			for _, t := range o {
				ao = append(ao, buildtags.Term(t))
			}
			ac = append(ac, ao)
		}
		cs = append(cs, ac)
	}
	return cs
}

func c14FromConstraint(c buildtags.Constraint) [][]string {
	out := [][]string{}
	for _, o := range c {
		oo := []string{}
		for _, t := range o {
			oo = append(oo, string(t))
		}
		out = append(out, oo)
	}
	return out
}

func c14FromAvo(cs buildtags.Constraints) c14Formula {
	f := c14Formula{}
	for _, c := range cs {
		f = append(f, c14FromConstraint(c))
	}
	return f
}

// c14Universe: distinct tag names of the formula in order of first occurrence,
// "ignore" excluded (it is handled by the -ignore request variants).
func c14Universe(f c14Formula) (names []string, mentionsIgnore bool) {
	seen := map[string]bool{}
	for _, c := range f {
		for _, o := range c {
			for _, t := range o {
				n := strings.TrimPrefix(t, "!")
				if n == "ignore" {
					mentionsIgnore = true
					continue
				}
				if !seen[n] {
					seen[n] = true
					names = append(names, n)
				}
			}
		}
	}
	return
}

func c14UniverseTok(names []string) string {
	ts := []string{itoa(len(names))}
	for _, n := range names {
		ts = append(ts, hexs(n))
	}
	return strings.Join(ts, " ")
}

func c14Assign(names []string, i int, ignore bool) map[string]bool {
	v := map[string]bool{}
	for j, n := range names {
		if (i>>uint(j))&1 == 1 {
			v[n] = true
		}
	}
	if ignore {
		v["ignore"] = true
	}
	return v
}

func c14Bit(b bool) byte {
	if b {
		return '1'
	}
	return '0'
}

// guard runs f and reports a panic as the distinct outcome "panic".
func c14Guard(f func() string) (s string) {
	defer func() {
		if r := recover(); r != nil {
			s = "panic"
		}
	}()
	return f()
}

// toolchain reading of the header text avo printed: every line must be a
// constraint line that go/build/constraint parses; the file is selected iff all
// of them evaluate to true.  No line = no constraint = always selected.
func c14ParseHeader(header string) (exprs []constraint.Expr, status string) {
	for _, line := range strings.Split(strings.TrimSuffix(header, "\n"), "\n") {
		if line == "" {
			continue
		}
		x, err := constraint.Parse(line)
		if err != nil {
			return nil, "rejected:" + strings.ReplaceAll(err.Error(), " ", "_")
		}
		exprs = append(exprs, x)
	}
	return exprs, "ok"
}

func c14EvalExprs(exprs []constraint.Expr, v map[string]bool) bool {
	r := true
	for _, x := range exprs {
		if !x.Eval(func(tag string) bool { return v[tag] }) {
			r = false
		}
	}
	return r
}

// matchFile asks go/build itself whether the file would be built under the
// given tags (no GOOS/GOARCH/compiler/release tags in the context).
func c14MatchFile(name string, content []byte, v map[string]bool) (bool, error) {
	var tags []string
	for t, on := range v {
		if on {
			tags = append(tags, t)
		}
	}
	ctxt := build.Context{BuildTags: tags}
	ctxt.OpenFile = func(string) (io.ReadCloser, error) {
		return io.NopCloser(strings.NewReader(string(content))), nil
	}
	return ctxt.MatchFile("/c14", name)
}

type c14Stats struct {
	Formulas, Valid, Invalid, WithEmptyOption, WithEmptyConstraint, EmptySet int
	WithUnicode, WithNegation, Assignments, IgnoreVariants                   int
	Lines, Options, Terms, Universe                                          map[string]int
	TermRequests, ParseRequests, ParseErrors, TclineRequests, TclineNot      int
	CtxRequests, BigFormulas, AvoValidCodepoints, ToolchainRejected          int
	FormatEmptyForNonEmptySet                                                int
	// judged accept-tags lines, Format errors, formulas with a header line near/over the 64 KiB scanner limit
	Judged, FormatErrors, LongFormulas, LongOverLimit, LongUnderLimit int
	LargeShapeFormulas, InvalidEvaluated, BadUTF8Terms                int
	FileShapes                                                        map[string]int
	MatchFileErrors, PrinterErrors                                    int
	SyntaxPlus, SyntaxGo                                              bool
	ParseJudged, CtxFormulas                                          int
	c14HistStats
}

type c14Run struct {
	o  *out
	st *c14Stats
}

func (r *c14Run) formula(f c14Formula) {
	r.formulaVariant(f, false)
	names, mentions := c14Universe(f)
	_ = names
	hasN := false
	for _, c := range f {
		if len(c) == 0 {
			hasN = true
		}
	}
	if hasN || mentions {
		r.st.IgnoreVariants++
		r.formulaVariant(f, true)
	}
}

func (r *c14Run) formulaVariant(f c14Formula, ignore bool) {
	names, _ := c14Universe(f)
	if len(names) > 6 {
		names = names[:6] // the remaining tags stay false
	}
	suffix := ""
	if ignore {
		suffix = "-ignore"
	}
	ftok := c14EncFormula(f)
	utok := c14UniverseTok(names)
	cs := c14ToAvo(f)
	nassign := 1 << uint(len(names))

	valid := c14Guard(func() string {
		if cs.Validate() == nil {
			return "1"
		}
		return "0"
	})
	gs := c14Guard(func() string { return hexs(cs.GoString()) })
	ev := make([]byte, nassign)
	evTok := c14Guard(func() string {
		for i := 0; i < nassign; i++ {
			ev[i] = c14Bit(cs.Evaluate(c14Assign(names, i, ignore)))
		}
		return string(ev)
	})
	if valid != "1" {
		// Evaluate is defined on invalid sets too (an invalid term is false): compared exactly
		r.st.InvalidEvaluated++
		r.o.emit("tags"+suffix+" "+ftok+" "+utok, "valid="+valid+" gs="+gs+" ev="+evTok)
		return
	}
	var header string
	// the class of Format's result; the text itself is judged through the toolchain (tb=, accept-tags)
	fmtTok := c14Guard(func() string {
		h, err := buildtags.Format(cs)
		if err != nil {
			return "ERR"
		}
		header = h
		if h == "" {
			return "none"
		}
		return "lines"
	})
	if fmtTok == "ERR" {
		r.st.FormatErrors++
	}
	// toolchain on the printed header
	status := "ok"
	var exprs []constraint.Expr
	if fmtTok == "ERR" || fmtTok == "panic" {
		status = "format-" + strings.ToLower(fmtTok)
	} else {
		exprs, status = c14ParseHeader(header)
	}
	tb := make([]byte, nassign)
	for i := range tb {
		if status != "ok" {
			tb[i] = 'x'
		} else {
			tb[i] = c14Bit(c14EvalExprs(exprs, c14Assign(names, i, ignore)))
		}
	}
	if status != "ok" {
		r.st.ToolchainRejected++
	}
	if len(f) > 0 && header == "" {
		r.st.FormatEmptyForNonEmptySet++
	}
	// parse(print c) per constraint
	var rtToks []string
	rtBits := make([]byte, 0, len(f))
	for _, c := range cs {
		c := c
		tok := c14Guard(func() string {
			body := strings.TrimPrefix(c.GoString(), "// +build")
			back, err := buildtags.ParseConstraint(body)
			if err != nil {
				return "err"
			}
			return c14EncConstraint(c14FromConstraint(back))
		})
		rtToks = append(rtToks, tok)
		switch {
		case tok == "err" || tok == "panic":
			rtBits = append(rtBits, 'x')
		case tok == c14EncConstraint(c14FromConstraint(c)):
			rtBits = append(rtBits, '1')
		default:
			rtBits = append(rtBits, '0')
		}
	}
	rt := "Z"
	if len(rtToks) > 0 {
		rt = strings.Join(rtToks, ";")
	}
	r.o.emit("tags"+suffix+" "+ftok+" "+utok,
		"valid=1 gs="+gs+" fmt="+fmtTok+" ev="+evTok+" tb="+string(tb)+" rt="+rt)

	// the property on the implementation's own outputs; the printed files of
	// both printers are given to go/build.  The file is a real one (functions,
	// includes, docs; built by hand or through build.Context + pass.Compile):
	// the shape is a function of the formula, so that a replay reproduces it.
	shape := c14ShapeOf(ftok)
	file, ferr := c14File(cs, shape)
	r.st.FileShapes[itoa(shape)]++
	cfg := printer.Config{Pkg: "p", Name: "avo"}
	mg := make([]byte, nassign)
	ma := make([]byte, nassign)
	fill := func(dst []byte, name string, p printer.Printer) {
		var content []byte
		perr := ferr
		if perr == "" {
			perr = c14Guard(func() string {
				b, err := p.Print(file)
				if err != nil {
					return "err"
				}
				content = b
				return ""
			})
		}
		if perr != "" {
			r.st.PrinterErrors++
		}
		for i := range dst {
			if perr != "" {
				dst[i] = 'x'
				continue
			}
			m, err := c14MatchFile(name, content, c14Assign(names, i, ignore))
			if err != nil {
				r.st.MatchFileErrors++
				dst[i] = 'x'
			} else {
				dst[i] = c14Bit(m)
			}
		}
	}
	fill(mg, "x.go", printer.NewStubs(cfg))
	fill(ma, "x.s", printer.NewGoAsm(cfg))
	r.st.Assignments += nassign
	r.st.Judged++
	r.o.emit("accept-tags"+suffix+" valid=1 "+ftok+" "+utok+" sh="+itoa(shape)+" hd="+fmtTok+" ev="+evTok+" st="+status+
		" tc="+string(tb)+" mg="+string(mg)+" ma="+string(ma)+" rt="+string(rtBits), "ok")
}

// c14ShapeOf: which kind of file carries the constraints (a function of the
// formula token only: FNV-1a).
func c14ShapeOf(ftok string) int {
	h := uint32(2166136261)
	for i := 0; i < len(ftok); i++ {
		h = (h ^ uint32(ftok[i])) * 16777619
	}
	return int(h>>8) % 4
}

// c14File builds the file the printers are given.
//
//	0: empty ir.NewFile()
//	1: hand-built: two includes, two documented functions with signatures and a pragma
//	2: the real pipeline: build.Context (constraints entered one by one through Context.Constraint,
//	   a NOSPLIT function with an instruction) followed by pass.Compile (adds the textflag.h include)
//	3: as 2 but the constraints are entered with Context.Constraints at the end and the function has no attributes
func c14File(cs buildtags.Constraints, shape int) (file *ir.File, errs string) {
	defer func() {
		if r := recover(); r != nil {
			file, errs = nil, "panic"
		}
	}()
	switch shape {
	case 0:
		f := ir.NewFile()
		f.Constraints = cs
		return f, ""
	case 1:
		f := ir.NewFile()
		f.Constraints = cs
		f.Includes = []string{"textflag.h", "go_asm.h"}
		for _, name := range []string{"f", "g"} {
			fn := ir.NewFunction(name)
			fn.Doc = []string{name + " does nothing."}
			sig, err := gotypes.ParseSignature("func(x uint64) uint64")
			if err != nil {
				return nil, "sig"
			}
			fn.SetSignature(sig)
			if name == "g" {
				fn.AddPragma("noescape")
			}
			ret, err := x86.RET()
			if err != nil {
				return nil, "ret"
			}
			fn.AddInstruction(ret)
			f.AddSection(fn)
		}
		return f, ""
	default:
		c := avobuild.NewContext()
		if shape == 2 {
			for _, k := range cs {
				c.Constraint(k)
			}
		}
		c.Function("f")
		c.Doc("f is generated.")
		if shape == 2 {
			c.Attributes(attr.NOSPLIT)
		}
		c.SignatureExpr("func(x uint64) uint64")
		ret, err := x86.RET()
		if err != nil {
			return nil, "ret"
		}
		c.Instruction(ret)
		if shape == 3 {
			c.Constraints(cs)
		}
		f, err := c.Result()
		if err != nil {
			return nil, "ctx"
		}
		if err := pass.Compile.Execute(f); err != nil {
			return nil, "compile"
		}
		return f, ""
	}
}

func c14HasSpaceOrComma(s string) bool {
	for _, c := range s {
		if c == ',' || unicode.IsSpace(c) {
			return true
		}
	}
	return false
}

func (r *c14Run) term(t string) {
	if !utf8.ValidString(t) {
		// the protocol carries terms as text: for byte strings that are not UTF-8 only the
		// statement "never valid" is judged (Go's range yields U+FFFD, which is no tag character)
		r.st.BadUTF8Terms++
		valid := c14Guard(func() string {
			if buildtags.Term(t).Validate() == nil {
				return "1"
			}
			return "0"
		})
		r.o.emit("accept-badutf8 "+hexs(t)+" avo="+valid, "ok")
		return
	}
	r.st.TermRequests++
	tm := buildtags.Term(t)
	valid := c14Guard(func() string {
		if tm.Validate() == nil {
			return "1"
		}
		return "0"
	})
	resp := c14Guard(func() string {
		return "valid=" + valid + " neg=" + string(c14Bit(tm.IsNegated())) + " name=" + hexs(tm.Name())
	})
	r.o.emit("term "+hexs(t), resp)
	tool := "na"
	if !c14HasSpaceOrComma(t) {
		tool = "0"
		if x, err := constraint.Parse("// +build " + t); err == nil {
			if n, ok := x.(*constraint.NotExpr); ok {
				x = n.X
			}
			if tg, ok := x.(*constraint.TagExpr); ok && tg.Tag == strings.TrimPrefix(t, "!") && t != "" {
				tool = "1"
			}
		}
	}
	r.o.emit("accept-term "+hexs(t)+" avo="+valid+" tool="+tool, "ok")
}

// parseMeaning: when avo parses the text, the parsed constraint must mean what the
// toolchain reads from the same text on a `// +build` line (all assignments of its words).
func (r *c14Run) parseMeaning(kind, text string, c buildtags.Constraint) {
	if strings.ContainsAny(text, "\n") || !utf8.ValidString(text) {
		return
	}
	x, err := constraint.Parse("// +build " + text)
	if err != nil {
		// avo accepted a text the toolchain does not read as a constraint line
		r.o.emit("accept-parse "+kind+" "+hexs(text)+" 0 avo=- tool=rejected", "ok")
		return
	}
	var names []string
	seen := map[string]bool{}
	for _, f := range strings.Fields(text) {
		for _, l := range strings.Split(f, ",") {
			n := strings.TrimLeft(l, "!")
			if n != "" && n != "ignore" && !seen[n] && len(names) < 5 {
				seen[n] = true
				names = append(names, n)
			}
		}
	}
	avo := make([]byte, 1<<uint(len(names)))
	tool := make([]byte, len(avo))
	avoTok := c14Guard(func() string {
		for i := range avo {
			v := c14Assign(names, i, false)
			avo[i] = c14Bit(c.Evaluate(v))
			tool[i] = c14Bit(x.Eval(func(t string) bool { return v[t] }))
		}
		return string(avo)
	})
	r.st.ParseJudged++
	r.o.emit("accept-parse "+kind+" "+hexs(text)+" "+c14UniverseTok(names)+" avo="+avoTok+" tool="+string(tool), "ok")
}

func (r *c14Run) parse(text string) {
	r.st.ParseRequests++
	var parsed buildtags.Constraint
	resp := c14Guard(func() string {
		c, err := buildtags.ParseConstraint(text)
		if err != nil {
			r.st.ParseErrors++
			return "err"
		}
		parsed = c
		return "ok " + c14EncConstraint(c14FromConstraint(c))
	})
	r.o.emit("parse "+hexs(text), resp)
	if strings.HasPrefix(resp, "ok ") {
		r.parseMeaning("c", text, parsed)
	}
}

func (r *c14Run) parseopt(text string) {
	r.st.ParseRequests++
	var parsed buildtags.Constraint
	resp := c14Guard(func() string {
		o, err := buildtags.ParseOption(text)
		if err != nil {
			r.st.ParseErrors++
			return "err"
		}
		parsed = buildtags.Constraint{o}
		return "ok " + c14EncConstraint(c14FromConstraint(buildtags.Constraint{o}))
	})
	r.o.emit("parseopt "+hexs(text), resp)
	if strings.HasPrefix(resp, "ok ") && !c14HasSpaceOrComma(strings.ReplaceAll(text, ",", "")) {
		r.parseMeaning("o", text, parsed)
	}
}

// tcline measures the toolchain model on one comment line.
func (r *c14Run) tcline(line string) {
	if strings.HasPrefix(line, "//go:build") {
		return // the model covers `// +build` lines only
	}
	r.st.TclineRequests++
	// universe: the words of the line, at most 5, plus "ignore"
	var names []string
	seen := map[string]bool{}
	for _, f := range strings.Fields(line) {
		for _, l := range strings.Split(f, ",") {
			n := strings.TrimPrefix(l, "!")
			if n != "" && n != "ignore" && !seen[n] && len(names) < 5 {
				seen[n] = true
				names = append(names, n)
			}
		}
	}
	names = append(names, "ignore")
	var resp string
	x, err := constraint.Parse(line)
	switch {
	case err != nil && err.Error() == "not a build constraint":
		resp = "notconstraint"
		r.st.TclineNot++
	case err != nil:
		resp = "err"
	default:
		bits := make([]byte, 1<<uint(len(names)))
		for i := range bits {
			v := c14Assign(names, i, false)
			bits[i] = c14Bit(x.Eval(func(t string) bool { return v[t] }))
		}
		resp = "ok " + hexs(x.String()) + " " + string(bits)
	}
	r.o.emit("tcline "+hexs(line)+" "+c14UniverseTok(names), resp)
}

func (r *c14Run) ctx(exprs []string) {
	r.st.CtxRequests++
	req := []string{"ctx", itoa(len(exprs))}
	for _, e := range exprs {
		req = append(req, hexs(e))
	}
	resp := c14Guard(func() string {
		c := avobuild.NewContext()
		for _, e := range exprs {
			c.ConstraintExpr(e)
		}
		f, _ := c.Result()
		return "errs=" + itoa(c.VerifErrCount()) + " cs=" + c14EncFormula(c14FromAvo(f.Constraints))
	})
	r.o.emit(strings.Join(req, " "), resp)
	// a Context that reports no error holds a constraint set that must be valid (judged by the model's
	// Validate), and that set goes through the whole formula check like a constructed one
	if strings.HasPrefix(resp, "errs=0 cs=") {
		ftok := strings.TrimPrefix(resp, "errs=0 cs=")
		r.o.emit("accept-ctx "+ftok, "ok")
		if fm, err := c14DecFormula(ftok); err == nil && len(fm) > 0 {
			r.st.CtxFormulas++
			r.formula(fm)
		}
	}
}

// ---------------------------------------------------------------- generation

var c14FixedNames = []string{
	"a", "b", "c", "d", "linux", "amd64", "386", "cgo", "go1.18", "purego", "x_y", "_", ".", "a.b", "v1.2.3",
	"é", "日本", "٣٤", "ǅ", "ß9", "Ω_1", "९", "x１", "ignore",
}

var c14TagRunes = []rune("abcxyzABZ019_.éßΩωжЖאب日本語٣٤९１ǅªµºᏣ𝒜𝟘")

var c14InvalidTerms = []string{
	"!!x", "", "!", "a-b", "a b", " a", "a ", "a,b", "a\tb", "a\nb", "a+b", "!a!b", "a!", "!!", "!!!a",
	"Ⅷ", "²", "a b", "//", "+build", "a/b", "a:b", "a=b", "a|b", "a&b", "(a)", "a　", "​x", "a\x00",
	"!-", "x́", // combining acute accent (Mn) is not a letter
}

func c14RandomName(r *rng) string {
	n := r.rangeIn(1, 4)
	var b strings.Builder
	for i := 0; i < n; i++ {
		b.WriteRune(pick(r, c14TagRunes))
	}
	return b.String()
}

func c14GenFormula(r *rng) c14Formula {
	// tag pool of this formula: at most 6 names so that all assignments are enumerated
	k := r.rangeIn(1, 6)
	var pool []string
	for i := 0; i < k; i++ {
		if r.chance(2, 3) {
			pool = append(pool, pick(r, c14FixedNames[:len(c14FixedNames)-1]))
		} else {
			pool = append(pool, c14RandomName(r))
		}
	}
	if r.chance(1, 40) {
		pool[0] = "ignore"
	}
	invalidRate := 0
	if r.chance(3, 20) {
		invalidRate = r.rangeIn(1, 4)
	}
	// dimensions: usually up to 4 x 4 x 4; one formula in 12 is larger (up to 10 lines x 6 options x 6 terms,
	// or few lines with up to 40 terms per option), still within the toolchain's limits
	maxL, maxO, maxT := 4, 4, 4
	if r.chance(1, 12) {
		if r.chance(1, 2) {
			maxL, maxO, maxT = 10, 6, 6
		} else {
			maxL, maxO, maxT = 2, 2, 40
		}
	}
	weighted := func(zeroNum, zeroDen, max int) int {
		if r.chance(zeroNum, zeroDen) {
			return 0
		}
		return r.rangeIn(1, max)
	}
	f := c14Formula{}
	nl := weighted(1, 25, maxL)
	for i := 0; i < nl; i++ {
		c := [][]string{}
		no := weighted(1, 40, maxO)
		for j := 0; j < no; j++ {
			o := []string{}
			nt := weighted(1, 70, maxT)
			for t := 0; t < nt; t++ {
				var term string
				if invalidRate > 0 && r.chance(invalidRate, 16) {
					term = pick(r, c14InvalidTerms)
				} else {
					term = pick(r, pool)
					if r.chance(1, 3) {
						term = "!" + term
					}
				}
				o = append(o, term)
			}
			c = append(c, o)
		}
		f = append(f, c)
	}
	return f
}

// ---- long lines: Format reads go/format's output with a 64 KiB bufio.Scanner (finding F8e)

const c14ScanLimit = 65536

// c14HeaderLen: the length of the `//go:build` line the TOOLCHAIN synthesises for
// the formula (go/build/constraint on avo's documented `// +build` form); used
// only to steer generated sizes to the boundary, never as an expectation.
func c14HeaderLen(f c14Formula) (int, bool) {
	var x constraint.Expr
	for _, c := range f {
		var opts []string
		for _, o := range c {
			opts = append(opts, strings.Join(o, ","))
		}
		e, err := constraint.Parse("// +build " + strings.Join(opts, " "))
		if err != nil {
			return 0, false
		}
		if x == nil {
			x = e
		} else {
			x = &constraint.AndExpr{X: x, Y: e}
		}
	}
	if x == nil {
		return 0, false
	}
	return len("//go:build " + x.String()), true
}

func c14Filler(r *rng, bytes int) string {
	if bytes <= 0 {
		return ""
	}
	switch r.intn(3) {
	case 0: // two-byte letters: the limit counts bytes, not characters
		s := strings.Repeat("é", bytes/2)
		if bytes%2 == 1 {
			s += "q"
		}
		return s
	case 1:
		s := strings.Repeat("日", bytes/3)
		return s + strings.Repeat("_", bytes%3)
	}
	return strings.Repeat("q", bytes)
}

// c14Lengthen grows a formula so that its header line lands at a chosen distance
// from the scanner limit: either a fresh long tag on a line of its own (exact
// target) or one existing tag name made longer wherever it occurs.
func c14Lengthen(r *rng, f c14Formula) (c14Formula, bool) {
	if len(f) == 0 {
		return f, false
	}
	var target int
	switch r.intn(8) {
	case 0:
		target = c14ScanLimit - 1
	case 1:
		target = c14ScanLimit
	case 2:
		target = c14ScanLimit - 2 + r.intn(4)
	case 3, 4:
		target = c14ScanLimit - 1 - r.intn(600)
	case 5, 6:
		target = c14ScanLimit + r.intn(600)
	default:
		target = 70000 + r.intn(3000)
	}
	g := c14Formula{}
	for _, c := range f {
		cc := [][]string{}
		for _, o := range c {
			cc = append(cc, append([]string{}, o...))
		}
		g = append(g, cc)
	}
	if r.chance(1, 2) {
		pad := "zz"
		if r.chance(1, 3) {
			pad = "!zz"
		}
		g = append(g, [][]string{{pad}})
		n, ok := c14HeaderLen(g)
		if !ok || n >= target {
			return f, false
		}
		g[len(g)-1][0][0] = pad + c14Filler(r, target-n)
		return g, true
	}
	// lengthen one existing name
	var names []string
	for _, c := range g {
		for _, o := range c {
			for _, t := range o {
				names = append(names, strings.TrimPrefix(t, "!"))
			}
		}
	}
	if len(names) == 0 {
		return f, false
	}
	name := pick(r, names)
	k := 0
	for _, n := range names {
		if n == name {
			k++
		}
	}
	n, ok := c14HeaderLen(g)
	if !ok || n >= target || k > 24 {
		return f, false
	}
	fill := c14Filler(r, (target-n+k-1)/k)
	for _, c := range g {
		for _, o := range c {
			for i, t := range o {
				if strings.TrimPrefix(t, "!") == name {
					o[i] = t + fill
				}
			}
		}
	}
	return g, true
}

// c14LongFormulas: hand-picked sizes at the scanner limit (in every tier).
func c14LongFormulas() []c14Formula {
	rep := strings.Repeat
	line := func(n int, t string) [][]string { return [][]string{c14Repeat(n, []string{t})} }
	var ten c14Formula
	for i := 0; i < 10; i++ {
		ten = append(ten, line(100, rep("b", 62)))
	}
	complexLong := c14Repeat(102, []string{"a", "!b", "c"})
	complexLong[50] = rep("a", 70000)
	return []c14Formula{
		{{{rep("a", 65524)}}},       // `//go:build ` + 65524 = 65535 bytes: the longest line Format can read
		{{{rep("a", 65525)}}},       // 65536 bytes: bufio.Scanner: token too long
		{{{rep("a", 70000)}}},       // the reviewer's witness
		{{{"!" + rep("b", 65523)}}}, // 65535
		{{{"!" + rep("b", 65524)}}}, // 65536
		{{{rep("é", 32762)}}},       // 32762 characters, 65524 bytes: fine
		{{{rep("é", 32762) + "x"}}}, // 32763 characters, 65525 bytes: too long (bytes count, not characters)
		ten,                         // no long tag at all: 1000 tags of 62 bytes, header 66 007 bytes
		{{{"a", rep("c", 40000)}, {rep("c", 40000), "!a"}}}, // the same long tag twice on one line
		{{complexLong}}, // F8c shape (no header synthesised): the `// +build` line itself is too long
	}
}

func c14Hist(m map[string]int, n int) {
	m[itoa(n)]++
}

func (r *c14Run) account(f c14Formula) {
	st := r.st
	st.Formulas++
	if len(f) == 0 {
		st.EmptySet++
	}
	c14Hist(st.Lines, len(f))
	hasE, hasN, uni, neg := false, false, false, false
	large := len(f) > 4
	for _, c := range f {
		if len(c) > 4 {
			large = true
		}
		for _, o := range c {
			if len(o) > 4 {
				large = true
			}
		}
	}
	if large {
		st.LargeShapeFormulas++
	}
	for _, c := range f {
		c14Hist(st.Options, len(c))
		if len(c) == 0 {
			hasN = true
		}
		for _, o := range c {
			c14Hist(st.Terms, len(o))
			if len(o) == 0 {
				hasE = true
			}
			for _, t := range o {
				if strings.HasPrefix(t, "!") {
					neg = true
				}
				for _, ch := range t {
					if ch > 127 {
						uni = true
					}
				}
			}
		}
	}
	if hasE {
		st.WithEmptyOption++
	}
	if hasN {
		st.WithEmptyConstraint++
	}
	if uni {
		st.WithUnicode++
	}
	if neg {
		st.WithNegation++
	}
	names, _ := c14Universe(f)
	c14Hist(st.Universe, len(names))
	if c14Guard(func() string {
		if c14ToAvo(f).Validate() == nil {
			return "1"
		}
		return "0"
	}) == "1" {
		st.Valid++
	} else {
		st.Invalid++
	}
}

func c14Repeat(n int, pool []string) []string {
	o := make([]string, n)
	for i := range o {
		o[i] = pool[i%len(pool)]
	}
	return o
}

// c14BigFormulas probes the toolchain's complexity limits (100 operators per
// `// +build` line, 1000 operands in a `//go:build` expression).
func c14BigFormulas() []c14Formula {
	pool := []string{"a", "!b", "c"}
	opts := func(n, per int) [][]string {
		c := [][]string{}
		for i := 0; i < n; i++ {
			c = append(c, c14Repeat(per, pool[i%3:]))
		}
		return c
	}
	lines := func(n int, c [][]string) c14Formula {
		f := c14Formula{}
		for i := 0; i < n; i++ {
			f = append(f, c)
		}
		return f
	}
	two := [][]string{{"a"}, {"!b"}} // prints as (a || !b): 3 parser operands
	one := [][]string{{"c"}}
	return []c14Formula{
		{{c14Repeat(100, pool)}},
		{{c14Repeat(101, pool)}},     // 100 operators: the last line go/format converts
		{{c14Repeat(102, pool)}},     // 101 operators: F8c
		{opts(101, 1)},               // 100 ORs
		{opts(102, 1)},               // F8c
		{opts(50, 2)}, {opts(34, 3)}, // 99 / 101 operators
		{opts(51, 2)}, // 101 operators: F8c
		{{c14Repeat(101, pool)}, {{"a"}}, {c14Repeat(102, pool)}}, // one bad line spoils the header
		lines(10, [][]string{c14Repeat(100, pool)}),               // 1000 operands
		lines(11, [][]string{c14Repeat(100, pool)}),               // 1100 operands: F8d
		append(lines(333, two), one),                              // 999 + 1 = 1000 operands
		append(append(lines(333, two), one), one),                 // 1001 operands: F8d
	}
}

func c14MutateText(r *rng, s string) string {
	switch r.intn(10) {
	case 0:
		return s + pick(r, []string{" ", "\t", "\n", " \n", " ", "　", ","})
	case 1:
		return pick(r, []string{" ", "\t", "  ", " ", ","}) + s
	case 2:
		return strings.Replace(s, " ", pick(r, []string{"  ", "\t", "\n", " ", " ", " , ", ","}), 1)
	case 3:
		return strings.Replace(s, ",", pick(r, []string{",,", ", ", " ,", ",!", ",!!"}), 1)
	case 4:
		return strings.Replace(s, "!", pick(r, []string{"!!", "! ", ""}), 1)
	case 5:
		if rs := []rune(s); len(rs) > 0 {
			i := r.intn(len(rs))
			return string(rs[:i]) + pick(r, []string{"-", " ", ",", "!", "é", "Ⅷ", "\x00"}) + string(rs[i:])
		}
	}
	return s
}

func init() {
	register("c14", "build constraints: avo vs go/build/constraint, go/build and go/format", func(args []string) error {
		f := newStdFlags("c14")
		if err := f.fs.Parse(args); err != nil {
			return err
		}
		o, err := openOut(f)
		if err != nil {
			return err
		}
		defer o.close()
		st := &c14Stats{Lines: map[string]int{}, Options: map[string]int{}, Terms: map[string]int{}, Universe: map[string]int{}, FileShapes: map[string]int{}}
		run := &c14Run{o: o, st: st}
		if *f.replay != "" {
			if err := run.replay(*f.replay); err != nil {
				return err
			}
			return writeJSON(*f.stats, st)
		}

		// constants of the active syntax file: recorded, not judged (their effect is judged on every
		// formula through the toolchain's reading of what Format prints)
		st.SyntaxPlus, st.SyntaxGo = buildtags.PlusBuildSyntaxSupported(), buildtags.GoBuildSyntaxSupported()

		// avo's valid one-character terms over all code points
		rs := c14RuneRanges(func(c rune) bool {
			return c14Guard(func() string {
				if buildtags.Term(string(c)).Validate() == nil {
					return "1"
				}
				return "0"
			}) == "1"
		})
		toks := []string{"accept-tagranges", itoa(len(rs))}
		for _, x := range rs {
			st.AvoValidCodepoints += x[1] - x[0] + 1
			toks = append(toks, itoa(x[0]), itoa(x[1]))
		}
		o.emit(strings.Join(toks, " "), "ok")

		r := newRng(*f.seed).fork() // fork: seeds n and n+1 of the shared splitmix state are one draw apart

		// hand-picked formulas first: the regressions of the fixed defects F8/F8b (empty option, empty line) and the limits
		fixed := []c14Formula{
			{},
			{{}},
			{{{}}},
			{{{"a"}, {}}},
			{{{"a"}}, {}},
			{{{"ignore"}}},
			{{{"!ignore"}}, {}},
			{{{"linux", "386"}, {"darwin", "!cgo"}}, {{"!purego"}}},
			{{{"a", "!a"}}},
			{{{"é٣_.x", "!日本"}}},
			{{{"!!x"}}},
			{{{"a-b"}}, {{"c"}}},
		}
		for _, fm := range fixed {
			run.account(fm)
			run.formula(fm)
		}
		for _, fm := range c14BigFormulas() {
			st.BigFormulas++
			run.formula(fm)
		}
		long := func(fm c14Formula) {
			st.LongFormulas++
			if n, ok := c14HeaderLen(fm); ok && n >= c14ScanLimit {
				st.LongOverLimit++
			} else if ok {
				st.LongUnderLimit++
			}
		}
		for _, fm := range c14LongFormulas() {
			long(fm)
			run.account(fm)
			run.formula(fm)
		}

		// term stream: every fixed/invalid term, boundary characters, random names
		seenTerm := map[string]bool{}
		addTerm := func(t string) {
			if !seenTerm[t] {
				seenTerm[t] = true
				run.term(t)
			}
		}
		for _, t := range c14InvalidTerms {
			addTerm(t)
			addTerm("!" + t)
		}
		for _, t := range c14FixedNames {
			addTerm(t)
			addTerm("!" + t)
			addTerm("!!" + t)
		}
		for _, t := range []string{"a\xffb", "\xc3", "a\xed\xa0\x80", "!\xfe", "\xf8\x88\x80\x80\x80"} {
			run.term(t) // not UTF-8
		}
		addTerm(strings.Repeat("a", 70000))
		addTerm("!" + strings.Repeat("é", 40000))
		addTerm(strings.Repeat("a", 66000) + "-")
		for i, x := range rs { // both sides of range boundaries of the character table
			if i%7 != int(*f.seed%7) && *f.tier == "quick" {
				continue
			}
			for _, c := range []int{x[0] - 1, x[0], x[1], x[1] + 1} {
				if c >= 0 && c <= unicode.MaxRune && !(c >= 0xD800 && c <= 0xDFFF) {
					addTerm("a" + string(rune(c)))
				}
			}
		}

		// generated formulas
		var bodies []string
		var lines []string
		randomLong, longBodies := 0, 0
		for k := 0; k < *f.n; k++ {
			fm := c14GenFormula(r)
			// about one formula in 300 (at most 40 per run, the lines are large) is grown to the scanner limit
			if randomLong < 40 && r.chance(1, 300) {
				if g, ok := c14Lengthen(r, fm); ok {
					fm = g
					randomLong++
					long(fm)
				}
			}
			run.account(fm)
			run.formula(fm)
			for _, c := range fm {
				for _, o := range c {
					for _, t := range o {
						if len(seenTerm) < 4000 && len(t) < 1000 {
							addTerm(t)
						}
					}
				}
			}
			if k%4 == 0 {
				for _, c := range c14ToAvo(fm) {
					line := strings.TrimSuffix(c.GoString(), "\n")
					if len(line) > 4096 {
						if longBodies >= 3 {
							continue
						}
						longBodies++
					}
					lines = append(lines, line)
					bodies = append(bodies, strings.TrimPrefix(line, "// +build"))
				}
			}
		}

		// parse stream
		for _, b := range bodies {
			run.parse(b)
			run.parse(c14MutateText(r, b))
			for _, fld := range strings.Fields(b) {
				if r.chance(1, 3) {
					run.parseopt(fld)
					run.parseopt(c14MutateText(r, fld))
				}
			}
		}
		for _, s := range []string{"", " ", ",", "a,", ",a", "a,,b", "a b", "a b", "a　b", "a​b", "!!a", "!", "a !", "a\nb", "\ta\t"} {
			run.parse(s)
			run.parseopt(s)
		}

		// toolchain model measurement
		for _, l := range lines {
			run.tcline(l)
			run.tcline(l + "\n")
			m := c14MutateText(r, l)
			run.tcline(m)
			if r.chance(1, 4) {
				run.tcline(strings.Replace(l, "// +build", pick(r, []string{"//+build", "//  +build", "//\t+build", "// +buildx", "// +build\t", "/ +build", "//+ build", "// build", "  // +build", "// +build", "// +build ", "// +build,"}), 1))
			}
		}
		for _, l := range []string{"// +build", "//+build", "// +build ", "// +build\n", "// +build a\n\n", "// +build a\nb", "//", "", "// +builda", "// +build !", "// +build !!a", "// +build a,!", "// +build ,", "// +build a, b", "// +build ignore", "// +build !ignore a-b"} {
			run.tcline(l)
		}

		// Context.ConstraintExpr sequences
		for k := 0; k < *f.n/8+4; k++ {
			var es []string
			for j := r.intn(5); j > 0; j-- {
				if len(bodies) > 0 && r.chance(4, 5) {
					b := pick(r, bodies)
					if r.chance(1, 5) {
						b = c14MutateText(r, b)
					}
					es = append(es, b)
				} else {
					es = append(es, pick(r, []string{"", "a", "a,b c", "!!a", "a-b", "a b,!c", " x "}))
				}
			}
			run.ctx(es)
		}

		// call histories in one process: files printed repeatedly with their constraints changed in between (c14hist.go)
		for _, fh := range c14FixedHistories() {
			run.runHist(fh[0], fh[1], nil)
		}
		for k := 0; k < *f.n/16+8; k++ {
			names, gen := c14GenHistory(r)
			run.runHist(names, nil, gen)
		}
		return writeJSON(*f.stats, st)
	})
}

// replay re-runs the request lines of a replay file (plain lines, or the JSON
// written by the check with "request" fields) against the current tree.
func (r *c14Run) replay(path string) error {
	data, err := os.ReadFile(path)
	if err != nil {
		return err
	}
	var reqs []string
	var js struct {
		Violations []struct{ Request string } `json:"violations"`
		Corr       []struct{ Request string } `json:"correspondence_mismatches"`
	}
	if json.Unmarshal(data, &js) == nil && (len(js.Violations) > 0 || len(js.Corr) > 0) {
		for _, v := range js.Violations {
			reqs = append(reqs, v.Request)
		}
		for _, v := range js.Corr {
			reqs = append(reqs, v.Request)
		}
	} else {
		sc := bufio.NewScanner(strings.NewReader(string(data)))
		sc.Buffer(make([]byte, 1<<20), 1<<26)
		for sc.Scan() {
			if strings.TrimSpace(sc.Text()) != "" {
				reqs = append(reqs, sc.Text())
			}
		}
	}
	for _, req := range reqs {
		ts := strings.Fields(req)
		if len(ts) == 0 {
			continue
		}
		arg := func(i int) string {
			if i < len(ts) {
				s, _ := unhexs(ts[i])
				return s
			}
			return ""
		}
		switch ts[0] {
		case "tags", "tags-ignore":
			if len(ts) > 1 {
				if f, err := c14DecFormula(ts[1]); err == nil {
					r.formula(f)
				}
			}
		case "accept-tags", "accept-tags-ignore":
			if len(ts) > 2 {
				if f, err := c14DecFormula(ts[2]); err == nil {
					r.formula(f)
				}
			}
		case "term", "accept-term", "accept-badutf8":
			r.term(arg(1))
		case "accept-parse":
			if len(ts) > 2 && ts[1] == "o" {
				r.parseopt(arg(2))
			} else {
				r.parse(arg(2))
			}
		case "accept-ctx":
			// the sequence is not part of this line (the `ctx` line before it is): re-enter the resulting lines as text
			if len(ts) > 1 {
				if f, err := c14DecFormula(ts[1]); err == nil {
					var es []string
					for _, c := range c14ToAvo(f) {
						es = append(es, strings.TrimPrefix(strings.TrimSuffix(c.GoString(), "\n"), "// +build"))
					}
					r.ctx(es)
				}
			}
		case "hist", "accept-hist":
			r.c14ReplayHist(ts)
		case "parse":
			r.parse(arg(1))
		case "parseopt":
			r.parseopt(arg(1))
		case "tcline":
			r.tcline(arg(1))
		case "ctx":
			var es []string
			for i := 2; i < len(ts); i++ {
				es = append(es, arg(i))
			}
			r.ctx(es)
		}
	}
	return nil
}
