package main

// C07: argument/result addresses vs the Go toolchain's stack layout.
//
// The generator builds Go types in its own small representation (c07ty), turns
// them into go/types objects (directly, by printing a `func(...)` expression
// and handing it to gotypes.ParseSignature[InPackage], or by declaring the
// function in a type-checked package and calling gotypes.LookupSignature),
// drives the REAL gotypes.Signature / Tuple / Component API — for a quarter of
// the signatures through the package-level build.Param/ParamIndex/Return/
// ReturnIndex — along generated component paths (valid and invalid), and writes
// request lines for the Lean driver drv_c07.  `-replay file` decodes request
// lines (corpus, replay files) and runs the real code on the decoded inputs.

import (
	"fmt"
	"go/ast"
	"go/importer"
	"go/parser"
	"go/token"
	"go/types"
	"sort"
	"strconv"
	"strings"

	"github.com/mmcloughlin/avo/build"
	"github.com/mmcloughlin/avo/gotypes"
	"github.com/mmcloughlin/avo/ir"
	"github.com/mmcloughlin/avo/printer"
	"github.com/mmcloughlin/avo/reg"
)

// ---------------------------------------------------------------- types

const (
	c07Basic = iota
	c07Ptr
	c07Slice
	c07Array
	c07Struct
	c07Named
	c07Alias // type name = elem (transparent like a defined type; a *types.Alias for go/types)
	c07Other // interface / map / chan / func: no components, but part of the layout
)

type c07field struct {
	name     string
	t        *c07ty
	embedded bool // embedded field: name is the type's name
}

type c07ty struct {
	kind   int
	basic  string // protocol token of the basic kind
	elem   *c07ty // ptr, slice, array, named(underlying)
	n      int    // array length
	fields []c07field
	name   string // named, alias
	other  string // eface iface map chan func
	tt     types.Type
}

// protocol token → go/types basic kind and Go source spelling
var c07basics = []struct {
	tok  string
	kind types.BasicKind
	src  string
}{
	{"bool", types.Bool, "bool"}, {"int8", types.Int8, "int8"}, {"int16", types.Int16, "int16"},
	{"int32", types.Int32, "int32"}, {"int64", types.Int64, "int64"}, {"uint8", types.Uint8, "uint8"},
	{"uint16", types.Uint16, "uint16"}, {"uint32", types.Uint32, "uint32"}, {"uint64", types.Uint64, "uint64"},
	{"int", types.Int, "int"}, {"uint", types.Uint, "uint"}, {"uintptr", types.Uintptr, "uintptr"},
	{"float32", types.Float32, "float32"}, {"float64", types.Float64, "float64"},
	{"complex64", types.Complex64, "complex64"}, {"complex128", types.Complex128, "complex128"},
	{"string", types.String, "string"}, {"uptr", types.UnsafePointer, "unsafe.Pointer"},
}

func c07basicTok(k types.BasicKind) string {
	for _, b := range c07basics {
		if b.kind == k {
			return b.tok
		}
	}
	return "basic?" + strconv.Itoa(int(k))
}

func c07basicSrc(tok string) string {
	for _, b := range c07basics {
		if b.tok == tok {
			return b.src
		}
	}
	return "?"
}

var c07pkg = types.NewPackage("example.com/c07gen", "c07gen")

// goType builds the go/types object (cached: identical *c07ty ⇒ identical types.Type).
func (t *c07ty) goType() types.Type {
	if t.tt != nil {
		return t.tt
	}
	switch t.kind {
	case c07Basic:
		for _, b := range c07basics {
			if b.tok == t.basic {
				t.tt = types.Typ[b.kind]
			}
		}
	case c07Ptr:
		t.tt = types.NewPointer(t.elem.goType())
	case c07Slice:
		t.tt = types.NewSlice(t.elem.goType())
	case c07Array:
		t.tt = types.NewArray(t.elem.goType(), int64(t.n))
	case c07Struct:
		var fs []*types.Var
		for _, f := range t.fields {
			fs = append(fs, types.NewField(token.NoPos, c07pkg, f.name, f.t.goType(), f.embedded))
		}
		t.tt = types.NewStruct(fs, nil)
	case c07Named:
		t.tt = types.NewNamed(types.NewTypeName(token.NoPos, c07pkg, t.name, nil), t.elem.goType(), nil)
	case c07Alias:
		t.tt = types.NewAlias(types.NewTypeName(token.NoPos, c07pkg, t.name, nil), t.elem.goType())
	case c07Other:
		switch t.other {
		case "eface":
			t.tt = types.NewInterfaceType(nil, nil).Complete()
		case "iface":
			m := types.NewFunc(token.NoPos, c07pkg, "M", types.NewSignatureType(nil, nil, nil, nil, nil, false))
			t.tt = types.NewInterfaceType([]*types.Func{m}, nil).Complete()
		case "map":
			t.tt = types.NewMap(types.Typ[types.Int], types.Typ[types.String])
		case "chan":
			t.tt = types.NewChan(types.SendRecv, types.Typ[types.Int8])
		case "func":
			t.tt = types.NewSignatureType(nil, nil, nil, nil, nil, false)
		}
	}
	return t.tt
}

var c07otherSrc = map[string]string{"eface": "interface{}", "iface": "interface{ M() }", "map": "map[int]string",
	"chan": "chan int8", "func": "func()"}

// toks renders the protocol encoding.
func (t *c07ty) toks(out []string) []string {
	switch t.kind {
	case c07Basic:
		return append(out, "b", t.basic)
	case c07Ptr:
		return t.elem.toks(append(out, "p"))
	case c07Slice:
		return t.elem.toks(append(out, "s"))
	case c07Array:
		return t.elem.toks(append(out, "a", itoa(t.n)))
	case c07Struct:
		out = append(out, "t", itoa(len(t.fields)))
		for _, f := range t.fields {
			out = f.t.toks(append(out, f.name))
		}
		return out
	case c07Named:
		return t.elem.toks(append(out, "n", t.name))
	case c07Alias:
		return t.elem.toks(append(out, "l", t.name))
	case c07Other:
		return append(out, "o", t.other)
	}
	return append(out, "?")
}

// src renders Go source for the type (named types by their name).
func (t *c07ty) src() string {
	switch t.kind {
	case c07Basic:
		return c07basicSrc(t.basic)
	case c07Ptr:
		return "*" + t.elem.src()
	case c07Slice:
		return "[]" + t.elem.src()
	case c07Array:
		return "[" + itoa(t.n) + "]" + t.elem.src()
	case c07Struct:
		var fs []string
		for _, f := range t.fields {
			if f.embedded {
				fs = append(fs, f.t.src())
			} else {
				fs = append(fs, f.name+" "+f.t.src())
			}
		}
		return "struct{" + strings.Join(fs, "; ") + "}"
	case c07Named, c07Alias:
		return t.name
	case c07Other:
		return c07otherSrc[t.other]
	}
	return "?"
}

func (t *c07ty) under() *c07ty {
	for t.kind == c07Named || t.kind == c07Alias {
		t = t.elem
	}
	return t
}

// namedDecls collects the named types used (in dependency order, each once).
func (t *c07ty) namedDecls(seen map[string]bool, out *[]*c07ty) {
	switch t.kind {
	case c07Ptr, c07Slice, c07Array:
		t.elem.namedDecls(seen, out)
	case c07Struct:
		for _, f := range t.fields {
			f.t.namedDecls(seen, out)
		}
	case c07Named, c07Alias:
		if !seen[t.name] {
			seen[t.name] = true
			t.elem.namedDecls(seen, out)
			*out = append(*out, t)
		}
	}
}

func (t *c07ty) usesUnsafe() bool {
	switch t.kind {
	case c07Basic:
		return t.basic == "uptr"
	case c07Ptr, c07Slice, c07Array, c07Named, c07Alias:
		return t.elem.usesUnsafe()
	case c07Struct:
		for _, f := range t.fields {
			if f.t.usesUnsafe() {
				return true
			}
		}
	}
	return false
}

// size is a rough upper bound on the number of asmdecl components (to keep
// requests small); it has no role in any comparison.
func (t *c07ty) weight() int {
	switch t.kind {
	case c07Basic:
		return 3
	case c07Ptr:
		return 1
	case c07Slice:
		return 4
	case c07Array:
		return 1 + t.n*t.elem.weight()
	case c07Struct:
		w := 1
		for _, f := range t.fields {
			w += f.t.weight()
		}
		return w
	case c07Named, c07Alias:
		return t.elem.weight()
	case c07Other:
		return 3
	}
	return 1
}

// fromTypes converts a go/types type (restricted to the kinds of the property).
func c07fromTypes(tt types.Type) (*c07ty, error) {
	switch u := tt.(type) {
	case *types.Basic:
		tok := c07basicTok(u.Kind())
		if strings.HasPrefix(tok, "basic?") {
			return nil, fmt.Errorf("unsupported basic %s", u)
		}
		return &c07ty{kind: c07Basic, basic: tok, tt: tt}, nil
	case *types.Pointer:
		e, err := c07fromTypes(u.Elem())
		if err != nil {
			return nil, err
		}
		return &c07ty{kind: c07Ptr, elem: e, tt: tt}, nil
	case *types.Slice:
		e, err := c07fromTypes(u.Elem())
		if err != nil {
			return nil, err
		}
		return &c07ty{kind: c07Slice, elem: e, tt: tt}, nil
	case *types.Array:
		e, err := c07fromTypes(u.Elem())
		if err != nil {
			return nil, err
		}
		return &c07ty{kind: c07Array, elem: e, n: int(u.Len()), tt: tt}, nil
	case *types.Struct:
		t := &c07ty{kind: c07Struct, tt: tt}
		for i := 0; i < u.NumFields(); i++ {
			e, err := c07fromTypes(u.Field(i).Type())
			if err != nil {
				return nil, err
			}
			t.fields = append(t.fields, c07field{u.Field(i).Name(), e, u.Field(i).Embedded()})
		}
		return t, nil
	case *types.Named:
		e, err := c07fromTypes(u.Underlying())
		if err != nil {
			return nil, err
		}
		return &c07ty{kind: c07Named, name: u.Obj().Name(), elem: e, tt: tt}, nil
	case *types.Alias:
		e, err := c07fromTypes(types.Unalias(tt))
		if err != nil {
			return nil, err
		}
		return &c07ty{kind: c07Alias, name: u.Obj().Name(), elem: e, tt: tt}, nil
	case *types.Interface:
		if u.NumMethods() == 0 {
			return &c07ty{kind: c07Other, other: "eface", tt: tt}, nil
		}
		return &c07ty{kind: c07Other, other: "iface", tt: tt}, nil
	case *types.Map:
		return &c07ty{kind: c07Other, other: "map", tt: tt}, nil
	case *types.Chan:
		return &c07ty{kind: c07Other, other: "chan", tt: tt}, nil
	case *types.Signature:
		return &c07ty{kind: c07Other, other: "func", tt: tt}, nil
	}
	return nil, fmt.Errorf("unsupported type %s", tt)
}

// ---------------------------------------------------------------- signatures

type c07var struct {
	name string // "" = unnamed
	t    *c07ty
}

type c07group struct {
	names []string
	t     *c07ty
}

type c07sig struct {
	params, results  []c07var
	pgroups, rgroups []c07group
	route            string // how the gotypes.Signature was built
	real             *gotypes.Signature
	variadic         bool           // the last parameter is `...T` (its type here is the slice []T)
	bctx             *build.Context // route "build": selection through build.Param/ParamIndex/Return/ReturnIndex
}

func c07grouping(r *rng, vs []c07var) []c07group {
	var gs []c07group
	for i := 0; i < len(vs); i++ {
		v := vs[i]
		if v.name == "" {
			gs = append(gs, c07group{nil, v.t})
			continue
		}
		g := c07group{[]string{v.name}, v.t}
		for i+1 < len(vs) && vs[i+1].name != "" && vs[i+1].t == v.t && (r == nil || r.chance(2, 3)) {
			i++
			g.names = append(g.names, vs[i].name)
		}
		gs = append(gs, g)
	}
	return gs
}

func c07groupToks(gs []c07group, out []string) []string {
	out = append(out, itoa(len(gs)))
	for _, g := range gs {
		out = append(out, itoa(len(g.names)))
		out = append(out, g.names...)
		out = g.t.toks(out)
	}
	return out
}

func (s *c07sig) toks() string {
	return strings.Join(c07groupToks(s.rgroups, c07groupToks(s.pgroups, nil)), " ")
}

func c07groupSrc(gs []c07group, variadic bool) string {
	var parts []string
	for i, g := range gs {
		ts := g.t.src()
		if variadic && i == len(gs)-1 {
			ts = "..." + g.t.elem.src()
		}
		if len(g.names) == 0 {
			parts = append(parts, ts)
		} else {
			parts = append(parts, strings.Join(g.names, ", ")+" "+ts)
		}
	}
	return strings.Join(parts, ", ")
}

// src renders `(params) (results)` as Go source.
func (s *c07sig) src() string {
	out := "(" + c07groupSrc(s.pgroups, s.variadic) + ")"
	if len(s.rgroups) > 0 {
		out += " (" + c07groupSrc(s.rgroups, false) + ")"
	}
	return out
}

func (s *c07sig) allTypes() []*c07ty {
	var ts []*c07ty
	for _, v := range s.params {
		ts = append(ts, v.t)
	}
	for _, v := range s.results {
		ts = append(ts, v.t)
	}
	return ts
}

func (s *c07sig) decls() []*c07ty {
	seen := map[string]bool{}
	var out []*c07ty
	for _, t := range s.allTypes() {
		t.namedDecls(seen, &out)
	}
	return out
}

func (s *c07sig) usesUnsafe() bool {
	for _, t := range s.allTypes() {
		if t.usesUnsafe() {
			return true
		}
	}
	return false
}

// declSrc renders a package clause with the named types the signature uses.
func c07declSrc(pkgname string, decls []*c07ty, unsafe bool) string {
	var b strings.Builder
	b.WriteString("package " + pkgname + "\n\n")
	if unsafe {
		b.WriteString("import \"unsafe\"\n\nvar _ unsafe.Pointer\n\n")
	}
	for _, d := range decls {
		if d.kind == c07Alias {
			b.WriteString("type " + d.name + " = " + d.elem.src() + "\n")
		} else {
			b.WriteString("type " + d.name + " " + d.elem.src() + "\n")
		}
	}
	return b.String()
}

// buildDirect constructs the signature from go/types objects built here.
func (s *c07sig) buildDirect() *gotypes.Signature {
	mk := func(vs []c07var) *types.Tuple {
		var xs []*types.Var
		for _, v := range vs {
			xs = append(xs, types.NewParam(token.NoPos, c07pkg, v.name, v.t.goType()))
		}
		return types.NewTuple(xs...)
	}
	return gotypes.NewSignature(c07pkg, types.NewSignatureType(nil, nil, nil, mk(s.params), mk(s.results), s.variadic))
}

// checkDecls type-checks a package declaring the named types (and, with fn, a
// body-less function of the signature).
func (s *c07sig) checkDecls(fn string) (*types.Package, error) {
	src := c07declSrc("c07gen", s.decls(), s.usesUnsafe())
	if fn != "" {
		src += "\nfunc " + fn + s.src() + "\n"
	}
	fset := token.NewFileSet()
	f, err := parser.ParseFile(fset, "decl.go", src, 0)
	if err != nil {
		return nil, fmt.Errorf("%v in\n%s", err, src)
	}
	conf := types.Config{Importer: importer.Default()}
	pkg, err := conf.Check("example.com/c07gen", fset, []*ast.File{f}, nil)
	if err != nil {
		return nil, fmt.Errorf("typecheck decls: %v in\n%s", err, src)
	}
	return pkg, nil
}

// build constructs the real gotypes.Signature by one of several routes:
// go/types objects built here, ParseSignature, ParseSignatureInPackage,
// LookupSignature (what build.Implement calls) on a type-checked package
// declaring the function, NewSignatureVoid; and optionally installs it in a
// build.Context so that components are selected through build.Param etc.
func (s *c07sig) build(r *rng) error {
	route := r.intn(4)
	decls := s.decls()
	if s.usesUnsafe() && (route == 1 || route == 2) {
		route = pick(r, []int{0, 3}) // `unsafe` is not visible to types.Eval at package scope
	}
	if route == 1 && len(decls) > 0 {
		route = 2
	}
	if len(s.params) == 0 && len(s.results) == 0 && r.chance(1, 2) {
		route = 4
	}
	if err := s.buildRoute(route, nil); err != nil {
		return err
	}
	if r.chance(1, 4) {
		c := build.NewContext()
		c.Function("Fn")
		c.Signature(s.real)
		s.bctx = c
		s.route += "+build"
	}
	return nil
}

// buildRoute constructs the real signature by the given route.  With pkg (route 2) the expression is evaluated in
// that already type-checked package instead of a fresh one.
func (s *c07sig) buildRoute(route int, pkg *types.Package) error {
	switch route {
	case 0: // go/types objects built directly
		s.real = s.buildDirect()
		s.route = "direct"
	case 1: // expression over builtin types
		sig, err := gotypes.ParseSignature("func" + s.src())
		if err != nil {
			return fmt.Errorf("ParseSignature(%q): %v", "func"+s.src(), err)
		}
		s.real, s.route = sig, "parse"
	case 2: // expression in a type-checked package declaring the named types
		if pkg == nil {
			var err error
			if pkg, err = s.checkDecls(""); err != nil {
				return err
			}
		}
		sig, err := gotypes.ParseSignatureInPackage(pkg, "func"+s.src())
		if err != nil {
			return fmt.Errorf("ParseSignatureInPackage(%q): %v", "func"+s.src(), err)
		}
		s.real, s.route = sig, "parse-in-package"
	case 3: // a function declared in a type-checked package, found by name (build.Implement's route)
		pkg, err := s.checkDecls("Fn")
		if err != nil {
			return err
		}
		sig, err := gotypes.LookupSignature(pkg, "Fn")
		if err != nil {
			return fmt.Errorf("LookupSignature: %v", err)
		}
		s.real, s.route = sig, "lookup"
	case 4:
		s.real, s.route = gotypes.NewSignatureVoid(), "void"
	}
	return nil
}

// ---------------------------------------------------------------- families: one process, one package path, the same
// expression text, different definitions of the type names it mentions

func c07clone(t *c07ty, memo map[*c07ty]*c07ty) *c07ty {
	if c, ok := memo[t]; ok {
		return c
	}
	c := &c07ty{kind: t.kind, basic: t.basic, n: t.n, name: t.name, other: t.other}
	memo[t] = c
	if t.elem != nil {
		c.elem = c07clone(t.elem, memo)
	}
	for _, f := range t.fields {
		c.fields = append(c.fields, c07field{f.name, c07clone(f.t, memo), f.embedded})
	}
	return c
}

// cloneSig copies a signature with fresh type objects (same names, same sharing, same parameter list entries).
func (s *c07sig) cloneSig() (*c07sig, map[*c07ty]*c07ty) {
	memo := map[*c07ty]*c07ty{}
	c := &c07sig{variadic: s.variadic}
	for _, v := range s.params {
		c.params = append(c.params, c07var{v.name, c07clone(v.t, memo)})
	}
	for _, v := range s.results {
		c.results = append(c.results, c07var{v.name, c07clone(v.t, memo)})
	}
	for _, g := range s.pgroups {
		c.pgroups = append(c.pgroups, c07group{g.names, memo[g.t]})
	}
	for _, g := range s.rgroups {
		c.rgroups = append(c.rgroups, c07group{g.names, memo[g.t]})
	}
	return c, memo
}

// redefine changes the definition of a defined / alias type (the copy c) so that its layout differs; the name stays.
func (g *c07gen) redefine(c *c07ty) bool {
	u := c.elem
	small := []string{"int8", "uint16", "int32", "int64", "float32", "complex128", "string", "bool"}
	switch u.kind {
	case c07Named, c07Alias:
		return false // its own definition is redefined, or not
	case c07Struct:
		c.elem = &c07ty{kind: c07Struct, fields: append([]c07field{}, u.fields...)}
		u = c.elem
		switch k := g.r.intn(3); {
		case k == 0 && len(u.fields) >= 2:
			// the same fields in another order (offsets by field name change, often the size)
			for i, j := 0, len(u.fields)-1; i < j; i, j = i+1, j-1 {
				u.fields[i], u.fields[j] = u.fields[j], u.fields[i]
			}
			if g.r.chance(1, 2) {
				u.fields = append([]c07field{{"Pad", &c07ty{kind: c07Basic, basic: "int8"}, false}}, u.fields...)
			}
		case k == 1 && len(u.fields) >= 1:
			// one field of another type
			i := g.r.intn(len(u.fields))
			if !u.fields[i].embedded {
				old := u.fields[i].t
				nt := &c07ty{kind: c07Basic, basic: pick(g.r, small)}
				if old.kind == c07Basic && old.basic == nt.basic {
					nt = &c07ty{kind: c07Array, n: 3, elem: nt}
				}
				u.fields[i].t = nt
				break
			}
			fallthrough
		default:
			pad := pick(g.r, []*c07ty{{kind: c07Basic, basic: "int8"}, {kind: c07Basic, basic: "int64"},
				{kind: c07Array, n: 3, elem: &c07ty{kind: c07Basic, basic: "uint64"}}, {kind: c07Basic, basic: "string"}})
			u.fields = append([]c07field{{"Pad", pad, false}}, u.fields...)
		}
	case c07Basic:
		nb := pick(g.r, small)
		for nb == u.basic {
			nb = pick(g.r, small)
		}
		c.elem = &c07ty{kind: c07Basic, basic: nb}
	case c07Array:
		c.elem = &c07ty{kind: c07Array, n: u.n + 1 + g.r.intn(2), elem: u.elem}
	default:
		c.elem = &c07ty{kind: c07Struct, fields: []c07field{{"Pad", &c07ty{kind: c07Basic, basic: "int8"}, false}, {"v", u, false}}}
	}
	return true
}

// family runs, in this one process, signatures that share the package path and the expression text with s but not
// the definitions (and s's package again, and another expression in s's package), each built by a route and judged
// like every other signature: against the model on ITS OWN definitions.
func (g *c07gen) family(e *c07emitter, s *c07sig) error {
	st := e.stats
	if len(s.params)+len(s.results) == 0 {
		return nil
	}
	a, _ := s.cloneSig()
	if len(a.decls()) == 0 {
		// no type name in the expression: give the first variable's type one
		g.nnamed++
		vs := a.params
		if len(vs) == 0 {
			vs = a.results
		}
		old := vs[0].t
		nt := &c07ty{kind: c07Named, name: "Rec" + itoa(g.nnamed), elem: old}
		for i := range a.params {
			if a.params[i].t == old {
				a.params[i].t = nt
			}
		}
		for i := range a.results {
			if a.results[i].t == old {
				a.results[i].t = nt
			}
		}
		for i := range a.pgroups {
			if a.pgroups[i].t == old {
				a.pgroups[i].t = nt
			}
		}
		for i := range a.rgroups {
			if a.rgroups[i].t == old {
				a.rgroups[i].t = nt
			}
		}
		if a.variadic && len(a.params) > 0 && a.params[len(a.params)-1].t == nt {
			return nil // the variadic parameter must stay a slice in the text
		}
	}
	b, memo := a.cloneSig()
	changed := 0
	var named []*c07ty
	for _, d := range a.decls() {
		named = append(named, memo[d])
	}
	for tries := 0; changed == 0 && tries < 4; tries++ {
		for _, c := range named {
			if g.r.chance(1, 2) && g.redefine(c) {
				changed++
			}
		}
	}
	expr := "func" + a.src()
	if changed == 0 || "func"+b.src() != expr {
		st["family_skipped"]++
		return nil
	}
	exprUnsafe := strings.Contains(expr, "unsafe.")
	a2, _ := a.cloneSig()
	// another expression for a's package: a's variables without the last one
	sub := &c07sig{}
	if len(a.params) > 1 && !a.variadic {
		sub.params, sub.results = a.params[:len(a.params)-1], a.results
	} else {
		sub.params = a.params
	}
	sub.pgroups, sub.rgroups = c07grouping(nil, sub.params), c07grouping(nil, sub.results)
	mode := "mixed"
	if !exprUnsafe && g.r.chance(3, 5) {
		mode = "pip" // every member through ParseSignatureInPackage
	}
	route := func() int {
		if mode == "pip" {
			return 2
		}
		if exprUnsafe {
			return pick(g.r, []int{0, 3})
		}
		return pick(g.r, []int{0, 2, 3, 3})
	}
	var pkgA *types.Package
	if !exprUnsafe {
		var err error
		if pkgA, err = a.checkDecls(""); err != nil {
			return err
		}
	}
	ra, rb := route(), route()
	if err := a.buildRoute(ra, pkgA); err != nil {
		return err
	}
	// the same text without a package: the names are not declared there
	nilBad := 0
	if sig, err := gotypes.ParseSignature(expr); err == nil && sig != nil {
		nilBad = 1
	}
	e.o.emit("accept-count "+itoa(nilBad)+" parse-without-package-of-a-text-naming-package-types "+hexs(expr), "ok")
	cbad := 0
	func() {
		defer func() {
			if recover() != nil {
				cbad = 1
			}
		}()
		c := build.NewContext()
		c.Function("Fn")
		if g.r.chance(1, 2) {
			c.SignatureExpr(expr)
		} else {
			old := build.VerifSwapContext(c)
			build.SignatureExpr(expr)
			build.VerifSwapContext(old)
		}
		f, _ := c.Result()
		if c.VerifErrCount() == 0 || len(f.Functions()) != 1 || f.Functions()[0].Signature.Bytes() != 0 {
			cbad = 1
		}
	}()
	e.o.emit("accept-count "+itoa(cbad)+" SignatureExpr-without-package-of-a-text-naming-package-types "+hexs(expr), "ok")
	st["family_nil_package_checks"] += 2
	if err := b.buildRoute(rb, nil); err != nil {
		return err
	}
	// a's package again (the same object when it was parsed in one), and another expression in it
	ra2 := route()
	if err := a2.buildRoute(ra2, pkgA); err != nil {
		return err
	}
	rs := 2
	if exprUnsafe {
		rs = 0
	}
	if err := sub.buildRoute(rs, pkgA); err != nil {
		return err
	}
	st["families"]++
	st["family_mode_"+mode]++
	if a.toks() != b.toks() {
		st["family_same_text_different_definition"]++
		if ra == 2 && rb == 2 {
			st["family_same_text_different_definition_both_parsed_in_package"]++
		}
		if a.real.Bytes() != b.real.Bytes() {
			st["family_same_text_different_argsize"]++
		}
	}
	if ra == 2 && ra2 == 2 {
		st["family_same_package_object_same_text_again"]++
	}
	if rs == 2 {
		st["family_same_package_object_other_expression"]++
	}
	for _, m := range []*c07sig{a, b, a2, sub} {
		m.route = "family-" + m.route
		if g.r.chance(1, 4) {
			// installed in a Context, components selected through the package-level build.Param…
			c := build.NewContext()
			c.Function("Fn")
			c.Signature(m.real)
			m.bctx = c
			m.route += "+build"
		}
		e.emitSig(g, m, false)
	}
	return nil
}

// ---------------------------------------------------------------- generator

type c07gen struct {
	r      *rng
	nnamed int
	stats  map[string]int
}

var c07fieldNames = []string{"a", "b", "c", "x", "y", "z", "lo", "hi", "F", "Len", "_", "base", "n0", "é", "v_1"}

func (g *c07gen) basic() *c07ty {
	// bias towards small and mixed sizes so that padding occurs
	toks := []string{"bool", "int8", "uint8", "int16", "uint16", "int32", "uint32", "int64", "uint64", "int", "uint",
		"uintptr", "float32", "float64", "complex64", "complex128", "string", "uptr", "uint8", "int16", "int64"}
	return &c07ty{kind: c07Basic, basic: pick(g.r, toks)}
}

func (g *c07gen) ty(depth int, budget int) *c07ty {
	var t *c07ty
	c := g.r.intn(100)
	switch {
	case c < 3:
		t = &c07ty{kind: c07Other, other: pick(g.r, []string{"eface", "iface", "map", "chan", "func"})}
	case depth <= 0 || budget < 8 || c < 38:
		t = g.basic()
	case c < 46:
		t = &c07ty{kind: c07Ptr, elem: g.ty(depth-1, budget)}
	case c < 54:
		t = &c07ty{kind: c07Slice, elem: g.ty(depth-1, 16)}
	case c < 70:
		n := pick(g.r, []int{0, 0, 1, 2, 2, 3, 4, 5, 7})
		if g.r.chance(1, 12) {
			n = g.r.rangeIn(8, 40)
		}
		per := budget
		if n > 0 {
			per = budget / n
		}
		if budget >= 100 && g.r.chance(1, 6) {
			// more than 255 / 999 elements (three- and four-digit name suffixes, offsets beyond 16 bits with 8-byte
			// elements); small elements keep the component table small
			n = pick(g.r, []int{256, 257, 300, 1000, 1001, 1100, g.r.rangeIn(258, 1200)})
			per = 0
			g.stats["gen_big_arrays"]++
		}
		t = &c07ty{kind: c07Array, n: n, elem: g.ty(depth-1, per)}
	default:
		nf := pick(g.r, []int{0, 1, 1, 2, 2, 3, 3, 4, 5, 6})
		t = &c07ty{kind: c07Struct}
		used := map[string]bool{}
		for i := 0; i < nf; i++ {
			name := pick(g.r, c07fieldNames)
			if used[name] && name != "_" {
				name = name + itoa(i)
			}
			used[name] = true
			var ft *c07ty
			embedded := false
			switch {
			case g.r.chance(1, 7): // zero-size field (trailing or not)
				ft = pick(g.r, []*c07ty{
					{kind: c07Struct},
					{kind: c07Array, n: 0, elem: g.basic()},
					{kind: c07Array, n: g.r.intn(3), elem: &c07ty{kind: c07Struct}},
					{kind: c07Struct, fields: []c07field{{"e", &c07ty{kind: c07Struct}, false}}},
				})
			case g.r.chance(1, 8): // embedded field: a defined or alias type (or a pointer to a defined struct type)
				g.nnamed++
				tn := "E" + itoa(g.nnamed)
				inner := g.ty(depth-1, budget/(nf+1))
				for inner.kind == c07Ptr || inner.kind == c07Other || inner.kind == c07Named || inner.kind == c07Alias {
					inner = g.basic() // `type E *T` / interfaces cannot be embedded this way; keep it simple
				}
				if inner.kind == c07Basic && inner.basic == "uptr" {
					inner = &c07ty{kind: c07Basic, basic: "int64"} // an embedded field cannot be unsafe.Pointer
				}
				kind := c07Named
				if g.r.chance(1, 3) {
					kind = c07Alias
					g.stats["gen_alias_types"]++
				}
				ft = &c07ty{kind: kind, name: tn, elem: inner}
				if kind == c07Named && g.r.chance(1, 3) {
					ft = &c07ty{kind: c07Ptr, elem: ft}
				}
				name, embedded = tn, true
				g.stats["gen_embedded_fields"]++
			default:
				ft = g.ty(depth-1, budget/(nf+1))
			}
			t.fields = append(t.fields, c07field{name, ft, embedded})
		}
	}
	if depth > 0 && g.r.chance(1, 7) {
		g.nnamed++
		if g.r.chance(1, 3) {
			t = &c07ty{kind: c07Alias, name: "A" + itoa(g.nnamed), elem: t}
			g.stats["gen_alias_types"]++
		} else {
			t = &c07ty{kind: c07Named, name: "T" + itoa(g.nnamed), elem: t}
		}
	}
	return t
}

var c07varNames = []string{"x", "y", "z", "a", "b", "dst", "src", "n", "p", "arg", "ret", "arg1", "ret1", "x_0", "v"}

func (g *c07gen) tuple(n int, named int, budget int) []c07var {
	var vs []c07var
	used := map[string]bool{}
	var prev *c07ty
	for i := 0; i < n; i++ {
		var t *c07ty
		if prev != nil && g.r.chance(1, 4) {
			t = prev // same type: may share a list entry `a, b T`
		} else {
			t = g.ty(g.r.intn(4), budget)
		}
		prev = t
		name := ""
		switch named {
		case 1:
			name = pick(g.r, c07varNames)
			if g.r.chance(1, 8) {
				name = "_"
			}
			if used[name] && name != "_" {
				name += itoa(i)
			}
			if used[name] && name != "_" {
				name += "q" + itoa(i)
			}
			used[name] = true
		}
		vs = append(vs, c07var{name, t})
	}
	return vs
}

func (g *c07gen) sig() *c07sig {
	s := &c07sig{}
	// more than 10 variables: default names arg10.., ret10.. have two-digit indices
	np := pick(g.r, []int{0, 1, 1, 2, 2, 3, 3, 4, 5, 6, 7, 11, 13})
	nr := pick(g.r, []int{0, 0, 1, 1, 1, 2, 3, 3, 12})
	budget := 120
	if np > 6 || nr > 6 {
		budget = 24
	}
	pn := 0
	if g.r.chance(2, 3) {
		pn = 1
	}
	s.params = g.tuple(np, pn, budget)
	if np > 0 && g.r.chance(1, 8) {
		// variadic: the last parameter is `...T`, a slice for the layout
		s.variadic = true
		s.params[np-1].t = &c07ty{kind: c07Slice, elem: g.ty(1, 16)}
	}
	rn := 0
	if g.r.chance(1, 2) {
		rn = 1
	}
	s.results = g.tuple(nr, rn, budget)
	// parameter and result names are in one scope: keep them distinct
	pnames := map[string]bool{}
	for _, v := range s.params {
		pnames[v.name] = true
	}
	for i := range s.results {
		if s.results[i].name != "" && s.results[i].name != "_" && pnames[s.results[i].name] {
			s.results[i].name += "r" + itoa(i)
		}
	}
	s.pgroups = c07grouping(g.r, s.params)
	s.rgroups = c07grouping(g.r, s.results)
	return s
}

// ---------------------------------------------------------------- paths

type c07step struct {
	kind string // base len cap real imag i f d
	i    int
	name string
}

func (s c07step) tok() string {
	switch s.kind {
	case "i":
		return "i:" + itoa(s.i)
	case "f":
		return "f:" + s.name
	case "d":
		return "d:" + s.name
	}
	return s.kind
}

// registers handed to Dereference: every 64-bit general-purpose register that can hold a pointer, and a few
// registers of other widths/kinds (Dereference takes any reg.Register; the address must echo exactly that one)
var c07regs = []reg.Register{reg.RAX, reg.RBX, reg.RCX, reg.RDX, reg.RSI, reg.RDI, reg.RBP, reg.R8, reg.R9, reg.R10,
	reg.R11, reg.R12, reg.R13, reg.R14, reg.R15, reg.RAX, reg.RBX, reg.RSI, reg.R8, reg.AL, reg.X0, reg.Y3}

func c07regByName(n string) reg.Register {
	for _, r := range c07regs {
		if r.Asm() == n {
			return r
		}
	}
	panic("c07: unknown register " + n)
}

// apply drives the real Component API.
func c07apply(c gotypes.Component, path []c07step) gotypes.Component {
	for _, s := range path {
		switch s.kind {
		case "base":
			c = c.Base()
		case "len":
			c = c.Len()
		case "cap":
			c = c.Cap()
		case "real":
			c = c.Real()
		case "imag":
			c = c.Imag()
		case "i":
			c = c.Index(s.i)
		case "f":
			c = c.Field(s.name)
		case "d":
			c = c.Dereference(c07regByName(s.name))
		}
	}
	return c
}

// walk follows a path through the generator's own view of the types: the type
// reached, or nil when a step does not exist.
func c07walk(t *c07ty, path []c07step) *c07ty {
	for _, s := range path {
		u := t.under()
		switch s.kind {
		case "base", "len":
			if u.kind == c07Slice || (u.kind == c07Basic && u.basic == "string") {
				if s.kind == "base" {
					t = &c07ty{kind: c07Basic, basic: "uintptr"}
				} else {
					t = &c07ty{kind: c07Basic, basic: "int"}
				}
			} else {
				return nil
			}
		case "cap":
			if u.kind != c07Slice {
				return nil
			}
			t = &c07ty{kind: c07Basic, basic: "int"}
		case "real", "imag":
			if u.kind == c07Basic && u.basic == "complex64" {
				t = &c07ty{kind: c07Basic, basic: "float32"}
			} else if u.kind == c07Basic && u.basic == "complex128" {
				t = &c07ty{kind: c07Basic, basic: "float64"}
			} else {
				return nil
			}
		case "i":
			if u.kind != c07Array || s.i < 0 || s.i >= u.n {
				return nil
			}
			t = u.elem
		case "f":
			if u.kind != c07Struct {
				return nil
			}
			var ft *c07ty
			for _, f := range u.fields {
				if f.name == s.name {
					ft = f.t
					break
				}
			}
			if ft == nil {
				return nil
			}
			t = ft
		case "d":
			if u.kind != c07Ptr {
				return nil
			}
			t = u.elem
		}
	}
	return t
}

// isScalar: the underlying type is a pointer or a basic non-string non-complex kind.
func (t *c07ty) isScalar() bool {
	t = t.under()
	return t.kind == c07Ptr || (t.kind == c07Basic && t.basic != "string" && t.basic != "complex64" && t.basic != "complex128")
}

// paths enumerates component paths of a type: every valid node (indices of
// large arrays sampled), with derefs into pointees up to a depth.
func (g *c07gen) paths(t *c07ty, prefix []c07step, derefs int, out *[][]c07step) {
	cp := append([]c07step{}, prefix...)
	*out = append(*out, cp)
	if len(*out) > 400 {
		return
	}
	u := t.under()
	sub := func(s c07step, nt *c07ty, d int) {
		g.paths(nt, append(append([]c07step{}, prefix...), s), d, out)
	}
	switch u.kind {
	case c07Basic:
		switch u.basic {
		case "string":
			sub(c07step{kind: "base"}, &c07ty{kind: c07Basic, basic: "uintptr"}, derefs)
			sub(c07step{kind: "len"}, &c07ty{kind: c07Basic, basic: "int"}, derefs)
		case "complex64":
			sub(c07step{kind: "real"}, &c07ty{kind: c07Basic, basic: "float32"}, derefs)
			sub(c07step{kind: "imag"}, &c07ty{kind: c07Basic, basic: "float32"}, derefs)
		case "complex128":
			sub(c07step{kind: "real"}, &c07ty{kind: c07Basic, basic: "float64"}, derefs)
			sub(c07step{kind: "imag"}, &c07ty{kind: c07Basic, basic: "float64"}, derefs)
		}
	case c07Slice:
		sub(c07step{kind: "base"}, &c07ty{kind: c07Basic, basic: "uintptr"}, derefs)
		sub(c07step{kind: "len"}, &c07ty{kind: c07Basic, basic: "int"}, derefs)
		sub(c07step{kind: "cap"}, &c07ty{kind: c07Basic, basic: "int"}, derefs)
	case c07Ptr:
		if derefs > 0 {
			sub(c07step{kind: "d", name: pick(g.r, c07regs).Asm()}, u.elem, derefs-1)
		}
	case c07Array:
		idx := map[int]bool{}
		if u.n <= 4 {
			for i := 0; i < u.n; i++ {
				idx[i] = true
			}
		} else {
			idx[0], idx[1], idx[u.n-1], idx[u.n-2] = true, true, true, true
			idx[g.r.intn(u.n)] = true
			idx[9+g.r.intn(3)] = u.n > 12 // two-digit suffix
			if u.n > 256 {
				// around the 8-bit boundary, three/four digits
				idx[255], idx[256] = true, true
				idx[256+g.r.intn(u.n-256)] = true
				idx[99+g.r.intn(3)] = true
				idx[999+g.r.intn(3)] = u.n > 1001
			}
		}
		var is []int
		for i, ok := range idx {
			if ok && i < u.n {
				is = append(is, i)
			}
		}
		sort.Ints(is)
		for _, i := range is {
			sub(c07step{kind: "i", i: i}, u.elem, derefs)
		}
	case c07Struct:
		seen := map[string]bool{}
		for _, f := range u.fields {
			if seen[f.name] {
				continue // Field(name) selects the first
			}
			seen[f.name] = true
			sub(c07step{kind: "f", name: f.name}, f.t, derefs)
		}
	}
}

// badSteps proposes steps that do not exist at a node of type t.
func (g *c07gen) badSteps(t *c07ty) []c07step {
	u := t.under()
	var out []c07step
	all := []c07step{{kind: "base"}, {kind: "len"}, {kind: "cap"}, {kind: "real"}, {kind: "imag"},
		{kind: "i", i: 0}, {kind: "f", name: "a"}, {kind: "d", name: "AX"}}
	for _, s := range all {
		if c07walk(t, []c07step{s}) == nil {
			out = append(out, s)
		}
	}
	switch u.kind {
	case c07Array:
		out = append(out, c07step{kind: "i", i: u.n}, c07step{kind: "i", i: u.n + 1 + g.r.intn(5)},
			c07step{kind: "i", i: 1 << 31}, c07step{kind: "i", i: 1<<62 + g.r.intn(9)},
			c07step{kind: "i", i: -1}, c07step{kind: "i", i: -(1 + g.r.intn(u.n+3))}, c07step{kind: "i", i: -1 << 62})
	case c07Struct:
		out = append(out, c07step{kind: "f", name: "nosuch"}, c07step{kind: "f", name: ""})
		if len(u.fields) > 0 {
			f := u.fields[g.r.intn(len(u.fields))].name
			out = append(out, c07step{kind: "f", name: f + "_"}, c07step{kind: "f", name: strings.ToUpper(f) + "Q"})
		}
	}
	return out
}

// promotedSteps proposes Field(name) for the names Go would PROMOTE from embedded fields of a struct (an embedded
// struct, or a pointer to one, at any depth) that are not fields of the struct itself: no component of the value has
// such a name for the toolchain (x_Inner_a, not x_a), and behind an embedded pointer there is no component at all.
func (g *c07gen) promotedSteps(t *c07ty) []c07step {
	if t == nil {
		return nil
	}
	u := t.under()
	if u.kind != c07Struct {
		return nil
	}
	direct := map[string]bool{}
	for _, f := range u.fields {
		direct[f.name] = true
	}
	seen := map[string]bool{}
	var out []c07step
	var walk func(s *c07ty, depth int, ptr int)
	walk = func(s *c07ty, depth int, ptr int) {
		for _, f := range s.fields {
			if !f.embedded || depth > 3 {
				continue
			}
			in := f.t.under()
			ptr := ptr
			if in.kind == c07Ptr {
				in = in.elem.under()
				ptr = 1
			}
			if in.kind != c07Struct {
				continue
			}
			for _, ff := range in.fields {
				if !direct[ff.name] && !seen[ff.name] && ff.name != "_" {
					seen[ff.name] = true
					out = append(out, c07step{kind: "f", name: ff.name, i: ptr}) // i = 1: behind an embedded pointer
				}
			}
			walk(in, depth+1, ptr)
		}
	}
	walk(u, 0, 0)
	return out
}

// ---------------------------------------------------------------- running the implementation

func c07outcome(c gotypes.Component) (res string, text string) {
	defer func() {
		if e := recover(); e != nil {
			res, text = "panic", ""
		}
	}()
	b, err := c.Resolve()
	if err != nil {
		return "err", ""
	}
	sym := b.Addr.Symbol.Name
	if b.Addr.Symbol.Static {
		sym += "<>"
	}
	if sym == "" {
		sym = "-"
	}
	base := "nil"
	if b.Addr.Base != nil {
		if b.Addr.Base == reg.FramePointer {
			base = "FP"
		} else {
			base = b.Addr.Base.Asm()
		}
	}
	if b.Addr.Index != nil {
		base += "+index"
	}
	return "ok " + sym + " " + itoa(b.Addr.Disp) + " " + base + " " + c07basicTok(b.Type.Kind()), b.Addr.Asm()
}

type c07sel struct {
	isRet bool
	at    bool
	i     int
	name  string
}

func (s c07sel) toks() string {
	pr := "P"
	if s.isRet {
		pr = "R"
	}
	if s.at {
		return pr + " at:" + itoa(s.i)
	}
	return pr + " name:" + s.name
}

// run selects the variable through the real Tuple API, applies the path.
func c07run(sig *gotypes.Signature, bctx *build.Context, sel c07sel, path []c07step) (res, text string) {
	defer func() {
		if e := recover(); e != nil {
			res, text = "panic", ""
		}
	}()
	var c gotypes.Component
	if bctx != nil {
		// the package-level build functions on a context of our own
		old := build.VerifSwapContext(bctx)
		defer build.VerifSwapContext(old)
		switch {
		case sel.isRet && sel.at:
			c = build.ReturnIndex(sel.i)
		case sel.isRet:
			c = build.Return(sel.name)
		case sel.at:
			c = build.ParamIndex(sel.i)
		default:
			c = build.Param(sel.name)
		}
		return c07outcome(c07apply(c, path))
	}
	t := sig.Params()
	if sel.isRet {
		t = sig.Results()
	}
	if sel.at {
		c = t.At(sel.i)
	} else {
		c = t.Lookup(sel.name)
	}
	return c07outcome(c07apply(c, path))
}

func c07pathToks(path []c07step) string {
	parts := []string{itoa(len(path))}
	for _, s := range path {
		parts = append(parts, s.tok())
	}
	return strings.Join(parts, " ")
}

// isDefaultName: the name is the toolchain's default name (arg, arg1, …, ret, ret1, …) of an unnamed variable.
func (s *c07sig) isDefaultName(sel c07sel) bool {
	vs, pfx := s.params, "arg"
	if sel.isRet {
		vs, pfx = s.results, "ret"
	}
	for i, v := range vs {
		n := pfx
		if i > 0 {
			n += itoa(i)
		}
		if v.name == "" && n == sel.name {
			return true
		}
	}
	return false
}

// selected variable in the generator's view (nil if the selector is invalid)
func (s *c07sig) selVar(sel c07sel) *c07var {
	vs := s.params
	if sel.isRet {
		vs = s.results
	}
	if sel.at {
		if sel.i < 0 || sel.i >= len(vs) {
			return nil
		}
		return &vs[sel.i]
	}
	if sel.name == "" {
		return nil
	}
	var found *c07var
	for i := range vs {
		if vs[i].name == sel.name {
			found = &vs[i]
		}
	}
	return found
}

type c07emitter struct {
	o     *out
	stats map[string]int
	neg   bool // emit only the requests with a negative index / selector (regression of F3); default: everything
}

func c07isNeg(sel c07sel, path []c07step) bool {
	if sel.at && sel.i < 0 {
		return true
	}
	for _, st := range path {
		if st.kind == "i" && st.i < 0 {
			return true
		}
	}
	return false
}

// emitResolve writes the exact and the acceptor request for one (sig, sel, path).
func (e *c07emitter) emitResolve(s *c07sig, sigToks string, sel c07sel, path []c07step, class string) {
	if e.neg && !c07isNeg(sel, path) {
		return
	}
	res, text := c07run(s.real, s.bctx, sel, path)
	exact := res
	// a valid path ending at a defined (named) scalar type: left free
	skipExact := false
	if v := s.selVar(sel); v != nil {
		if end := c07walk(v.t, path); end != nil {
			if (end.kind == c07Named || end.kind == c07Alias) && end.isScalar() {
				e.stats["valid_scalar_of_defined_or_alias_type"]++
				if end.kind == c07Alias {
					e.stats["valid_scalar_of_alias_type"]++
				}
			}
			// which pointer-sized integer kind stands for a pointer is not pinned down by the property: the exact
			// comparison reads uintptr for any of them (the acceptor's basicFor admits the same three)
			if end.under().kind == c07Ptr && strings.HasPrefix(res, "ok ") {
				for _, alt := range []string{" uptr", " uint64"} {
					if strings.HasSuffix(exact, alt) {
						exact = strings.TrimSuffix(exact, alt) + " uintptr"
					}
				}
			}
		}
	} else if !sel.at && s.isDefaultName(sel) {
		// Lookup("arg1") for an unnamed variable: go vet knows the variable under this name; the property does not
		// say whether Lookup finds it (today: no). Judged by the acceptor only.
		skipExact = true
		e.stats["lookup_by_default_name"]++
	}
	req := sigToks + " " + sel.toks() + " " + c07pathToks(path)
	if !skipExact {
		e.o.emit("resolve "+req, exact)
	}
	acc := res
	if strings.HasPrefix(res, "ok ") {
		acc += " " + text
		e.stats["outcome_ok"]++
	} else {
		e.stats["outcome_"+res]++
	}
	e.o.emit("accept-resolve "+req+" => "+acc, "ok")
	e.stats["paths_"+class]++
	hasDeref := false
	for _, st := range path {
		if st.kind == "d" {
			hasDeref = true
		}
	}
	if hasDeref {
		e.stats["paths_with_deref"]++
	}
	if strings.HasPrefix(res, "ok ") {
		for _, st := range path {
			if st.kind == "i" && st.i >= 256 {
				e.stats["ok_index_ge_256"]++
			}
			if st.kind == "d" && (st.name == "AL" || st.name == "X0" || st.name == "Y3") {
				e.stats["ok_deref_non_gp64"]++
			}
		}
		if sel.at && sel.i >= 10 {
			e.stats["ok_selector_index_ge_10"]++
		}
		if s.variadic && !sel.isRet && sel.at && sel.i == len(s.params)-1 {
			e.stats["ok_variadic_param"]++
		}
	}
}

func c07textSize(sig *gotypes.Signature) string {
	fn := ir.NewFunction("f")
	fn.SetSignature(sig)
	f := ir.NewFile()
	f.AddSection(fn)
	b, err := printer.NewGoAsm(printer.Config{Name: "c07", Pkg: "c07gen"}).Print(f)
	if err != nil {
		return "print-error"
	}
	for _, line := range strings.Split(string(b), "\n") {
		if strings.HasPrefix(line, "TEXT ") {
			fs := strings.Fields(line)
			return fs[len(fs)-1]
		}
	}
	return "no-TEXT-line"
}

var c07sizes = types.SizesFor("gc", "amd64")

// emitSizes compares the model's sizeof/alignof/offsetsof with go/types (the
// oracle here is the toolchain's go/types, not avo).
func (e *c07emitter) emitSizes(t *c07ty, seen map[string]bool) {
	key := strings.Join(t.toks(nil), " ")
	if seen[key] {
		return
	}
	seen[key] = true
	tt := t.goType()
	resp := []string{strconv.FormatInt(c07sizes.Sizeof(tt), 10), strconv.FormatInt(c07sizes.Alignof(tt), 10)}
	if st, ok := tt.Underlying().(*types.Struct); ok {
		var fs []*types.Var
		for i := 0; i < st.NumFields(); i++ {
			fs = append(fs, st.Field(i))
		}
		offs := c07sizes.Offsetsof(fs)
		resp = append(resp, itoa(len(offs)))
		for _, o := range offs {
			resp = append(resp, strconv.FormatInt(o, 10))
		}
	} else {
		resp = append(resp, "0")
	}
	e.o.emit("sizes "+key, strings.Join(resp, " "))
	e.stats["sizes_lines"]++
	switch t.kind {
	case c07Ptr, c07Slice, c07Array, c07Named, c07Alias:
		e.emitSizes(t.elem, seen)
	case c07Struct:
		for _, f := range t.fields {
			e.emitSizes(f.t, seen)
		}
	}
}

// emitSig writes every request about one signature.
func (e *c07emitter) emitSig(g *c07gen, s *c07sig, full bool) {
	st := s.toks()
	e.stats["route_"+s.route]++
	if s.variadic {
		e.stats["variadic_sigs"]++
	}
	for _, t := range s.allTypes() {
		if t.under().kind == c07Other {
			e.stats["vars_of_componentless_kind"]++
		}
	}
	e.stats[fmt.Sprintf("params_%d", len(s.params))]++
	e.stats[fmt.Sprintf("results_%d", len(s.results))]++
	if !e.neg {
		e.emitWhole(s, st)
	}
	e.emitPaths(g, s, st, full)
}

func (e *c07emitter) emitWhole(s *c07sig, st string) {
	// only the total is pinned down by the property (how padding is attributed to the two tuples is free)
	e.o.emit("argsize "+st, itoa(s.real.Bytes()))
	e.o.emit("accept-argsize "+st+" "+itoa(s.real.Bytes()), "ok")
	e.o.emit("accept-text "+st+" "+c07textSize(s.real), "ok")
	seen := map[string]bool{}
	for _, t := range s.allTypes() {
		e.emitSizes(t, seen)
	}
}

func (e *c07emitter) emitPaths(g *c07gen, s *c07sig, st string, full bool) {
	for _, isRet := range []bool{false, true} {
		vs := s.params
		if isRet {
			vs = s.results
		}
		// selectors: every index, every declared name, and invalid ones
		var sels []c07sel
		for i := range vs {
			sels = append(sels, c07sel{isRet: isRet, at: true, i: i})
			if vs[i].name != "" {
				sels = append(sels, c07sel{isRet: isRet, name: vs[i].name})
			}
		}
		for _, sel := range sels {
			v := s.selVar(sel)
			var ps [][]c07step
			g.paths(v.t, nil, 2, &ps)
			if !full && len(ps) > 40 {
				g.r.shuffleSteps(ps)
				ps = ps[:40]
			}
			for _, p := range ps {
				end := c07walk(v.t, p)
				class := "valid_nonscalar"
				if end != nil && end.isScalar() {
					class = "valid_scalar"
				}
				e.emitResolve(s, st, sel, p, class)
				// names Go would promote from embedded fields: always proposed (every one of them)
				for _, ps := range g.promotedSteps(end) {
					if ps.i == 1 {
						e.stats["paths_invalid_promoted_field_behind_embedded_pointer"]++
					}
					ps.i = 0
					e.emitResolve(s, st, sel, append(append([]c07step{}, p...), ps), "invalid_promoted_field")
				}
				// invalid continuations of this node
				bad := g.badSteps(end)
				nb := 2
				if full {
					nb = len(bad)
				}
				for k := 0; k < nb && len(bad) > 0; k++ {
					j := k
					if !full {
						j = g.r.intn(len(bad))
					}
					bp := append(append([]c07step{}, p...), bad[j])
					cl := "invalid_" + bad[j].kind
					if bad[j].kind == "i" && bad[j].i < 0 {
						cl = "invalid_negative_index"
					}
					// sometimes continue after the error (the first error sticks)
					if g.r.chance(1, 4) {
						bp = append(bp, pick(g.r, []c07step{{kind: "len"}, {kind: "i", i: 0}, {kind: "f", name: "a"}, {kind: "d", name: "BX"}, {kind: "real"}}))
						cl += "_then_more"
					}
					e.emitResolve(s, st, sel, bp, cl)
				}
			}
		}
		// invalid selectors
		bads := []c07sel{{isRet: isRet, at: true, i: len(vs)}, {isRet: isRet, at: true, i: len(vs) + 1 + g.r.intn(4)},
			{isRet: isRet, at: true, i: -1}, {isRet: isRet, at: true, i: -(2 + g.r.intn(5))},
			{isRet: isRet, name: "nosuch"}, {isRet: isRet, name: ""}}
		if isRet {
			bads = append(bads, c07sel{isRet: isRet, name: "ret"}, c07sel{isRet: isRet, name: "ret1"})
		} else {
			bads = append(bads, c07sel{isRet: isRet, name: "arg"}, c07sel{isRet: isRet, name: "arg1"})
		}
		for _, sel := range bads {
			if !sel.at && s.selVar(sel) != nil {
				continue // the name happens to be declared: covered above
			}
			cl := "invalid_selector"
			if sel.at && sel.i < 0 {
				cl = "invalid_negative_selector"
			}
			e.emitResolve(s, st, sel, nil, cl)
			if g.r.chance(1, 3) {
				e.emitResolve(s, st, sel, []c07step{{kind: "i", i: 0}}, cl+"_then_more")
			}
		}
	}
}

func (r *rng) shuffleSteps(ps [][]c07step) {
	for i := len(ps) - 1; i > 0; i-- {
		j := r.intn(i + 1)
		ps[i], ps[j] = ps[j], ps[i]
	}
}

// corpus: hand-picked signatures (gotypes tests, layout corner cases), run first.
var c07corpus = []string{
	"func()",
	"func(x int8)",
	"func(x int8) int8",
	"func(x, y int8) (z int16)",
	"func(a int8, b int64, c int8) (d int8, e int64)",
	"func(s string, b []byte) (n int, ok bool)",
	"func(c complex64, d complex128) (complex64, complex128)",
	"func(x struct{ a int8; b struct{}; c int64; d struct{} })",
	"func(x struct{ a int64; z struct{} }) struct{ a int8; z [0]int64 }",
	"func(x struct{ z struct{}; a int8 }, y struct{}) (r struct{})",
	"func(x [3]struct{ a int8; b int16; c [2]complex64 }, p *struct{ q [4]int32; s string })",
	"func(x [0]int64, y int8, z [0]int64) (r [0]int64, s int8)",
	"func(x [2][3]struct{ lo, hi uint16; _ uint8; _ uint32 })",
	"func(_ int8, _ int64, x int8) (_ int8, _ int64)",
	"func(int8, int64, string) (int8, []int16)",
	"func(x [12]int16, y [12]struct{ a [11]uint8 })",
	"func(p **[2]*struct{ a int8; n *[3]string })",
	"func(x struct{ a struct{ b struct{ c struct{ d int8; e int64 } } } }) (r struct{ a [1]struct{ b [1]int32 } })",
	"func(a, b, c struct{ x int8; y int32 }, d int8) (e, f [3]int8, g int64)",
	"func(x uintptr, b bool, f float32, g float64) (u uint, v uint8)",
	"func(x struct{ b bool; s []struct{ a int } ; t string; c complex128; z [0]struct{ a int64 } })",
	"func(x [4]uint32)", // regression of F3 (fixed in aab3c52): Index(-1), At(-1) must be errors
}

// ---------------------------------------------------------------- replay of request lines (corpus, replay files)

type c07parser struct {
	toks []string
	pos  int
}

func (p *c07parser) next() (string, error) {
	if p.pos >= len(p.toks) {
		return "", fmt.Errorf("unexpected end of request")
	}
	p.pos++
	return p.toks[p.pos-1], nil
}

func (p *c07parser) nat() (int, error) {
	t, err := p.next()
	if err != nil {
		return 0, err
	}
	n, err := strconv.Atoi(t)
	if err != nil || n < 0 || n > 1<<20 {
		return 0, fmt.Errorf("bad count %q", t)
	}
	return n, nil
}

func (p *c07parser) ty() (*c07ty, error) {
	k, err := p.next()
	if err != nil {
		return nil, err
	}
	switch k {
	case "b":
		b, err := p.next()
		if err != nil {
			return nil, err
		}
		if c07basicSrc(b) == "?" {
			return nil, fmt.Errorf("bad basic %q", b)
		}
		return &c07ty{kind: c07Basic, basic: b}, nil
	case "p", "s":
		e, err := p.ty()
		if err != nil {
			return nil, err
		}
		if k == "p" {
			return &c07ty{kind: c07Ptr, elem: e}, nil
		}
		return &c07ty{kind: c07Slice, elem: e}, nil
	case "a":
		n, err := p.nat()
		if err != nil {
			return nil, err
		}
		e, err := p.ty()
		if err != nil {
			return nil, err
		}
		return &c07ty{kind: c07Array, n: n, elem: e}, nil
	case "t":
		n, err := p.nat()
		if err != nil {
			return nil, err
		}
		t := &c07ty{kind: c07Struct}
		for i := 0; i < n; i++ {
			name, err := p.next()
			if err != nil {
				return nil, err
			}
			ft, err := p.ty()
			if err != nil {
				return nil, err
			}
			t.fields = append(t.fields, c07field{name, ft, false})
		}
		return t, nil
	case "n", "l":
		name, err := p.next()
		if err != nil {
			return nil, err
		}
		e, err := p.ty()
		if err != nil {
			return nil, err
		}
		if k == "l" {
			return &c07ty{kind: c07Alias, name: name, elem: e}, nil
		}
		return &c07ty{kind: c07Named, name: name, elem: e}, nil
	case "o":
		o, err := p.next()
		if err != nil {
			return nil, err
		}
		if _, ok := c07otherSrc[o]; !ok {
			return nil, fmt.Errorf("bad kind %q", o)
		}
		return &c07ty{kind: c07Other, other: o}, nil
	}
	return nil, fmt.Errorf("bad type token %q", k)
}

func (p *c07parser) groups() ([]c07group, []c07var, error) {
	n, err := p.nat()
	if err != nil {
		return nil, nil, err
	}
	var gs []c07group
	var vs []c07var
	for i := 0; i < n; i++ {
		k, err := p.nat()
		if err != nil {
			return nil, nil, err
		}
		var names []string
		for j := 0; j < k; j++ {
			nm, err := p.next()
			if err != nil {
				return nil, nil, err
			}
			names = append(names, nm)
		}
		t, err := p.ty()
		if err != nil {
			return nil, nil, err
		}
		gs = append(gs, c07group{names, t})
		if k == 0 {
			vs = append(vs, c07var{"", t})
		}
		for _, nm := range names {
			vs = append(vs, c07var{nm, t})
		}
	}
	return gs, vs, nil
}

func (p *c07parser) sig() (*c07sig, error) {
	s := &c07sig{}
	var err error
	if s.pgroups, s.params, err = p.groups(); err != nil {
		return nil, err
	}
	if s.rgroups, s.results, err = p.groups(); err != nil {
		return nil, err
	}
	s.real, s.route = s.buildDirect(), "replay"
	return s, nil
}

func c07afterColon(t string) string { return t[strings.Index(t, ":")+1:] }

// c07replayLine decodes one request line, runs the REAL code on the decoded input and emits the request(s) afresh
// (recorded outcomes in the line are ignored).
func c07replayLine(e *c07emitter, line string) (err error) {
	defer func() {
		if r := recover(); r != nil {
			err = fmt.Errorf("%v", r)
		}
	}()
	fs := strings.Fields(line)
	if len(fs) == 0 {
		return nil
	}
	p := &c07parser{toks: fs[1:]}
	switch fs[0] {
	case "resolve", "accept-resolve":
		s, err := p.sig()
		if err != nil {
			return err
		}
		pr, err := p.next()
		if err != nil {
			return err
		}
		st, err := p.next()
		if err != nil {
			return err
		}
		sel := c07sel{isRet: pr == "R"}
		switch {
		case strings.HasPrefix(st, "at:"):
			sel.at = true
			if sel.i, err = strconv.Atoi(c07afterColon(st)); err != nil {
				return err
			}
		case strings.HasPrefix(st, "name:"):
			sel.name = c07afterColon(st)
		default:
			return fmt.Errorf("bad selector %q", st)
		}
		n, err := p.nat()
		if err != nil {
			return err
		}
		var path []c07step
		for i := 0; i < n; i++ {
			t, err := p.next()
			if err != nil {
				return err
			}
			switch {
			case t == "base" || t == "len" || t == "cap" || t == "real" || t == "imag":
				path = append(path, c07step{kind: t})
			case strings.HasPrefix(t, "i:"):
				v, err := strconv.Atoi(c07afterColon(t))
				if err != nil {
					return err
				}
				path = append(path, c07step{kind: "i", i: v})
			case strings.HasPrefix(t, "f:"):
				path = append(path, c07step{kind: "f", name: c07afterColon(t)})
			case strings.HasPrefix(t, "d:"):
				path = append(path, c07step{kind: "d", name: c07afterColon(t)})
			default:
				return fmt.Errorf("bad step %q", t)
			}
		}
		e.emitResolve(s, s.toks(), sel, path, "replayed")
	case "argsize", "accept-argsize", "accept-text":
		s, err := p.sig()
		if err != nil {
			return err
		}
		e.emitWhole(s, s.toks())
	case "sizes":
		t, err := p.ty()
		if err != nil {
			return err
		}
		e.emitSizes(t, map[string]bool{})
	default:
		e.stats["replay_skipped_"+fs[0]]++
	}
	return nil
}

func init() {
	register("c07", "gotypes signature layout / component navigation vs model, asmdecl acceptors, go/types sizes", func(args []string) error {
		f := newStdFlags("c07")
		neg := f.fs.Bool("neg", false, "emit only negative-index / negative-selector requests")
		chunk := f.fs.Uint64("chunk", 0, "chunk number mixed into the seed")
		if err := f.fs.Parse(args); err != nil {
			return err
		}
		o, err := openOut(f)
		if err != nil {
			return err
		}
		defer o.close()
		e := &c07emitter{o: o, stats: map[string]int{}, neg: *neg}
		g := &c07gen{r: newRng(*f.seed + *chunk*0x51ed27), stats: e.stats}
		if *f.replay != "" {
			lines, err := readLines(*f.replay)
			if err != nil {
				return err
			}
			for _, l := range lines {
				if err := c07replayLine(e, l); err != nil {
					return fmt.Errorf("replay %q: %v", l, err)
				}
			}
			e.stats["requests"] = o.count
			return writeJSON(*f.stats, e.stats)
		}
		for _, expr := range c07corpus {
			sig, err := gotypes.ParseSignature(expr)
			if err != nil {
				return fmt.Errorf("corpus %q: %v", expr, err)
			}
			s, err := c07sigFromTypes(expr)
			if err != nil {
				return fmt.Errorf("corpus %q: %v", expr, err)
			}
			s.real, s.route = sig, "corpus"
			e.emitSig(g, s, true)
		}
		for k := 0; k < *f.n; k++ {
			s := g.sig()
			if err := s.build(g.r); err != nil {
				return err
			}
			e.emitSig(g, s, k%16 == 0)
			if k%10 == 3 {
				if err := g.family(e, s); err != nil {
					return err
				}
			}
		}
		e.stats["signatures"] = *f.n + len(c07corpus)
		e.stats["requests"] = o.count
		return writeJSON(*f.stats, e.stats)
	})
}

// c07sigFromTypes parses a func type expression with go/types (independently
// of avo) and converts it to the generator's representation.
func c07sigFromTypes(expr string) (*c07sig, error) {
	tv, err := types.Eval(token.NewFileSet(), nil, token.NoPos, expr)
	if err != nil {
		return nil, err
	}
	ts, ok := tv.Type.(*types.Signature)
	if !ok {
		return nil, fmt.Errorf("not a signature")
	}
	conv := func(t *types.Tuple) ([]c07var, error) {
		var vs []c07var
		for i := 0; i < t.Len(); i++ {
			ct, err := c07fromTypes(t.At(i).Type())
			if err != nil {
				return nil, err
			}
			// identical consecutive types (from `a, b T`) share the representation
			if i > 0 && types.Identical(t.At(i).Type(), t.At(i-1).Type()) {
				ct = vs[i-1].t
			}
			vs = append(vs, c07var{t.At(i).Name(), ct})
		}
		return vs, nil
	}
	s := &c07sig{}
	if s.params, err = conv(ts.Params()); err != nil {
		return nil, err
	}
	if s.results, err = conv(ts.Results()); err != nil {
		return nil, err
	}
	s.pgroups = c07grouping(nil, s.params)
	s.rgroups = c07grouping(nil, s.results)
	return s, nil
}
