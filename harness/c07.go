package main

// C07: argument/result addresses vs the Go toolchain's stack layout.
//
// The generator builds Go types in its own small representation (c07ty), turns
// them into go/types objects (directly, or by printing a `func(...)` expression
// and handing it to gotypes.ParseSignature[InPackage]), drives the REAL
// gotypes.Signature / Tuple / Component API along generated component paths
// (valid and invalid), and writes request lines for the Lean driver drv_c07.

import (
	"fmt"
	"go/ast"
	"go/importer"
	"go/parser"
	"go/token"
	"go/types"
	"sort"
	"strconv"
	"strings"

	"github.com/mmcloughlin/avo/gotypes"
	"github.com/mmcloughlin/avo/ir"
	"github.com/mmcloughlin/avo/printer"
	"github.com/mmcloughlin/avo/reg"
)

// ---------------------------------------------------------------- types

const (
	c07Basic = iota
	c07Ptr
	c07Slice
	c07Array
	c07Struct
	c07Named
)

type c07field struct {
	name string
	t    *c07ty
}

type c07ty struct {
	kind   int
	basic  string // protocol token of the basic kind
	elem   *c07ty // ptr, slice, array, named(underlying)
	n      int    // array length
	fields []c07field
	name   string // named
	tt     types.Type
}

// protocol token → go/types basic kind and Go source spelling
var c07basics = []struct {
	tok  string
	kind types.BasicKind
	src  string
}{
	{"bool", types.Bool, "bool"}, {"int8", types.Int8, "int8"}, {"int16", types.Int16, "int16"},
	{"int32", types.Int32, "int32"}, {"int64", types.Int64, "int64"}, {"uint8", types.Uint8, "uint8"},
	{"uint16", types.Uint16, "uint16"}, {"uint32", types.Uint32, "uint32"}, {"uint64", types.Uint64, "uint64"},
	{"int", types.Int, "int"}, {"uint", types.Uint, "uint"}, {"uintptr", types.Uintptr, "uintptr"},
	{"float32", types.Float32, "float32"}, {"float64", types.Float64, "float64"},
	{"complex64", types.Complex64, "complex64"}, {"complex128", types.Complex128, "complex128"},
	{"string", types.String, "string"}, {"uptr", types.UnsafePointer, "unsafe.Pointer"},
}

func c07basicTok(k types.BasicKind) string {
	for _, b := range c07basics {
		if b.kind == k {
			return b.tok
		}
	}
	return "basic?" + strconv.Itoa(int(k))
}

func c07basicSrc(tok string) string {
	for _, b := range c07basics {
		if b.tok == tok {
			return b.src
		}
	}
	return "?"
}

var c07pkg = types.NewPackage("example.com/c07gen", "c07gen")

// goType builds the go/types object (cached: identical *c07ty ⇒ identical types.Type).
func (t *c07ty) goType() types.Type {
	if t.tt != nil {
		return t.tt
	}
	switch t.kind {
	case c07Basic:
		for _, b := range c07basics {
			if b.tok == t.basic {
				t.tt = types.Typ[b.kind]
			}
		}
	case c07Ptr:
		t.tt = types.NewPointer(t.elem.goType())
	case c07Slice:
		t.tt = types.NewSlice(t.elem.goType())
	case c07Array:
		t.tt = types.NewArray(t.elem.goType(), int64(t.n))
	case c07Struct:
		var fs []*types.Var
		for _, f := range t.fields {
			fs = append(fs, types.NewField(token.NoPos, c07pkg, f.name, f.t.goType(), false))
		}
		t.tt = types.NewStruct(fs, nil)
	case c07Named:
		t.tt = types.NewNamed(types.NewTypeName(token.NoPos, c07pkg, t.name, nil), t.elem.goType(), nil)
	}
	return t.tt
}

// toks renders the protocol encoding.
func (t *c07ty) toks(out []string) []string {
	switch t.kind {
	case c07Basic:
		return append(out, "b", t.basic)
	case c07Ptr:
		return t.elem.toks(append(out, "p"))
	case c07Slice:
		return t.elem.toks(append(out, "s"))
	case c07Array:
		return t.elem.toks(append(out, "a", itoa(t.n)))
	case c07Struct:
		out = append(out, "t", itoa(len(t.fields)))
		for _, f := range t.fields {
			out = f.t.toks(append(out, f.name))
		}
		return out
	case c07Named:
		return t.elem.toks(append(out, "n", t.name))
	}
	return append(out, "?")
}

// src renders Go source for the type (named types by their name).
func (t *c07ty) src() string {
	switch t.kind {
	case c07Basic:
		return c07basicSrc(t.basic)
	case c07Ptr:
		return "*" + t.elem.src()
	case c07Slice:
		return "[]" + t.elem.src()
	case c07Array:
		return "[" + itoa(t.n) + "]" + t.elem.src()
	case c07Struct:
		var fs []string
		for _, f := range t.fields {
			fs = append(fs, f.name+" "+f.t.src())
		}
		return "struct{" + strings.Join(fs, "; ") + "}"
	case c07Named:
		return t.name
	}
	return "?"
}

func (t *c07ty) under() *c07ty {
	for t.kind == c07Named {
		t = t.elem
	}
	return t
}

// namedDecls collects the named types used (in dependency order, each once).
func (t *c07ty) namedDecls(seen map[string]bool, out *[]*c07ty) {
	switch t.kind {
	case c07Ptr, c07Slice, c07Array:
		t.elem.namedDecls(seen, out)
	case c07Struct:
		for _, f := range t.fields {
			f.t.namedDecls(seen, out)
		}
	case c07Named:
		if !seen[t.name] {
			seen[t.name] = true
			t.elem.namedDecls(seen, out)
			*out = append(*out, t)
		}
	}
}

func (t *c07ty) usesUnsafe() bool {
	switch t.kind {
	case c07Basic:
		return t.basic == "uptr"
	case c07Ptr, c07Slice, c07Array, c07Named:
		return t.elem.usesUnsafe()
	case c07Struct:
		for _, f := range t.fields {
			if f.t.usesUnsafe() {
				return true
			}
		}
	}
	return false
}

// size is a rough upper bound on the number of asmdecl components (to keep
// requests small); it has no role in any comparison.
func (t *c07ty) weight() int {
	switch t.kind {
	case c07Basic:
		return 3
	case c07Ptr:
		return 1
	case c07Slice:
		return 4
	case c07Array:
		return 1 + t.n*t.elem.weight()
	case c07Struct:
		w := 1
		for _, f := range t.fields {
			w += f.t.weight()
		}
		return w
	case c07Named:
		return t.elem.weight()
	}
	return 1
}

// fromTypes converts a go/types type (restricted to the kinds of the property).
func c07fromTypes(tt types.Type) (*c07ty, error) {
	switch u := tt.(type) {
	case *types.Basic:
		tok := c07basicTok(u.Kind())
		if strings.HasPrefix(tok, "basic?") {
			return nil, fmt.Errorf("unsupported basic %s", u)
		}
		return &c07ty{kind: c07Basic, basic: tok, tt: tt}, nil
	case *types.Pointer:
		e, err := c07fromTypes(u.Elem())
		if err != nil {
			return nil, err
		}
		return &c07ty{kind: c07Ptr, elem: e, tt: tt}, nil
	case *types.Slice:
		e, err := c07fromTypes(u.Elem())
		if err != nil {
			return nil, err
		}
		return &c07ty{kind: c07Slice, elem: e, tt: tt}, nil
	case *types.Array:
		e, err := c07fromTypes(u.Elem())
		if err != nil {
			return nil, err
		}
		return &c07ty{kind: c07Array, elem: e, n: int(u.Len()), tt: tt}, nil
	case *types.Struct:
		t := &c07ty{kind: c07Struct, tt: tt}
		for i := 0; i < u.NumFields(); i++ {
			e, err := c07fromTypes(u.Field(i).Type())
			if err != nil {
				return nil, err
			}
			t.fields = append(t.fields, c07field{u.Field(i).Name(), e})
		}
		return t, nil
	case *types.Named:
		e, err := c07fromTypes(u.Underlying())
		if err != nil {
			return nil, err
		}
		return &c07ty{kind: c07Named, name: u.Obj().Name(), elem: e, tt: tt}, nil
	case *types.Alias:
		return c07fromTypes(types.Unalias(tt))
	}
	return nil, fmt.Errorf("unsupported type %s", tt)
}

// ---------------------------------------------------------------- signatures

type c07var struct {
	name string // "" = unnamed
	t    *c07ty
}

type c07group struct {
	names []string
	t     *c07ty
}

type c07sig struct {
	params, results []c07var
	pgroups, rgroups []c07group
	route           string // how the gotypes.Signature was built
	real            *gotypes.Signature
}

func c07grouping(r *rng, vs []c07var) []c07group {
	var gs []c07group
	for i := 0; i < len(vs); i++ {
		v := vs[i]
		if v.name == "" {
			gs = append(gs, c07group{nil, v.t})
			continue
		}
		g := c07group{[]string{v.name}, v.t}
		for i+1 < len(vs) && vs[i+1].name != "" && vs[i+1].t == v.t && (r == nil || r.chance(2, 3)) {
			i++
			g.names = append(g.names, vs[i].name)
		}
		gs = append(gs, g)
	}
	return gs
}

func c07groupToks(gs []c07group, out []string) []string {
	out = append(out, itoa(len(gs)))
	for _, g := range gs {
		out = append(out, itoa(len(g.names)))
		out = append(out, g.names...)
		out = g.t.toks(out)
	}
	return out
}

func (s *c07sig) toks() string {
	return strings.Join(c07groupToks(s.rgroups, c07groupToks(s.pgroups, nil)), " ")
}

func c07groupSrc(gs []c07group) string {
	var parts []string
	for _, g := range gs {
		if len(g.names) == 0 {
			parts = append(parts, g.t.src())
		} else {
			parts = append(parts, strings.Join(g.names, ", ")+" "+g.t.src())
		}
	}
	return strings.Join(parts, ", ")
}

// src renders `(params) (results)` as Go source.
func (s *c07sig) src() string {
	out := "(" + c07groupSrc(s.pgroups) + ")"
	if len(s.rgroups) > 0 {
		out += " (" + c07groupSrc(s.rgroups) + ")"
	}
	return out
}

func (s *c07sig) allTypes() []*c07ty {
	var ts []*c07ty
	for _, v := range s.params {
		ts = append(ts, v.t)
	}
	for _, v := range s.results {
		ts = append(ts, v.t)
	}
	return ts
}

func (s *c07sig) decls() []*c07ty {
	seen := map[string]bool{}
	var out []*c07ty
	for _, t := range s.allTypes() {
		t.namedDecls(seen, &out)
	}
	return out
}

func (s *c07sig) usesUnsafe() bool {
	for _, t := range s.allTypes() {
		if t.usesUnsafe() {
			return true
		}
	}
	return false
}

// declSrc renders a package clause with the named types the signature uses.
func c07declSrc(pkgname string, decls []*c07ty, unsafe bool) string {
	var b strings.Builder
	b.WriteString("package " + pkgname + "\n\n")
	if unsafe {
		b.WriteString("import \"unsafe\"\n\nvar _ unsafe.Pointer\n\n")
	}
	for _, d := range decls {
		b.WriteString("type " + d.name + " " + d.elem.src() + "\n")
	}
	return b.String()
}

// buildDirect constructs the signature from go/types objects built here.
func (s *c07sig) buildDirect() *gotypes.Signature {
	mk := func(vs []c07var) *types.Tuple {
		var xs []*types.Var
		for _, v := range vs {
			xs = append(xs, types.NewParam(token.NoPos, c07pkg, v.name, v.t.goType()))
		}
		return types.NewTuple(xs...)
	}
	return gotypes.NewSignature(c07pkg, types.NewSignatureType(nil, nil, nil, mk(s.params), mk(s.results), false))
}

// build constructs the real gotypes.Signature by one of three routes.
func (s *c07sig) build(r *rng) error {
	route := r.intn(3)
	decls := s.decls()
	if s.usesUnsafe() {
		route = 0 // `unsafe` is not visible to types.Eval at package scope
	}
	if route == 1 && len(decls) > 0 {
		route = 2
	}
	switch route {
	case 0: // go/types objects built directly
		s.real = s.buildDirect()
		s.route = "direct"
	case 1: // expression over builtin types
		sig, err := gotypes.ParseSignature("func" + s.src())
		if err != nil {
			return fmt.Errorf("ParseSignature(%q): %v", "func"+s.src(), err)
		}
		s.real, s.route = sig, "parse"
	case 2: // expression in a type-checked package declaring the named types
		fset := token.NewFileSet()
		f, err := parser.ParseFile(fset, "decl.go", c07declSrc("c07gen", decls, s.usesUnsafe()), 0)
		if err != nil {
			return err
		}
		conf := types.Config{Importer: importer.Default()}
		pkg, err := conf.Check("example.com/c07gen", fset, []*ast.File{f}, nil)
		if err != nil {
			return fmt.Errorf("typecheck decls: %v", err)
		}
		sig, err := gotypes.ParseSignatureInPackage(pkg, "func"+s.src())
		if err != nil {
			return fmt.Errorf("ParseSignatureInPackage(%q): %v", "func"+s.src(), err)
		}
		s.real, s.route = sig, "parse-in-package"
	}
	return nil
}

// ---------------------------------------------------------------- generator

type c07gen struct {
	r      *rng
	nnamed int
	stats  map[string]int
}

var c07fieldNames = []string{"a", "b", "c", "x", "y", "z", "lo", "hi", "F", "Len", "_", "base", "n0", "é", "v_1"}

func (g *c07gen) basic() *c07ty {
	// bias towards small and mixed sizes so that padding occurs
	toks := []string{"bool", "int8", "uint8", "int16", "uint16", "int32", "uint32", "int64", "uint64", "int", "uint",
		"uintptr", "float32", "float64", "complex64", "complex128", "string", "uptr", "uint8", "int16", "int64"}
	return &c07ty{kind: c07Basic, basic: pick(g.r, toks)}
}

func (g *c07gen) ty(depth int, budget int) *c07ty {
	var t *c07ty
	c := g.r.intn(100)
	switch {
	case depth <= 0 || budget < 8 || c < 38:
		t = g.basic()
	case c < 46:
		t = &c07ty{kind: c07Ptr, elem: g.ty(depth-1, budget)}
	case c < 54:
		t = &c07ty{kind: c07Slice, elem: g.ty(depth-1, 16)}
	case c < 70:
		n := pick(g.r, []int{0, 0, 1, 2, 2, 3, 4, 5, 7})
		if g.r.chance(1, 12) {
			n = g.r.rangeIn(8, 40)
		}
		per := budget
		if n > 0 {
			per = budget / n
		}
		t = &c07ty{kind: c07Array, n: n, elem: g.ty(depth-1, per)}
	default:
		nf := pick(g.r, []int{0, 1, 1, 2, 2, 3, 3, 4, 5, 6})
		t = &c07ty{kind: c07Struct}
		used := map[string]bool{}
		for i := 0; i < nf; i++ {
			name := pick(g.r, c07fieldNames)
			if used[name] && name != "_" {
				name = name + itoa(i)
			}
			used[name] = true
			var ft *c07ty
			switch {
			case g.r.chance(1, 7): // zero-size field (trailing or not)
				ft = pick(g.r, []*c07ty{
					{kind: c07Struct},
					{kind: c07Array, n: 0, elem: g.basic()},
					{kind: c07Array, n: g.r.intn(3), elem: &c07ty{kind: c07Struct}},
					{kind: c07Struct, fields: []c07field{{"e", &c07ty{kind: c07Struct}}}},
				})
			default:
				ft = g.ty(depth-1, budget/(nf+1))
			}
			t.fields = append(t.fields, c07field{name, ft})
		}
	}
	if depth > 0 && g.r.chance(1, 9) {
		g.nnamed++
		t = &c07ty{kind: c07Named, name: "T" + itoa(g.nnamed), elem: t}
	}
	return t
}

var c07varNames = []string{"x", "y", "z", "a", "b", "dst", "src", "n", "p", "arg", "ret", "arg1", "ret1", "x_0", "v"}

func (g *c07gen) tuple(n int, named int, budget int) []c07var {
	var vs []c07var
	used := map[string]bool{}
	var prev *c07ty
	for i := 0; i < n; i++ {
		var t *c07ty
		if prev != nil && g.r.chance(1, 4) {
			t = prev // same type: may share a list entry `a, b T`
		} else {
			t = g.ty(g.r.intn(4), budget)
		}
		prev = t
		name := ""
		switch named {
		case 1:
			name = pick(g.r, c07varNames)
			if g.r.chance(1, 8) {
				name = "_"
			}
			if used[name] && name != "_" {
				name += itoa(i)
			}
			if used[name] && name != "_" {
				name += "q" + itoa(i)
			}
			used[name] = true
		}
		vs = append(vs, c07var{name, t})
	}
	return vs
}

func (g *c07gen) sig() *c07sig {
	s := &c07sig{}
	np := pick(g.r, []int{0, 1, 1, 2, 2, 3, 3, 4, 5, 6})
	nr := pick(g.r, []int{0, 0, 1, 1, 1, 2, 3})
	budget := 120
	pn := 0
	if g.r.chance(2, 3) {
		pn = 1
	}
	s.params = g.tuple(np, pn, budget)
	rn := 0
	if g.r.chance(1, 2) {
		rn = 1
	}
	s.results = g.tuple(nr, rn, budget)
	// parameter and result names are in one scope: keep them distinct
	pnames := map[string]bool{}
	for _, v := range s.params {
		pnames[v.name] = true
	}
	for i := range s.results {
		if s.results[i].name != "" && s.results[i].name != "_" && pnames[s.results[i].name] {
			s.results[i].name += "r" + itoa(i)
		}
	}
	s.pgroups = c07grouping(g.r, s.params)
	s.rgroups = c07grouping(g.r, s.results)
	return s
}

// ---------------------------------------------------------------- paths

type c07step struct {
	kind string // base len cap real imag i f d
	i    int
	name string
}

func (s c07step) tok() string {
	switch s.kind {
	case "i":
		return "i:" + itoa(s.i)
	case "f":
		return "f:" + s.name
	case "d":
		return "d:" + s.name
	}
	return s.kind
}

var c07regs = []reg.Register{reg.RAX, reg.RBX, reg.RCX, reg.RDX, reg.RSI, reg.RDI, reg.R8, reg.R9, reg.R15}

func c07regByName(n string) reg.Register {
	for _, r := range c07regs {
		if r.Asm() == n {
			return r
		}
	}
	return reg.RAX
}

// apply drives the real Component API.
func c07apply(c gotypes.Component, path []c07step) gotypes.Component {
	for _, s := range path {
		switch s.kind {
		case "base":
			c = c.Base()
		case "len":
			c = c.Len()
		case "cap":
			c = c.Cap()
		case "real":
			c = c.Real()
		case "imag":
			c = c.Imag()
		case "i":
			c = c.Index(s.i)
		case "f":
			c = c.Field(s.name)
		case "d":
			c = c.Dereference(c07regByName(s.name))
		}
	}
	return c
}

// walk follows a path through the generator's own view of the types: the type
// reached, or nil when a step does not exist.
func c07walk(t *c07ty, path []c07step) *c07ty {
	for _, s := range path {
		u := t.under()
		switch s.kind {
		case "base", "len":
			if u.kind == c07Slice || (u.kind == c07Basic && u.basic == "string") {
				if s.kind == "base" {
					t = &c07ty{kind: c07Basic, basic: "uintptr"}
				} else {
					t = &c07ty{kind: c07Basic, basic: "int"}
				}
			} else {
				return nil
			}
		case "cap":
			if u.kind != c07Slice {
				return nil
			}
			t = &c07ty{kind: c07Basic, basic: "int"}
		case "real", "imag":
			if u.kind == c07Basic && u.basic == "complex64" {
				t = &c07ty{kind: c07Basic, basic: "float32"}
			} else if u.kind == c07Basic && u.basic == "complex128" {
				t = &c07ty{kind: c07Basic, basic: "float64"}
			} else {
				return nil
			}
		case "i":
			if u.kind != c07Array || s.i < 0 || s.i >= u.n {
				return nil
			}
			t = u.elem
		case "f":
			if u.kind != c07Struct {
				return nil
			}
			var ft *c07ty
			for _, f := range u.fields {
				if f.name == s.name {
					ft = f.t
					break
				}
			}
			if ft == nil {
				return nil
			}
			t = ft
		case "d":
			if u.kind != c07Ptr {
				return nil
			}
			t = u.elem
		}
	}
	return t
}

func (t *c07ty) isScalar() bool {
	return t.kind == c07Ptr || (t.kind == c07Basic && t.basic != "string" && t.basic != "complex64" && t.basic != "complex128")
}

// paths enumerates component paths of a type: every valid node (indices of
// large arrays sampled), with derefs into pointees up to a depth.
func (g *c07gen) paths(t *c07ty, prefix []c07step, derefs int, out *[][]c07step) {
	cp := append([]c07step{}, prefix...)
	*out = append(*out, cp)
	if len(*out) > 400 {
		return
	}
	u := t.under()
	sub := func(s c07step, nt *c07ty, d int) {
		g.paths(nt, append(append([]c07step{}, prefix...), s), d, out)
	}
	switch u.kind {
	case c07Basic:
		switch u.basic {
		case "string":
			sub(c07step{kind: "base"}, &c07ty{kind: c07Basic, basic: "uintptr"}, derefs)
			sub(c07step{kind: "len"}, &c07ty{kind: c07Basic, basic: "int"}, derefs)
		case "complex64":
			sub(c07step{kind: "real"}, &c07ty{kind: c07Basic, basic: "float32"}, derefs)
			sub(c07step{kind: "imag"}, &c07ty{kind: c07Basic, basic: "float32"}, derefs)
		case "complex128":
			sub(c07step{kind: "real"}, &c07ty{kind: c07Basic, basic: "float64"}, derefs)
			sub(c07step{kind: "imag"}, &c07ty{kind: c07Basic, basic: "float64"}, derefs)
		}
	case c07Slice:
		sub(c07step{kind: "base"}, &c07ty{kind: c07Basic, basic: "uintptr"}, derefs)
		sub(c07step{kind: "len"}, &c07ty{kind: c07Basic, basic: "int"}, derefs)
		sub(c07step{kind: "cap"}, &c07ty{kind: c07Basic, basic: "int"}, derefs)
	case c07Ptr:
		if derefs > 0 {
			sub(c07step{kind: "d", name: pick(g.r, c07regs).Asm()}, u.elem, derefs-1)
		}
	case c07Array:
		idx := map[int]bool{}
		if u.n <= 4 {
			for i := 0; i < u.n; i++ {
				idx[i] = true
			}
		} else {
			idx[0], idx[1], idx[u.n-1], idx[u.n-2] = true, true, true, true
			idx[g.r.intn(u.n)] = true
			idx[9+g.r.intn(3)] = u.n > 12 // two-digit suffix
		}
		var is []int
		for i, ok := range idx {
			if ok && i < u.n {
				is = append(is, i)
			}
		}
		sort.Ints(is)
		for _, i := range is {
			sub(c07step{kind: "i", i: i}, u.elem, derefs)
		}
	case c07Struct:
		seen := map[string]bool{}
		for _, f := range u.fields {
			if seen[f.name] {
				continue // Field(name) selects the first
			}
			seen[f.name] = true
			sub(c07step{kind: "f", name: f.name}, f.t, derefs)
		}
	}
}

// badSteps proposes steps that do not exist at a node of type t.
func (g *c07gen) badSteps(t *c07ty) []c07step {
	u := t.under()
	var out []c07step
	all := []c07step{{kind: "base"}, {kind: "len"}, {kind: "cap"}, {kind: "real"}, {kind: "imag"},
		{kind: "i", i: 0}, {kind: "f", name: "a"}, {kind: "d", name: "RAX"}}
	for _, s := range all {
		if c07walk(t, []c07step{s}) == nil {
			out = append(out, s)
		}
	}
	switch u.kind {
	case c07Array:
		out = append(out, c07step{kind: "i", i: u.n}, c07step{kind: "i", i: u.n + 1 + g.r.intn(5)},
			c07step{kind: "i", i: 1 << 31}, c07step{kind: "i", i: 1<<62 + g.r.intn(9)},
			c07step{kind: "i", i: -1}, c07step{kind: "i", i: -(1 + g.r.intn(u.n+3))}, c07step{kind: "i", i: -1 << 62})
	case c07Struct:
		out = append(out, c07step{kind: "f", name: "nosuch"}, c07step{kind: "f", name: ""})
		if len(u.fields) > 0 {
			f := u.fields[g.r.intn(len(u.fields))].name
			out = append(out, c07step{kind: "f", name: f + "_"}, c07step{kind: "f", name: strings.ToUpper(f) + "Q"})
		}
	}
	return out
}

// ---------------------------------------------------------------- running the implementation

func c07outcome(c gotypes.Component) (res string, text string) {
	defer func() {
		if e := recover(); e != nil {
			res, text = "panic", ""
		}
	}()
	b, err := c.Resolve()
	if err != nil {
		return "err", ""
	}
	sym := b.Addr.Symbol.Name
	if b.Addr.Symbol.Static {
		sym += "<>"
	}
	if sym == "" {
		sym = "-"
	}
	base := "nil"
	if b.Addr.Base != nil {
		if b.Addr.Base == reg.FramePointer {
			base = "FP"
		} else {
			base = b.Addr.Base.Asm()
		}
	}
	if b.Addr.Index != nil {
		base += "+index"
	}
	return "ok " + sym + " " + itoa(b.Addr.Disp) + " " + base + " " + c07basicTok(b.Type.Kind()), b.Addr.Asm()
}

type c07sel struct {
	isRet bool
	at    bool
	i     int
	name  string
}

func (s c07sel) toks() string {
	pr := "P"
	if s.isRet {
		pr = "R"
	}
	if s.at {
		return pr + " at:" + itoa(s.i)
	}
	return pr + " name:" + s.name
}

// run selects the variable through the real Tuple API, applies the path.
func c07run(sig *gotypes.Signature, sel c07sel, path []c07step) (res, text string) {
	defer func() {
		if e := recover(); e != nil {
			res, text = "panic", ""
		}
	}()
	t := sig.Params()
	if sel.isRet {
		t = sig.Results()
	}
	var c gotypes.Component
	if sel.at {
		c = t.At(sel.i)
	} else {
		c = t.Lookup(sel.name)
	}
	return c07outcome(c07apply(c, path))
}

func c07pathToks(path []c07step) string {
	parts := []string{itoa(len(path))}
	for _, s := range path {
		parts = append(parts, s.tok())
	}
	return strings.Join(parts, " ")
}

// selected variable in the generator's view (nil if the selector is invalid)
func (s *c07sig) selVar(sel c07sel) *c07var {
	vs := s.params
	if sel.isRet {
		vs = s.results
	}
	if sel.at {
		if sel.i < 0 || sel.i >= len(vs) {
			return nil
		}
		return &vs[sel.i]
	}
	if sel.name == "" {
		return nil
	}
	var found *c07var
	for i := range vs {
		if vs[i].name == sel.name {
			found = &vs[i]
		}
	}
	return found
}

type c07emitter struct {
	o     *out
	stats map[string]int
	neg   bool // emit only the requests with a negative index / selector (regression of F3); default: everything
}

func c07isNeg(sel c07sel, path []c07step) bool {
	if sel.at && sel.i < 0 {
		return true
	}
	for _, st := range path {
		if st.kind == "i" && st.i < 0 {
			return true
		}
	}
	return false
}

// emitResolve writes the exact and the acceptor request for one (sig, sel, path).
func (e *c07emitter) emitResolve(s *c07sig, sigToks string, sel c07sel, path []c07step, class string) {
	if e.neg && !c07isNeg(sel, path) {
		return
	}
	res, text := c07run(s.real, sel, path)
	exact := res
	// a valid path ending at a defined (named) scalar type: left free
	if v := s.selVar(sel); v != nil {
		if end := c07walk(v.t, path); end != nil && end.kind == c07Named && end.under().isScalar() {
			exact = "free"
			e.stats["free_named_scalar"]++
		}
	}
	req := sigToks + " " + sel.toks() + " " + c07pathToks(path)
	e.o.emit("resolve "+req, exact)
	acc := res
	if strings.HasPrefix(res, "ok ") {
		acc += " " + text
		e.stats["outcome_ok"]++
	} else {
		e.stats["outcome_"+res]++
	}
	e.o.emit("accept-resolve "+req+" => "+acc, "ok")
	e.stats["paths_"+class]++
	hasDeref := false
	for _, st := range path {
		if st.kind == "d" {
			hasDeref = true
		}
	}
	if hasDeref {
		e.stats["paths_with_deref"]++
	}
}

func c07textSize(sig *gotypes.Signature) string {
	fn := ir.NewFunction("f")
	fn.SetSignature(sig)
	f := ir.NewFile()
	f.AddSection(fn)
	b, err := printer.NewGoAsm(printer.Config{Name: "c07", Pkg: "c07gen"}).Print(f)
	if err != nil {
		return "print-error"
	}
	for _, line := range strings.Split(string(b), "\n") {
		if strings.HasPrefix(line, "TEXT ") {
			fs := strings.Fields(line)
			return fs[len(fs)-1]
		}
	}
	return "no-TEXT-line"
}

var c07sizes = types.SizesFor("gc", "amd64")

// emitSizes compares the model's sizeof/alignof/offsetsof with go/types (the
// oracle here is the toolchain's go/types, not avo).
func (e *c07emitter) emitSizes(t *c07ty, seen map[string]bool) {
	key := strings.Join(t.toks(nil), " ")
	if seen[key] {
		return
	}
	seen[key] = true
	tt := t.goType()
	resp := []string{strconv.FormatInt(c07sizes.Sizeof(tt), 10), strconv.FormatInt(c07sizes.Alignof(tt), 10)}
	if st, ok := tt.Underlying().(*types.Struct); ok {
		var fs []*types.Var
		for i := 0; i < st.NumFields(); i++ {
			fs = append(fs, st.Field(i))
		}
		offs := c07sizes.Offsetsof(fs)
		resp = append(resp, itoa(len(offs)))
		for _, o := range offs {
			resp = append(resp, strconv.FormatInt(o, 10))
		}
	} else {
		resp = append(resp, "0")
	}
	e.o.emit("sizes "+key, strings.Join(resp, " "))
	e.stats["sizes_lines"]++
	switch t.kind {
	case c07Ptr, c07Slice, c07Array, c07Named:
		e.emitSizes(t.elem, seen)
	case c07Struct:
		for _, f := range t.fields {
			e.emitSizes(f.t, seen)
		}
	}
}

// emitSig writes every request about one signature.
func (e *c07emitter) emitSig(g *c07gen, s *c07sig, full bool) {
	st := s.toks()
	e.stats["route_"+s.route]++
	e.stats[fmt.Sprintf("params_%d", len(s.params))]++
	e.stats[fmt.Sprintf("results_%d", len(s.results))]++
	if !e.neg {
		e.emitWhole(s, st)
	}
	e.emitPaths(g, s, st, full)
}

func (e *c07emitter) emitWhole(s *c07sig, st string) {
	// only the total is pinned down by the property (how padding is attributed to the two tuples is free)
	e.o.emit("argsize "+st, itoa(s.real.Bytes()))
	e.o.emit("accept-argsize "+st+" "+itoa(s.real.Bytes()), "ok")
	e.o.emit("accept-text "+st+" "+c07textSize(s.real), "ok")
	seen := map[string]bool{}
	for _, t := range s.allTypes() {
		e.emitSizes(t, seen)
	}
}

func (e *c07emitter) emitPaths(g *c07gen, s *c07sig, st string, full bool) {
	for _, isRet := range []bool{false, true} {
		vs := s.params
		if isRet {
			vs = s.results
		}
		// selectors: every index, every declared name, and invalid ones
		var sels []c07sel
		for i := range vs {
			sels = append(sels, c07sel{isRet: isRet, at: true, i: i})
			if vs[i].name != "" {
				sels = append(sels, c07sel{isRet: isRet, name: vs[i].name})
			}
		}
		for _, sel := range sels {
			v := s.selVar(sel)
			var ps [][]c07step
			g.paths(v.t, nil, 2, &ps)
			if !full && len(ps) > 40 {
				g.r.shuffleSteps(ps)
				ps = ps[:40]
			}
			for _, p := range ps {
				end := c07walk(v.t, p)
				class := "valid_nonscalar"
				if end != nil && (end.isScalar() || (end.kind == c07Named && end.under().isScalar())) {
					class = "valid_scalar"
				}
				e.emitResolve(s, st, sel, p, class)
				// invalid continuations of this node
				bad := g.badSteps(end)
				nb := 2
				if full {
					nb = len(bad)
				}
				for k := 0; k < nb && len(bad) > 0; k++ {
					j := k
					if !full {
						j = g.r.intn(len(bad))
					}
					bp := append(append([]c07step{}, p...), bad[j])
					cl := "invalid_" + bad[j].kind
					if bad[j].kind == "i" && bad[j].i < 0 {
						cl = "invalid_negative_index"
					}
					// sometimes continue after the error (the first error sticks)
					if g.r.chance(1, 4) {
						bp = append(bp, pick(g.r, []c07step{{kind: "len"}, {kind: "i", i: 0}, {kind: "f", name: "a"}, {kind: "d", name: "RBX"}, {kind: "real"}}))
						cl += "_then_more"
					}
					e.emitResolve(s, st, sel, bp, cl)
				}
			}
		}
		// invalid selectors
		bads := []c07sel{{isRet: isRet, at: true, i: len(vs)}, {isRet: isRet, at: true, i: len(vs) + 1 + g.r.intn(4)},
			{isRet: isRet, at: true, i: -1}, {isRet: isRet, at: true, i: -(2 + g.r.intn(5))},
			{isRet: isRet, name: "nosuch"}, {isRet: isRet, name: ""}}
		if isRet {
			bads = append(bads, c07sel{isRet: isRet, name: "ret"}, c07sel{isRet: isRet, name: "ret1"})
		} else {
			bads = append(bads, c07sel{isRet: isRet, name: "arg"}, c07sel{isRet: isRet, name: "arg1"})
		}
		for _, sel := range bads {
			if !sel.at && s.selVar(sel) != nil {
				continue // the name happens to be declared: covered above
			}
			cl := "invalid_selector"
			if sel.at && sel.i < 0 {
				cl = "invalid_negative_selector"
			}
			e.emitResolve(s, st, sel, nil, cl)
			if g.r.chance(1, 3) {
				e.emitResolve(s, st, sel, []c07step{{kind: "i", i: 0}}, cl+"_then_more")
			}
		}
	}
}

func (r *rng) shuffleSteps(ps [][]c07step) {
	for i := len(ps) - 1; i > 0; i-- {
		j := r.intn(i + 1)
		ps[i], ps[j] = ps[j], ps[i]
	}
}

// corpus: hand-picked signatures (gotypes tests, layout corner cases), run first.
var c07corpus = []string{
	"func()",
	"func(x int8)",
	"func(x int8) int8",
	"func(x, y int8) (z int16)",
	"func(a int8, b int64, c int8) (d int8, e int64)",
	"func(s string, b []byte) (n int, ok bool)",
	"func(c complex64, d complex128) (complex64, complex128)",
	"func(x struct{ a int8; b struct{}; c int64; d struct{} })",
	"func(x struct{ a int64; z struct{} }) struct{ a int8; z [0]int64 }",
	"func(x struct{ z struct{}; a int8 }, y struct{}) (r struct{})",
	"func(x [3]struct{ a int8; b int16; c [2]complex64 }, p *struct{ q [4]int32; s string })",
	"func(x [0]int64, y int8, z [0]int64) (r [0]int64, s int8)",
	"func(x [2][3]struct{ lo, hi uint16; _ uint8; _ uint32 })",
	"func(_ int8, _ int64, x int8) (_ int8, _ int64)",
	"func(int8, int64, string) (int8, []int16)",
	"func(x [12]int16, y [12]struct{ a [11]uint8 })",
	"func(p **[2]*struct{ a int8; n *[3]string })",
	"func(x struct{ a struct{ b struct{ c struct{ d int8; e int64 } } } }) (r struct{ a [1]struct{ b [1]int32 } })",
	"func(a, b, c struct{ x int8; y int32 }, d int8) (e, f [3]int8, g int64)",
	"func(x uintptr, b bool, f float32, g float64) (u uint, v uint8)",
	"func(x struct{ b bool; s []struct{ a int } ; t string; c complex128; z [0]struct{ a int64 } })",
	"func(x [4]uint32)", // regression of F3 (fixed in aab3c52): Index(-1), At(-1) must be errors
}

func init() {
	register("c07", "gotypes signature layout / component navigation vs model, asmdecl acceptors, go/types sizes", func(args []string) error {
		f := newStdFlags("c07")
		neg := f.fs.Bool("neg", false, "emit only negative-index / negative-selector requests")
		chunk := f.fs.Uint64("chunk", 0, "chunk number mixed into the seed")
		if err := f.fs.Parse(args); err != nil {
			return err
		}
		o, err := openOut(f)
		if err != nil {
			return err
		}
		defer o.close()
		e := &c07emitter{o: o, stats: map[string]int{}, neg: *neg}
		g := &c07gen{r: newRng(*f.seed + *chunk*0x51ed27), stats: e.stats}
		for _, expr := range c07corpus {
			sig, err := gotypes.ParseSignature(expr)
			if err != nil {
				return fmt.Errorf("corpus %q: %v", expr, err)
			}
			s, err := c07sigFromTypes(expr)
			if err != nil {
				return fmt.Errorf("corpus %q: %v", expr, err)
			}
			s.real, s.route = sig, "corpus"
			e.emitSig(g, s, true)
		}
		for k := 0; k < *f.n; k++ {
			s := g.sig()
			if err := s.build(g.r); err != nil {
				return err
			}
			e.emitSig(g, s, k%16 == 0)
		}
		e.stats["signatures"] = *f.n + len(c07corpus)
		e.stats["requests"] = o.count
		return writeJSON(*f.stats, e.stats)
	})
}

// c07sigFromTypes parses a func type expression with go/types (independently
// of avo) and converts it to the generator's representation.
func c07sigFromTypes(expr string) (*c07sig, error) {
	tv, err := types.Eval(token.NewFileSet(), nil, token.NoPos, expr)
	if err != nil {
		return nil, err
	}
	ts, ok := tv.Type.(*types.Signature)
	if !ok {
		return nil, fmt.Errorf("not a signature")
	}
	conv := func(t *types.Tuple) ([]c07var, error) {
		var vs []c07var
		for i := 0; i < t.Len(); i++ {
			ct, err := c07fromTypes(t.At(i).Type())
			if err != nil {
				return nil, err
			}
			// identical consecutive types (from `a, b T`) share the representation
			if i > 0 && types.Identical(t.At(i).Type(), t.At(i-1).Type()) {
				ct = vs[i-1].t
			}
			vs = append(vs, c07var{t.At(i).Name(), ct})
		}
		return vs, nil
	}
	s := &c07sig{}
	if s.params, err = conv(ts.Params()); err != nil {
		return nil, err
	}
	if s.results, err = conv(ts.Results()); err != nil {
		return nil, err
	}
	s.pgroups = c07grouping(nil, s.params)
	s.rgroups = c07grouping(nil, s.results)
	return s, nil
}
