package main

import (
	"fmt"
	"reflect"
	"sort"
	"strings"

	"github.com/mmcloughlin/avo/x86"
)

// gen-lean FormsMeta / Forms_NN / Forms / Ctors_NN / Ctors: x86/zoptab.go,
// x86/zctors.go and build/zinstructions.go as Lean data.

const formShards = 16
const ctorShards = 8

// formsFromCompiled tabulates the compiled form table (x86.VerifForms through the verif hook) with the codes the
// Lean model uses: opcode and ISA codes are recovered from the opcode string / ISA list through the small tables,
// identifiers through the enums.  This is what the program does, whatever the source literal looks like.
func formsFromCompiled(t *optabAST) ([]optabForm, error) {
	opcOf := map[string]int{}
	for i, s := range t.OpcStrings {
		if _, dup := opcOf[s]; dup {
			return nil, fmt.Errorf("opcode string %q occurs twice in opcstringtable", s)
		}
		opcOf[s] = i + 1
	}
	isaOf := map[string]int{}
	for i, l := range t.IsasLists {
		k := strings.Join(l, ",")
		if _, dup := isaOf[k]; !dup {
			isaOf[k] = i + 1
		}
	}
	name := func(xs []string, code int) string {
		if code >= 1 && code <= len(xs) {
			return xs[code-1]
		}
		return ""
	}
	actName := map[int]string{}
	for _, a := range t.Actions {
		actName[fixedAction(t, int(t.Consts[a]))] = a
	}
	var out []optabForm
	for i, c := range x86.VerifForms() {
		fr := optabForm{Opc: opcOf[c.Opcode], Cls: int(c.SuffixesClass), Features: int(c.Features), Arity: int(c.Arity)}
		if fr.Opc == 0 {
			return nil, fmt.Errorf("form row %d: opcode %q of the compiled table is not in opcstringtable", i, c.Opcode)
		}
		isa, ok := isaOf[strings.Join(c.ISAs, ",")]
		if !ok {
			return nil, fmt.Errorf("form row %d: ISA list %v of the compiled table is not in isaslisttable", i, c.ISAs)
		}
		fr.Isa = isa
		fr.OpcIdent, fr.ClsIdent, fr.IsaIdent = name(t.Opcs, fr.Opc), name(t.SffxsCls, fr.Cls), name(t.Isas, fr.Isa)
		for _, o := range c.Operands {
			od := optabOprnd{Type: int(o.Type), Implicit: o.Implicit, Action: int(o.Action), ActIdent: actName[int(o.Action)]}
			if o.Implicit {
				od.TypeIdent = name(t.ImplRegs, od.Type)
			} else {
				od.TypeIdent = name(t.OprndTypes, od.Type)
			}
			fr.Operands = append(fr.Operands, od)
		}
		out = append(out, fr)
	}
	return out, nil
}

// The verif hook reports feature flags and operand actions in a FIXED layout that does not depend on the numbering
// of the internal constants of x86/optab.go: features 1 terminal, 2 branch, 4 conditional branch, 8 cancelling
// inputs; actions 1 read, 2 write.  Values written in the SOURCE (the AST rows) are translated into that layout
// through the constants of the source, so that renumbering the constants is harmless.
func fixedFeatures(t *optabAST, raw int) int {
	v := 0
	for _, p := range []struct {
		name string
		bit  int
	}{{"featureTerminal", 1}, {"featureBranch", 2}, {"featureConditionalBranch", 4}, {"featureCancellingInputs", 8}} {
		if c, ok := t.Consts[p.name]; ok && raw&int(c) != 0 {
			v |= p.bit
		}
	}
	return v
}

func fixedAction(t *optabAST, raw int) int {
	v := 0
	if c, ok := t.Consts["actionR"]; ok && raw&int(c) != 0 {
		v |= 1
	}
	if c, ok := t.Consts["actionW"]; ok && raw&int(c) != 0 {
		v |= 2
	}
	return v
}

// rangesFromCompiled: per opcode code the block of rows the compiled package reports for it.
func rangesFromCompiled(t *optabAST) ([][2]int, error) {
	m := x86.VerifOpcodeForms()
	var out [][2]int
	for _, s := range t.OpcStrings {
		r, ok := m[s]
		if !ok {
			return nil, fmt.Errorf("opcode %q has no entry in the compiled opcformstable", s)
		}
		out = append(out, r)
	}
	return out, nil
}

// crossCheckForms compares the rows read from the source literal (when it was readable) with the compiled table
// and fails loudly on any difference; table dimensions are compared in any case.
func crossCheckForms(t *optabAST) error {
	if x86.VerifMaxOperands() != t.MaxOperands {
		return fmt.Errorf("maxoperands: AST %d, compiled %d", t.MaxOperands, x86.VerifMaxOperands())
	}
	if int(x86.VerifOprndTypeMax()) != len(t.OprndTypes)+1 {
		return fmt.Errorf("oprndtypemax: AST %d, compiled %d", len(t.OprndTypes)+1, x86.VerifOprndTypeMax())
	}
	if t.ASTForms == nil {
		return nil
	}
	if len(t.ASTForms) != len(t.Forms) {
		return fmt.Errorf("AST extraction found %d form rows, the compiled table has %d", len(t.ASTForms), len(t.Forms))
	}
	for i := range t.Forms {
		a, c := &t.ASTForms[i], &t.Forms[i]
		isaA, isaC := []string(nil), []string(nil)
		if a.Isa >= 1 && a.Isa <= len(t.IsasLists) {
			isaA = t.IsasLists[a.Isa-1]
		}
		if c.Isa >= 1 && c.Isa <= len(t.IsasLists) {
			isaC = t.IsasLists[c.Isa-1]
		}
		bad := a.Opc != c.Opc || a.Cls != c.Cls || fixedFeatures(t, a.Features) != c.Features || a.Arity != c.Arity || len(a.Operands) != len(c.Operands) ||
			!(len(isaA) == 0 && len(isaC) == 0 || reflect.DeepEqual(isaA, isaC))
		if !bad {
			for j := range a.Operands {
				if a.Operands[j].Type != c.Operands[j].Type || a.Operands[j].Implicit != c.Operands[j].Implicit || fixedAction(t, a.Operands[j].Action) != c.Operands[j].Action {
					bad = true
				}
			}
		}
		if bad {
			return fmt.Errorf("form row %d: AST extraction %+v differs from the compiled table %+v", i, *a, *c)
		}
	}
	return nil
}

func leanNameList(xs []string) string {
	q := make([]string, len(xs))
	for i, x := range xs {
		q[i] = encName(x)
	}
	return "[" + strings.Join(q, ", ") + "]"
}

func shardBounds(n, shards, i int) (int, int) {
	per := (n + shards - 1) / shards
	lo, hi := i*per, (i+1)*per
	if lo > n {
		lo = n
	}
	if hi > n {
		hi = n
	}
	return lo, hi
}

func genFormsMeta(repo string) (string, error) {
	t, err := parseOptab(repo)
	if err != nil {
		return "", err
	}
	if err := crossCheckForms(t); err != nil {
		return "", err
	}
	var b strings.Builder
	b.WriteString("-- REGENERATED from x86/zoptab.go + x86/optab.go by avoh gen-lean FormsMeta (go/ast; cross-checked against the compiled table). Do not edit.\n")
	b.WriteString("import AvoVerif.Model.Instr\nset_option maxRecDepth 1000000\nnamespace Avo.Gen\nopen Avo.Instr\n")
	b.WriteString("def formsMeta : Meta := {\n")
	// operand types
	b.WriteString("  oprndTypes := [")
	for i, n := range t.OprndTypes {
		if i > 0 {
			b.WriteString(", ")
		}
		fmt.Fprintf(&b, "(%s, %s)", encName(n), encName(t.Checkers[n]))
	}
	b.WriteString("],\n  implRegs := [")
	for i, n := range t.ImplRegs {
		if i > 0 {
			b.WriteString(", ")
		}
		r := x86.VerifImplReg(uint8(i + 1))
		if r == nil {
			return "", fmt.Errorf("implicit register code %d (%s) has no register in the compiled package", i+1, n)
		}
		fmt.Fprintf(&b, "(%s, %s, ⟨%d, %d, %d, %d, %s⟩)", encName(n), encName(t.ImplRegVars[n]), uint8(r.Kind()), r.Size(), uint32(r.ID()), r.Mask(), encName(r.Asm()))
	}
	b.WriteString("],\n")
	fmt.Fprintf(&b, "  sffx := %s,\n", leanNameList(t.Sffx))
	b.WriteString("  sffxsStrings := [")
	for i, e := range t.SffxsStrings {
		if i > 0 {
			b.WriteString(", ")
		}
		fmt.Fprintf(&b, "((%d, %d), %s)", e.Key[0], e.Key[1], leanNameList(e.Strings))
	}
	b.WriteString("],\n")
	fmt.Fprintf(&b, "  sffxsCls := %s,\n", leanNameList(t.SffxsCls))
	b.WriteString("  sffxsClsSets := [")
	for i, set := range t.SffxsClsSets {
		if i > 0 {
			b.WriteString(", ")
		}
		b.WriteString("[")
		for j, k := range set {
			if j > 0 {
				b.WriteString(", ")
			}
			fmt.Fprintf(&b, "(%d, %d)", k[0], k[1])
		}
		b.WriteString("]")
	}
	b.WriteString("],\n")
	fmt.Fprintf(&b, "  isas := %s,\n", leanNameList(t.Isas))
	b.WriteString("  isasLists := [")
	for i, l := range t.IsasLists {
		if i > 0 {
			b.WriteString(", ")
		}
		b.WriteString(leanNameList(l))
	}
	b.WriteString("],\n")
	fmt.Fprintf(&b, "  opcs := %s,\n", leanNameList(t.Opcs))
	fmt.Fprintf(&b, "  opcStrings := %s,\n", leanNameList(t.OpcStrings))
	b.WriteString("  opcRanges := [")
	for i, r := range t.OpcRanges {
		if i > 0 {
			b.WriteString(", ")
		}
		fmt.Fprintf(&b, "(%d, %d)", r[0], r[1])
	}
	b.WriteString("],\n")
	fmt.Fprintf(&b, "  maxOperands := %d,\n  maxSuffixes := %d,\n", t.MaxOperands, t.MaxSuffixes)
	// the rows carry features / actions in the hook's fixed layout (see fixedFeatures); the constants of
	// x86/optab.go must exist (they are what the hook translates from) but their numbering plays no role
	for _, p := range []struct {
		lean, src string
		val       int
	}{{"featTerminal", "featureTerminal", 1}, {"featBranch", "featureBranch", 2}, {"featConditional", "featureConditionalBranch", 4},
		{"featCancelling", "featureCancellingInputs", 8}, {"actionR", "actionR", 1}, {"actionW", "actionW", 2}} {
		if _, ok := t.Consts[p.src]; !ok {
			return "", fmt.Errorf("constant %s not found in x86/optab.go", p.src)
		}
		fmt.Fprintf(&b, "  %s := %d,\n", p.lean, p.val)
	}
	b.WriteString("}\n")
	fmt.Fprintf(&b, "def nForms : Nat := %d\n", len(t.Forms))
	b.WriteString("end Avo.Gen\n")
	return b.String(), nil
}

func leanForm(f *optabForm) string {
	var b strings.Builder
	fmt.Fprintf(&b, "⟨%d,%d,%d,%d,%d,[", f.Opc, f.Cls, f.Features, f.Isa, f.Arity)
	for j, o := range f.Operands {
		if j > 0 {
			b.WriteString(",")
		}
		fmt.Fprintf(&b, "⟨%d,%s,%d⟩", o.Type, leanBool(o.Implicit), o.Action)
	}
	b.WriteString("]⟩")
	return b.String()
}

func genFormsShard(i int) func(string) (string, error) {
	return func(repo string) (string, error) {
		t, err := parseOptab(repo)
		if err != nil {
			return "", err
		}
		if err := crossCheckForms(t); err != nil {
			return "", err
		}
		lo, hi := shardBounds(len(t.Forms), formShards, i)
		var b strings.Builder
		fmt.Fprintf(&b, "-- REGENERATED from x86/zoptab.go by avoh gen-lean Forms_%02d: rows [%d,%d) of the `forms` table. Do not edit.\n", i, lo, hi)
		b.WriteString("import AvoVerif.Model.Instr\nset_option maxRecDepth 1000000\nnamespace Avo.Gen\nopen Avo.Instr\n")
		fmt.Fprintf(&b, "def forms_%02d : List Form := [", i)
		for k := lo; k < hi; k++ {
			if k > lo {
				b.WriteString(",")
			}
			b.WriteString("\n  ")
			b.WriteString(leanForm(&t.Forms[k]))
		}
		b.WriteString("]\nend Avo.Gen\n")
		return b.String(), nil
	}
}

func genForms(repo string) (string, error) {
	var b strings.Builder
	b.WriteString("-- REGENERATED by avoh gen-lean Forms: the whole `forms` table of x86/zoptab.go. Do not edit.\n")
	b.WriteString("import AvoVerif.Gen.FormsMeta\n")
	for i := 0; i < formShards; i++ {
		fmt.Fprintf(&b, "import AvoVerif.Gen.Forms_%02d\n", i)
	}
	b.WriteString("namespace Avo.Gen\nopen Avo.Instr\n")
	b.WriteString("def formShards : List (List Form) := [")
	for i := 0; i < formShards; i++ {
		if i > 0 {
			b.WriteString(", ")
		}
		fmt.Fprintf(&b, "forms_%02d", i)
	}
	b.WriteString("]\ndef forms : List Form := formShards.flatten\nend Avo.Gen\n")
	return b.String(), nil
}

// leanDoc renders "Forms:" rows as lists of words.
func leanDoc(rows []string) string {
	q := make([]string, len(rows))
	for i, r := range rows {
		q[i] = leanNameList(strings.Fields(r))
	}
	return "[" + strings.Join(q, ", ") + "]"
}

func leanCtor(c *ctorAST) string {
	if c.ShapeErr != "" {
		return fmt.Sprintf("⟨%s, %s, %s, 0, 0, 0, 0, [], [], false, %s⟩ /- %s: %s -/", encName(c.Name), leanNameList(c.Params), leanBool(c.Variadic), leanDoc(c.Doc), c.Name, c.ShapeErr)
	}
	return fmt.Sprintf("⟨%s, %s, %s, %s, %s, %s, %s, %s, %s, %s, %s⟩", encName(c.Name), leanNameList(c.Params), leanBool(c.Variadic),
		encName(c.Callee), encName(c.OpcConst), encName(c.FormsSel), encName(c.SfxType), leanNameList(c.SfxConsts), leanNameList(c.Args), leanBool(c.ArgsIsSlice), leanDoc(c.Doc))
}

func leanWrap(w *wrapAST) string {
	if w.ShapeErr != "" {
		return fmt.Sprintf("⟨%s, %s, %s, 0, 0, 0, 0, [], false, %s⟩ /- %s: %s -/", encName(w.Name), leanNameList(w.Params), leanBool(w.Variadic), leanDoc(w.Doc), w.Name, w.ShapeErr)
	}
	return fmt.Sprintf("⟨%s, %s, %s, %s, %s, %s, %s, %s, %s, %s⟩", encName(w.Name), leanNameList(w.Params), leanBool(w.Variadic),
		encName(w.Recv), encName(w.Via), encName(w.Pkg), encName(w.Callee), leanNameList(w.Args), leanBool(w.Spread), leanDoc(w.Doc))
}

func genCtorsShard(i int) func(string) (string, error) {
	return func(repo string) (string, error) {
		if err := importsOK(repo); err != nil {
			return "", err
		}
		cs, err := parseCtors(repo)
		if err != nil {
			return "", err
		}
		ms, gs, err := parseWrappers(repo)
		if err != nil {
			return "", err
		}
		if cs, ms, gs, err = sortByOpcode(repo, cs, ms, gs); err != nil {
			return "", err
		}
		var b strings.Builder
		fmt.Fprintf(&b, "-- REGENERATED from x86/zctors.go and build/zinstructions.go by avoh gen-lean Ctors_%02d (go/ast). Do not edit.\n", i)
		b.WriteString("-- Rows are grouped by the opcode constant of the constructor, in enum order (the Lean side joins them\n-- with the forms table in one streaming pass); methods and globals follow the constructor of the same name.\n")
		b.WriteString("import AvoVerif.Model.Instr\nset_option maxRecDepth 1000000\nnamespace Avo.Gen\nopen Avo.Instr\n")
		lo, hi := shardBounds(len(cs), ctorShards, i)
		fmt.Fprintf(&b, "def ctors_%02d : List CtorRow := [", i)
		for k := lo; k < hi; k++ {
			if k > lo {
				b.WriteString(",")
			}
			b.WriteString("\n  " + leanCtor(&cs[k]))
		}
		b.WriteString("]\n")
		lo, hi = shardBounds(len(ms), ctorShards, i)
		fmt.Fprintf(&b, "def methods_%02d : List WrapRow := [", i)
		for k := lo; k < hi; k++ {
			if k > lo {
				b.WriteString(",")
			}
			b.WriteString("\n  " + leanWrap(&ms[k]))
		}
		b.WriteString("]\n")
		lo, hi = shardBounds(len(gs), ctorShards, i)
		fmt.Fprintf(&b, "def globals_%02d : List WrapRow := [", i)
		for k := lo; k < hi; k++ {
			if k > lo {
				b.WriteString(",")
			}
			b.WriteString("\n  " + leanWrap(&gs[k]))
		}
		b.WriteString("]\nend Avo.Gen\n")
		return b.String(), nil
	}
}

// sortByOpcode orders the constructor rows by the enum index of their opcode
// constant (stable; unknown constants last) and the method / global rows by
// the position of the constructor of the same name (unknown names last).
// Ordering only: every judgement is made on the Lean side.
func sortByOpcode(repo string, cs []ctorAST, ms, gs []wrapAST) ([]ctorAST, []wrapAST, []wrapAST, error) {
	t, err := parseOptab(repo)
	if err != nil {
		return nil, nil, nil, err
	}
	idx := map[string]int{}
	for i, n := range t.Opcs {
		idx[n] = i
	}
	key := func(c *ctorAST) int {
		if i, ok := idx[c.OpcConst]; ok {
			return i
		}
		return len(t.Opcs)
	}
	cs = append([]ctorAST(nil), cs...)
	sort.SliceStable(cs, func(a, b int) bool { return key(&cs[a]) < key(&cs[b]) })
	pos := map[string]int{}
	for i := range cs {
		if _, dup := pos[cs[i].Name]; !dup {
			pos[cs[i].Name] = i
		}
	}
	wkey := func(w *wrapAST) int {
		if i, ok := pos[w.Name]; ok {
			return i
		}
		return len(cs)
	}
	ms = append([]wrapAST(nil), ms...)
	gs = append([]wrapAST(nil), gs...)
	sort.SliceStable(ms, func(a, b int) bool { return wkey(&ms[a]) < wkey(&ms[b]) })
	sort.SliceStable(gs, func(a, b int) bool { return wkey(&gs[a]) < wkey(&gs[b]) })
	return cs, ms, gs, nil
}

func genCtors(repo string) (string, error) {
	var b strings.Builder
	b.WriteString("-- REGENERATED by avoh gen-lean Ctors: all constructors / Context methods / package-level functions. Do not edit.\n")
	for i := 0; i < ctorShards; i++ {
		fmt.Fprintf(&b, "import AvoVerif.Gen.Ctors_%02d\n", i)
	}
	b.WriteString("namespace Avo.Gen\nopen Avo.Instr\n")
	for _, kind := range []struct{ n, t string }{{"ctors", "CtorRow"}, {"methods", "WrapRow"}, {"globals", "WrapRow"}} {
		fmt.Fprintf(&b, "def %sShards : List (List %s) := [", kind.n, kind.t)
		for i := 0; i < ctorShards; i++ {
			if i > 0 {
				b.WriteString(", ")
			}
			fmt.Fprintf(&b, "%s_%02d", kind.n, i)
		}
		fmt.Fprintf(&b, "]\ndef %s : List %s := %sShards.flatten\n", kind.n, kind.t, kind.n)
	}
	b.WriteString("end Avo.Gen\n")
	return b.String(), nil
}

func init() {
	genLean["FormsMeta"] = genFormsMeta
	genLean["Forms"] = genForms
	for i := 0; i < formShards; i++ {
		genLean[fmt.Sprintf("Forms_%02d", i)] = genFormsShard(i)
	}
	genLean["Ctors"] = genCtors
	for i := 0; i < ctorShards; i++ {
		genLean[fmt.Sprintf("Ctors_%02d", i)] = genCtorsShard(i)
	}
}
