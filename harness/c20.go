package main

import (
	"fmt"
	"os"
	"path/filepath"
	"strings"

	"github.com/mmcloughlin/avo/operand"
	"github.com/mmcloughlin/avo/reg"
)

// C20: exhaustive correspondence of the REAL register API with the Lean model
// (Model/Reg.lean, Model/RegHW.lean) and acceptor requests stating the property
// on the implementation's own outputs:
//   - every physical register x every view conversion its interface offers
//     (As8/As8L/As8H/As16/As32/As64, AsX/AsY/AsZ): result or `panic`;
//   - virtual registers from reg.Collection x conversions; Collection histories;
//   - reg.LookupID / reg.LookupPhysical, ID.Kind/Index/IsVirtual, Spec.Size/Mask
//     (all 2^16 spec values), operand.Is* classification of every register.

var c20GPMethods = []string{"As8", "As8L", "As8H", "As16", "As32", "As64"}
var c20VecMethods = []string{"AsX", "AsY", "AsZ"}
var c20Ctors = []string{"GP8L", "GP8H", "GP8", "GP16", "GP32", "GP64", "XMM", "YMM", "ZMM", "K"}

// c20Call invokes conversion method m on r; avail=false when r's dynamic type
// does not offer the method; a Go panic is the outcome `panicked`.
func c20Call(r reg.Register, m string) (res reg.Register, avail, panicked bool) {
	defer func() {
		if e := recover(); e != nil {
			res, avail, panicked = nil, true, true
		}
	}()
	res, avail = c20CallRaw(r, m)
	if !avail {
		return nil, false, false
	}
	// "or fails": a nil result (or a wrapper around nil, whose accessors panic) is
	// the same outcome as the panic of the typed wrappers
	if res == nil {
		return nil, true, true
	}
	_, _, _, _, _ = res.ID(), res.Mask(), res.Size(), res.Asm(), res.Kind()
	return res, true, false
}

func c20CallRaw(r reg.Register, m string) (res reg.Register, avail bool) {
	switch m {
	case "As8", "As8L", "As8H", "As16", "As32", "As64":
		g, ok := r.(reg.GP)
		if !ok {
			return nil, false
		}
		switch m {
		case "As8":
			return g.As8(), true
		case "As8L":
			return g.As8L(), true
		case "As8H":
			return g.As8H(), true
		case "As16":
			return g.As16(), true
		case "As32":
			return g.As32(), true
		default:
			return g.As64(), true
		}
	case "AsX", "AsY", "AsZ":
		v, ok := r.(reg.Vec)
		if !ok {
			return nil, false
		}
		switch m {
		case "AsX":
			return v.AsX(), true
		case "AsY":
			return v.AsY(), true
		default:
			return v.AsZ(), true
		}
	}
	return nil, false
}

func c20Methods(r reg.Register) []string {
	var ms []string
	if _, ok := r.(reg.GP); ok {
		ms = append(ms, c20GPMethods...)
	}
	if _, ok := r.(reg.Vec); ok {
		ms = append(ms, c20VecMethods...)
	}
	return ms
}

func c20Alloc(c *reg.Collection, ctor string) reg.Virtual {
	switch ctor {
	case "GP8L":
		return c.GP8L()
	case "GP8H":
		return c.GP8H()
	case "GP8":
		return c.GP8()
	case "GP16":
		return c.GP16()
	case "GP32":
		return c.GP32()
	case "GP64":
		return c.GP64()
	case "XMM":
		return c.XMM()
	case "YMM":
		return c.YMM()
	case "ZMM":
		return c.ZMM()
	case "K":
		return c.K()
	}
	panic("unknown ctor " + ctor)
}

// c20AllocSafe: an allocation that panics (e.g. a loud overflow check) or hands
// out nil is the outcome `failed`, never a crash of the harness.
func c20AllocSafe(c *reg.Collection, ctor string) (v reg.Virtual, ok bool) {
	defer func() {
		if e := recover(); e != nil {
			v, ok = nil, false
		}
	}()
	v = c20Alloc(c, ctor)
	if v == nil {
		return nil, false
	}
	_, _, _, _, _ = v.ID(), v.Mask(), v.Size(), v.Kind(), v.VirtualIndex()
	return v, true
}

// c20CtorKind: the kind a named Collection constructor allocates from (request
// bookkeeping only; what the constructor returns is judged by accept-ctor).
func c20CtorKind(ctor string) reg.Kind {
	switch ctor {
	case "XMM", "YMM", "ZMM":
		return reg.KindVector
	case "K":
		return reg.KindOpmask
	}
	return reg.KindGP
}

// c20Bits: IsRegister IsPseudo IsR8 IsR16 IsR32 IsR64 IsXMM IsYMM IsZMM IsK IsAL IsCL IsAX IsEAX IsRAX IsXMM0
func c20Bits(op operand.Op) string {
	fs := []func(operand.Op) bool{operand.IsRegister, operand.IsPseudo, operand.IsR8, operand.IsR16, operand.IsR32, operand.IsR64,
		operand.IsXMM, operand.IsYMM, operand.IsZMM, operand.IsK, operand.IsAL, operand.IsCL, operand.IsAX, operand.IsEAX,
		operand.IsRAX, operand.IsXMM0}
	b := make([]byte, len(fs))
	for i, f := range fs {
		b[i] = '0'
		if f(op) {
			b[i] = '1'
		}
	}
	return string(b)
}

func c20Tok(s string) string { // a register name as one token
	if s == "" || strings.ContainsAny(s, " \t\n:") {
		return "hex" + hexs(s)
	}
	return s
}

// physical register rendering in responses: id:mask:size:name
func c20Phys(r reg.Register) string {
	return fmt.Sprintf("%d:%d:%d:%s", uint32(r.ID()), r.Mask(), r.Size(), c20Tok(r.Asm()))
}

// virtual register rendering: id:mask:size:kind
func c20Virt(r reg.Register) string {
	return fmt.Sprintf("%d:%d:%d:%d", uint32(r.ID()), r.Mask(), r.Size(), uint8(r.Kind()))
}

func c20Res(r reg.Register, panicked bool) string {
	if panicked || r == nil {
		return "panic"
	}
	return fmt.Sprintf("%d %d %d", uint32(r.ID()), r.Mask(), r.Size())
}

func c20LookupResp(p reg.Physical) string {
	if p == nil {
		return "nil"
	}
	return fmt.Sprintf("%s:%d:%d:%d:%d:%d", c20Tok(p.Asm()), uint8(p.Kind()), uint16(p.PhysicalIndex()), p.Mask(), p.Size(), uint32(p.ID()))
}

// c20Ranks renders a sequence of allocated virtual registers up to the
// numbering policy of the Collection: per kind, the rank of each id in order of
// first appearance (the property pins distinctness, not the index values).
func c20Ranks(vs []reg.Virtual) string {
	rank := map[reg.ID]int{}
	next := map[reg.Kind]int{}
	out := make([]string, len(vs))
	for i, v := range vs {
		rk, ok := rank[v.ID()]
		if !ok {
			rk = next[v.Kind()]
			next[v.Kind()]++
			rank[v.ID()] = rk
		}
		out[i] = fmt.Sprintf("%d:%d:%d", uint8(v.Kind()), rk, v.Mask())
	}
	return strings.Join(out, " ")
}

// c20VasReq: the start register of a `vas` request as the implementation reports it.
func c20VasReq(v reg.Virtual) string {
	return fmt.Sprintf("vas %d %d %d", uint8(v.Kind()), uint16(v.VirtualIndex()), v.Mask())
}

// c20VarReq: what the exported variable reports, as an acceptor request.
// c20VirtOf rebuilds a virtual register with the given kind, index and mask
// through the public API (GP / vector registers through a Collection, so that
// they carry the conversion methods); nil when that is not possible.
func c20VirtOf(kind, idx, mask int) (v reg.Virtual) {
	defer func() {
		if e := recover(); e != nil {
			v = nil
		}
	}()
	if kind < 0 || kind > 255 || idx < 0 || idx > 65535 || mask < 0 || mask > 65535 {
		return nil
	}
	k, s := reg.Kind(kind), reg.Spec(mask)
	c := reg.NewCollection()
	for n := 0; n < 70000; n++ {
		switch k {
		case reg.KindGP:
			v = c.GP(s)
		case reg.KindVector:
			v = c.Vec(s)
		default:
			v = c.VirtualRegister(k, s)
		}
		if v == nil {
			return nil
		}
		if int(v.VirtualIndex()) == idx {
			if int(v.Kind()) != kind || int(v.Mask()) != mask {
				return nil
			}
			return v
		}
	}
	return nil
}

func c20VarReq(v c20Var) string {
	if v.Status != "phys" {
		return fmt.Sprintf("accept-var %s %s", v.Name, v.Status)
	}
	return fmt.Sprintf("accept-var %s %d %s %d %d %d %d %d %d", v.Name, v.Row, c20Tok(v.Asm), v.Kind, v.Idx, v.Mask, v.Size, v.Info, v.ID)
}

// c20EmitVlook: virtual register v allocated to the physical register with p's
// id: reg.Allocation.LookupRegister / LookupDefault / LookupRegisterDefault.
func c20EmitVlook(emit func(kind, req, resp string), v reg.Virtual, p reg.Physical) {
	var res reg.Physical
	var dflt reg.ID
	var rd reg.Register
	failed := func() (failed bool) {
		defer func() {
			if e := recover(); e != nil {
				failed = true
			}
		}()
		a := reg.NewEmptyAllocation()
		a[v.ID()] = p.ID()
		res = a.LookupRegister(v)
		dflt = a.LookupDefault(v.ID())
		rd = a.LookupRegisterDefault(v)
		if res != nil {
			_, _, _, _ = res.ID(), res.Mask(), res.Size(), res.Asm()
		}
		if rd != nil {
			_, _ = rd.ID(), rd.Mask()
		}
		return false
	}()
	req := fmt.Sprintf("%d %d %d %d", uint8(v.Kind()), uint16(v.VirtualIndex()), v.Mask(), uint32(p.ID()))
	if failed {
		emit("vlook", "vlook "+req, "panic")
		emit("accept-vlook", fmt.Sprintf("accept-vlook %d %d %d %d panic", uint8(p.Kind()), uint16(p.PhysicalIndex()), uint32(p.ID()), v.Mask()), "ok")
		return
	}
	rds := "nil"
	if rd != nil {
		rds = fmt.Sprintf("%d:%d", uint32(rd.ID()), rd.Mask())
	}
	emit("vlook", "vlook "+req, fmt.Sprintf("%s %d %s", c20LookupResp(res), uint32(dflt), rds))
	acc := "panic"
	if res != nil {
		acc = c20Res(res, false)
	}
	emit("accept-vlook", fmt.Sprintf("accept-vlook %d %d %d %d %s", uint8(p.Kind()), uint16(p.PhysicalIndex()), uint32(p.ID()), v.Mask(), acc), "ok")
	rda := "nil"
	if rd != nil {
		rda = fmt.Sprintf("%d %d", uint32(rd.ID()), rd.Mask())
	}
	emit("accept-vlookdflt", fmt.Sprintf("accept-vlookdflt %d %d %d %d %d %s", uint8(p.Kind()), uint16(p.PhysicalIndex()), uint32(p.ID()), uint32(v.ID()), v.Mask(), rda), "ok")
}

func init() {
	register("c20", "register model: views, conversions, lookups, ids, specs, classification (exhaustive) + collections", func(args []string) error {
		f := newStdFlags("c20")
		if err := f.fs.Parse(args); err != nil {
			return err
		}
		o, err := openOut(f)
		if err != nil {
			return err
		}
		defer o.close()
		r := newRng(*f.seed)
		stats := map[string]int{}
		seenAccept := map[string]bool{}
		emit := func(kind, req, resp string) {
			if strings.HasPrefix(kind, "accept-") { // identical acceptor questions are asked once
				if seenAccept[req] {
					return
				}
				seenAccept[req] = true
			}
			stats[kind]++
			o.emit(req, resp)
		}

		var all []reg.Physical
		for _, fam := range reg.Families {
			all = append(all, fam.Registers()...)
		}
		c20ProcInit() // snapshot + digest of the table while the process is clean (see c20proc.go)
		if *f.replay != "" {
			lines, err := readLines(*f.replay)
			if err != nil {
				return err
			}
			for _, l := range lines {
				func() {
					defer func() { recover() }() // a line that cannot be replayed on the current tree is skipped, not a crash
					c20Replay(all, *f.repo, filepath.Dir(*f.ops), strings.Fields(l), emit)
				}()
			}
			return writeJSON(*f.stats, map[string]any{"replayed_lines": len(lines), "requests_by_kind": stats})
		}

		// ---- 1. the table rows, their classification, and every single conversion
		conv, convPanics := 0, 0
		for i, p := range all {
			name, kind, idx := p.Asm(), uint8(p.Kind()), uint16(p.PhysicalIndex())
			emit("row", fmt.Sprintf("row %d", i), fmt.Sprintf("%s:%d:%d:%d:%d:%d:%d:%s", c20Tok(name), kind, idx, p.Mask(), p.Size(), uint8(p.Info()), uint32(p.ID()), c20Bits(p)))
			if p.Kind() == reg.KindPseudo {
				continue
			}
			emit("accept-reg", fmt.Sprintf("accept-reg %d %s %d %d %d %d %d", i, c20Tok(name), kind, idx, p.Mask(), p.Size(), uint32(p.ID())), "ok")
			emit("accept-class", fmt.Sprintf("accept-class tbl %s %d %d %d %d %d %s", c20Tok(name), kind, idx, p.Mask(), p.Size(), uint32(p.ID()), c20Bits(p)), "ok")
			for _, m := range c20Methods(p) {
				res, _, panicked := c20Call(p, m)
				conv++
				step := "panic"
				if !panicked {
					step = c20Phys(res) + ":" + c20Bits(res)[:10]
				} else {
					convPanics++
				}
				emit("pas", fmt.Sprintf("pas %d 1 %s", i, m), c20Phys(p)+" "+step)
				emit("accept-as", fmt.Sprintf("accept-as %d %d %d %s %s", kind, idx, uint32(p.ID()), m, c20Res(res, panicked)), "ok")
				if !panicked {
					rk, ridx := uint8(res.Kind()), -1
					if rp := reg.ToPhysical(res); rp != nil {
						ridx = int(rp.PhysicalIndex())
					}
					emit("accept-class", fmt.Sprintf("accept-class conv %s %d %d %d %d %d %s", c20Tok(res.Asm()), rk, ridx, res.Mask(), res.Size(), uint32(res.ID()), c20Bits(res)), "ok")
				}
			}
		}
		// ---- 2. identity: all pairs of physical registers
		for i, p := range all {
			if p.Kind() == reg.KindPseudo {
				continue
			}
			for j := i; j < len(all); j++ {
				q := all[j]
				if q.Kind() == reg.KindPseudo {
					continue
				}
				emit("accept-ident", fmt.Sprintf("accept-ident %d %d %d %d", i, j, uint32(p.ID()), uint32(q.ID())), "ok")
			}
		}
		// ---- 3. lookups
		specs := []reg.Spec{reg.S0, reg.S8L, reg.S8H, reg.S16, reg.S32, reg.S64, reg.S128, reg.S256, reg.S512, 4, 5, 6, 8, 0x80, 0xff, 0x100, 0x10f, 0xffff}
		seenID := map[reg.ID]bool{}
		for _, p := range all {
			if seenID[p.ID()] {
				continue
			}
			seenID[p.ID()] = true
			for _, s := range specs {
				res := reg.LookupID(p.ID(), s)
				emit("lookupid", fmt.Sprintf("lookupid %d %d", uint32(p.ID()), uint16(s)), c20LookupResp(res))
				if p.Kind() != reg.KindPseudo {
					acc := "panic"
					if res != nil {
						acc = c20Res(res, false)
					}
					emit("accept-lookup", fmt.Sprintf("accept-lookup %d %d %d %d %s", uint8(p.Kind()), uint16(p.PhysicalIndex()), uint32(p.ID()), uint16(s), acc), "ok")
				}
			}
			// the same id with the virtual flag (exact), and with junk in the flag byte: such a value is not an id avo
			// ever builds and the property does not pin what LookupID does with it — nil, or the register that the
			// kind and index fields name (acceptor), never another one
			emit("lookupid", fmt.Sprintf("lookupid %d %d", uint32(p.ID()|1), uint16(reg.S64)), c20LookupResp(reg.LookupID(p.ID()|1, reg.S64)))
			for _, id := range []reg.ID{p.ID() | 2, p.ID() | 0x80, p.ID() | 0x81} {
				emit("accept-lookup-junk", fmt.Sprintf("accept-lookup-junk %d %d %s", uint32(id), uint16(reg.S64), c20LookupResp(reg.LookupID(id, reg.S64))), "ok")
			}
			// a virtual id never resolves to a physical register
			for _, s := range specs[:9] {
				emit("accept-lookup-virtual", fmt.Sprintf("accept-lookup-virtual %d %d %s", uint32(p.ID()|1), uint16(s), c20LookupResp(reg.LookupID(p.ID()|1, s))), "ok")
			}
		}
		for k := 0; k <= 4; k++ {
			for idx := 0; idx <= 33; idx++ {
				for _, s := range specs[:12] {
					emit("lookupphys", fmt.Sprintf("lookupphys %d %d %d", k, idx, uint16(s)), c20LookupResp(reg.LookupPhysical(reg.Kind(k), reg.Index(idx), s)))
				}
			}
		}
		// malformed / random lookups
		for n := 0; n < *f.n; n++ {
			id := reg.ID(r.u64())
			if r.chance(3, 4) { // mostly near-valid
				id = reg.ID(uint32(r.intn(2)) | uint32(r.intn(5))<<8 | uint32(r.intn(40))<<16)
				if r.chance(1, 8) {
					id |= reg.ID(r.intn(256)) // junk in the flag byte
				}
			}
			s := pick(r, specs)
			if r.chance(1, 6) {
				s = reg.Spec(r.u64())
			}
			if uint32(id)&0xff <= 1 {
				emit("lookupid", fmt.Sprintf("lookupid %d %d", uint32(id), uint16(s)), c20LookupResp(reg.LookupID(id, s)))
			} else {
				emit("accept-lookup-junk", fmt.Sprintf("accept-lookup-junk %d %d %s", uint32(id), uint16(s), c20LookupResp(reg.LookupID(id, s))), "ok")
			}
			k, idx := reg.Kind(r.intn(6)), reg.Index(r.intn(40))
			if r.chance(1, 10) {
				k, idx = reg.Kind(r.u64()), reg.Index(r.u64())
			}
			emit("lookupphys", fmt.Sprintf("lookupphys %d %d %d", uint8(k), uint16(idx), uint16(s)), c20LookupResp(reg.LookupPhysical(k, idx, s)))
		}
		// ---- 4. ids and specs
		idResp := func(id reg.ID) string {
			v := 0
			if id.IsVirtual() {
				v = 1
			}
			if id.IsPhysical() == id.IsVirtual() {
				v = 2 // never: IsPhysical is the negation
			}
			return fmt.Sprintf("%d %d %d", uint8(id.Kind()), uint16(id.Index()), v)
		}
		for _, v := range []uint32{0, 1} {
			for k := uint32(0); k < 8; k++ {
				for _, idx := range []uint32{0, 1, 2, 3, 4, 15, 16, 31, 32, 255, 256, 257, 65534, 65535} {
					id := reg.ID(v | k<<8 | idx<<16)
					emit("id", fmt.Sprintf("id %d", uint32(id)), idResp(id))
				}
			}
		}
		for n := 0; n < *f.n; n++ {
			id := reg.ID(r.u64())
			emit("id", fmt.Sprintf("id %d", uint32(id)), idResp(id))
		}
		for s := 0; s < 65536; s++ {
			emit("spec", fmt.Sprintf("spec %d", s), fmt.Sprintf("%d %d", reg.Spec(s).Size(), reg.Spec(s).Mask()))
		}
		// ---- 5. virtual registers: every constructor x every conversion, at several counter values
		allocFail := func(kind reg.Kind, n int) {
			// an allocation that fails (panics / nil) is acceptable only once the ids of the kind are exhausted
			emit("accept-alloc-fail", fmt.Sprintf("accept-alloc-fail %d %d", uint8(kind), n), "ok")
		}
		virtAt := func(ctor string, nprev int) reg.Virtual {
			c := reg.NewCollection()
			for i := 0; i < nprev; i++ {
				if _, ok := c20AllocSafe(c, ctor); !ok {
					allocFail(c20CtorKind(ctor), i)
					return nil
				}
			}
			v, ok := c20AllocSafe(c, ctor)
			if !ok {
				allocFail(c20CtorKind(ctor), nprev)
				return nil
			}
			return v
		}
		vconv := func(v reg.Virtual) {
			emit("vas", c20VasReq(v)+" 0", c20Virt(v)+":"+c20Bits(v))
			emit("accept-vclass", fmt.Sprintf("accept-vclass %d %d %s", uint8(v.Kind()), v.Mask(), c20Bits(v)), "ok")
			for _, m := range c20Methods(v) {
				res, _, panicked := c20Call(v, m)
				step := "panic"
				if !panicked {
					step = c20Virt(res) + ":" + c20Bits(res)
					emit("accept-vclass", fmt.Sprintf("accept-vclass %d %d %s", uint8(res.Kind()), res.Mask(), c20Bits(res)), "ok")
				}
				emit("vas", c20VasReq(v)+" 1 "+m, c20Virt(v)+":"+c20Bits(v)+" "+step)
				emit("accept-vas", fmt.Sprintf("accept-vas %d %s %s", uint32(v.ID()), m, c20Res(res, panicked)), "ok")
			}
		}
		for _, ctor := range c20Ctors {
			for _, nprev := range []int{0, 1, 255, 256, 65535} {
				v := virtAt(ctor, nprev)
				if v == nil {
					continue
				}
				emit("accept-ctor", fmt.Sprintf("accept-ctor %s %d %d %d %d", ctor, uint8(v.Kind()), v.Mask(), v.Size(), uint32(v.ID())), "ok")
				vconv(v)
			}
		}
		// ---- 5b. the entry points that take the kind / width as ARGUMENTS: reg.NewVirtual, Family.Virtual,
		// Collection.VirtualRegister, Collection.GP(s), Collection.Vec(s) — every kind 0..4 x 18 spec values (grid) and random
		// arguments.  Exact: `vas` (the register reports the id of its kind and index, the mask asked for, Spec.Size).
		// Acceptor accept-vnew: a virtual register of the kind and width asked for, or failure — and failure exactly
		// when no register of that kind has such a view in hardware.
		vnew := func(entry string, k reg.Kind, s reg.Spec, idx int, get func() reg.Virtual) {
			v, ok := func() (v reg.Virtual, ok bool) {
				defer func() {
					if e := recover(); e != nil {
						v, ok = nil, false
					}
				}()
				v = get()
				if v == nil {
					return nil, false
				}
				_, _, _, _, _ = v.ID(), v.Mask(), v.Size(), v.Kind(), v.VirtualIndex()
				return v, true
			}()
			is := "-"
			if idx >= 0 {
				is = fmt.Sprint(idx)
			}
			res := "panic"
			if ok {
				res = fmt.Sprintf("%d %d %d %d", uint32(v.ID()), v.Mask(), v.Size(), uint8(v.Kind()))
			}
			emit("accept-vnew", fmt.Sprintf("accept-vnew %s %d %d %s %s", entry, uint8(k), uint16(s), is, res), "ok")
			if ok {
				if idx >= 0 { // the index is an argument: everything the register reports is pinned
					emit("vnew", fmt.Sprintf("vnew %d %d %d", uint8(k), idx, uint16(s)), c20Virt(v)+":"+c20Bits(v))
				}
				vconv(v)
			}
		}
		vnewAll := func(k reg.Kind, s reg.Spec, idx reg.Index) {
			vnew("NewVirtual", k, s, int(idx), func() reg.Virtual { return reg.NewVirtual(idx, k, s) })
			if f := reg.FamilyOfKind(k); f != nil {
				vnew("Family.Virtual", k, s, int(idx), func() reg.Virtual { return f.Virtual(idx, s) })
			}
			vnew("VirtualRegister", k, s, -1, func() reg.Virtual { return reg.NewCollection().VirtualRegister(k, s) })
			if k == reg.KindGP {
				vnew("GP", k, s, -1, func() reg.Virtual { return reg.NewCollection().GP(s) })
			}
			if k == reg.KindVector {
				vnew("Vec", k, s, -1, func() reg.Virtual { return reg.NewCollection().Vec(s) })
			}
		}
		for k := 0; k <= 4; k++ {
			for i, s := range specs {
				vnewAll(reg.Kind(k), s, reg.Index([]int{0, 7, 65535}[i%3]))
			}
		}
		for n := 0; n < *f.n/4; n++ {
			k, s, idx := reg.Kind(r.intn(5)), pick(r, specs), reg.Index(r.intn(40))
			if r.chance(1, 6) {
				s = reg.Spec(r.u64())
			}
			if r.chance(1, 10) {
				k, idx = reg.Kind(r.u64()), reg.Index(r.u64())
			}
			vnewAll(k, s, idx)
		}
		// ---- 5c. virtual -> physical: the view of the allocated register (reg.Allocation.LookupRegister / LookupDefault /
		// LookupRegisterDefault, which BindRegisters uses): every virtual constructor x every physical id (all kinds, so
		// also the ill-kinded allocations), under recover
		physIDs := []reg.Physical{}
		{
			seen := map[reg.ID]bool{}
			for _, p := range all {
				if p.Kind() != reg.KindPseudo && !seen[p.ID()] {
					seen[p.ID()] = true
					physIDs = append(physIDs, p)
				}
			}
		}
		for _, ctor := range c20Ctors {
			v := virtAt(ctor, 3)
			if v == nil {
				continue
			}
			for _, p := range physIDs {
				c20EmitVlook(emit, v, p)
			}
		}
		// ---- 6. random conversion chains (physical and virtual)
		chainLens := map[int]int{}
		for n := 0; n < *f.n; n++ {
			var cur reg.Register
			var req string
			var resp []string
			virt := r.chance(1, 3)
			if virt {
				ctor := pick(r, c20Ctors)
				nprev := pick(r, []int{0, 1, 2, 7, 300, 65535})
				v := virtAt(ctor, nprev)
				if v == nil {
					continue
				}
				cur = v
				req = c20VasReq(v)
				resp = append(resp, c20Virt(cur)+":"+c20Bits(cur))
			} else {
				i := r.intn(len(all))
				cur = all[i]
				req = fmt.Sprintf("pas %d", i)
				resp = append(resp, c20Phys(cur))
			}
			ms := c20Methods(cur)
			var chain []string
			if len(ms) > 0 {
				for l := r.rangeIn(2, 5); l > 0; l-- {
					m := pick(r, ms)
					chain = append(chain, m)
					res, avail, panicked := c20Call(cur, m)
					if !avail {
						resp = append(resp, "nomethod")
						break
					}
					if panicked {
						resp = append(resp, "panic")
						break
					}
					if virt {
						resp = append(resp, c20Virt(res)+":"+c20Bits(res))
					} else {
						resp = append(resp, c20Phys(res)+":"+c20Bits(res)[:10])
					}
					cur = res
				}
			}
			chainLens[len(chain)]++
			kind := "pas"
			if virt {
				kind = "vas"
			}
			emit(kind, fmt.Sprintf("%s %d %s", req, len(chain), strings.Join(chain, " ")), strings.Join(resp, " "))
		}
		// ---- 7. collections: random mixed histories (exact ids) and freshness acceptor on pairs
		for n := 0; n < *f.n/4+8; n++ {
			c := reg.NewCollection()
			l := r.rangeIn(1, 40)
			if r.chance(1, 10) {
				l = r.rangeIn(200, 600)
			}
			ctors := make([]string, l)
			vs := make([]reg.Virtual, l)
			perKind := map[reg.Kind][]int{}
			failed := false
			for i := range ctors {
				ctors[i] = pick(r, c20Ctors)
				v, ok := c20AllocSafe(c, ctors[i])
				if !ok {
					allocFail(c20CtorKind(ctors[i]), len(perKind[c20CtorKind(ctors[i])]))
					failed = true
					break
				}
				vs[i] = v
				perKind[vs[i].Kind()] = append(perKind[vs[i].Kind()], i)
			}
			if failed {
				continue
			}
			emit("coll", fmt.Sprintf("coll %d %s", l, strings.Join(ctors, " ")), c20Ranks(vs))
			// first colliding pair if any, else sampled pairs; (i, j) are per-kind allocation numbers
			for _, k := range []reg.Kind{reg.KindGP, reg.KindVector, reg.KindOpmask} {
				idxs := perKind[k]
				if len(idxs) < 2 {
					continue
				}
				seen := map[reg.ID]int{}
				dup := false
				for j, at := range idxs {
					if i, ok := seen[vs[at].ID()]; ok {
						emit("accept-fresh", fmt.Sprintf("accept-fresh %d %d %d %d %d", uint8(k), i, j, uint32(vs[idxs[i]].ID()), uint32(vs[at].ID())), "ok")
						dup = true
						break
					}
					seen[vs[at].ID()] = j
				}
				if !dup {
					for t := 0; t < 3; t++ {
						i, j := r.intn(len(idxs)), r.intn(len(idxs))
						emit("accept-fresh", fmt.Sprintf("accept-fresh %d %d %d %d %d", uint8(k), i, j, uint32(vs[idxs[i]].ID()), uint32(vs[idxs[j]].ID())), "ok")
					}
				}
			}
		}
		// ---- 8. long runs of one kind: 2^16 and 2^16+1 allocations (F13: Index is uint16)
		for _, run := range []struct {
			ctors []string
			count int
		}{{[]string{"GP64"}, 65536}, {[]string{"XMM", "ZMM"}, 65536}, {[]string{"K"}, 65536}, {[]string{"GP64"}, 65537}, {[]string{"XMM", "YMM", "ZMM"}, 65537}, {[]string{"K"}, 65537}, {[]string{"GP8L", "GP8H", "GP16", "GP32"}, 65537}} {
			c := reg.NewCollection()
			ids := make([]reg.ID, 0, run.count)
			kind := c20CtorKind(run.ctors[0])
			for i := 0; i < run.count; i++ {
				v, ok := c20AllocSafe(c, run.ctors[i%len(run.ctors)])
				if !ok {
					// "or fails": refusing the 65537th register of a kind is what a repair of F13 would do
					allocFail(kind, i)
					break
				}
				ids = append(ids, v.ID())
			}
			if run.count <= 65536 && len(ids) == run.count { // exact comparison only inside the guard of virt_fresh; beyond it the acceptor speaks (F13)
				distinct := map[reg.ID]bool{}
				for _, id := range ids {
					distinct[id] = true
				}
				emit("collrun", fmt.Sprintf("collrun %d %s %d", len(run.ctors), strings.Join(run.ctors, " "), run.count), fmt.Sprintf("distinct=%d", len(distinct)))
			}
			if len(ids) < 2 {
				continue
			}
			seen := make(map[reg.ID]int, len(ids))
			dup := false
			for j, id := range ids {
				if i, ok := seen[id]; ok {
					emit("accept-fresh", fmt.Sprintf("accept-fresh %d %d %d %d %d", uint8(kind), i, j, uint32(ids[i]), uint32(id)), "ok")
					dup = true
					break
				}
				seen[id] = j
			}
			if !dup {
				for t := 0; t < 8; t++ {
					i, j := r.intn(len(ids)), r.intn(len(ids))
					emit("accept-fresh", fmt.Sprintf("accept-fresh %d %d %d %d %d", uint8(kind), i, j, uint32(ids[i]), uint32(ids[j])), "ok")
				}
				emit("accept-fresh", fmt.Sprintf("accept-fresh %d %d %d %d %d", uint8(kind), 0, len(ids)-1, uint32(ids[0]), uint32(ids[len(ids)-1])), "ok")
			}
		}
		// ---- 9. the exported register VARIABLES of package reg (enumerated with go/types, observed through a generated
		// program built against the current tree; see c20vars.go)
		vars, err := c20ObserveRegVars(*f.repo, filepath.Dir(*f.ops))
		if err != nil {
			return fmt.Errorf("exported register variables: %v", err)
		}
		nonPhys := 0
		for _, v := range vars {
			// the property speaks of the PHYSICAL registers avo exposes: a (hypothetical) exported variable holding nil or a
			// virtual register is counted, not judged; the floor on judged variables (c20.py) keeps this from hiding the rest
			if v.Status == "nil" || v.Status == "nonphysical" {
				nonPhys++
				continue
			}
			emit("accept-var", c20VarReq(v), "ok")
		}
		stats["exported-variable-not-physical(skipped)"] = nonPhys
		// ---- 9a. indices that FOLD onto a real register when the index is narrowed: for every real index k of every kind the
		// indices k+256, k+512, k+65280, and 255, 256, 65535, each with every spec, through Family.Lookup, LookupPhysical,
		// LookupID and Allocation.LookupRegister (an entry naming such an id): no register has such an index
		{
			realIdx := map[reg.Kind]map[int]bool{}
			for _, p := range all {
				if realIdx[p.Kind()] == nil {
					realIdx[p.Kind()] = map[int]bool{}
				}
				realIdx[p.Kind()][int(p.PhysicalIndex())] = true
			}
			for _, fam := range reg.Families {
				k := fam.Kind
				idxs := []int{255, 256, 65535}
				for i := 0; i < 256; i++ {
					if realIdx[k][i] {
						idxs = append(idxs, i+256, i+512, i+65280)
					}
				}
				for _, idx := range idxs {
					folds := idx >= 256 && realIdx[k][idx%256]
					for _, sp := range specs {
						req := fmt.Sprintf("lookupphys %d %d %d", uint8(k), idx, uint16(sp))
						emit("lookupphys", req, c20LookupResp(reg.LookupPhysical(k, reg.Index(idx), sp)))
						emit("lookupphys", req, c20LookupResp(fam.Lookup(reg.Index(idx), sp)))
						id := c20ID(false, int(k), idx)
						emit("lookupid", fmt.Sprintf("lookupid %d %d", uint32(id), uint16(sp)), c20LookupResp(reg.LookupID(id, sp)))
						if folds {
							stats["lookup:index-folds-to-real-register-mod-256"] += 3
						}
					}
					for _, sp := range c20AllocnSpecs[int(k)] {
						v := reg.NewVirtual(3, k, sp)
						c20AllocnEmit(emit, v, []c20Pair{{v.ID(), c20ID(false, int(k), idx)}}, nil)
						if folds {
							stats["lookup:index-folds-to-real-register-mod-256"]++
						}
					}
				}
			}
		}
		// ---- 9b. reg.Allocation on partial allocations (c20allocn.go)
		c20AllocnGenerate(r, *f.n/4, all, emit, stats)
		// ---- 10 + 11. LAST: the process is used.  11 (c20proc.go): compiles, allocators, caller-mutated accessor results, … with
		// the exhaustive table / API stream re-evaluated after every step; 10 (c20ctx.go): histories of calls on a build.Context
		// (methods and package-level functions): every register it hands out, before / between / after functions, with every
		// other call in between — run as one step of 11 (it compiles too).  Nothing after this point is clean.
		thorough := *f.n >= 20000
		ctxSection := func() string {
			seed := r.intn(1 << 20)
			c20CtxGenerate(newRng(uint64(seed)), *f.n/4, thorough, emit, stats)
			t := 0
			if thorough {
				t = 1
			}
			return fmt.Sprintf("ctxhist:%d:%d:%d", seed, *f.n/4, t)
		}
		if thorough {
			c20ProcGenerate(r, 120, 40, ctxSection, emit, stats)
		} else {
			c20ProcGenerate(r, 24, 25, ctxSection, emit, stats)
		}
		st := map[string]any{"physical_rows": len(all), "single_conversions": conv, "single_conversions_panicking": convPanics,
			"random_chain_lengths": chainLens, "requests_by_kind": stats, "exported_register_variables": len(vars)}
		return writeJSON(*f.stats, st)
	})
}

// c20Replay re-runs one request line of a replay / corpus file against the
// current implementation: the inputs are taken from the line, every output
// (also the implementation outputs embedded in `accept-` lines) is recomputed.
func c20Replay(all []reg.Physical, repo, dir string, ts []string, emit func(kind, req, resp string)) {
	if len(ts) == 0 {
		return
	}
	atoi := func(s string) int {
		n := 0
		for _, c := range s {
			if c < '0' || c > '9' {
				return -1
			}
			n = n*10 + int(c-'0')
		}
		return n
	}
	arg := func(i int) int {
		if i < len(ts) {
			return atoi(ts[i])
		}
		return -1
	}
	physRow := func(i int) reg.Physical {
		if i < 0 || i >= len(all) {
			return nil
		}
		return all[i]
	}
	virtAt := func(ctor string, nprev int) reg.Virtual {
		c := reg.NewCollection()
		for i := 0; i < nprev; i++ {
			if _, ok := c20AllocSafe(c, ctor); !ok {
				emit("accept-alloc-fail", fmt.Sprintf("accept-alloc-fail %d %d", uint8(c20CtorKind(ctor)), i), "ok")
				return nil
			}
		}
		v, ok := c20AllocSafe(c, ctor)
		if !ok {
			emit("accept-alloc-fail", fmt.Sprintf("accept-alloc-fail %d %d", uint8(c20CtorKind(ctor)), nprev), "ok")
			return nil
		}
		return v
	}
	knownCtor := func(c string) bool {
		for _, x := range c20Ctors {
			if x == c {
				return true
			}
		}
		return false
	}
	ctorOfKind := map[int]string{int(reg.KindGP): "GP64", int(reg.KindVector): "XMM", int(reg.KindOpmask): "K"}
	line := strings.Join(ts, " ")
	chain := func(cur reg.Register, virt bool, ms []string) []string {
		var resp []string
		for _, m := range ms {
			res, avail, panicked := c20Call(cur, m)
			if !avail {
				return append(resp, "nomethod")
			}
			if panicked {
				return append(resp, "panic")
			}
			if virt {
				resp = append(resp, c20Virt(res)+":"+c20Bits(res))
			} else {
				resp = append(resp, c20Phys(res)+":"+c20Bits(res)[:10])
			}
			cur = res
		}
		return resp
	}
	switch ts[0] {
	case "ctxh", "accept-ctxfresh":
		c20CtxReplay(ts, emit)
	case "alook", "accept-alookup", "amerge":
		c20AllocnReplay(ts, emit)
	case "tblh", "after", "accept-after":
		c20ProcReplay(ts, emit, map[string]int{})
	case "row":
		if p := physRow(arg(1)); p != nil {
			emit("row", line, fmt.Sprintf("%s:%d:%d:%d:%d:%d:%d:%s", c20Tok(p.Asm()), uint8(p.Kind()), uint16(p.PhysicalIndex()), p.Mask(), p.Size(), uint8(p.Info()), uint32(p.ID()), c20Bits(p)))
		}
	case "pas":
		if p := physRow(arg(1)); p != nil && len(ts) >= 3 {
			emit("pas", line, strings.Join(append([]string{c20Phys(p)}, chain(p, false, ts[3:])...), " "))
		}
	case "vas":
		// vas <kind> <idx> <mask> <n> methods…: rebuild a register with that kind, index and mask through a Collection
		if len(ts) < 5 || arg(2) < 0 || arg(2) > 65535 {
			return
		}
		if v := c20VirtOf(arg(1), arg(2), arg(3)); v != nil {
			emit("vas", c20VasReq(v)+" "+strings.Join(ts[4:], " "), strings.Join(append([]string{c20Virt(v) + ":" + c20Bits(v)}, chain(v, true, ts[5:])...), " "))
		}
	case "vnew":
		if arg(1) >= 0 && arg(2) >= 0 && arg(3) >= 0 {
			func() {
				defer func() { recover() }()
				v := reg.NewVirtual(reg.Index(arg(2)), reg.Kind(arg(1)), reg.Spec(arg(3)))
				emit("vnew", line, c20Virt(v)+":"+c20Bits(v))
			}()
		}
	case "accept-vnew":
		// accept-vnew <entry> <kind> <spec> <idx|-> …
		if len(ts) >= 5 && arg(2) >= 0 && arg(3) >= 0 {
			k, sp, idx := reg.Kind(arg(2)), reg.Spec(arg(3)), arg(4)
			var get func() reg.Virtual
			switch ts[1] {
			case "NewVirtual":
				get = func() reg.Virtual { return reg.NewVirtual(reg.Index(idx), k, sp) }
			case "Family.Virtual":
				if f := reg.FamilyOfKind(k); f != nil {
					get = func() reg.Virtual { return f.Virtual(reg.Index(idx), sp) }
				}
			case "VirtualRegister":
				get = func() reg.Virtual { return reg.NewCollection().VirtualRegister(k, sp) }
			case "GP":
				get = func() reg.Virtual { return reg.NewCollection().GP(sp) }
			case "Vec":
				get = func() reg.Virtual { return reg.NewCollection().Vec(sp) }
			}
			if get == nil || ((ts[1] == "NewVirtual" || ts[1] == "Family.Virtual") && idx < 0) {
				return
			}
			res := "panic"
			func() {
				defer func() { recover() }()
				if v := get(); v != nil {
					res = fmt.Sprintf("%d %d %d %d", uint32(v.ID()), v.Mask(), v.Size(), uint8(v.Kind()))
				}
			}()
			emit("accept-vnew", fmt.Sprintf("accept-vnew %s %d %d %s %s", ts[1], arg(2), arg(3), ts[4], res), "ok")
		}
	case "vlook", "accept-vlook", "accept-vlookdflt":
		// vlook <vkind> <vidx> <vmask> <pid>  |  accept-vlook <pkind> <pidx> <pid> <vmask> …  |  accept-vlookdflt <pkind> <pidx> <pid> <vid> <vmask> …
		var v reg.Virtual
		var pid reg.ID
		if ts[0] == "vlook" && arg(4) >= 0 {
			v, pid = c20VirtOf(arg(1), arg(2), arg(3)), reg.ID(arg(4))
		} else if ts[0] == "accept-vlook" && arg(3) >= 0 {
			v, pid = c20VirtOf(int(reg.ID(arg(3)).Kind()), 3, arg(4)), reg.ID(arg(3))
		} else if ts[0] == "accept-vlookdflt" && arg(3) >= 0 && arg(4) >= 0 {
			v, pid = c20VirtOf(int(reg.ID(arg(4)).Kind()), int(reg.ID(arg(4)).Index()), arg(5)), reg.ID(arg(3))
		}
		if v == nil {
			return
		}
		for _, p := range all {
			if p.ID() == pid && p.Kind() != reg.KindPseudo {
				only := ts[0]
				c20EmitVlook(func(kind, req, resp string) {
					if kind == only {
						emit(kind, req, resp)
					}
				}, v, p)
				break
			}
		}
	case "accept-lookup-junk":
		if arg(1) >= 0 && arg(2) >= 0 {
			emit("accept-lookup-junk", fmt.Sprintf("accept-lookup-junk %d %d %s", arg(1), arg(2), c20LookupResp(reg.LookupID(reg.ID(arg(1)), reg.Spec(arg(2))))), "ok")
		}
	case "accept-alloc-fail":
		// accept-alloc-fail <kind> <n>: does allocation number n of the kind fail now?
		if ctor, ok := ctorOfKind[arg(1)]; ok && arg(2) >= 0 && arg(2) <= 1<<20 {
			virtAt(ctor, arg(2)) // emits the line itself when an allocation fails
		}
	case "accept-var":
		if len(ts) >= 2 {
			vars, err := c20ObserveRegVars(repo, dir)
			if err != nil {
				fmt.Fprintln(os.Stderr, "c20 replay: exported register variables:", err)
				return
			}
			for _, v := range vars {
				if v.Name == ts[1] {
					emit("accept-var", c20VarReq(v), "ok")
				}
			}
		}
	case "accept-ctor":
		if len(ts) >= 2 && knownCtor(ts[1]) {
			if v := virtAt(ts[1], 0); v != nil {
				emit("accept-ctor", fmt.Sprintf("accept-ctor %s %d %d %d %d", ts[1], uint8(v.Kind()), v.Mask(), v.Size(), uint32(v.ID())), "ok")
			}
		}
	case "coll":
		c := reg.NewCollection()
		var vs []reg.Virtual
		for _, ctor := range ts[2:] {
			if !knownCtor(ctor) {
				return
			}
			v, ok := c20AllocSafe(c, ctor)
			if !ok {
				emit("accept-alloc-fail", fmt.Sprintf("accept-alloc-fail %d %d", uint8(c20CtorKind(ctor)), len(vs)), "ok")
				return
			}
			vs = append(vs, v)
		}
		emit("coll", line, c20Ranks(vs))
	case "collrun":
		nc := arg(1)
		if nc <= 0 || len(ts) < 3+nc {
			return
		}
		ctors := ts[2 : 2+nc]
		for _, c := range ctors {
			if !knownCtor(c) {
				return
			}
		}
		count := arg(2 + nc)
		if count <= 0 || count > 1<<20 {
			return
		}
		c := reg.NewCollection()
		distinct := map[reg.ID]bool{}
		for i := 0; i < count; i++ {
			v, ok := c20AllocSafe(c, ctors[i%nc])
			if !ok {
				emit("accept-alloc-fail", fmt.Sprintf("accept-alloc-fail %d %d", uint8(c20CtorKind(ctors[0])), i), "ok")
				return
			}
			distinct[v.ID()] = true
		}
		emit("collrun", line, fmt.Sprintf("distinct=%d", len(distinct)))
	case "lookupid":
		if arg(1) >= 0 && arg(2) >= 0 {
			emit("lookupid", line, c20LookupResp(reg.LookupID(reg.ID(arg(1)), reg.Spec(arg(2)))))
		}
	case "lookupphys":
		if arg(1) >= 0 && arg(2) >= 0 && arg(3) >= 0 {
			emit("lookupphys", line, c20LookupResp(reg.LookupPhysical(reg.Kind(arg(1)), reg.Index(arg(2)), reg.Spec(arg(3)))))
		}
	case "id":
		if arg(1) >= 0 {
			id := reg.ID(arg(1))
			v := 0
			if id.IsVirtual() {
				v = 1
			}
			emit("id", line, fmt.Sprintf("%d %d %d", uint8(id.Kind()), uint16(id.Index()), v))
		}
	case "spec":
		if arg(1) >= 0 {
			emit("spec", line, fmt.Sprintf("%d %d", reg.Spec(arg(1)).Size(), reg.Spec(arg(1)).Mask()))
		}
	case "accept-reg":
		if p := physRow(arg(1)); p != nil && p.Kind() != reg.KindPseudo {
			emit("accept-reg", fmt.Sprintf("accept-reg %d %s %d %d %d %d %d", arg(1), c20Tok(p.Asm()), uint8(p.Kind()), uint16(p.PhysicalIndex()), p.Mask(), p.Size(), uint32(p.ID())), "ok")
		}
	case "accept-ident":
		p, q := physRow(arg(1)), physRow(arg(2))
		if p != nil && q != nil {
			emit("accept-ident", fmt.Sprintf("accept-ident %d %d %d %d", arg(1), arg(2), uint32(p.ID()), uint32(q.ID())), "ok")
		}
	case "accept-as", "accept-lookup":
		// any register of the table with that kind and index
		for _, p := range all {
			if int(p.Kind()) != arg(1) || int(p.PhysicalIndex()) != arg(2) || p.Kind() == reg.KindPseudo || len(ts) < 5 {
				continue
			}
			if ts[0] == "accept-as" {
				res, avail, panicked := c20Call(p, ts[4])
				if !avail {
					continue
				}
				emit("accept-as", fmt.Sprintf("accept-as %d %d %d %s %s", arg(1), arg(2), uint32(p.ID()), ts[4], c20Res(res, panicked)), "ok")
			} else {
				res := reg.LookupID(p.ID(), reg.Spec(arg(4)))
				acc := "panic"
				if res != nil {
					acc = c20Res(res, false)
				}
				emit("accept-lookup", fmt.Sprintf("accept-lookup %d %d %d %d %s", arg(1), arg(2), uint32(p.ID()), arg(4), acc), "ok")
			}
			break
		}
	case "accept-lookup-virtual":
		if arg(1) >= 0 && arg(2) >= 0 {
			emit("accept-lookup-virtual", fmt.Sprintf("accept-lookup-virtual %d %d %s", arg(1), arg(2), c20LookupResp(reg.LookupID(reg.ID(arg(1)), reg.Spec(arg(2))))), "ok")
		}
	case "accept-vas":
		if arg(1) >= 0 && len(ts) >= 3 {
			id := reg.ID(arg(1))
			if ctor, ok := ctorOfKind[int(id.Kind())]; ok {
				v := virtAt(ctor, int(id.Index()))
				if v == nil {
					return
				}
				res, avail, panicked := c20Call(v, ts[2])
				if avail {
					emit("accept-vas", fmt.Sprintf("accept-vas %d %s %s", uint32(v.ID()), ts[2], c20Res(res, panicked)), "ok")
				}
			}
		}
	case "accept-fresh":
		ctor, ok := ctorOfKind[arg(1)]
		i, j := arg(2), arg(3)
		if ok && i >= 0 && j >= 0 && i <= 1<<20 && j <= 1<<20 {
			c := reg.NewCollection()
			var a, b reg.ID
			for n := 0; n <= i || n <= j; n++ {
				v, ok := c20AllocSafe(c, ctor)
				if !ok {
					emit("accept-alloc-fail", fmt.Sprintf("accept-alloc-fail %d %d", arg(1), n), "ok")
					return
				}
				if n == i {
					a = v.ID()
				}
				if n == j {
					b = v.ID()
				}
			}
			emit("accept-fresh", fmt.Sprintf("accept-fresh %d %d %d %d %d", arg(1), i, j, uint32(a), uint32(b)), "ok")
		}
	case "accept-class":
		if len(ts) < 9 {
			return
		}
		for _, p := range all {
			if p.Kind() == reg.KindPseudo {
				continue
			}
			if ts[1] == "tbl" {
				if c20Tok(p.Asm()) == ts[2] && int(p.Kind()) == arg(3) && int(p.Mask()) == arg(5) {
					emit("accept-class", fmt.Sprintf("accept-class tbl %s %d %d %d %d %d %s", c20Tok(p.Asm()), uint8(p.Kind()), uint16(p.PhysicalIndex()), p.Mask(), p.Size(), uint32(p.ID()), c20Bits(p)), "ok")
				}
				continue
			}
			for _, m := range c20Methods(p) {
				res, _, panicked := c20Call(p, m)
				if panicked || c20Tok(res.Asm()) != ts[2] || int(res.Kind()) != arg(3) || int(res.Mask()) != arg(5) {
					continue
				}
				ridx := -1
				if rp := reg.ToPhysical(res); rp != nil {
					ridx = int(rp.PhysicalIndex())
				}
				emit("accept-class", fmt.Sprintf("accept-class conv %s %d %d %d %d %d %s", c20Tok(res.Asm()), uint8(res.Kind()), ridx, res.Mask(), res.Size(), uint32(res.ID()), c20Bits(res)), "ok")
			}
		}
	case "accept-vclass":
		for _, ctor := range c20Ctors {
			v := virtAt(ctor, 0)
			if v != nil && int(v.Kind()) == arg(1) && int(v.Mask()) == arg(2) {
				emit("accept-vclass", fmt.Sprintf("accept-vclass %d %d %s", uint8(v.Kind()), v.Mask(), c20Bits(v)), "ok")
				break
			}
		}
	}
}
