package main

import (
	"fmt"
	"strings"

	"github.com/mmcloughlin/avo/operand"
	"github.com/mmcloughlin/avo/reg"
)

// C20: exhaustive correspondence of the REAL register API with the Lean model
// (Model/Reg.lean, Model/RegHW.lean) and acceptor requests stating the property
// on the implementation's own outputs:
//   - every physical register x every view conversion its interface offers
//     (As8/As8L/As8H/As16/As32/As64, AsX/AsY/AsZ): result or `panic`;
//   - virtual registers from reg.Collection x conversions; Collection histories;
//   - reg.LookupID / reg.LookupPhysical, ID.Kind/Index/IsVirtual, Spec.Size/Mask
//     (all 2^16 spec values), operand.Is* classification of every register.

var c20GPMethods = []string{"As8", "As8L", "As8H", "As16", "As32", "As64"}
var c20VecMethods = []string{"AsX", "AsY", "AsZ"}
var c20Ctors = []string{"GP8L", "GP8H", "GP8", "GP16", "GP32", "GP64", "XMM", "YMM", "ZMM", "K"}

// c20Call invokes conversion method m on r; avail=false when r's dynamic type
// does not offer the method; a Go panic is the outcome `panicked`.
func c20Call(r reg.Register, m string) (res reg.Register, avail, panicked bool) {
	defer func() {
		if e := recover(); e != nil {
			res, avail, panicked = nil, true, true
		}
	}()
	switch m {
	case "As8", "As8L", "As8H", "As16", "As32", "As64":
		g, ok := r.(reg.GP)
		if !ok {
			return nil, false, false
		}
		switch m {
		case "As8":
			return g.As8(), true, false
		case "As8L":
			return g.As8L(), true, false
		case "As8H":
			return g.As8H(), true, false
		case "As16":
			return g.As16(), true, false
		case "As32":
			return g.As32(), true, false
		default:
			return g.As64(), true, false
		}
	case "AsX", "AsY", "AsZ":
		v, ok := r.(reg.Vec)
		if !ok {
			return nil, false, false
		}
		switch m {
		case "AsX":
			return v.AsX(), true, false
		case "AsY":
			return v.AsY(), true, false
		default:
			return v.AsZ(), true, false
		}
	}
	return nil, false, false
}

func c20Methods(r reg.Register) []string {
	var ms []string
	if _, ok := r.(reg.GP); ok {
		ms = append(ms, c20GPMethods...)
	}
	if _, ok := r.(reg.Vec); ok {
		ms = append(ms, c20VecMethods...)
	}
	return ms
}

func c20Alloc(c *reg.Collection, ctor string) reg.Virtual {
	switch ctor {
	case "GP8L":
		return c.GP8L()
	case "GP8H":
		return c.GP8H()
	case "GP8":
		return c.GP8()
	case "GP16":
		return c.GP16()
	case "GP32":
		return c.GP32()
	case "GP64":
		return c.GP64()
	case "XMM":
		return c.XMM()
	case "YMM":
		return c.YMM()
	case "ZMM":
		return c.ZMM()
	case "K":
		return c.K()
	}
	panic("unknown ctor " + ctor)
}

// c20Bits: IsRegister IsPseudo IsR8 IsR16 IsR32 IsR64 IsXMM IsYMM IsZMM IsK IsAL IsCL IsAX IsEAX IsRAX IsXMM0
func c20Bits(op operand.Op) string {
	fs := []func(operand.Op) bool{operand.IsRegister, operand.IsPseudo, operand.IsR8, operand.IsR16, operand.IsR32, operand.IsR64,
		operand.IsXMM, operand.IsYMM, operand.IsZMM, operand.IsK, operand.IsAL, operand.IsCL, operand.IsAX, operand.IsEAX,
		operand.IsRAX, operand.IsXMM0}
	b := make([]byte, len(fs))
	for i, f := range fs {
		b[i] = '0'
		if f(op) {
			b[i] = '1'
		}
	}
	return string(b)
}

func c20Tok(s string) string { // a register name as one token
	if s == "" || strings.ContainsAny(s, " \t\n:") {
		return "hex" + hexs(s)
	}
	return s
}

// physical register rendering in responses: id:mask:size:name
func c20Phys(r reg.Register) string {
	return fmt.Sprintf("%d:%d:%d:%s", uint32(r.ID()), r.Mask(), r.Size(), c20Tok(r.Asm()))
}

// virtual register rendering: id:mask:size:kind
func c20Virt(r reg.Register) string {
	return fmt.Sprintf("%d:%d:%d:%d", uint32(r.ID()), r.Mask(), r.Size(), uint8(r.Kind()))
}

func c20Res(r reg.Register, panicked bool) string {
	if panicked || r == nil {
		return "panic"
	}
	return fmt.Sprintf("%d %d %d", uint32(r.ID()), r.Mask(), r.Size())
}

func c20LookupResp(p reg.Physical) string {
	if p == nil {
		return "nil"
	}
	return fmt.Sprintf("%s:%d:%d:%d:%d:%d", c20Tok(p.Asm()), uint8(p.Kind()), uint16(p.PhysicalIndex()), p.Mask(), p.Size(), uint32(p.ID()))
}

// c20Ranks renders a sequence of allocated virtual registers up to the
// numbering policy of the Collection: per kind, the rank of each id in order of
// first appearance (the property pins distinctness, not the index values).
func c20Ranks(vs []reg.Virtual) string {
	rank := map[reg.ID]int{}
	next := map[reg.Kind]int{}
	out := make([]string, len(vs))
	for i, v := range vs {
		rk, ok := rank[v.ID()]
		if !ok {
			rk = next[v.Kind()]
			next[v.Kind()]++
			rank[v.ID()] = rk
		}
		out[i] = fmt.Sprintf("%d:%d:%d", uint8(v.Kind()), rk, v.Mask())
	}
	return strings.Join(out, " ")
}

// c20VasReq: the start register of a `vas` request as the implementation reports it.
func c20VasReq(v reg.Virtual) string {
	return fmt.Sprintf("vas %d %d %d", uint8(v.Kind()), uint16(v.VirtualIndex()), v.Mask())
}

func init() {
	register("c20", "register model: views, conversions, lookups, ids, specs, classification (exhaustive) + collections", func(args []string) error {
		f := newStdFlags("c20")
		if err := f.fs.Parse(args); err != nil {
			return err
		}
		o, err := openOut(f)
		if err != nil {
			return err
		}
		defer o.close()
		r := newRng(*f.seed)
		stats := map[string]int{}
		seenAccept := map[string]bool{}
		emit := func(kind, req, resp string) {
			if strings.HasPrefix(kind, "accept-") { // identical acceptor questions are asked once
				if seenAccept[req] {
					return
				}
				seenAccept[req] = true
			}
			stats[kind]++
			o.emit(req, resp)
		}

		var all []reg.Physical
		for _, fam := range reg.Families {
			all = append(all, fam.Registers()...)
		}
		if *f.replay != "" {
			lines, err := readLines(*f.replay)
			if err != nil {
				return err
			}
			for _, l := range lines {
				c20Replay(all, strings.Fields(l), emit)
			}
			return writeJSON(*f.stats, map[string]any{"replayed_lines": len(lines), "requests_by_kind": stats})
		}

		// ---- 1. the table rows, their classification, and every single conversion
		conv, convPanics := 0, 0
		for i, p := range all {
			name, kind, idx := p.Asm(), uint8(p.Kind()), uint16(p.PhysicalIndex())
			emit("row", fmt.Sprintf("row %d", i), fmt.Sprintf("%s:%d:%d:%d:%d:%d:%d:%s", c20Tok(name), kind, idx, p.Mask(), p.Size(), uint8(p.Info()), uint32(p.ID()), c20Bits(p)))
			if p.Kind() == reg.KindPseudo {
				continue
			}
			emit("accept-reg", fmt.Sprintf("accept-reg %d %s %d %d %d %d %d", i, c20Tok(name), kind, idx, p.Mask(), p.Size(), uint32(p.ID())), "ok")
			emit("accept-class", fmt.Sprintf("accept-class tbl %s %d %d %d %d %d %s", c20Tok(name), kind, idx, p.Mask(), p.Size(), uint32(p.ID()), c20Bits(p)), "ok")
			for _, m := range c20Methods(p) {
				res, _, panicked := c20Call(p, m)
				conv++
				step := "panic"
				if !panicked {
					step = c20Phys(res) + ":" + c20Bits(res)[:10]
				} else {
					convPanics++
				}
				emit("pas", fmt.Sprintf("pas %d 1 %s", i, m), c20Phys(p)+" "+step)
				emit("accept-as", fmt.Sprintf("accept-as %d %d %d %s %s", kind, idx, uint32(p.ID()), m, c20Res(res, panicked)), "ok")
				if !panicked {
					rk, ridx := uint8(res.Kind()), -1
					if rp := reg.ToPhysical(res); rp != nil {
						ridx = int(rp.PhysicalIndex())
					}
					emit("accept-class", fmt.Sprintf("accept-class conv %s %d %d %d %d %d %s", c20Tok(res.Asm()), rk, ridx, res.Mask(), res.Size(), uint32(res.ID()), c20Bits(res)), "ok")
				}
			}
		}
		// ---- 2. identity: all pairs of physical registers
		for i, p := range all {
			if p.Kind() == reg.KindPseudo {
				continue
			}
			for j := i; j < len(all); j++ {
				q := all[j]
				if q.Kind() == reg.KindPseudo {
					continue
				}
				emit("accept-ident", fmt.Sprintf("accept-ident %d %d %d %d", i, j, uint32(p.ID()), uint32(q.ID())), "ok")
			}
		}
		// ---- 3. lookups
		specs := []reg.Spec{reg.S0, reg.S8L, reg.S8H, reg.S16, reg.S32, reg.S64, reg.S128, reg.S256, reg.S512, 4, 5, 6, 8, 0x80, 0xff, 0x100, 0x10f, 0xffff}
		seenID := map[reg.ID]bool{}
		for _, p := range all {
			if seenID[p.ID()] {
				continue
			}
			seenID[p.ID()] = true
			for _, s := range specs {
				res := reg.LookupID(p.ID(), s)
				emit("lookupid", fmt.Sprintf("lookupid %d %d", uint32(p.ID()), uint16(s)), c20LookupResp(res))
				if p.Kind() != reg.KindPseudo {
					acc := "panic"
					if res != nil {
						acc = c20Res(res, false)
					}
					emit("accept-lookup", fmt.Sprintf("accept-lookup %d %d %d %d %s", uint8(p.Kind()), uint16(p.PhysicalIndex()), uint32(p.ID()), uint16(s), acc), "ok")
				}
			}
			// the same id with the virtual flag, and with junk in the flag byte
			for _, id := range []reg.ID{p.ID() | 1, p.ID() | 2, p.ID() | 0x80} {
				emit("lookupid", fmt.Sprintf("lookupid %d %d", uint32(id), uint16(reg.S64)), c20LookupResp(reg.LookupID(id, reg.S64)))
			}
			// a virtual id never resolves to a physical register
			for _, s := range specs[:9] {
				emit("accept-lookup-virtual", fmt.Sprintf("accept-lookup-virtual %d %d %s", uint32(p.ID()|1), uint16(s), c20LookupResp(reg.LookupID(p.ID()|1, s))), "ok")
			}
		}
		for k := 0; k <= 4; k++ {
			for idx := 0; idx <= 33; idx++ {
				for _, s := range specs[:12] {
					emit("lookupphys", fmt.Sprintf("lookupphys %d %d %d", k, idx, uint16(s)), c20LookupResp(reg.LookupPhysical(reg.Kind(k), reg.Index(idx), s)))
				}
			}
		}
		// malformed / random lookups
		for n := 0; n < *f.n; n++ {
			id := reg.ID(r.u64())
			if r.chance(3, 4) { // mostly near-valid
				id = reg.ID(uint32(r.intn(2)) | uint32(r.intn(5))<<8 | uint32(r.intn(40))<<16)
				if r.chance(1, 8) {
					id |= reg.ID(r.intn(256)) // junk in the flag byte
				}
			}
			s := pick(r, specs)
			if r.chance(1, 6) {
				s = reg.Spec(r.u64())
			}
			emit("lookupid", fmt.Sprintf("lookupid %d %d", uint32(id), uint16(s)), c20LookupResp(reg.LookupID(id, s)))
			k, idx := reg.Kind(r.intn(6)), reg.Index(r.intn(40))
			if r.chance(1, 10) {
				k, idx = reg.Kind(r.u64()), reg.Index(r.u64())
			}
			emit("lookupphys", fmt.Sprintf("lookupphys %d %d %d", uint8(k), uint16(idx), uint16(s)), c20LookupResp(reg.LookupPhysical(k, idx, s)))
		}
		// ---- 4. ids and specs
		idResp := func(id reg.ID) string {
			v := 0
			if id.IsVirtual() {
				v = 1
			}
			if id.IsPhysical() == id.IsVirtual() {
				v = 2 // never: IsPhysical is the negation
			}
			return fmt.Sprintf("%d %d %d", uint8(id.Kind()), uint16(id.Index()), v)
		}
		for _, v := range []uint32{0, 1} {
			for k := uint32(0); k < 8; k++ {
				for _, idx := range []uint32{0, 1, 2, 3, 4, 15, 16, 31, 32, 255, 256, 257, 65534, 65535} {
					id := reg.ID(v | k<<8 | idx<<16)
					emit("id", fmt.Sprintf("id %d", uint32(id)), idResp(id))
				}
			}
		}
		for n := 0; n < *f.n; n++ {
			id := reg.ID(r.u64())
			emit("id", fmt.Sprintf("id %d", uint32(id)), idResp(id))
		}
		for s := 0; s < 65536; s++ {
			emit("spec", fmt.Sprintf("spec %d", s), fmt.Sprintf("%d %d", reg.Spec(s).Size(), reg.Spec(s).Mask()))
		}
		// ---- 5. virtual registers: every constructor x every conversion, at several counter values
		virtAt := func(ctor string, nprev int) reg.Virtual {
			c := reg.NewCollection()
			for i := 0; i < nprev; i++ {
				c20Alloc(c, ctor)
			}
			return c20Alloc(c, ctor)
		}
		for _, ctor := range c20Ctors {
			for _, nprev := range []int{0, 1, 255, 256, 65535} {
				v := virtAt(ctor, nprev)
				emit("accept-ctor", fmt.Sprintf("accept-ctor %s %d %d %d %d", ctor, uint8(v.Kind()), v.Mask(), v.Size(), uint32(v.ID())), "ok")
				emit("vas", c20VasReq(v)+" 0", c20Virt(v)+":"+c20Bits(v))
				emit("accept-vclass", fmt.Sprintf("accept-vclass %d %d %s", uint8(v.Kind()), v.Mask(), c20Bits(v)), "ok")
				for _, m := range c20Methods(v) {
					res, _, panicked := c20Call(v, m)
					step := "panic"
					if !panicked {
						step = c20Virt(res) + ":" + c20Bits(res)
						emit("accept-vclass", fmt.Sprintf("accept-vclass %d %d %s", uint8(res.Kind()), res.Mask(), c20Bits(res)), "ok")
					}
					emit("vas", c20VasReq(v)+" 1 "+m, c20Virt(v)+":"+c20Bits(v)+" "+step)
					emit("accept-vas", fmt.Sprintf("accept-vas %d %s %s", uint32(v.ID()), m, c20Res(res, panicked)), "ok")
				}
			}
		}
		// ---- 6. random conversion chains (physical and virtual)
		chainLens := map[int]int{}
		for n := 0; n < *f.n; n++ {
			var cur reg.Register
			var req string
			var resp []string
			virt := r.chance(1, 3)
			if virt {
				ctor := pick(r, c20Ctors)
				nprev := pick(r, []int{0, 1, 2, 7, 300, 65535})
				v := virtAt(ctor, nprev)
				cur = v
				req = c20VasReq(v)
				resp = append(resp, c20Virt(cur)+":"+c20Bits(cur))
			} else {
				i := r.intn(len(all))
				cur = all[i]
				req = fmt.Sprintf("pas %d", i)
				resp = append(resp, c20Phys(cur))
			}
			ms := c20Methods(cur)
			var chain []string
			if len(ms) > 0 {
				for l := r.rangeIn(2, 5); l > 0; l-- {
					m := pick(r, ms)
					chain = append(chain, m)
					res, avail, panicked := c20Call(cur, m)
					if !avail {
						resp = append(resp, "nomethod")
						break
					}
					if panicked {
						resp = append(resp, "panic")
						break
					}
					if virt {
						resp = append(resp, c20Virt(res)+":"+c20Bits(res))
					} else {
						resp = append(resp, c20Phys(res)+":"+c20Bits(res)[:10])
					}
					cur = res
				}
			}
			chainLens[len(chain)]++
			kind := "pas"
			if virt {
				kind = "vas"
			}
			emit(kind, fmt.Sprintf("%s %d %s", req, len(chain), strings.Join(chain, " ")), strings.Join(resp, " "))
		}
		// ---- 7. collections: random mixed histories (exact ids) and freshness acceptor on pairs
		for n := 0; n < *f.n/4+8; n++ {
			c := reg.NewCollection()
			l := r.rangeIn(1, 40)
			if r.chance(1, 10) {
				l = r.rangeIn(200, 600)
			}
			ctors := make([]string, l)
			vs := make([]reg.Virtual, l)
			perKind := map[reg.Kind][]int{}
			for i := range ctors {
				ctors[i] = pick(r, c20Ctors)
				vs[i] = c20Alloc(c, ctors[i])
				perKind[vs[i].Kind()] = append(perKind[vs[i].Kind()], i)
			}
			emit("coll", fmt.Sprintf("coll %d %s", l, strings.Join(ctors, " ")), c20Ranks(vs))
			// first colliding pair if any, else sampled pairs; (i, j) are per-kind allocation numbers
			for _, k := range []reg.Kind{reg.KindGP, reg.KindVector, reg.KindOpmask} {
				idxs := perKind[k]
				if len(idxs) < 2 {
					continue
				}
				seen := map[reg.ID]int{}
				dup := false
				for j, at := range idxs {
					if i, ok := seen[vs[at].ID()]; ok {
						emit("accept-fresh", fmt.Sprintf("accept-fresh %d %d %d %d %d", uint8(k), i, j, uint32(vs[idxs[i]].ID()), uint32(vs[at].ID())), "ok")
						dup = true
						break
					}
					seen[vs[at].ID()] = j
				}
				if !dup {
					for t := 0; t < 3; t++ {
						i, j := r.intn(len(idxs)), r.intn(len(idxs))
						emit("accept-fresh", fmt.Sprintf("accept-fresh %d %d %d %d %d", uint8(k), i, j, uint32(vs[idxs[i]].ID()), uint32(vs[idxs[j]].ID())), "ok")
					}
				}
			}
		}
		// ---- 8. long runs of one kind: 2^16 and 2^16+1 allocations (F13: Index is uint16)
		for _, run := range []struct {
			ctors []string
			count int
		}{{[]string{"GP64"}, 65536}, {[]string{"XMM", "ZMM"}, 65536}, {[]string{"K"}, 65536}, {[]string{"GP64"}, 65537}, {[]string{"XMM", "YMM", "ZMM"}, 65537}, {[]string{"K"}, 65537}, {[]string{"GP8L", "GP8H", "GP16", "GP32"}, 65537}} {
			c := reg.NewCollection()
			ids := make([]reg.ID, run.count)
			var kind reg.Kind
			for i := range ids {
				v := c20Alloc(c, run.ctors[i%len(run.ctors)])
				ids[i], kind = v.ID(), v.Kind()
			}
			if run.count <= 65536 { // exact comparison only inside the guard of virt_fresh; beyond it the acceptor speaks (F13)
				distinct := map[reg.ID]bool{}
				for _, id := range ids {
					distinct[id] = true
				}
				emit("collrun", fmt.Sprintf("collrun %d %s %d", len(run.ctors), strings.Join(run.ctors, " "), run.count), fmt.Sprintf("distinct=%d", len(distinct)))
			}
			seen := make(map[reg.ID]int, run.count)
			dup := false
			for j, id := range ids {
				if i, ok := seen[id]; ok {
					emit("accept-fresh", fmt.Sprintf("accept-fresh %d %d %d %d %d", uint8(kind), i, j, uint32(ids[i]), uint32(id)), "ok")
					dup = true
					break
				}
				seen[id] = j
			}
			if !dup {
				for t := 0; t < 8; t++ {
					i, j := r.intn(run.count), r.intn(run.count)
					emit("accept-fresh", fmt.Sprintf("accept-fresh %d %d %d %d %d", uint8(kind), i, j, uint32(ids[i]), uint32(ids[j])), "ok")
				}
				emit("accept-fresh", fmt.Sprintf("accept-fresh %d %d %d %d %d", uint8(kind), 0, run.count-1, uint32(ids[0]), uint32(ids[run.count-1])), "ok")
			}
		}
		st := map[string]any{"physical_rows": len(all), "single_conversions": conv, "single_conversions_panicking": convPanics,
			"random_chain_lengths": chainLens, "requests_by_kind": stats}
		return writeJSON(*f.stats, st)
	})
}

// c20Replay re-runs one request line of a replay / corpus file against the
// current implementation: the inputs are taken from the line, every output
// (also the implementation outputs embedded in `accept-` lines) is recomputed.
func c20Replay(all []reg.Physical, ts []string, emit func(kind, req, resp string)) {
	if len(ts) == 0 {
		return
	}
	atoi := func(s string) int {
		n := 0
		for _, c := range s {
			if c < '0' || c > '9' {
				return -1
			}
			n = n*10 + int(c-'0')
		}
		return n
	}
	arg := func(i int) int {
		if i < len(ts) {
			return atoi(ts[i])
		}
		return -1
	}
	physRow := func(i int) reg.Physical {
		if i < 0 || i >= len(all) {
			return nil
		}
		return all[i]
	}
	virtAt := func(ctor string, nprev int) reg.Virtual {
		c := reg.NewCollection()
		for i := 0; i < nprev; i++ {
			c20Alloc(c, ctor)
		}
		return c20Alloc(c, ctor)
	}
	knownCtor := func(c string) bool {
		for _, x := range c20Ctors {
			if x == c {
				return true
			}
		}
		return false
	}
	ctorOfKind := map[int]string{int(reg.KindGP): "GP64", int(reg.KindVector): "XMM", int(reg.KindOpmask): "K"}
	line := strings.Join(ts, " ")
	chain := func(cur reg.Register, virt bool, ms []string) []string {
		var resp []string
		for _, m := range ms {
			res, avail, panicked := c20Call(cur, m)
			if !avail {
				return append(resp, "nomethod")
			}
			if panicked {
				return append(resp, "panic")
			}
			if virt {
				resp = append(resp, c20Virt(res)+":"+c20Bits(res))
			} else {
				resp = append(resp, c20Phys(res)+":"+c20Bits(res)[:10])
			}
			cur = res
		}
		return resp
	}
	switch ts[0] {
	case "row":
		if p := physRow(arg(1)); p != nil {
			emit("row", line, fmt.Sprintf("%s:%d:%d:%d:%d:%d:%d:%s", c20Tok(p.Asm()), uint8(p.Kind()), uint16(p.PhysicalIndex()), p.Mask(), p.Size(), uint8(p.Info()), uint32(p.ID()), c20Bits(p)))
		}
	case "pas":
		if p := physRow(arg(1)); p != nil && len(ts) >= 3 {
			emit("pas", line, strings.Join(append([]string{c20Phys(p)}, chain(p, false, ts[3:])...), " "))
		}
	case "vas":
		// vas <kind> <idx> <mask> <n> methods…: rebuild a register with that kind, index and mask through a Collection
		if len(ts) < 5 || arg(2) < 0 || arg(2) > 65535 {
			return
		}
		for _, ctor := range c20Ctors {
			c := reg.NewCollection()
			v := c20Alloc(c, ctor)
			if int(v.Kind()) != arg(1) || int(v.Mask()) != arg(3) {
				continue
			}
			for n := 0; n < 70000 && int(v.VirtualIndex()) != arg(2); n++ {
				v = c20Alloc(c, ctor)
			}
			if int(v.VirtualIndex()) == arg(2) {
				emit("vas", c20VasReq(v)+" "+strings.Join(ts[4:], " "), strings.Join(append([]string{c20Virt(v) + ":" + c20Bits(v)}, chain(v, true, ts[5:])...), " "))
			}
			break
		}
	case "accept-ctor":
		if len(ts) >= 2 && knownCtor(ts[1]) {
			v := virtAt(ts[1], 0)
			emit("accept-ctor", fmt.Sprintf("accept-ctor %s %d %d %d %d", ts[1], uint8(v.Kind()), v.Mask(), v.Size(), uint32(v.ID())), "ok")
		}
	case "coll":
		c := reg.NewCollection()
		var vs []reg.Virtual
		for _, ctor := range ts[2:] {
			if !knownCtor(ctor) {
				return
			}
			vs = append(vs, c20Alloc(c, ctor))
		}
		emit("coll", line, c20Ranks(vs))
	case "collrun":
		nc := arg(1)
		if nc <= 0 || len(ts) < 3+nc {
			return
		}
		ctors := ts[2 : 2+nc]
		for _, c := range ctors {
			if !knownCtor(c) {
				return
			}
		}
		count := arg(2 + nc)
		if count <= 0 || count > 1<<20 {
			return
		}
		c := reg.NewCollection()
		distinct := map[reg.ID]bool{}
		for i := 0; i < count; i++ {
			distinct[c20Alloc(c, ctors[i%nc]).ID()] = true
		}
		emit("collrun", line, fmt.Sprintf("distinct=%d", len(distinct)))
	case "lookupid":
		if arg(1) >= 0 && arg(2) >= 0 {
			emit("lookupid", line, c20LookupResp(reg.LookupID(reg.ID(arg(1)), reg.Spec(arg(2)))))
		}
	case "lookupphys":
		if arg(1) >= 0 && arg(2) >= 0 && arg(3) >= 0 {
			emit("lookupphys", line, c20LookupResp(reg.LookupPhysical(reg.Kind(arg(1)), reg.Index(arg(2)), reg.Spec(arg(3)))))
		}
	case "id":
		if arg(1) >= 0 {
			id := reg.ID(arg(1))
			v := 0
			if id.IsVirtual() {
				v = 1
			}
			emit("id", line, fmt.Sprintf("%d %d %d", uint8(id.Kind()), uint16(id.Index()), v))
		}
	case "spec":
		if arg(1) >= 0 {
			emit("spec", line, fmt.Sprintf("%d %d", reg.Spec(arg(1)).Size(), reg.Spec(arg(1)).Mask()))
		}
	case "accept-reg":
		if p := physRow(arg(1)); p != nil && p.Kind() != reg.KindPseudo {
			emit("accept-reg", fmt.Sprintf("accept-reg %d %s %d %d %d %d %d", arg(1), c20Tok(p.Asm()), uint8(p.Kind()), uint16(p.PhysicalIndex()), p.Mask(), p.Size(), uint32(p.ID())), "ok")
		}
	case "accept-ident":
		p, q := physRow(arg(1)), physRow(arg(2))
		if p != nil && q != nil {
			emit("accept-ident", fmt.Sprintf("accept-ident %d %d %d %d", arg(1), arg(2), uint32(p.ID()), uint32(q.ID())), "ok")
		}
	case "accept-as", "accept-lookup":
		// any register of the table with that kind and index
		for _, p := range all {
			if int(p.Kind()) != arg(1) || int(p.PhysicalIndex()) != arg(2) || p.Kind() == reg.KindPseudo || len(ts) < 5 {
				continue
			}
			if ts[0] == "accept-as" {
				res, avail, panicked := c20Call(p, ts[4])
				if !avail {
					continue
				}
				emit("accept-as", fmt.Sprintf("accept-as %d %d %d %s %s", arg(1), arg(2), uint32(p.ID()), ts[4], c20Res(res, panicked)), "ok")
			} else {
				res := reg.LookupID(p.ID(), reg.Spec(arg(4)))
				acc := "panic"
				if res != nil {
					acc = c20Res(res, false)
				}
				emit("accept-lookup", fmt.Sprintf("accept-lookup %d %d %d %d %s", arg(1), arg(2), uint32(p.ID()), arg(4), acc), "ok")
			}
			break
		}
	case "accept-lookup-virtual":
		if arg(1) >= 0 && arg(2) >= 0 {
			emit("accept-lookup-virtual", fmt.Sprintf("accept-lookup-virtual %d %d %s", arg(1), arg(2), c20LookupResp(reg.LookupID(reg.ID(arg(1)), reg.Spec(arg(2))))), "ok")
		}
	case "accept-vas":
		if arg(1) >= 0 && len(ts) >= 3 {
			id := reg.ID(arg(1))
			if ctor, ok := ctorOfKind[int(id.Kind())]; ok {
				v := virtAt(ctor, int(id.Index()))
				res, avail, panicked := c20Call(v, ts[2])
				if avail {
					emit("accept-vas", fmt.Sprintf("accept-vas %d %s %s", uint32(v.ID()), ts[2], c20Res(res, panicked)), "ok")
				}
			}
		}
	case "accept-fresh":
		ctor, ok := ctorOfKind[arg(1)]
		i, j := arg(2), arg(3)
		if ok && i >= 0 && j >= 0 && i <= 1<<20 && j <= 1<<20 {
			c := reg.NewCollection()
			var a, b reg.ID
			for n := 0; n <= i || n <= j; n++ {
				v := c20Alloc(c, ctor)
				if n == i {
					a = v.ID()
				}
				if n == j {
					b = v.ID()
				}
			}
			emit("accept-fresh", fmt.Sprintf("accept-fresh %d %d %d %d %d", arg(1), i, j, uint32(a), uint32(b)), "ok")
		}
	case "accept-class":
		if len(ts) < 9 {
			return
		}
		for _, p := range all {
			if p.Kind() == reg.KindPseudo {
				continue
			}
			if ts[1] == "tbl" {
				if c20Tok(p.Asm()) == ts[2] && int(p.Kind()) == arg(3) && int(p.Mask()) == arg(5) {
					emit("accept-class", fmt.Sprintf("accept-class tbl %s %d %d %d %d %d %s", c20Tok(p.Asm()), uint8(p.Kind()), uint16(p.PhysicalIndex()), p.Mask(), p.Size(), uint32(p.ID()), c20Bits(p)), "ok")
				}
				continue
			}
			for _, m := range c20Methods(p) {
				res, _, panicked := c20Call(p, m)
				if panicked || c20Tok(res.Asm()) != ts[2] || int(res.Kind()) != arg(3) || int(res.Mask()) != arg(5) {
					continue
				}
				ridx := -1
				if rp := reg.ToPhysical(res); rp != nil {
					ridx = int(rp.PhysicalIndex())
				}
				emit("accept-class", fmt.Sprintf("accept-class conv %s %d %d %d %d %d %s", c20Tok(res.Asm()), uint8(res.Kind()), ridx, res.Mask(), res.Size(), uint32(res.ID()), c20Bits(res)), "ok")
			}
		}
	case "accept-vclass":
		for _, ctor := range c20Ctors {
			v := virtAt(ctor, 0)
			if int(v.Kind()) == arg(1) && int(v.Mask()) == arg(2) {
				emit("accept-vclass", fmt.Sprintf("accept-vclass %d %d %s", uint8(v.Kind()), v.Mask(), c20Bits(v)), "ok")
				break
			}
		}
	}
}
