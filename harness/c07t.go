package main

// C07, navigation sessions: gotypes.Component values are VALUES the user holds on to.
//
// A session selects one parameter / result of a generated signature and then runs a list of commands on a store
// of Component values (entry 0 = the selected variable): `d p step` derives a child from the SAME parent value
// store[p] (Field, Index, Base/Len/Cap, Real/Imag, Dereference) and appends it; `r i` calls store[i].Resolve().
// The navigation is a TREE: 2..6 children per kept parent at every depth 0..9, siblings derived next to each
// other or with whole subtrees in between, and every interleaving of deriving and resolving: everything resolved at
// the end (forwards, backwards, shuffled), immediately and again at the end, an earlier child after a later sibling
// was derived, the parent again afterwards, the same component twice.
//   tree <sig> <sel> <cmds>                 every Resolve outcome vs the Lean session model (exact)
//   accept-tree <sig> <sel> <cmds> => outs  every Resolve outcome of the implementation judged by ResolveSpec /
//                                           MustResolve for the resolved component's OWN path
// Both lines carry the whole session; `-replay` re-runs them.

import (
	"fmt"
	"sort"
	"strconv"
	"strings"

	"github.com/mmcloughlin/avo/build"
	"github.com/mmcloughlin/avo/gotypes"
)

type c07tCmd struct {
	derive bool
	parent int
	step   c07step
	idx    int
}

type c07tSession struct {
	sig  *c07sig
	sel  c07sel
	cmds []c07tCmd
}

func (s *c07tSession) toks() string {
	parts := []string{s.sig.toks(), s.sel.toks(), itoa(len(s.cmds))}
	for _, c := range s.cmds {
		if c.derive {
			parts = append(parts, "d", itoa(c.parent), c.step.tok())
		} else {
			parts = append(parts, "r", itoa(c.idx))
		}
	}
	return strings.Join(parts, " ")
}

// paths returns the own path of every store entry.
func (s *c07tSession) paths() [][]c07step {
	ps := [][]c07step{nil}
	for _, c := range s.cmds {
		if c.derive {
			var p []c07step
			if c.parent < len(ps) {
				p = append(append([]c07step{}, ps[c.parent]...), c.step)
			}
			ps = append(ps, p)
		}
	}
	return ps
}

// run executes the session on the real API.
func (s *c07tSession) run() (exact string, acc string, panicked bool) {
	defer func() {
		if e := recover(); e != nil {
			exact, acc, panicked = "panic", "panic", true
		}
	}()
	var root gotypes.Component
	sel := s.sel
	if s.sig.bctx != nil {
		old := build.VerifSwapContext(s.sig.bctx)
		defer build.VerifSwapContext(old)
		switch {
		case sel.isRet && sel.at:
			root = build.ReturnIndex(sel.i)
		case sel.isRet:
			root = build.Return(sel.name)
		case sel.at:
			root = build.ParamIndex(sel.i)
		default:
			root = build.Param(sel.name)
		}
	} else {
		t := s.sig.real.Params()
		if sel.isRet {
			t = s.sig.real.Results()
		}
		if sel.at {
			root = t.At(sel.i)
		} else {
			root = t.Lookup(sel.name)
		}
	}
	store := []gotypes.Component{root}
	paths := s.paths()
	v := s.sig.selVar(sel)
	var ex, ac []string
	for _, c := range s.cmds {
		if c.derive {
			if c.parent >= len(store) {
				panic("c07t: no such parent")
			}
			// the SAME parent value every time
			store = append(store, c07apply(store[c.parent], []c07step{c.step}))
			continue
		}
		res, text := c07outcome(store[c.idx])
		e := res
		if v != nil && strings.HasPrefix(res, "ok ") {
			if end := c07walk(v.t, paths[c.idx]); end != nil && end.under().kind == c07Ptr {
				// which pointer-sized integer kind stands for a pointer is not pinned down (as in c07)
				for _, alt := range []string{" uptr", " uint64"} {
					if strings.HasSuffix(e, alt) {
						e = strings.TrimSuffix(e, alt) + " uintptr"
					}
				}
			}
		}
		ex = append(ex, e)
		if strings.HasPrefix(res, "ok ") {
			ac = append(ac, res+" "+text)
		} else {
			ac = append(ac, res)
		}
	}
	return strings.Join(append([]string{itoa(len(ex))}, ex...), " | "), itoa(len(ac)) + " " + strings.Join(ac, " "), false
}

func (s *c07tSession) emit(o *out, stats map[string]int) {
	ex, ac, panicked := s.run()
	req := s.toks()
	if panicked {
		stats["sessions_panicked"]++
	}
	o.emit("tree "+req, ex)
	o.emit("accept-tree "+req+" => "+ac, "ok")
	stats["sessions"]++
}

// ---------------------------------------------------------------- generator

var c07tFieldNames = []string{"a", "b", "c", "x", "y", "lo", "hi", "next", "v", "Len", "_", "n0"}

func (g *c07gen) tLeaf() *c07ty {
	switch g.r.intn(8) {
	case 0, 1:
		return &c07ty{kind: c07Slice, elem: g.basic()}
	case 2:
		return &c07ty{kind: c07Basic, basic: "string"}
	case 3:
		return &c07ty{kind: c07Basic, basic: pick(g.r, []string{"complex64", "complex128"})}
	case 4:
		return &c07ty{kind: c07Array, n: g.r.rangeIn(2, 3), elem: g.basic()}
	case 5:
		return &c07ty{kind: c07Ptr, elem: g.basic()}
	}
	return g.basic()
}

// deepTy builds a type in which some component is d navigation steps away from the value.
func (g *c07gen) deepTy(d int) *c07ty {
	if d <= 0 {
		return g.tLeaf()
	}
	var t *c07ty
	switch c := g.r.intn(100); {
	case c < 55:
		nf := g.r.rangeIn(2, 4)
		t = &c07ty{kind: c07Struct}
		used := map[string]bool{}
		deep := g.r.intn(nf)
		for i := 0; i < nf; i++ {
			name := pick(g.r, c07tFieldNames)
			if used[name] && name != "_" {
				name += itoa(i)
			}
			if name == "_" && used[name] {
				name = "u" + itoa(i)
			}
			used[name] = true
			var ft *c07ty
			switch {
			case i == deep:
				ft = g.deepTy(d - 1)
			case g.r.chance(1, 3):
				ft = g.ty(1, 12)
			default:
				ft = g.tLeaf()
			}
			t.fields = append(t.fields, c07field{name, ft, false})
		}
	case c < 75:
		t = &c07ty{kind: c07Array, n: g.r.rangeIn(2, 3), elem: g.deepTy(d - 1)}
	default:
		t = &c07ty{kind: c07Ptr, elem: g.deepTy(d - 1)}
	}
	if g.r.chance(1, 8) {
		g.nnamed++
		kind := c07Named
		if g.r.chance(1, 3) {
			kind = c07Alias
		}
		t = &c07ty{kind: kind, name: "T" + itoa(g.nnamed), elem: t}
	}
	return t
}

// how many navigation steps the type offers below itself (bounded)
func c07tDepth(t *c07ty, fuel int) int {
	if t == nil || fuel == 0 {
		return 0
	}
	u := t.under()
	best := 0
	switch u.kind {
	case c07Basic:
		switch u.basic {
		case "string", "complex64", "complex128":
			return 1
		}
		return 0
	case c07Slice:
		return 1
	case c07Ptr:
		return 1 + c07tDepth(u.elem, fuel-1)
	case c07Array:
		if u.n == 0 {
			return 0
		}
		return 1 + c07tDepth(u.elem, fuel-1)
	case c07Struct:
		for _, f := range u.fields {
			if d := 1 + c07tDepth(f.t, fuel-1); d > best {
				best = d
			}
		}
	}
	return best
}

// tChildren lists the navigation steps that exist at a value of type t.
func (g *c07gen) tChildren(t *c07ty) []c07step {
	u := t.under()
	var out []c07step
	switch u.kind {
	case c07Basic:
		switch u.basic {
		case "string":
			out = []c07step{{kind: "base"}, {kind: "len"}}
		case "complex64", "complex128":
			out = []c07step{{kind: "real"}, {kind: "imag"}}
		}
	case c07Slice:
		out = []c07step{{kind: "base"}, {kind: "len"}, {kind: "cap"}}
	case c07Ptr:
		regs := []string{"AX", "BX", "SI", "R8", "R13", "R15"}
		g.r.shuffleStrings(regs)
		for _, r := range regs[:g.r.rangeIn(2, 3)] {
			out = append(out, c07step{kind: "d", name: r})
		}
	case c07Array:
		idx := map[int]bool{}
		for _, i := range []int{0, 1, u.n - 1, g.r.intn(max(u.n, 1))} {
			if i >= 0 && i < u.n {
				idx[i] = true
			}
		}
		var is []int
		for i := range idx {
			is = append(is, i)
		}
		sort.Ints(is)
		for _, i := range is {
			out = append(out, c07step{kind: "i", i: i})
		}
	case c07Struct:
		seen := map[string]bool{}
		for _, f := range u.fields {
			if !seen[f.name] {
				seen[f.name] = true
				out = append(out, c07step{kind: "f", name: f.name})
			}
		}
	}
	return out
}

func (r *rng) shuffleStrings(xs []string) {
	for i := len(xs) - 1; i > 0; i-- {
		j := r.intn(i + 1)
		xs[i], xs[j] = xs[j], xs[i]
	}
}

type c07tNode struct {
	t      *c07ty // nil: the step does not exist
	parent int
	step   c07step
	depth  int
}

// tSession generates one session on a signature with a deep variable.
func (g *c07gen) tSession(stats map[string]int) (*c07tSession, error) {
	s := &c07sig{}
	np := g.r.rangeIn(1, 3)
	deepIdx := g.r.intn(np)
	named := g.r.chance(2, 3)
	used := map[string]bool{}
	for i := 0; i < np; i++ {
		var t *c07ty
		if i == deepIdx {
			t = g.deepTy(pick(g.r, []int{2, 3, 4, 5, 6, 7, 8, 9, 9, 10}))
		} else {
			t = g.ty(2, 24)
		}
		name := ""
		if named {
			name = pick(g.r, []string{"x", "y", "p", "s", "dst", "n"})
			for used[name] {
				name += "q"
			}
			used[name] = true
		}
		s.params = append(s.params, c07var{name, t})
	}
	isRet := false
	if g.r.chance(1, 4) {
		// the deep variable is a result
		s.results = append(s.results, c07var{"", s.params[deepIdx].t})
		s.params[deepIdx].t = g.basic()
		isRet = true
	} else if g.r.chance(1, 2) {
		s.results = append(s.results, c07var{"", g.basic()})
	}
	s.pgroups = c07grouping(g.r, s.params)
	s.rgroups = c07grouping(g.r, s.results)
	if err := s.build(g.r); err != nil {
		return nil, err
	}
	sel := c07sel{isRet: isRet, at: true, i: deepIdx}
	if isRet {
		sel.i = 0
	} else if named && g.r.chance(1, 2) {
		sel = c07sel{name: s.params[deepIdx].name}
	}
	root := s.selVar(sel)

	// --- the tree: derive commands in the order they will be executed
	nodes := []c07tNode{{t: root.t, parent: -1}}
	var derives []int // node ids in derivation order
	budget := g.r.rangeIn(12, 45)
	late := g.r.chance(1, 2) // whole subtrees between two siblings
	var expand func(n int)
	expand = func(n int) {
		nd := nodes[n]
		if nd.depth >= 10 || len(derives) >= budget {
			return
		}
		var steps []c07step
		if nd.t != nil {
			steps = g.tChildren(nd.t)
		}
		// keep the child that leads deepest, choose 2..6 in all
		deepest := -1
		for i, st := range steps {
			if deepest < 0 || c07tDepth(c07walk(nd.t, []c07step{st}), 12) > c07tDepth(c07walk(nd.t, []c07step{steps[deepest]}), 12) {
				deepest = i
			}
		}
		want := g.r.rangeIn(2, 6)
		var chosen []c07step
		if deepest >= 0 {
			chosen = append(chosen, steps[deepest])
			rest := append(append([]c07step{}, steps[:deepest]...), steps[deepest+1:]...)
			g.r.shuffleStepList(rest)
			for _, st := range rest {
				if len(chosen) < want {
					chosen = append(chosen, st)
				}
			}
			g.r.shuffleStepList(chosen)
		}
		// steps that do not exist here (also below components that do not exist: the first error sticks)
		if g.r.chance(1, 6) || (len(chosen) == 0 && g.r.chance(1, 3)) {
			var bad []c07step
			if nd.t != nil {
				bad = g.badSteps(nd.t)
			} else {
				bad = []c07step{{kind: "len"}, {kind: "f", name: "a"}, {kind: "i", i: 0}}
			}
			if len(bad) > 0 {
				b := pick(g.r, bad)
				if b.kind == "d" {
					b.name = "AX"
				}
				chosen = append(chosen, b)
				if g.r.chance(1, 2) {
					chosen = append(chosen, pick(g.r, bad))
					if chosen[len(chosen)-1].kind == "d" {
						chosen[len(chosen)-1].name = "BX"
					}
				}
				stats["derive_of_missing_component"]++
			}
		}
		var kids []int
		for _, st := range chosen {
			if len(derives) >= budget {
				break
			}
			var ct *c07ty
			if nd.t != nil {
				ct = c07walk(nd.t, []c07step{st})
			}
			nodes = append(nodes, c07tNode{t: ct, parent: n, step: st, depth: nd.depth + 1})
			id := len(nodes) - 1
			derives = append(derives, id)
			kids = append(kids, id)
			if late {
				expand(id)
			}
		}
		if !late {
			// deepest first, then some of the others
			sort.SliceStable(kids, func(a, b int) bool {
				return c07tDepth(nodes[kids[a]].t, 12) > c07tDepth(nodes[kids[b]].t, 12)
			})
			for i, id := range kids {
				if i == 0 || g.r.chance(1, 3) {
					expand(id)
				}
			}
		}
	}
	expand(0)

	// --- interleaving of derive and resolve
	mode := pick(g.r, []string{"end-forward", "end-reverse", "end-shuffled", "immediate-and-end", "random", "random"})
	ses := &c07tSession{sig: s, sel: sel}
	storeOf := map[int]int{0: 0} // node id → store index
	derivedAt := map[int]int{}   // node id → position in cmds
	var live []int               // node ids in the store
	live = append(live, 0)
	resolve := func(id int) {
		ses.cmds = append(ses.cmds, c07tCmd{idx: storeOf[id]})
		// deferred: a sibling was derived after this component and before this Resolve
		nd := nodes[id]
		if nd.parent < 0 {
			return
		}
		for _, other := range live {
			if at := derivedAt[other]; other != 0 && other != id && nodes[other].parent == nd.parent && at > derivedAt[id] {
				stats["deferred_resolutions"]++
				stats["deferred_sibling_depth_"+itoa(nodes[nd.parent].depth)]++
				k := []string{nd.step.kind, nodes[other].step.kind}
				sort.Strings(k)
				stats["pair_"+k[0]+","+k[1]]++
				break
			}
		}
	}
	for _, id := range derives {
		nd := nodes[id]
		ses.cmds = append(ses.cmds, c07tCmd{derive: true, parent: storeOf[nd.parent], step: nd.step})
		storeOf[id] = len(live)
		derivedAt[id] = len(ses.cmds)
		live = append(live, id)
		switch mode {
		case "immediate-and-end":
			resolve(id)
		case "random":
			if g.r.chance(1, 2) {
				resolve(pick(g.r, live))
			}
			if g.r.chance(1, 6) {
				resolve(nd.parent) // the parent again, after a child was derived
				stats["parent_resolved_after_deriving"]++
			}
		}
	}
	order := append([]int{}, live...)
	switch mode {
	case "end-reverse":
		for i, j := 0, len(order)-1; i < j; i, j = i+1, j-1 {
			order[i], order[j] = order[j], order[i]
		}
	case "end-shuffled", "immediate-and-end", "random":
		for i := len(order) - 1; i > 0; i-- {
			j := g.r.intn(i + 1)
			order[i], order[j] = order[j], order[i]
		}
	}
	for _, id := range order {
		resolve(id)
		if g.r.chance(1, 10) {
			resolve(id) // the same component twice
			stats["resolved_twice"]++
		}
	}
	// statistics: parents with at least two children, per depth
	kidsOf := map[int]int{}
	for _, id := range derives {
		kidsOf[nodes[id].parent]++
	}
	for p, k := range kidsOf {
		if k >= 2 {
			stats["parents_with_siblings_depth_"+itoa(nodes[p].depth)]++
			stats["parents_with_siblings"]++
		}
	}
	stats["mode_"+mode]++
	if late {
		stats["subtrees_between_siblings"]++
	}
	stats["derives"] += len(derives)
	return ses, nil
}

func (r *rng) shuffleStepList(xs []c07step) {
	for i := len(xs) - 1; i > 0; i-- {
		j := r.intn(i + 1)
		xs[i], xs[j] = xs[j], xs[i]
	}
}

// ---------------------------------------------------------------- replay

func (p *c07parser) step() (c07step, error) {
	t, err := p.next()
	if err != nil {
		return c07step{}, err
	}
	switch {
	case t == "base" || t == "len" || t == "cap" || t == "real" || t == "imag":
		return c07step{kind: t}, nil
	case strings.HasPrefix(t, "i:"):
		v, err := strconv.Atoi(c07afterColon(t))
		return c07step{kind: "i", i: v}, err
	case strings.HasPrefix(t, "f:"):
		return c07step{kind: "f", name: c07afterColon(t)}, nil
	case strings.HasPrefix(t, "d:"):
		return c07step{kind: "d", name: c07afterColon(t)}, nil
	}
	return c07step{}, fmt.Errorf("bad step %q", t)
}

func c07tReplayLine(o *out, stats map[string]int, line string, seen map[string]bool) (err error) {
	defer func() {
		if r := recover(); r != nil {
			err = fmt.Errorf("%v", r)
		}
	}()
	fs := strings.Fields(line)
	if len(fs) == 0 {
		return nil
	}
	if fs[0] != "tree" && fs[0] != "accept-tree" {
		stats["replay_skipped_"+fs[0]]++
		return nil
	}
	p := &c07parser{toks: fs[1:]}
	sig, err := p.sig()
	if err != nil {
		return err
	}
	sel, err := p.sel()
	if err != nil {
		return err
	}
	n, err := p.nat()
	if err != nil {
		return err
	}
	ses := &c07tSession{sig: sig, sel: sel}
	nstore := 1
	for i := 0; i < n; i++ {
		k, err := p.next()
		if err != nil {
			return err
		}
		switch k {
		case "d":
			par, err := p.nat()
			if err != nil {
				return err
			}
			st, err := p.step()
			if err != nil {
				return err
			}
			if par >= nstore {
				return fmt.Errorf("derive from entry %d of a store of %d", par, nstore)
			}
			ses.cmds = append(ses.cmds, c07tCmd{derive: true, parent: par, step: st})
			nstore++
		case "r":
			idx, err := p.nat()
			if err != nil {
				return err
			}
			if idx >= nstore {
				return fmt.Errorf("resolve of entry %d of a store of %d", idx, nstore)
			}
			ses.cmds = append(ses.cmds, c07tCmd{idx: idx})
		default:
			return fmt.Errorf("bad command %q", k)
		}
	}
	key := ses.toks()
	if seen[key] {
		return nil
	}
	seen[key] = true
	ses.emit(o, stats)
	return nil
}

// hand-written sessions run before the generated ones
func c07tCorpus() []*c07tSession {
	mk := func(expr string) *c07sig {
		s, err := c07sigFromTypes(expr)
		if err != nil {
			panic(err)
		}
		sig, err := gotypes.ParseSignature(expr)
		if err != nil {
			panic(err)
		}
		s.real, s.route = sig, "corpus"
		return s
	}
	d := func(p int, st c07step) c07tCmd { return c07tCmd{derive: true, parent: p, step: st} }
	r := func(i int) c07tCmd { return c07tCmd{idx: i} }
	f := func(n string) c07step { return c07step{kind: "f", name: n} }
	ix := func(i int) c07step { return c07step{kind: "i", i: i} }
	var out []*c07tSession
	// Len and Cap derived from the same parent value reached by 0..7 steps; Len resolved after Cap was derived
	nest := "[]uint64"
	chain := []c07step{}
	for depth := 0; depth <= 7; depth++ {
		s := mk("func(x " + nest + ")")
		ses := &c07tSession{sig: s, sel: c07sel{name: "x"}}
		for i, st := range chain {
			ses.cmds = append(ses.cmds, d(i, st))
		}
		p := len(chain)
		ses.cmds = append(ses.cmds, d(p, c07step{kind: "len"}), d(p, c07step{kind: "cap"}), d(p, c07step{kind: "base"}),
			r(p+2), r(p+1), r(p+3), r(p+1), r(p))
		out = append(out, ses)
		if depth%2 == 0 {
			nest = "struct{ a uint8; v " + nest + " }"
			chain = append([]c07step{f("v")}, chain...)
		} else {
			nest = "[2]" + nest
			chain = append([]c07step{ix(1)}, chain...)
		}
	}
	// two fields / two elements / real and imag / two registers from the same parent, resolved in reverse
	s := mk("func(p *[3]struct{ a, b complex128; s string }) (r struct{ x [2]struct{ lo, hi uint16 } })")
	out = append(out, &c07tSession{sig: s, sel: c07sel{name: "p"}, cmds: []c07tCmd{
		d(0, c07step{kind: "d", name: "AX"}), d(0, c07step{kind: "d", name: "BX"}), d(1, ix(0)), d(1, ix(2)), d(2, ix(1)),
		d(3, f("a")), d(3, f("b")), d(3, f("s")), d(6, c07step{kind: "real"}), d(6, c07step{kind: "imag"}), d(7, c07step{kind: "real"}),
		d(8, c07step{kind: "len"}), d(8, c07step{kind: "base"}), d(4, f("b")), d(5, f("a")), d(15, c07step{kind: "imag"}),
		r(16), r(13), r(12), r(11), r(10), r(9), r(0), r(9), r(10)}})
	out = append(out, &c07tSession{sig: s, sel: c07sel{isRet: true, at: true, i: 0}, cmds: []c07tCmd{
		d(0, f("x")), d(1, ix(0)), d(1, ix(1)), d(2, f("lo")), d(2, f("hi")), d(3, f("lo")), d(3, f("hi")), d(3, f("nosuch")), d(8, f("lo")),
		r(9), r(8), r(7), r(6), r(5), r(4), r(4)}})
	return out
}

func init() {
	register("c07t", "C07: navigation sessions (several children from the same Component value, any order of Resolve) vs model + acceptor", func(args []string) error {
		f := newStdFlags("c07t")
		chunk := f.fs.Uint64("chunk", 0, "chunk number mixed into the seed")
		if err := f.fs.Parse(args); err != nil {
			return err
		}
		o, err := openOut(f)
		if err != nil {
			return err
		}
		defer o.close()
		stats := map[string]int{}
		if *f.replay != "" {
			lines, err := readLines(*f.replay)
			if err != nil {
				return err
			}
			seen := map[string]bool{}
			for _, l := range lines {
				if err := c07tReplayLine(o, stats, l, seen); err != nil {
					return fmt.Errorf("replay %q: %v", l, err)
				}
			}
			stats["requests"] = o.count
			return writeJSON(*f.stats, stats)
		}
		for _, ses := range c07tCorpus() {
			ses.emit(o, stats)
			stats["corpus_sessions"]++
		}
		g := &c07gen{r: newRng((*f.seed ^ 0xc07e) + *chunk*0x51ed27), stats: stats}
		for k := 0; k < *f.n; k++ {
			ses, err := g.tSession(stats)
			if err != nil {
				return err
			}
			ses.emit(o, stats)
		}
		stats["requests"] = o.count
		return writeJSON(*f.stats, stats)
	})
}
