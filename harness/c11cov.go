package main

// C11, the measured half on a COVERING set of file contents (sub-command c11cov).
//
// c11asm draws programs at random from a narrow pool (U64 data only, 15 attribute sets that always contain NOSPLIT
// or a data section with RODATA/NOPTR next to it, one suffix form): whole dimensions of what a file can contain never
// reach `go tool asm`.  Here every value of every dimension below is put, on its own, into a program built through
// build.Context, compiled by pass.Compile, printed by printer.NewGoAsm, assembled by `go tool asm -S` and read back:
//
//	attr_fn_only=<bit>      one function whose attribute word is the single bit, nothing else in the file
//	attr_gl_only=<bit>      a data section with the single bit next to an attribute-free function
//	attr_fn_pair=<i>_<j>    one function with exactly two bits
//	attr_gl_pair=<i>_<j>    a data section with two of the data-relevant bits / an unnamed bit
//	attr_pos=…              the only flagged section first / in the middle / last, function or data section
//	attr_include=…          the user's own includes (textflag.h already there, another header, both)
//	data=<class>            data sections holding every constant type over its whole range: F64/F32 powers of ten,
//	                        one-digit mantissas, boundaries, integral values, 17/9-digit values, random bit patterns,
//	                        I8..U64 extremes, strings with every byte value, escapes, a long string; non-static symbols
//	text=<shape>            long opcodes with suffixes next to short ones, every suffix list the constructors accept,
//	                        label runs, many functions per file, frame and argument sizes at the extremes
//
// Requests: the `print` / `wf` / `accept-print` / `accept-assembles` / `accept-decode` / `accept-asm` lines of c11asm for
// every file (tag cover=<dimension values>), plus
//
//	accept-objdata <tag> <n> want* <m> have*
//	    want := <sym-hex> <static> <attrs> <size> <k> (off nbytes bytes-hex)*   what the GENERATOR put there: the
//	            little-endian bytes of the Go values it chose (math.Float64bits, …), independent of avo's text
//	    have := <name-hex> <kind> <static> <dupok> <size> <bytes-hex>           the data symbols of the object file
//
// judged by the Lean acceptor acceptObjData (theorem acceptObjData_sound): every byte of every constant is in the
// object at its offset, the gaps are zero, size, symbol kind (RODATA / NOPTR / TLSBSS), DUPOK and static are right.
// A dimension value counts (statistics key cov_<dim>=<value>) only when its file was accepted by the assembler and
// read back; c11.py requires every value of every dimension in every run.

import (
	"encoding/binary"
	"fmt"
	"math"
	"os"
	"path/filepath"
	"regexp"
	"sort"
	"strconv"
	"strings"
	"sync"
	"text/scanner"

	"github.com/mmcloughlin/avo/attr"
	"github.com/mmcloughlin/avo/build"
	"github.com/mmcloughlin/avo/ir"
	"github.com/mmcloughlin/avo/operand"
	"github.com/mmcloughlin/avo/pass"
	"github.com/mmcloughlin/avo/printer"
	"github.com/mmcloughlin/avo/reg"
	"github.com/mmcloughlin/avo/x86"
)

type c11cDatum struct {
	off  int
	want []byte
}

type c11cGlobal struct {
	name   string // as it appears in the object listing (without package prefix)
	sym    string
	static bool
	attrs  attr.Attribute
	size   int
	data   []c11cDatum
}

type c11cCase struct {
	dims     []string
	ctx      *build.Context
	want     []p11Want
	globals  []*c11cGlobal
	includes []string             // the user's own includes, set on the file before pass.Compile
	extra    []func(f *ir.File)   // sections added by hand (non-static symbols)
	nerr     int                  // constructor errors while building the case
	file     *ir.File
	text     string
}

func c11cNew(dims ...string) *c11cCase {
	return &c11cCase{dims: dims, ctx: build.NewContext()}
}

// c11cBytes: the bytes the generator asks for, from the Go value it chose.
func c11cBytes(v operand.Constant) []byte {
	b8 := func(u uint64, n int) []byte {
		var buf [8]byte
		binary.LittleEndian.PutUint64(buf[:], u)
		return append([]byte(nil), buf[:n]...)
	}
	switch x := v.(type) {
	case operand.I8:
		return b8(uint64(int64(x)), 1)
	case operand.U8:
		return b8(uint64(x), 1)
	case operand.I16:
		return b8(uint64(int64(x)), 2)
	case operand.U16:
		return b8(uint64(x), 2)
	case operand.I32:
		return b8(uint64(int64(x)), 4)
	case operand.U32:
		return b8(uint64(x), 4)
	case operand.I64:
		return b8(uint64(x), 8)
	case operand.U64:
		return b8(uint64(x), 8)
	case operand.F32:
		return b8(uint64(math.Float32bits(float32(x))), 4)
	case operand.F64:
		return b8(math.Float64bits(float64(x)), 8)
	case operand.String:
		return []byte(string(x))
	}
	panic(fmt.Sprintf("c11cov: constant type %T", v))
}

// fn opens a function (RET body unless body is given) and records what was asked for.
func (c *c11cCase) fn(name string, attrs attr.Attribute, sig string, locals []int, body func(ctx *build.Context)) {
	ctx := c.ctx
	ctx.Function(name)
	if attrs != 0 {
		ctx.Attributes(attrs)
	}
	ctx.SignatureExpr(sig)
	w := p11Want{name: name}
	w.args, _ = p11ArgBytes(sig)
	for _, sz := range locals {
		ctx.AllocLocal(sz)
		w.frame += sz
	}
	c.want = append(c.want, w)
	if body != nil {
		body(ctx)
	}
	ctx.RET()
}

// data adds a static data section holding the constants one after the other.
func (c *c11cCase) data(name string, attrs attr.Attribute, vs []operand.Constant) operand.Mem {
	ctx := c.ctx
	m := ctx.StaticGlobal(name)
	if attrs != 0 {
		ctx.DataAttributes(attrs)
	}
	g := &c11cGlobal{name: name, sym: name, static: true, attrs: attrs}
	for _, v := range vs {
		b := c11cBytes(v)
		ctx.AppendDatum(v)
		g.data = append(g.data, c11cDatum{g.size, b})
		g.size += len(b)
	}
	c.globals = append(c.globals, g)
	return m
}

// public adds a non-static data section by hand (build.Context has no route for it).
func (c *c11cCase) public(name string, attrs attr.Attribute, vs []operand.Constant, gap int) {
	g := &c11cGlobal{name: name, sym: "·" + name, static: false, attrs: attrs}
	ig := ir.NewGlobal(operand.Symbol{Name: "·" + name, Static: false})
	ig.Attributes = attrs
	for _, v := range vs {
		b := c11cBytes(v)
		ig.Append(v)
		g.data = append(g.data, c11cDatum{g.size, b})
		g.size += len(b)
		if gap > 0 {
			ig.Grow(ig.Size + gap)
			g.size += gap
		}
	}
	c.globals = append(c.globals, g)
	c.extra = append(c.extra, func(f *ir.File) { f.AddSection(ig) })
}

// ---------------------------------------------------------------------------
// the dimensions

const c11cSig = "func(x uint64) uint64"

func c11cPlainData() []operand.Constant { return []operand.Constant{operand.U64(0x0102030405060708)} }

func c11cAttrCases() []*c11cCase {
	var cs []*c11cCase
	bit := func(b int) attr.Attribute { return attr.Attribute(1) << uint(b) }
	for b := 0; b < 16; b++ {
		c := c11cNew(fmt.Sprintf("attr_fn_only=%d", b))
		c.fn("f", bit(b), c11cSig, nil, nil)
		cs = append(cs, c)
		c = c11cNew(fmt.Sprintf("attr_gl_only=%d", b))
		c.fn("f", 0, c11cSig, nil, nil)
		c.data("tbl", bit(b), c11cPlainData())
		cs = append(cs, c)
	}
	for i := 0; i < 16; i++ {
		for j := i + 1; j < 16; j++ {
			c := c11cNew(fmt.Sprintf("attr_fn_pair=%d_%d", i, j))
			c.fn("f", bit(i)|bit(j), c11cSig, nil, nil)
			cs = append(cs, c)
		}
	}
	// data sections: the bits the assembler looks at on GLOBL (DUPOK 1, RODATA 3, NOPTR 4, TLSBSS 8), a named bit it
	// ignores there (NOSPLIT 2) and unnamed ones (7, 12)
	glbits := []int{1, 2, 3, 4, 7, 8, 12}
	for x, i := range glbits {
		for _, j := range glbits[x+1:] {
			c := c11cNew(fmt.Sprintf("attr_gl_pair=%d_%d", i, j))
			c.fn("f", 0, c11cSig, nil, nil)
			c.data("tbl", bit(i)|bit(j), c11cPlainData())
			cs = append(cs, c)
		}
	}
	// the only flagged section of a file with several sections, at every position, for every named flag in turn
	named := []int{0, 1, 2, 3, 4, 5, 6, 8, 9, 10, 11}
	k := 0
	for _, pos := range []string{"first", "middle", "last"} {
		for _, kind := range []string{"fn", "gl"} {
			for rep := 0; rep < 2; rep++ {
				b := named[k%len(named)]
				if kind == "gl" {
					b = []int{1, 3, 4}[k%3]
				}
				k++
				c := c11cNew("attr_pos="+pos+"_"+kind, fmt.Sprintf("attr_pos_bit=%d", b))
				for s, p := range []string{"first", "middle", "last"} {
					a := attr.Attribute(0)
					if p == pos {
						a = bit(b)
					}
					switch {
					case p == pos && kind == "gl":
						c.data(fmt.Sprintf("d%d", s), a, c11cPlainData())
					case s == 1 && kind == "fn" && p != pos:
						c.data(fmt.Sprintf("d%d", s), 0, c11cPlainData())
					default:
						c.fn(fmt.Sprintf("f%d", s), a, c11cSig, nil, nil)
					}
				}
				if len(c.want) == 0 {
					c.fn("only", 0, c11cSig, nil, nil)
				}
				cs = append(cs, c)
			}
		}
	}
	// the user's own includes
	for _, inc := range []struct {
		name string
		list []string
	}{{"textflag", []string{"textflag.h"}}, {"other", []string{"funcdata.h"}}, {"both", []string{"funcdata.h", "textflag.h"}}} {
		for _, b := range []int{2, 11, 12} {
			c := c11cNew("attr_include="+inc.name, fmt.Sprintf("attr_include_bit=%d", b))
			c.includes = inc.list
			c.fn("f", bit(b), c11cSig, nil, nil)
			c.data("tbl", 0, c11cPlainData())
			cs = append(cs, c)
		}
	}
	return cs
}

func c11cF64s(bits ...uint64) []operand.Constant {
	var vs []operand.Constant
	for _, b := range bits {
		vs = append(vs, operand.F64(math.Float64frombits(b)))
	}
	return vs
}

func c11cFinite64(x float64) bool { return !math.IsInf(x, 0) && !math.IsNaN(x) }

func c11cParse(s string, bits int) float64 {
	x, err := strconv.ParseFloat(s, bits)
	if err != nil && !strings.Contains(err.Error(), "range") {
		panic(err)
	}
	return x
}

func c11cDataCases(r *rng) []*c11cCase {
	var cs []*c11cCase
	add := func(class string, vs []operand.Constant) {
		c := c11cNew("data=" + class)
		m := c.data("tbl", attr.RODATA|attr.NOPTR, vs)
		c.fn("get", attr.NOSPLIT, "func() uint64", nil, func(ctx *build.Context) { ctx.MOVQ(m, reg.RAX) })
		cs = append(cs, c)
	}
	both64 := func(xs []float64) []operand.Constant {
		var vs []operand.Constant
		for _, x := range xs {
			if c11cFinite64(x) {
				vs = append(vs, operand.F64(x), operand.F64(-x))
			}
		}
		return vs
	}
	both32 := func(xs []float64) []operand.Constant {
		var vs []operand.Constant
		for _, x := range xs {
			if y := float32(x); c11cFinite64(float64(y)) {
				vs = append(vs, operand.F32(y), operand.F32(-y))
			}
		}
		return vs
	}
	// F64
	var pow, one []float64
	for k := -324; k <= 308; k++ {
		pow = append(pow, c11cParse(fmt.Sprintf("1e%d", k), 64))
		for d := 2; d <= 9; d++ {
			if (k+324)%5 == d%5 {
				one = append(one, c11cParse(fmt.Sprintf("%de%d", d, k), 64))
			}
		}
	}
	add("f64_pow10", both64(pow))
	add("f64_one_digit", both64(one))
	add("f64_two_digits", both64([]float64{1.5e-7, 2.5e-10, 9.9e-300, 1.1e-6, 9.9e-7, 1.2e21, 9.9e20, 6.6e300, 4.9e-324, 1.5e308}))
	add("f64_boundaries", c11cF64s(0, 1<<63, 1, 1<<63|1, 0x000fffffffffffff, 0x0010000000000000, 0x0010000000000001, 0x7fefffffffffffff, 0xffefffffffffffff,
		0x3ff0000000000000, 0x3fefffffffffffff, 0x3ff0000000000001, 0x4340000000000000, 0x433fffffffffffff, 0x4340000000000001,
		math.Float64bits(1e21), math.Float64bits(1e21)-1, math.Float64bits(1e21)+1, math.Float64bits(1e-6), math.Float64bits(1e-6)-1, math.Float64bits(1e-6)+1,
		math.Float64bits(1e-7), math.Float64bits(1e-5), math.Float64bits(1e20), math.Float64bits(1e22)))
	add("f64_integral", both64([]float64{1, 2, 10, 100, 255, 65536, 1e15, 1e16, 9007199254740992, 9223372036854775808, 18446744073709551616, 123456789012345680000, 1e100}))
	add("f64_17_digits", both64([]float64{0.1 + 0.2, 1.0 / 3, math.Pi, math.E * 1e-10, math.Pi * 1e25, 0.1, 5.0e-324 * 3, 2.2250738585072014e-308, 1.7976931348623157e308,
		6.02214076e23, 1.602176634e-19, 299792458.0000001, 4.35e-7, 8.41e21}))
	var rnd64 []operand.Constant
	for len(rnd64) < 96 {
		if x := math.Float64frombits(r.u64()); c11cFinite64(x) {
			rnd64 = append(rnd64, operand.F64(x))
		}
	}
	add("f64_random", rnd64)
	// F32
	pow, one = nil, nil
	for k := -45; k <= 38; k++ {
		pow = append(pow, c11cParse(fmt.Sprintf("1e%d", k), 32))
		for d := 2; d <= 9; d++ {
			if (k+45)%3 == d%3 {
				one = append(one, c11cParse(fmt.Sprintf("%de%d", d, k), 32))
			}
		}
	}
	add("f32_pow10", both32(pow))
	add("f32_one_digit", both32(one))
	var b32 []operand.Constant
	for _, b := range []uint32{0, 0x80000000, 1, 0x80000001, 0x007fffff, 0x00800000, 0x00800001, 0x7f7fffff, 0xff7fffff, 0x3f800000, 0x3f7fffff, 0x3f800001,
		0x4b800000, 0x4b7fffff, 0x15ae43fd, 0x95ae43fd, math.Float32bits(1e21), math.Float32bits(1e-6), math.Float32bits(1e-7), math.Float32bits(1e-6) - 1, math.Float32bits(1e21) + 1} {
		b32 = append(b32, operand.F32(math.Float32frombits(b)))
	}
	add("f32_boundaries", b32)
	add("f32_integral", both32([]float64{1, 2, 10, 100, 255, 65536, 16777216, 1e10, 1e20, 1e30}))
	add("f32_9_digits", both32([]float64{0.1, 1.0 / 3, math.Pi, math.E * 1e-10, math.Pi * 1e25, 1.17549435e-38, 3.4028235e38, 1.4e-45 * 3, 6.0221408e23, 4.35e-7}))
	var rnd32 []operand.Constant
	for len(rnd32) < 96 {
		if x := math.Float32frombits(uint32(r.u64())); c11cFinite64(float64(x)) {
			rnd32 = append(rnd32, operand.F32(x))
		}
	}
	add("f32_random", rnd32)
	// integers: the extremes of every type
	ext := func(bits uint) []uint64 {
		m := ^uint64(0) >> (64 - bits)
		return []uint64{0, 1, 2, m, m - 1, m >> 1, m>>1 + 1, m>>1 + 2, 0x55555555_55555555 & m, 0xaaaaaaaa_aaaaaaaa & m, 10, 100, 255 & m, 256 & m}
	}
	mk := map[string]func(u uint64) operand.Constant{
		"i8": func(u uint64) operand.Constant { return operand.I8(int8(u)) }, "u8": func(u uint64) operand.Constant { return operand.U8(uint8(u)) },
		"i16": func(u uint64) operand.Constant { return operand.I16(int16(u)) }, "u16": func(u uint64) operand.Constant { return operand.U16(uint16(u)) },
		"i32": func(u uint64) operand.Constant { return operand.I32(int32(u)) }, "u32": func(u uint64) operand.Constant { return operand.U32(uint32(u)) },
		"i64": func(u uint64) operand.Constant { return operand.I64(int64(u)) }, "u64": func(u uint64) operand.Constant { return operand.U64(u) },
	}
	for _, kind := range []string{"i8", "u8", "i16", "u16", "i32", "u32", "i64", "u64"} {
		bits, _ := strconv.Atoi(kind[1:])
		var vs []operand.Constant
		for _, u := range ext(uint(bits)) {
			vs = append(vs, mk[kind](u))
		}
		add("int_"+kind, vs)
	}
	// strings
	var single []operand.Constant
	all := make([]byte, 256)
	for b := 0; b < 256; b++ {
		single = append(single, operand.String(string([]byte{byte(b)})))
		all[b] = byte(b)
	}
	add("str_every_byte_alone", single)
	add("str_all_bytes", []operand.Constant{operand.String(string(all)), operand.String(string(all[128:]) + string(all[:128]))})
	add("str_escapes", []operand.Constant{operand.String(`"`), operand.String(`\`), operand.String("\\\""), operand.String("a\nb\tc\r\x00"), operand.String("100%d %s %"),
		operand.String("café λ 世界 😀"), operand.String("\xff\xfe\xc3"), operand.String("·∕"), operand.String("$(1.5)"), operand.String("/* x */ // y"), operand.String("a;b"), operand.String("'")})
	add("str_long", []operand.Constant{operand.String(strings.Repeat("0123456789abcdef", 256)), operand.String("x")})
	// mixed sizes in one section, a section referenced by nothing, non-static symbols with gaps
	add("mixed", []operand.Constant{operand.U8(1), operand.U8(2), operand.U16(0x0304), operand.U32(0x05060708), operand.F32(1.5), operand.F64(-2.5), operand.String("tail"), operand.I8(-1)})
	c := c11cNew("data=public")
	c.fn("f", attr.NOSPLIT, c11cSig, nil, nil)
	c.public("Pub", attr.RODATA|attr.NOPTR, []operand.Constant{operand.U64(1), operand.F64(1e-9), operand.String("pub")}, 0)
	c.public("gaps", attr.NOPTR, []operand.Constant{operand.U32(0xdeadbeef), operand.U8(7), operand.F32(1e21)}, 3)
	c.public("plain", 0, []operand.Constant{operand.U64(42)}, 0)
	cs = append(cs, c)
	c = c11cNew("data=no_data")
	c.fn("f", attr.NOSPLIT, c11cSig, nil, nil)
	c.public("bss", 0, nil, 0)
	c.extra = append(c.extra, func(f *ir.File) {
		for _, s := range f.Sections {
			if g, ok := s.(*ir.Global); ok && g.Symbol.Name == "·bss" {
				g.Grow(64)
			}
		}
	})
	c.globals[len(c.globals)-1].size = 64
	cs = append(cs, c)
	return cs
}

// c11cSuffixInstrs: one instruction per suffix list the constructors accept for the opcodes tried.
func c11cSuffixInstrs() (ins []*ir.Instruction, names []string) {
	seen := map[string]bool{}
	z, k := reg.Z1, reg.K1
	mem := operand.Mem{Base: reg.RAX}
	for cls := uint8(0); cls < 32; cls++ {
		var sets [][]string
		func() {
			defer func() { _ = recover() }()
			sets = x86.VerifSuffixSets(cls)
		}()
		sort.Slice(sets, func(i, j int) bool { return strings.Join(sets[i], ".") < strings.Join(sets[j], ".") })
		for _, sfx := range sets {
			name := strings.Join(sfx, ".")
			if len(sfx) == 0 || seen[name] {
				continue
			}
			for _, opc := range []string{"VADDPD", "VMAXPD", "VCVTTPD2DQ", "VMOVDQU64", "VPADDD", "VCMPPD"} {
				for _, ops := range [][]operand.Op{{z, reg.Z2, reg.Z3}, {z, reg.Z2, k, reg.Z3}, {mem, reg.Z2, reg.Z3}, {mem, reg.Z2, k, reg.Z3},
					{z, reg.Y2}, {z, k, reg.Y2}, {z, reg.Z2}, {z, k, reg.Z2}, {operand.U8(1), z, reg.Z2, k}, {operand.U8(1), z, reg.Z2, reg.K2, k}, {operand.U8(1), mem, reg.Z2, k}} {
					if i, err := x86.VerifBuild(opc, sfx, ops); err == nil && i != nil && !seen[name] {
						seen[name] = true
						ins = append(ins, i)
						names = append(names, name)
					}
				}
			}
		}
	}
	return ins, names
}

func c11cTextCases() []*c11cCase {
	var cs []*c11cCase
	build1 := func(c *c11cCase, opc string, sfx []string, ops ...operand.Op) func(ctx *build.Context) {
		return func(ctx *build.Context) {
			i, err := x86.VerifBuild(opc, sfx, ops)
			if err != nil || i == nil {
				c.nerr++
				return
			}
			ctx.Instruction(i)
		}
	}
	// long opcodes (with and without suffixes) in one block with short ones, operand-less ones in between
	c := c11cNew("text=long_opcodes")
	c.fn("f", attr.NOSPLIT, c11cSig, nil, func(ctx *build.Context) {
		build1(c, "VFNMSUB231PD", []string{"RZ_SAE", "Z"}, reg.Z1, reg.Z2, reg.K1, reg.Z3)(ctx)
		ctx.ADDQ(reg.RAX, reg.RBX)
		build1(c, "VGF2P8AFFINEINVQB", nil, operand.U8(1), reg.X1, reg.X2, reg.X3)(ctx)
		ctx.CQO()
		build1(c, "VFMADD231PD", []string{"RN_SAE"}, reg.Z1, reg.Z2, reg.Z3)(ctx)
		build1(c, "VCVTUSI2SDQ", []string{"RU_SAE"}, reg.RAX, reg.X2, reg.X3)(ctx)
		build1(c, "VAESKEYGENASSIST", nil, operand.U8(1), reg.X1, reg.X2)(ctx)
		build1(c, "VPCLMULQDQ", nil, operand.U8(0x11), reg.Z1, reg.Z2, reg.Z3)(ctx)
		ctx.VZEROUPPER()
		build1(c, "VFNMADD231PD", []string{"RZ_SAE", "Z"}, reg.Z1, reg.Z2, reg.K1, reg.Z3)(ctx)
		ctx.INCQ(reg.RAX)
	})
	cs = append(cs, c)
	// instructions from many instruction-set extensions: a long `// Requires:` line
	c = c11cNew("text=many_isa")
	c.fn("f", attr.NOSPLIT, c11cSig, nil, func(ctx *build.Context) {
		ctx.ADCXQ(reg.RAX, reg.RBX)
		ctx.AESENC(reg.X1, reg.X2)
		ctx.VADDPD(reg.Y1, reg.Y2, reg.Y3)
		ctx.VPADDD(reg.Y1, reg.Y2, reg.Y3)
		ctx.VPADDB(reg.Z1, reg.Z2, reg.Z3)
		ctx.VANDPD(reg.Z1, reg.Z2, reg.Z3)
		ctx.VADDPD(reg.Z1, reg.Z2, reg.Z3)
		ctx.VADDPD(reg.X17, reg.X18, reg.X19)
		ctx.ANDNQ(reg.RAX, reg.RBX, reg.RCX)
		ctx.MULXQ(reg.RAX, reg.RBX, reg.RCX)
		ctx.PCLMULQDQ(operand.U8(0), reg.X1, reg.X2)
		ctx.POPCNTQ(reg.RAX, reg.RBX)
		ctx.PADDD(reg.X1, reg.X2)
		ctx.PMULLD(reg.X1, reg.X2)
		ctx.PSHUFB(reg.X1, reg.X2)
		ctx.SHA1MSG1(reg.X1, reg.X2)
		ctx.LZCNTQ(reg.RAX, reg.RBX)
		ctx.CRC32Q(reg.RAX, reg.RBX)
		ctx.VFMADD231PD(reg.Y1, reg.Y2, reg.Y3)
		ctx.VPOPCNTD(reg.Z1, reg.Z2)
		ctx.VZEROUPPER()
	})
	cs = append(cs, c)
	// every suffix list
	ins, names := c11cSuffixInstrs()
	c = c11cNew("text=suffix_lists")
	for _, n := range names {
		c.dims = append(c.dims, "suffix="+n)
	}
	c.fn("f", attr.NOSPLIT, c11cSig, nil, func(ctx *build.Context) {
		for _, i := range ins {
			ctx.Instruction(i)
		}
	})
	cs = append(cs, c)
	// labels: consecutive labels, a label directly in front of the final RET, 30 labels with forward and backward branches
	c = c11cNew("text=labels")
	c.fn("f", attr.NOSPLIT, c11cSig, nil, func(ctx *build.Context) {
		ctx.XORL(reg.EAX, reg.EAX)
		for k := 0; k < 30; k++ {
			ctx.Label(fmt.Sprintf("l%d", k))
			if k%5 == 0 {
				ctx.Label(fmt.Sprintf("twin%d", k))
			}
			ctx.ADDQ(operand.I8(1), reg.RAX)
			ctx.CMPQ(reg.RAX, operand.I8(int8(k)))
			if k%2 == 0 {
				ctx.JNE(operand.LabelRef(fmt.Sprintf("l%d", (k+7)%30)))
			} else {
				ctx.JEQ(operand.LabelRef(fmt.Sprintf("l%d", k/2)))
			}
			if k%5 == 0 {
				ctx.JLT(operand.LabelRef(fmt.Sprintf("twin%d", k)))
			}
		}
		ctx.JMP(operand.LabelRef("end"))
		ctx.Comment("not reached")
		ctx.ADDQ(operand.I8(1), reg.RAX)
		ctx.Label("end")
	})
	cs = append(cs, c)
	// many functions and data sections in one file
	c = c11cNew("text=many_sections")
	for k := 0; k < 40; k++ {
		if k%4 == 1 {
			c.data(fmt.Sprintf("d%d", k), []attr.Attribute{attr.RODATA | attr.NOPTR, attr.NOPTR, 0}[k%3], []operand.Constant{operand.U64(uint64(k)), operand.F64(float64(k) * 1e-9)})
		}
		k := k
		c.fn(fmt.Sprintf("f%d", k), []attr.Attribute{attr.NOSPLIT, 0, attr.NOSPLIT | attr.NOFRAME, attr.DUPOK}[k%4], p11SigPool[k%7], nil, func(ctx *build.Context) {
			ctx.MOVQ(operand.U64(uint64(k)), reg.RAX)
			if k%3 == 0 {
				ctx.Label("again")
				ctx.DECQ(reg.RAX)
				ctx.JNE(operand.LabelRef("again"))
			}
		})
	}
	cs = append(cs, c)
	// frame sizes
	for _, fr := range []int{0, 8, 16, 24, 4096, 65528, 1 << 20, 1 << 24, 1 << 30} {
		c = c11cNew(fmt.Sprintf("text=frame_%d", fr))
		var locals []int
		if fr > 0 {
			locals = []int{fr}
		}
		c.fn("f", attr.NOSPLIT, c11cSig, locals, nil)
		cs = append(cs, c)
	}
	// argument sizes
	for _, sg := range []struct{ name, sig string }{{"0", "func()"}, {"1", "func(b bool)"}, {"result_only", "func() (r [3]byte)"}, {"padded", "func(a uint8) (r uint64)"},
		{"big_array", "func(a [65536]uint64) uint64"}, {"huge_array", "func(a [1 << 27]uint64, b uint8) (r uint16)"}, {"many", "func(a, b, c, d, e, f, g, h, i, j, k, l uint64, m uint8) (x, y uint32)"}} {
		c = c11cNew("text=args_" + sg.name)
		c.fn("f", attr.NOSPLIT, sg.sig, nil, nil)
		cs = append(cs, c)
	}
	return cs
}

// ---------------------------------------------------------------------------
// the object's data symbols

type c11cSym struct {
	name, kind    string
	static, dupok bool
	size          int
	bytes         []byte
}

var c11cReDataHdr = regexp.MustCompile(`^(\S+) S(RODATA|NOPTRDATA|DATA|BSS|NOPTRBSS|TLSBSS)((?: \S+)*) size=(\d+)`)

func c11cParseDataSyms(listing string) []c11cSym {
	var syms []c11cSym
	in := false
	for _, l := range strings.Split(listing, "\n") {
		if m := c11cReDataHdr.FindStringSubmatch(l); m != nil {
			name := m[1]
			if i := strings.LastIndex(name, "."); i >= 0 {
				name = name[i+1:]
			}
			size, _ := strconv.Atoi(m[4])
			fl := " " + m[3] + " "
			syms = append(syms, c11cSym{name: name, kind: m[2], static: strings.Contains(fl, " static "), dupok: strings.Contains(fl, " dupok "), size: size})
			in = true
			continue
		}
		if reAnyHdr.MatchString(l) {
			in = false
			continue
		}
		if !in {
			continue
		}
		if m := reHexLine.FindStringSubmatch(l); m != nil {
			s := &syms[len(syms)-1]
			for _, h := range strings.Fields(m[2]) {
				b, _ := strconv.ParseUint(h, 16, 8)
				s.bytes = append(s.bytes, byte(b))
			}
		}
	}
	return syms
}

func c11cHexBytes(b []byte) string { return hexs(string(b)) }

// c11cScanNumber: what Go's text/scanner (the scanner of cmd/asm's lexer, same mode bits) takes as the first token.
func c11cScanNumber(text string) string {
	var s scanner.Scanner
	s.Init(strings.NewReader(text))
	s.Mode = scanner.ScanChars | scanner.ScanFloats | scanner.ScanIdents | scanner.ScanInts | scanner.ScanStrings | scanner.ScanComments
	s.Error = func(*scanner.Scanner, string) {}
	tok := s.Scan()
	return itoa(len(s.TokenText())) + " " + p11B01(tok == scanner.Float)
}

// c11cModelled: the fragment of number texts Model/AsmLit speaks about.
func c11cModelled(t string) bool {
	if t == "" || t[0] < '0' || t[0] > '9' {
		return false
	}
	return strings.Trim(t, "0123456789.eE+-)") == ""
}

// c11cEmitScans ties the Lean model of the scanner to text/scanner on the literal of every float constant of the
// case and on neighbours of it (a second point, no point, an exponent in front of the point).
func c11cEmitScans(o *out, c *c11cCase, st map[string]int, seen map[string]bool) {
	for _, s := range c.file.Sections {
		g, ok := s.(*ir.Global)
		if !ok {
			continue
		}
		for _, d := range g.Data {
			switch d.Value.(type) {
			case operand.F32, operand.F64:
			default:
				continue
			}
			a := d.Value.Asm()
			if !strings.HasPrefix(a, "$(") {
				continue
			}
			lit := strings.TrimLeft(a[2:], "+-")
			bare := strings.TrimSuffix(lit, ")")
			for _, t := range []string{lit, bare + ".0)", strings.Replace(bare, ".", "", 1) + ")", strings.Replace(bare, ".", "e-09.", 1) + ")", bare + "e+21)", bare + "e)", bare + "E5.5)"} {
				if seen[t] || !c11cModelled(t) {
					continue
				}
				seen[t] = true
				st["cov_scans"]++
				o.emit("scan-number "+hexs(t), c11cScanNumber(t))
			}
		}
	}
}

func (c *c11cCase) tag() string { return "cover=" + strings.Join(c.dims, ",") }

func c11cRun(args []string) error {
	f := newStdFlags("c11cov")
	work := f.fs.String("work", ".", "scratch directory for .s/.o files")
	if err := f.fs.Parse(args); err != nil {
		return err
	}
	o, err := openOut(f)
	if err != nil {
		return err
	}
	defer o.close()
	st := map[string]int{}
	r := newRng(*f.seed ^ 0xc0c0)
	dir := filepath.Join(*work, "cov")
	if err := os.MkdirAll(dir, 0o755); err != nil {
		return err
	}
	include := filepath.Join(goroot(), "pkg", "include")
	cfg := printer.Config{Name: "avo", Pkg: "p"}
	var cases []*c11cCase
	cases = append(cases, c11cAttrCases()...)
	cases = append(cases, c11cDataCases(r)...)
	cases = append(cases, c11cTextCases()...)
	if *f.n > 0 && *f.n < len(cases) {
		// a smaller run (debugging): an evenly spaced subset
		var sub []*c11cCase
		for k := 0; k < *f.n; k++ {
			sub = append(sub, cases[k*len(cases)/(*f.n)])
		}
		cases = sub
	}
	// phase 1: build, compile, print
	var ready []*c11cCase
	for _, c := range cases {
		st["cov_cases"]++
		st["cov_ctor_error"] += c.nerr
		file, err := c.ctx.Result()
		if err != nil {
			st["cov_build_error"]++
			continue
		}
		file.Includes = append(file.Includes, c.includes...)
		for _, x := range c.extra {
			x(file)
		}
		if err := pass.Compile.Execute(file); err != nil {
			st["cov_compile_error"]++
			continue
		}
		for _, fn := range file.Functions() {
			if err := pass.LabelTarget(fn); err != nil {
				st["cov_labeltarget_error"]++
			}
		}
		text, status := p11PrintAsm(cfg, file)
		if status != "ok" {
			st["cov_print_"+status]++
		}
		c.file, c.text = file, text
		ready = append(ready, c)
	}
	// phase 2: assemble (in parallel)
	runs := make([]p11AsmRun, len(ready))
	var wg sync.WaitGroup
	sem := make(chan struct{}, 8)
	for k, c := range ready {
		wg.Add(1)
		go func(k int, c *c11cCase) {
			defer wg.Done()
			sem <- struct{}{}
			defer func() { <-sem }()
			base := filepath.Join(dir, fmt.Sprintf("c%d", k))
			if err := os.WriteFile(base+".s", []byte(c.text), 0o644); err != nil {
				runs[k] = p11AsmRun{[]byte(err.Error()), err}
				return
			}
			runs[k] = p11RunAsm(include, base+".s", base+".o")
			if os.Getenv("AVOH_KEEP") == "" {
				os.Remove(base + ".s")
				os.Remove(base + ".o")
			}
		}(k, c)
	}
	wg.Wait()
	// phase 3: judge
	a := &p11Asm{o: o, st: st, dir: dir, include: include, cfg: cfg, pre: map[string]p11AsmRun{}}
	scanned := map[string]bool{}
	for k, c := range ready {
		c11cEmitScans(o, c, st, scanned)
		a.pre = map[string]p11AsmRun{c.text: runs[k]}
		a.lastAccepted = false
		if err := a.measure(c.file, c.tag(), c.want, false); err != nil {
			return err
		}
		if !a.lastAccepted {
			st["cov_rejected"]++
			continue
		}
		st["cov_accepted"]++
		// the data symbols
		e := &p11Enc{}
		e.int(len(c.globals))
		for _, g := range c.globals {
			e.str(g.name)
			e.add(p11B01(g.static))
			e.int(int(g.attrs))
			e.int(g.size)
			e.int(len(g.data))
			for _, d := range g.data {
				e.int(d.off)
				e.int(len(d.want))
				e.add(c11cHexBytes(d.want))
				st["cov_data_constants"]++
				st["cov_data_bytes"] += len(d.want)
			}
		}
		syms := c11cParseDataSyms(a.lastListing)
		e.int(len(syms))
		for _, s := range syms {
			e.str(s.name)
			e.add(s.kind, p11B01(s.static), p11B01(s.dupok))
			e.int(s.size)
			e.add(c11cHexBytes(s.bytes))
		}
		st["cov_data_symbols"] += len(c.globals)
		o.emit("accept-objdata "+c.tag()+" "+e.String(), "ok")
		for _, d := range c.dims {
			st["cov_"+d]++
		}
	}
	return writeJSON(*f.stats, st)
}

func init() {
	register("c11cov", "covering set of file contents through go tool asm: attributes, data constants, printer shapes", c11cRun)
}
