package main

import (
	"fmt"
	"sort"
	"strings"

	"github.com/mmcloughlin/avo/ir"
	"github.com/mmcloughlin/avo/operand"
	"github.com/mmcloughlin/avo/reg"
	"github.com/mmcloughlin/avo/x86"
)

// ---------------------------------------------------------------------------
// Random function generator shared by the pass-level properties (C01, C02,
// C03, C09, C10, C15, C17).  Instructions are built by the real form table
// (x86.VerifBuild == what every generated constructor calls).
// ---------------------------------------------------------------------------

type genCfg struct {
	minInstr, maxInstr int
	nGP, nVec, nK      int  // number of virtual registers of each kind
	physPct            int  // % of register operands that are author-chosen physical registers
	strict             bool // reads only of lanes previously written (C01's hypothesis)
	branchPct          int  // % of instructions that are branches
	randomFormPct      int  // % of instructions drawn uniformly from the whole table (else curated list)
	malformed          bool // allow undefined/duplicate/trailing labels and Rel branch targets
	allowSP            bool
	noBranches         bool
	opcodes            []string // restrict to these opcodes (curated executable subset), if non-nil
	indirectJumps      bool     // allow JMP r64 / JMP m64 (branches with a non-label target)
	jumpBeforeLabelPct int      // % of labels preceded by `JMP label` (possibly twice, possibly with a comment in between)
	pressureTail       bool     // before the final RET read every virtual register (all simultaneously live)
	// The two fields below default to 0 = the behaviour (and the random stream) of every generator written before them.
	restrictedPct int // % of author-chosen PHYSICAL picks that are the RESTRICTED register of the kind (SP in the asked view, K0)
	regMovePct    int // % of instruction slots filled with a plain register-to-register move (see buildRegMove)
}

type vreg struct {
	r       reg.Register // the base virtual (widest view it was created with)
	kind    reg.Kind
	defined uint16 // lanes written so far (strict mode)
}

type fgen struct {
	r      *rng
	db     *formsDB
	cfg    genCfg
	col    *reg.Collection
	virt   []*vreg
	fn     *ir.Function
	labels []string
	stats  map[string]int
}

var curatedOpcodes = []string{
	"MOVQ", "MOVL", "MOVW", "MOVB", "ADDQ", "ADDL", "ADDW", "ADDB", "SUBQ", "SUBL", "XORQ", "XORL", "XORB", "ANDQ", "ORQ",
	"MOVBQZX", "MOVBLZX", "MOVWQZX", "MOVBQSX", "MOVLQSX", "MOVLQZX", "LEAQ", "LEAL", "IMULQ", "IMUL3Q", "MULQ", "DIVQ", "MULXQ", "CMPQ", "TESTQ",
	"SHLQ", "SHRQ", "SARQ", "ROLQ", "RORXQ", "BSWAPQ", "BSWAPL", "NEGQ", "NOTQ", "INCQ", "DECQ", "ADCQ", "SBBQ", "ADCXQ", "ADOXQ",
	"CMOVQEQ", "CMOVLNE", "SETEQ", "SETNE", "XCHGQ", "XCHGB", "XADDQ", "CMPXCHGQ", "POPCNTQ", "LZCNTQ", "BSFQ", "CPUID", "RDTSC", "CQO", "CDQ", "CWD", "CBW",
	"PXOR", "PADDD", "PADDQ", "MOVOU", "MOVQ", "MOVD", "PSHUFB", "PINSRQ", "PEXTRQ", "PCMPEQB", "PBLENDVB", "ADDPD", "MULSD", "CVTSI2SDQ",
	"VPXOR", "VPADDD", "VPADDQ", "VMOVDQU", "VMOVDQU64", "VPXORD", "VPXORQ", "VPADDD", "VPTERNLOGD", "VPERMQ", "VPBLENDMD", "VPCMPEQB", "VPCMPEQD", "VPMOVM2B",
	"VADDPD", "VFMADD231PD", "VGATHERDPD", "VPGATHERDD", "VEXTRACTI128", "VINSERTI128", "VZEROUPPER", "VZEROALL", "VBROADCASTSD", "VPBROADCASTD",
	"KMOVQ", "KMOVW", "KANDQ", "KXORQ", "KORQ", "KNOTQ", "KADDQ", "KORTESTQ", "KUNPCKBW", "KSHIFTLQ",
	"PUSHQ", "POPQ", "NOP", "CLC", "STC", "LAHF", "SAHF", "MOVSQ", "STOSQ", "REP",
}

func newFgen(r *rng, db *formsDB, cfg genCfg) *fgen {
	g := &fgen{r: r, db: db, cfg: cfg, col: reg.NewCollection(), stats: map[string]int{}}
	g.fn = ir.NewFunction("f")
	for i := 0; i < cfg.nGP; i++ {
		var v reg.Register
		switch r.intn(8) {
		case 0:
			v = g.col.GP8L()
		case 1:
			v = g.col.GP16()
		case 2, 3:
			v = g.col.GP32()
		default:
			v = g.col.GP64()
		}
		g.virt = append(g.virt, &vreg{r: v, kind: reg.KindGP})
	}
	for i := 0; i < cfg.nVec; i++ {
		var v reg.Register
		switch r.intn(3) {
		case 0:
			v = g.col.XMM()
		case 1:
			v = g.col.YMM()
		default:
			v = g.col.ZMM()
		}
		g.virt = append(g.virt, &vreg{r: v, kind: reg.KindVector})
	}
	for i := 0; i < cfg.nK; i++ {
		g.virt = append(g.virt, &vreg{r: g.col.K(), kind: reg.KindOpmask})
	}
	return g
}

// view converts a register to the given spec (panics are not expected for the specs used here except 8H on idx>=4).
func asSpec(r reg.Register, s reg.Spec) (out reg.Register) {
	defer func() {
		if recover() != nil {
			out = nil
		}
	}()
	switch s {
	case reg.S8L:
		return r.(reg.GP).As8L()
	case reg.S8H:
		return r.(reg.GP).As8H()
	case reg.S16:
		return r.(reg.GP).As16()
	case reg.S32:
		return r.(reg.GP).As32()
	case reg.S64:
		if _, ok := r.(reg.GP); ok {
			return r.(reg.GP).As64()
		}
		return r // opmask
	case reg.S128:
		return r.(reg.Vec).AsX()
	case reg.S256:
		return r.(reg.Vec).AsY()
	case reg.S512:
		return r.(reg.Vec).AsZ()
	}
	return nil
}

var physGP64 = []reg.Register{reg.RAX, reg.RCX, reg.RDX, reg.RBX, reg.RSI, reg.RDI, reg.R8, reg.R9, reg.R10, reg.R11, reg.R12, reg.R13, reg.R14, reg.R15, reg.RBP}

func physVec(i int) reg.Register {
	for _, p := range reg.Vector.Registers() {
		if p.PhysicalIndex() == reg.Index(i) && p.Mask() == reg.S128.Mask() {
			return p
		}
	}
	return reg.X0
}

// pickReg returns a register of the given kind and spec for a read or write position.
func (g *fgen) pickReg(kind reg.Kind, s reg.Spec, read bool) reg.Register {
	r := g.r
	usePhys := r.intn(100) < g.cfg.physPct
	var cands []*vreg
	if !usePhys {
		for _, v := range g.virt {
			if v.kind != kind {
				continue
			}
			if read && g.cfg.strict && v.defined&s.Mask() != s.Mask() {
				continue
			}
			cands = append(cands, v)
		}
	}
	if len(cands) > 0 {
		v := pick(r, cands)
		if out := asSpec(v.r, s); out != nil {
			return out
		}
	}
	// physical
	switch kind {
	case reg.KindGP:
		var base reg.Register
		if s == reg.S8H {
			base = pick(r, []reg.Register{reg.RAX, reg.RCX, reg.RDX, reg.RBX})
		} else {
			base = pick(r, physGP64)
			if g.cfg.allowSP && r.chance(1, 20) {
				base = reg.RSP
			}
			if g.cfg.restrictedPct > 0 && r.intn(100) < g.cfg.restrictedPct {
				base = reg.RSP
				g.stats["restricted_pick"]++
			}
		}
		return asSpec(base, s)
	case reg.KindVector:
		n := 16
		if r.chance(1, 3) {
			n = 32
		}
		return asSpec(physVec(r.intn(n)), s)
	case reg.KindOpmask:
		ks := reg.Opmask.Registers()
		i := 1 + r.intn(7)
		if r.chance(1, 30) {
			i = 0
		}
		if g.cfg.restrictedPct > 0 && r.intn(100) < g.cfg.restrictedPct {
			i = 0
			g.stats["restricted_pick"]++
		}
		return ks[i]
	}
	return nil
}

func (g *fgen) mem(read bool, vecIndex reg.Spec) operand.Op {
	r := g.r
	m := operand.Mem{}
	switch r.intn(10) {
	case 0:
		m = operand.NewParamAddr("x", 8*r.intn(4))
	case 1:
		m = operand.NewStackAddr(8 * r.intn(8))
	case 2:
		m = operand.NewDataAddr(operand.NewStaticSymbol("data"), 8*r.intn(4))
	default:
		m.Base = g.pickReg(reg.KindGP, reg.S64, true)
		if r.chance(1, 2) {
			m.Disp = pick(r, []int{0, 8, -8, 16, 127, 128, -129, 4096, 0x7fffffff})
		}
	}
	if vecIndex != 0 {
		if m.Base == nil || m.Base.Kind() != reg.KindGP {
			m = operand.Mem{Base: g.pickReg(reg.KindGP, reg.S64, true)}
		}
		m.Index = g.pickReg(reg.KindVector, vecIndex, true)
		m.Scale = pick(r, []uint8{1, 2, 4, 8})
	} else if r.chance(1, 3) {
		m.Index = g.pickReg(reg.KindGP, reg.S64, true)
		m.Scale = pick(r, []uint8{1, 2, 4, 8})
	}
	return m
}

func (g *fgen) imm(bits int) operand.Op {
	r := g.r
	x := r.u64()
	switch r.intn(4) {
	case 0:
		x = uint64(r.intn(4))
	case 1:
		x = ^uint64(0) - uint64(r.intn(3))
	}
	signed := r.chance(1, 2)
	switch bits {
	case 8:
		if signed {
			return operand.I8(int8(x))
		}
		return operand.U8(uint8(x))
	case 16:
		if signed {
			return operand.I16(int16(x))
		}
		return operand.U16(uint16(x))
	case 32:
		if signed {
			return operand.I32(int32(x))
		}
		return operand.U32(uint32(x) & 0x7fffffff)
	default:
		if signed {
			return operand.I64(int64(x))
		}
		return operand.U64(x)
	}
}

// operandFor builds an operand accepted by operand type name t.
func (g *fgen) operandFor(t string, action uint8) operand.Op {
	read := action&1 != 0 || action == 0
	switch t {
	case "1":
		return operand.U8(1)
	case "3":
		return operand.U8(3)
	case "imm2u":
		return operand.U8(g.r.intn(4))
	case "imm8":
		return g.imm(8)
	case "imm16":
		return g.imm(16)
	case "imm32":
		return g.imm(32)
	case "imm64":
		return g.imm(64)
	case "al":
		return reg.AL
	case "cl":
		return reg.CL
	case "ax":
		return reg.AX
	case "eax":
		return reg.EAX
	case "rax":
		return reg.RAX
	case "xmm0":
		return reg.X0
	case "r8":
		s := reg.S8L
		if g.r.chance(1, 4) {
			s = reg.S8H
		}
		return g.pickReg(reg.KindGP, s, read)
	case "r16":
		return g.pickReg(reg.KindGP, reg.S16, read)
	case "r32":
		return g.pickReg(reg.KindGP, reg.S32, read)
	case "r64":
		return g.pickReg(reg.KindGP, reg.S64, read)
	case "xmm":
		return g.pickReg(reg.KindVector, reg.S128, read)
	case "ymm":
		return g.pickReg(reg.KindVector, reg.S256, read)
	case "zmm":
		return g.pickReg(reg.KindVector, reg.S512, read)
	case "k":
		return g.pickReg(reg.KindOpmask, reg.S64, read)
	case "m", "m8", "m16", "m32", "m64", "m128", "m256", "m512":
		return g.mem(read, 0)
	case "vm32x", "vm64x":
		return g.mem(read, reg.S128)
	case "vm32y", "vm64y":
		return g.mem(read, reg.S256)
	case "vm32z", "vm64z":
		return g.mem(read, reg.S512)
	case "rel8":
		return operand.Rel(int32(int8(g.r.u64())))
	case "rel32":
		if len(g.labels) > 0 && !(g.cfg.malformed && g.r.chance(1, 10)) {
			return operand.LabelRef(pick(g.r, g.labels))
		}
		if g.cfg.malformed && g.r.chance(1, 2) {
			return operand.Rel(int32(g.r.u64()))
		}
		return operand.LabelRef("undefined_label")
	}
	panic("operandFor: unknown operand type " + t)
}

// buildForm instantiates form row f with generated operands through the real table.
func (g *fgen) buildForm(f *formRow) *ir.Instruction {
	var ops []operand.Op
	for i, o := range f.Operands {
		if o.Implicit {
			continue
		}
		op := g.operandFor(f.TypeNames[i], o.Action)
		if op == nil {
			return nil
		}
		ops = append(ops, op)
	}
	if f.Features&featCancelling != 0 && len(ops) >= 2 {
		// self-cancelling forms: sometimes the same register twice (not a read), sometimes the low and the high
		// byte of ONE register (same identity, different bytes: both are reads)
		a, ok1 := ops[0].(reg.Register)
		b, ok2 := ops[1].(reg.Register)
		if ok1 && ok2 {
			switch g.r.intn(6) {
			case 0:
				ops[1] = ops[0]
				g.stats["cancelling_same"]++
			case 1, 2:
				if a.Kind() == reg.KindGP && a.Size() == 1 && b.Size() == 1 {
					base := g.pickReg(reg.KindGP, reg.S16, true)
					lo, hi := asSpec(base, reg.S8L), asSpec(base, reg.S8H)
					if lo != nil && hi != nil {
						if g.r.chance(1, 2) {
							lo, hi = hi, lo
						}
						ops[0], ops[1] = lo, hi
						g.stats["cancelling_other_view"]++
					}
				}
			}
		}
	}
	var sfx []string
	if len(f.Suffixes) > 0 {
		sfx = pick(g.r, f.Suffixes)
	}
	inst, err := x86.VerifBuild(f.Opcode, sfx, ops)
	if err != nil || inst == nil {
		g.stats["build_rejected"]++
		return nil
	}
	return inst
}

func (g *fgen) noteDefs(inst *ir.Instruction) {
	for _, op := range inst.Outputs {
		r, ok := op.(reg.Register)
		if !ok {
			continue
		}
		m := r.Mask()
		if operand.IsR32(op) {
			m = reg.S64.Mask()
		}
		for _, v := range g.virt {
			if v.r.ID() == r.ID() {
				v.defined |= m
			}
		}
	}
}

func (g *fgen) isBranchForm(f *formRow) bool { return f.Features&featBranch != 0 }

func (g *fgen) pickForm(branch bool) *formRow {
	db := g.db
	for tries := 0; tries < 200; tries++ {
		var f *formRow
		if branch {
			op := pick(g.r, []string{"JMP", "JEQ", "JNE", "JLT", "JGE", "JCS", "JHI", "JMP", "JCXZQ", "JECXZ", "JA", "JZ"})
			idxs := db.byOpcode[op]
			if len(idxs) == 0 {
				continue
			}
			f = &db.rows[pick(g.r, idxs)]
			if f.TypeNames[0] != "rel32" && !g.cfg.malformed && !g.cfg.indirectJumps {
				continue
			}
			return f
		}
		if g.cfg.opcodes != nil {
			idxs := db.byOpcode[pick(g.r, g.cfg.opcodes)]
			if len(idxs) == 0 {
				continue
			}
			f = &db.rows[pick(g.r, idxs)]
		} else if g.r.intn(100) < g.cfg.randomFormPct {
			f = &db.rows[g.r.intn(len(db.rows))]
		} else {
			idxs := db.byOpcode[pick(g.r, curatedOpcodes)]
			if len(idxs) == 0 {
				continue
			}
			f = &db.rows[pick(g.r, idxs)]
		}
		if g.isBranchForm(f) || f.Features&featTerminal != 0 {
			continue
		}
		skip := false
		for _, t := range f.TypeNames {
			if t == "rel8" || t == "rel32" {
				skip = true // CALL/XBEGIN/LOOP-like non-branch label users are generated deliberately elsewhere
			}
		}
		if skip {
			continue
		}
		return f
	}
	return nil
}

// generate builds the whole function.
func (g *fgen) generate() *ir.Function {
	r := g.r
	n := r.rangeIn(g.cfg.minInstr, g.cfg.maxInstr)
	nl := 0
	if !g.cfg.noBranches {
		nl = r.intn(1 + n/4)
		if nl > 8 {
			nl = 8
		}
	}
	for i := 0; i < nl; i++ {
		g.labels = append(g.labels, fmt.Sprintf("l%d", i))
	}
	// positions of labels among instruction slots [0,n]
	labelAt := map[int][]string{}
	for _, l := range g.labels {
		p := r.intn(n + 1)
		if !g.cfg.malformed && p == n {
			p = n - 1
		}
		if p < 0 {
			p = 0
		}
		labelAt[p] = append(labelAt[p], l)
	}
	if g.cfg.malformed && len(g.labels) > 0 && r.chance(1, 6) {
		// duplicate label somewhere (possibly adjacent to its twin)
		l := pick(r, g.labels)
		p := r.intn(n + 1)
		if r.chance(1, 2) {
			for q, ls := range labelAt {
				for _, x := range ls {
					if x == l {
						p = q
					}
				}
			}
		}
		labelAt[p] = append(labelAt[p], l)
		g.stats["dup_label"]++
	}
	// defined-lane snapshots for strict mode
	type snap map[reg.ID]uint16
	takeSnap := func() snap {
		s := snap{}
		for _, v := range g.virt {
			s[v.r.ID()] = v.defined
		}
		return s
	}
	pendingSnaps := map[string][]snap{} // forward branches to a label not yet placed
	labelSnap := map[string]snap{}      // defined lanes at an already placed label
	if g.cfg.pressureTail && r.chance(2, 3) {
		g.emitPressureHead()
	}
	for i := 0; i <= n; i++ {
		for _, l := range labelAt[i] {
			if g.cfg.jumpBeforeLabelPct > 0 && r.intn(100) < g.cfg.jumpBeforeLabelPct {
				for reps := 1 + r.intn(2); reps > 0; reps-- {
					if j, _ := x86.VerifBuild("JMP", nil, []operand.Op{operand.LabelRef(l)}); j != nil {
						g.fn.AddInstruction(j)
						g.stats["jump_before_label"]++
					}
				}
				if r.chance(1, 5) {
					g.fn.AddComment("between")
				}
			}
			if r.chance(1, 8) {
				g.fn.AddComment("c")
			}
			g.fn.AddLabel(ir.Label(l))
			if g.cfg.strict {
				for _, s := range pendingSnaps[l] {
					for _, v := range g.virt {
						v.defined &= s[v.r.ID()]
					}
				}
				labelSnap[l] = takeSnap()
			}
		}
		if i == n {
			break
		}
		if r.chance(1, 15) {
			g.fn.AddComment("comment")
		}
		var inst *ir.Instruction
		isBranch := !g.cfg.noBranches && len(g.labels) > 0 && r.intn(100) < g.cfg.branchPct
		if i == n-1 && g.cfg.pressureTail {
			g.emitPressureTail()
		}
		if i == n-1 && !(g.cfg.malformed && r.chance(1, 8)) && r.chance(9, 10) {
			inst, _ = x86.VerifBuild("RET", nil, nil)
		} else if !isBranch && r.chance(1, 40) && i > 0 {
			inst, _ = x86.VerifBuild("RET", nil, nil)
			if g.cfg.strict {
				// code after RET is reachable only through labels: nothing to do (snapshots handle joins)
			}
		} else {
			if !isBranch && g.cfg.regMovePct > 0 && r.intn(100) < g.cfg.regMovePct {
				inst = g.buildRegMove()
			}
			for tries := 0; tries < 50 && inst == nil; tries++ {
				f := g.pickForm(isBranch)
				if f == nil {
					continue
				}
				inst = g.buildForm(f)
			}
		}
		if inst == nil {
			inst, _ = x86.VerifBuild("NOP", nil, nil)
		}
		if g.cfg.strict && inst.IsBranch {
			if lbl := inst.TargetLabel(); lbl != nil {
				name := string(*lbl)
				if s, placed := labelSnap[name]; placed {
					// backward branch: everything assumed defined at the label must be defined now
					ok := true
					for _, v := range g.virt {
						if s[v.r.ID()]&^v.defined != 0 {
							ok = false
						}
					}
					if !ok {
						inst, _ = x86.VerifBuild("NOP", nil, nil)
						g.stats["backedge_dropped"]++
					}
				} else {
					pendingSnaps[name] = append(pendingSnaps[name], takeSnap())
				}
			}
		}
		g.noteDefs(inst)
		g.fn.AddInstruction(inst)
		g.stats["instr"]++
		if inst.IsBranch {
			g.stats["branch"]++
		}
	}
	return g.fn
}

// restrictedPhys is the register of a kind that must never be handed out by allocation, in the asked view, by the
// HARDWARE numbering (GP index 4 = the stack pointer, opmask index 0 = K0) — not by asking avo which rows it flags.
func restrictedPhys(kind reg.Kind, s reg.Spec) reg.Register {
	switch kind {
	case reg.KindGP:
		if s == reg.S8H {
			return nil
		}
		return asSpec(reg.RSP, s)
	case reg.KindOpmask:
		return reg.K0
	}
	return nil
}

// isRestrictedPhys: r is a view of the stack pointer or K0 (hardware numbering).
func isRestrictedPhys(r reg.Register) bool {
	p, ok := r.(reg.Physical)
	if !ok || r.ID().IsVirtual() {
		return false
	}
	return (p.Kind() == reg.KindGP && p.PhysicalIndex() == 4) || (p.Kind() == reg.KindOpmask && p.PhysicalIndex() == 0)
}

// isPlainRegMove: a two-operand register-to-register copy whose both sides are registers of ONE kind and ONE width
// (MOVB/MOVW/MOVL/MOVQ, KMOVx, MOVOU/MOVAPS/VMOVDQU…): the instructions a coalescing allocator looks at.
func isPlainRegMove(i *ir.Instruction) (src, dst reg.Register, ok bool) {
	if len(i.Operands) != 2 || !(strings.HasPrefix(i.Opcode, "MOV") || strings.HasPrefix(i.Opcode, "KMOV") || strings.HasPrefix(i.Opcode, "VMOV")) {
		return nil, nil, false
	}
	a, ok1 := i.Operands[0].(reg.Register)
	b, ok2 := i.Operands[1].(reg.Register)
	if !ok1 || !ok2 || a == nil || b == nil || a.Kind() != b.Kind() || a.Mask() != b.Mask() {
		return nil, nil, false
	}
	return a, b, true
}

// pickVirt: a virtual register of the kind in the given view (strict mode: for a read, one whose lanes are written).
func (g *fgen) pickVirt(kind reg.Kind, s reg.Spec, read bool) reg.Register {
	var cands []*vreg
	for _, v := range g.virt {
		if v.kind != kind || (read && g.cfg.strict && v.defined&s.Mask() != s.Mask()) {
			continue
		}
		cands = append(cands, v)
	}
	if len(cands) == 0 {
		return nil
	}
	return asSpec(pick(g.r, cands).r, s)
}

// buildRegMove builds a plain register-to-register move of one width between a VIRTUAL register and (a) the
// restricted register of the kind (SP / ESP / SP16 / SPB, K0), (b) another author-chosen physical register (the base
// pointer and high-byte registers included) or (c) another virtual register, in either direction.  These are the
// instructions a move-coalescing / preference heuristic of an allocator keys on; the form-table driven generator
// reaches them only by accident (MOVQ alone has a dozen forms and 2 in 3 register picks are virtual).
func (g *fgen) buildRegMove() *ir.Instruction {
	r := g.r
	type mv struct {
		kind reg.Kind
		s    reg.Spec
		op   string
	}
	var opts []mv
	for _, v := range g.virt {
		switch v.kind {
		case reg.KindGP:
			opts = append(opts, mv{reg.KindGP, reg.S64, "MOVQ"}, mv{reg.KindGP, reg.S32, "MOVL"}, mv{reg.KindGP, reg.S16, "MOVW"},
				mv{reg.KindGP, reg.S8L, "MOVB"}, mv{reg.KindGP, reg.S64, "MOVQ"}, mv{reg.KindGP, reg.S8H, "MOVB"})
		case reg.KindOpmask:
			opts = append(opts, mv{reg.KindOpmask, reg.S64, pick(r, []string{"KMOVQ", "KMOVW", "KMOVB", "KMOVD"})})
		case reg.KindVector:
			opts = append(opts, pick(r, []mv{{reg.KindVector, reg.S128, "MOVOU"}, {reg.KindVector, reg.S128, "MOVAPS"}, {reg.KindVector, reg.S128, "VMOVDQU"},
				{reg.KindVector, reg.S256, "VMOVDQU"}, {reg.KindVector, reg.S512, "VMOVDQU64"}}))
		}
	}
	if len(opts) == 0 {
		return nil
	}
	m := pick(r, opts)
	virtIsSrc := r.chance(1, 2)
	v := g.pickVirt(m.kind, m.s, virtIsSrc)
	if v == nil && virtIsSrc {
		virtIsSrc = false
		v = g.pickVirt(m.kind, m.s, false)
	}
	if v == nil {
		return nil
	}
	var other reg.Register
	class := "phys"
	switch c := r.intn(10); {
	case c < 4:
		if other = restrictedPhys(m.kind, m.s); other != nil {
			class = "restricted"
		}
	case c < 6:
		if other = g.pickVirt(m.kind, m.s, !virtIsSrc); other != nil {
			class = "virt"
		}
	}
	if other == nil {
		switch m.kind {
		case reg.KindGP:
			if m.s == reg.S8H {
				other = asSpec(pick(r, []reg.Register{reg.RAX, reg.RCX, reg.RDX, reg.RBX}), reg.S8H)
			} else {
				other = asSpec(pick(r, physGP64), m.s)
			}
		case reg.KindVector:
			other = asSpec(physVec(r.intn(32)), m.s)
		case reg.KindOpmask:
			other = reg.Opmask.Registers()[1+r.intn(7)]
		}
	}
	if other == nil {
		return nil
	}
	ops := []operand.Op{other, v}
	if virtIsSrc {
		ops = []operand.Op{v, other}
	}
	inst, err := x86.VerifBuild(m.op, nil, ops)
	if err != nil || inst == nil {
		g.stats["regmove_rejected"]++
		return nil
	}
	g.stats["regmove_"+class]++
	return inst
}

// emitPressureHead defines every virtual register up front.
func (g *fgen) emitPressureHead() {
	for _, v := range g.virt {
		var inst *ir.Instruction
		switch v.kind {
		case reg.KindGP:
			switch v.r.Mask() {
			case reg.S8L.Mask():
				inst, _ = x86.VerifBuild("MOVB", nil, []operand.Op{operand.U8(1), v.r})
			case reg.S16.Mask():
				inst, _ = x86.VerifBuild("MOVW", nil, []operand.Op{operand.U16(1), v.r})
			case reg.S32.Mask():
				inst, _ = x86.VerifBuild("MOVL", nil, []operand.Op{operand.U32(1), v.r})
			default:
				inst, _ = x86.VerifBuild("MOVQ", nil, []operand.Op{operand.U64(1 << 40), v.r})
			}
		case reg.KindVector:
			x := v.r
			switch x.Mask() {
			case reg.S128.Mask():
				inst, _ = x86.VerifBuild("MOVOU", nil, []operand.Op{operand.NewParamAddr("x", 0), x})
			case reg.S256.Mask():
				inst, _ = x86.VerifBuild("VMOVDQU", nil, []operand.Op{operand.NewParamAddr("x", 0), x})
			default:
				inst, _ = x86.VerifBuild("VMOVDQU64", nil, []operand.Op{operand.NewParamAddr("x", 0), x})
			}
		case reg.KindOpmask:
			inst, _ = x86.VerifBuild("KMOVQ", nil, []operand.Op{operand.NewParamAddr("x", 0), v.r})
		}
		if inst != nil {
			g.noteDefs(inst)
			g.fn.AddInstruction(inst)
			g.stats["head_defs"]++
		}
	}
}

// emitPressureTail reads every virtual register that has defined lanes, so that
// all of them are live from their definition to the end of the function.
func (g *fgen) emitPressureTail() {
	for _, v := range g.virt {
		var inst *ir.Instruction
		switch v.kind {
		case reg.KindGP:
			for _, c := range []struct {
				s  reg.Spec
				op string
			}{{reg.S64, "ADDQ"}, {reg.S32, "ADDL"}, {reg.S16, "ADDW"}, {reg.S8L, "ADDB"}, {reg.S8H, "ADDB"}} {
				if v.defined&c.s.Mask() == c.s.Mask() || (!g.cfg.strict && c.s == reg.S64) {
					dst := asSpec(reg.RAX, c.s)
					if c.s == reg.S8H {
						dst = reg.AL
					}
					inst, _ = x86.VerifBuild(c.op, nil, []operand.Op{asSpec(v.r, c.s), dst})
					break
				}
			}
		case reg.KindVector:
			for _, c := range []struct {
				s  reg.Spec
				op string
			}{{reg.S512, "VPADDD"}, {reg.S256, "VPADDD"}, {reg.S128, "VPADDD"}} {
				if v.defined&c.s.Mask() == c.s.Mask() || (!g.cfg.strict && c.s == reg.S128) {
					x := asSpec(v.r, c.s)
					d := asSpec(reg.X0, c.s)
					inst, _ = x86.VerifBuild(c.op, nil, []operand.Op{x, d, d})
					break
				}
			}
		case reg.KindOpmask:
			if v.defined != 0 || !g.cfg.strict {
				inst, _ = x86.VerifBuild("KORQ", nil, []operand.Op{v.r, reg.K1, reg.K1})
			}
		}
		if inst != nil {
			g.fn.AddInstruction(inst)
			g.stats["tail_reads"]++
		}
	}
}

// ---------------------------------------------------------------------------
// Canonical encodings
// ---------------------------------------------------------------------------

func encReg(r reg.Register) string { return fmt.Sprintf("%d %d", uint32(r.ID()), r.Mask()) }

func encRegs(rs []reg.Register) string {
	parts := []string{itoa(len(rs))}
	for _, r := range rs {
		parts = append(parts, encReg(r))
	}
	return strings.Join(parts, " ")
}

func encMaskSet(s reg.MaskSet) string {
	ids := make([]int, 0, len(s))
	for id := range s {
		ids = append(ids, int(id))
	}
	sort.Ints(ids)
	parts := []string{itoa(len(ids))}
	for _, id := range ids {
		parts = append(parts, fmt.Sprintf("%d %d", id, s[reg.ID(id)]))
	}
	return strings.Join(parts, " ")
}

// encNodes encodes the node list for the `cfg` family of requests.
func encNodes(fn *ir.Function) string {
	parts := []string{itoa(len(fn.Nodes))}
	for _, n := range fn.Nodes {
		switch n := n.(type) {
		case ir.Label:
			parts = append(parts, "L", hexs(string(n)))
		case *ir.Comment:
			parts = append(parts, "C")
		case *ir.Instruction:
			lbl := "-"
			if len(n.Operands) > 0 {
				if ref, ok := n.Operands[0].(operand.LabelRef); ok {
					lbl = "=" + hexs(string(ref))
				}
			}
			opc := n.Opcode
			if opc == "" {
				opc = "?"
			}
			parts = append(parts, "I", b01(n.IsBranch), b01(n.IsConditional), b01(n.IsTerminal), lbl, opc)
		}
	}
	return strings.Join(parts, " ")
}

func b01(b bool) string {
	if b {
		return "1"
	}
	return "0"
}

// instrIndex maps instruction pointers to their index.
func instrIndex(fn *ir.Function) map[*ir.Instruction]int {
	m := map[*ir.Instruction]int{}
	for i, inst := range fn.Instructions() {
		m[inst] = i
	}
	return m
}

func safely(f func() error) (err error, panicked bool) {
	defer func() {
		if r := recover(); r != nil {
			err = fmt.Errorf("panic: %v", r)
			panicked = true
		}
	}()
	return f(), false
}
